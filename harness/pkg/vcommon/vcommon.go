// Package vcommon is the small runtime shared by every monitor in /verif: seeds,
// tiers, sharding, case logging, and the per-run report (evaluations, distinct
// non-trivial cases, samples, violations) that verif.py turns into evidence.
//
// It is compiled into pebble's module through a build overlay
// (internal/verif/vcommon) and imports nothing from pebble, so white-box test
// files overlaid into any pebble package may use it without import cycles.
package vcommon

import (
	"encoding/json"
	"fmt"
	"hash/fnv"
	"math/rand/v2"
	"os"
	"path/filepath"
	"runtime/debug"
	"sort"
	"strconv"
	"strings"
	"sync"
	"testing"
	"time"
)

// Seed returns VERIF_SEED (default 1).
func Seed() uint64 {
	if s := os.Getenv("VERIF_SEED"); s != "" {
		if v, err := strconv.ParseUint(s, 10, 64); err == nil {
			return v
		}
		if v, err := strconv.ParseInt(s, 10, 64); err == nil {
			return uint64(v)
		}
	}
	return 1
}

// Tier returns "quick" or "thorough".
func Tier() string {
	if os.Getenv("VERIF_TIER") == "thorough" {
		return "thorough"
	}
	return "quick"
}

// Thorough reports whether the thorough tier is running.
func Thorough() bool { return Tier() == "thorough" }

// Scale returns q in the quick tier and t in the thorough tier. VERIF_SCALE
// (a float, default 1) multiplies both; it is used by soak runs only.
func Scale(q, t int) int {
	n := q
	if Thorough() {
		n = t
	}
	if s := os.Getenv("VERIF_SCALE"); s != "" {
		if f, err := strconv.ParseFloat(s, 64); err == nil && f > 0 {
			n = int(float64(n) * f)
			if n < 1 {
				n = 1
			}
		}
	}
	return n
}

// Shard returns (index, count) of this process among the child processes
// running the same test.
func Shard() (int, int) {
	i, _ := strconv.Atoi(os.Getenv("VERIF_SHARD"))
	n, _ := strconv.Atoi(os.Getenv("VERIF_NSHARDS"))
	if n <= 0 {
		return 0, 1
	}
	return i, n
}

// OutDir is where reports, case logs and replays of this run go.
func OutDir() string {
	d := os.Getenv("VERIF_OUT")
	if d == "" {
		d = filepath.Join(os.TempDir(), "verif-out")
	}
	_ = os.MkdirAll(d, 0o755)
	return d
}

func hash64(parts ...any) uint64 {
	h := fnv.New64a()
	for _, p := range parts {
		fmt.Fprintf(h, "%v\x00", p)
	}
	return h.Sum64()
}

// RNG returns a PCG generator that is a pure function of VERIF_SEED and parts.
func RNG(parts ...any) *rand.Rand {
	a := hash64(append([]any{"a", Seed()}, parts...)...)
	b := hash64(append([]any{"b", Seed()}, parts...)...)
	return rand.New(rand.NewPCG(a, b))
}

// Violation is one refuting observation.
type Violation struct {
	Class  string `json:"class"`            // stable class name used by known_findings.json
	Detail string `json:"detail"`           // human-readable description
	Case   string `json:"case,omitempty"`   // case identifier (index / seed)
	Replay string `json:"replay,omitempty"` // path of the replay file
	// Match carries structured fields known_findings.json entries are
	// evaluated against.
	Match map[string]any `json:"match,omitempty"`
}

// Report accumulates what one child process observed.
type Report struct {
	mu           sync.Mutex
	ID           string
	Part         string
	start        time.Time
	evaluations  int64
	distinct     map[uint64]struct{}
	rule         string
	samples      []any
	maxSamples   int
	violations   []Violation
	counters     map[string]int64
	sets         map[string]map[string]struct{}
	notes        []string
	inconclusive []string
	caseLog      *os.File
	curCase      string
	assumptions  []string
	exhaustive   *bool
	maxViol      int
}

// NewReport creates the report for property id; part distinguishes several
// tests contributing to one property.
func NewReport(id, part string) *Report {
	r := &Report{ID: id, Part: part, start: time.Now(), distinct: map[uint64]struct{}{},
		counters: map[string]int64{}, sets: map[string]map[string]struct{}{}, maxSamples: 4, maxViol: 20}
	si, _ := Shard()
	f, err := os.OpenFile(filepath.Join(OutDir(), fmt.Sprintf("%s.%s.%d.cases.log", id, part, si)),
		os.O_CREATE|os.O_WRONLY|os.O_TRUNC, 0o644)
	if err == nil {
		r.caseLog = f
	}
	return r
}

// Rule states how cases are generated and what makes one distinct/non-trivial.
func (r *Report) Rule(s string) { r.mu.Lock(); r.rule = s; r.mu.Unlock() }

// Assume records an assumption for the evidence file.
func (r *Report) Assume(s string) { r.mu.Lock(); r.assumptions = append(r.assumptions, s); r.mu.Unlock() }

// Exhaustive records that a finite space was enumerated completely.
func (r *Report) Exhaustive(b bool) { r.mu.Lock(); r.exhaustive = &b; r.mu.Unlock() }

// Eval counts n evaluated cases.
func (r *Report) Eval(n int) { r.mu.Lock(); r.evaluations += int64(n); r.mu.Unlock() }

// Distinct records a non-trivial case under a key; equal keys count once.
func (r *Report) Distinct(parts ...any) {
	h := hash64(parts...)
	r.mu.Lock()
	r.distinct[h] = struct{}{}
	r.mu.Unlock()
}

// Count adds n to a named counter reported in the evidence.
func (r *Report) Count(name string, n int64) { r.mu.Lock(); r.counters[name] += n; r.mu.Unlock() }

// Max keeps the maximum of a named counter.
func (r *Report) Max(name string, n int64) {
	r.mu.Lock()
	if n > r.counters[name] {
		r.counters[name] = n
	}
	r.mu.Unlock()
}

// SetAdd adds a member to a named set (reported as a sorted list, e.g. the
// compaction kinds that were observed).
func (r *Report) SetAdd(name, member string) {
	r.mu.Lock()
	m := r.sets[name]
	if m == nil {
		m = map[string]struct{}{}
		r.sets[name] = m
	}
	m[member] = struct{}{}
	r.mu.Unlock()
}

// Sample keeps up to a few written-out cases for the evidence file.
func (r *Report) Sample(v any) {
	r.mu.Lock()
	if len(r.samples) < r.maxSamples {
		r.samples = append(r.samples, v)
	}
	r.mu.Unlock()
}

// WantSample reports whether another sample would be kept.
func (r *Report) WantSample() bool {
	r.mu.Lock()
	defer r.mu.Unlock()
	return len(r.samples) < r.maxSamples
}

// Note adds free text to the evidence.
func (r *Report) Note(format string, args ...any) {
	r.mu.Lock()
	if len(r.notes) < 50 {
		r.notes = append(r.notes, fmt.Sprintf(format, args...))
	}
	r.mu.Unlock()
}

// Inconclusive records that some part of the run could not be decided.
func (r *Report) Inconclusive(format string, args ...any) {
	r.mu.Lock()
	if len(r.inconclusive) < 50 {
		r.inconclusive = append(r.inconclusive, fmt.Sprintf(format, args...))
	}
	r.mu.Unlock()
}

// BeginCase logs the case identifier to disk before the case executes, so a
// process death can be attributed to it.
func (r *Report) BeginCase(id string) {
	r.mu.Lock()
	r.curCase = id
	if r.caseLog != nil {
		fmt.Fprintf(r.caseLog, "CASE %s\n", id)
	}
	r.mu.Unlock()
}

// NumViolations returns how many violations were recorded so far.
func (r *Report) NumViolations() int { r.mu.Lock(); defer r.mu.Unlock(); return len(r.violations) }

// Violate records a violation of the property. replay, if non-nil, is written
// as JSON to a replay file. match carries structured fields for known-finding
// matching.
func (r *Report) Violate(class, detail string, replay any, match map[string]any) {
	r.mu.Lock()
	defer r.mu.Unlock()
	if len(r.violations) >= r.maxViol {
		r.counters["violations_dropped"]++
		return
	}
	v := Violation{Class: class, Detail: detail, Case: r.curCase, Match: match}
	si, _ := Shard()
	dir := os.Getenv("VERIF_REPLAY_DIR")
	if dir == "" {
		dir = filepath.Join(OutDir(), "replays")
	}
	_ = os.MkdirAll(dir, 0o755)
	p := filepath.Join(dir, fmt.Sprintf("%s-%s-seed%d-shard%d-%d.json", r.ID, r.Part, Seed(), si, len(r.violations)))
	doc := map[string]any{
		"property": r.ID, "part": r.Part, "seed": Seed(), "tier": Tier(), "case": r.curCase,
		"class": class, "detail": detail, "match": match, "replay": replay,
		"stack": string(debug.Stack()),
	}
	if b, err := json.MarshalIndent(doc, "", " "); err == nil {
		if os.WriteFile(p, b, 0o644) == nil {
			v.Replay = p
		}
	}
	r.violations = append(r.violations, v)
}

// Finish writes the report fragment and fails the test if violations were seen.
func (r *Report) Finish(t testing.TB) {
	r.mu.Lock()
	si, ns := Shard()
	sets := map[string][]string{}
	for k, m := range r.sets {
		var l []string
		for s := range m {
			l = append(l, s)
		}
		sort.Strings(l)
		sets[k] = l
	}
	var dk []string
	for h := range r.distinct {
		dk = append(dk, strconv.FormatUint(h, 36))
	}
	doc := map[string]any{
		"property_id": r.ID, "part": r.Part, "shard": si, "nshards": ns, "seed": Seed(), "tier": Tier(),
		"evaluations": r.evaluations, "distinct_keys": dk, "rule": r.rule, "samples": r.samples,
		"violations": r.violations, "counters": r.counters, "sets": sets, "notes": r.notes,
		"inconclusive": r.inconclusive, "assumptions": r.assumptions, "wall_s": time.Since(r.start).Seconds(),
		"complete": true,
	}
	if r.exhaustive != nil {
		doc["exhaustive"] = *r.exhaustive
	}
	nviol := len(r.violations)
	if r.caseLog != nil {
		r.caseLog.Close()
	}
	r.mu.Unlock()
	b, err := json.Marshal(doc)
	if err != nil {
		t.Fatalf("verif: cannot marshal report: %v", err)
	}
	p := filepath.Join(OutDir(), fmt.Sprintf("%s.%s.%d.report.json", r.ID, r.Part, si))
	if err := os.WriteFile(p, b, 0o644); err != nil {
		t.Fatalf("verif: cannot write report: %v", err)
	}
	if nviol > 0 {
		t.Errorf("verif: %d violation(s) of %s recorded", nviol, r.ID)
	}
}

// Cases runs fn for case indices [0,n) that belong to this shard. If
// VERIF_ONLY_CASE is set only that index runs (replay). Each case gets an RNG
// derived from (seed, property, part, index) and is logged before it runs.
func (r *Report) Cases(n int, fn func(i int, rng *rand.Rand)) {
	si, ns := Shard()
	only := -1
	if s := os.Getenv("VERIF_ONLY_CASE"); s != "" {
		if v, err := strconv.Atoi(strings.TrimPrefix(s, "#")); err == nil {
			only = v
		}
	}
	for i := 0; i < n; i++ {
		if only >= 0 {
			if i != only {
				continue
			}
		} else if i%ns != si {
			continue
		}
		r.BeginCase(strconv.Itoa(i))
		fn(i, RNG(r.ID, r.Part, i))
	}
}

// ParallelCases is Cases with w worker goroutines inside this process.
// fn must be safe to run concurrently (Report methods are).
func (r *Report) ParallelCases(n, w int, fn func(i int, rng *rand.Rand)) {
	si, ns := Shard()
	only := -1
	if s := os.Getenv("VERIF_ONLY_CASE"); s != "" {
		if v, err := strconv.Atoi(strings.TrimPrefix(s, "#")); err == nil {
			only = v
		}
	}
	ch := make(chan int)
	var wg sync.WaitGroup
	for k := 0; k < w; k++ {
		wg.Add(1)
		go func() {
			defer wg.Done()
			for i := range ch {
				r.mu.Lock()
				if r.caseLog != nil {
					fmt.Fprintf(r.caseLog, "CASE %d\n", i)
				}
				r.mu.Unlock()
				fn(i, RNG(r.ID, r.Part, i))
			}
		}()
	}
	for i := 0; i < n; i++ {
		if only >= 0 {
			if i != only {
				continue
			}
		} else if i%ns != si {
			continue
		}
		ch <- i
	}
	close(ch)
	wg.Wait()
}
