package c34

import (
	"fmt"
	"testing"
	"time"

	"github.com/cockroachdb/pebble/internal/cache"
)

func TestTmpFill(t *testing.T) {
	for _, n := range []int{1 << 10, 64 << 10, 1 << 20, 3 << 19} {
		v := cache.Alloc(n)
		t0 := time.Now()
		fillValue(v.RawBuffer(), 7)
		t1 := time.Now()
		_, p := checkValue(v.RawBuffer(), 7, n)
		t2 := time.Now()
		g := make([]byte, n)
		fillValue(g, 7)
		t3 := time.Now()
		fmt.Printf("n=%d fill(manual)=%v check=%v fill(go heap)=%v %s\n", n, t1.Sub(t0), t2.Sub(t1), t3.Sub(t2), p)
		v.Release()
	}
}
