// C34: the block cache returns only the latest value for the exact block.
//
// Runtime monitor over the exported API of internal/cache.
//
// Oracles
//
//   - Register semantics per (handle, file, offset): every value is filled with
//     a unique id (all bytes derived from it); every client call is logged
//     before it is invoked and after it returned with one atomic counter as
//     clock; porcupine checks each key's history against the model
//     Set(id)/SetReadValue(id) -> state=id, Delete/EvictFile -> none,
//     hit(id) legal iff state==id; a miss is always legal (eviction) and is
//     therefore not part of the checked history. A new Handle is a new key
//     namespace, so a value stored through a closed handle must never be
//     returned through a later one.
//   - Lifetime: every holder of a *Value validates the buffer against the id
//     when it receives it and again just before Release (freed values are
//     poisoned with 0xff under invariants/race builds; the "asan" part runs
//     the same workload under AddressSanitizer, which sees the manually
//     allocated memory). After the last reference is dropped and the cache
//     destroyed, manual.BlockCacheData in-use bytes must be back at the
//     baseline (no leaked value).
//   - Single flight (GetWithReadHandle): read turns on one key are mutually
//     exclusive; a value obtained by waiting (cacheHit=false) is the value some
//     turn holder passed to SetReadValue for that key, the read entry that
//     carried it can have stayed alive (an unbroken chain of in-flight
//     requests links the two), and the life spans of different read epochs of
//     one key do not overlap; an error is returned only for the caller's own
//     cancelled context.
//   - Size: with no reservation outstanding Cache.Size() <= Cache.MaxSize()
//     after every operation of the single-threaded part and at every quiescent
//     point of the concurrent parts.
package c34

import (
	"bytes"
	"context"
	"encoding/binary"
	"errors"
	"fmt"
	"math/rand/v2"
	"runtime"
	"sort"
	"sync"
	"sync/atomic"
	"testing"
	"time"

	"github.com/anishathalye/porcupine"
	"github.com/cockroachdb/pebble/internal/base"
	"github.com/cockroachdb/pebble/internal/cache"
	"github.com/cockroachdb/pebble/internal/manual"
	"github.com/cockroachdb/pebble/internal/verif/vcommon"
	"github.com/cockroachdb/pebble/internal/verifhook"
)

// ---------------------------------------------------------------------------
// values

const minValueSize = 4

// The first patternPeriod bytes of a value are a function of (id, position);
// the rest repeats them. (Filling byte by byte is very slow under the race
// detector; the tail is produced by doubling copies and verified by one
// comparison of the buffer against itself shifted by one period.)
const patternPeriod = 256

func fillValue(buf []byte, id uint32) {
	var hdr [4]byte
	binary.LittleEndian.PutUint32(hdr[:], id)
	n := min(len(buf), patternPeriod)
	for i := 0; i < n; i++ {
		if i < 4 {
			buf[i] = hdr[i]
		} else {
			buf[i] = patternByte(id, i)
		}
	}
	for n < len(buf) {
		n += copy(buf[n:], buf[:n])
	}
}

// patternByte never yields 0xff, the poison byte of freed values.
func patternByte(id uint32, i int) byte {
	return byte((uint64(id)*2654435761+uint64(i)*40503)>>7) & 0x7f
}

// checkValue decodes the id of a value buffer and verifies every byte.
// problem is "" when the buffer is intact.
func checkValue(buf []byte, wantID uint32, wantLen int) (id uint32, problem string) {
	if len(buf) < minValueSize {
		return 0, fmt.Sprintf("buffer has length %d (freed or truncated; expected %d)", len(buf), wantLen)
	}
	id = binary.LittleEndian.Uint32(buf[:4])
	if wantID != 0 && id != wantID {
		if id == 0xffffffff {
			return id, "buffer is poisoned with 0xff: the value was freed while referenced"
		}
		return id, fmt.Sprintf("buffer now carries id %d", id)
	}
	if wantLen >= 0 && len(buf) != wantLen {
		return id, fmt.Sprintf("buffer has length %d, value %d was created with %d", len(buf), id, wantLen)
	}
	bad := -1
	for i := 4; i < len(buf) && i < patternPeriod; i++ {
		if buf[i] != patternByte(id, i) {
			bad = i
			break
		}
	}
	if bad < 0 && len(buf) > patternPeriod && !bytes.Equal(buf[patternPeriod:], buf[:len(buf)-patternPeriod]) {
		for i := patternPeriod; i < len(buf); i++ {
			if buf[i] != buf[i-patternPeriod] {
				bad = i
				break
			}
		}
	}
	if bad >= 0 {
		if buf[bad] == 0xff {
			return id, fmt.Sprintf("byte %d is 0xff poison: the value was freed while referenced", bad)
		}
		return id, fmt.Sprintf("byte %d is %#x, expected %#x", bad, buf[bad], patternByte(id, bad%patternPeriod))
	}
	return id, ""
}

// ---------------------------------------------------------------------------
// history

type keyT struct {
	H    int    `json:"h"` // handle serial (a new Handle is a new namespace)
	File uint64 `json:"file"`
	Off  uint64 `json:"off"`
}

func (k keyT) String() string { return fmt.Sprintf("h%d/f%d/o%d", k.H, k.File, k.Off) }

const (
	kSet       = "Set"
	kSRV       = "SetReadValue"
	kSRE       = "SetReadError"
	kDelete    = "Delete"
	kEvict     = "EvictFile"
	kGet       = "Get"
	kPeek      = "Peek"
	kGWRH      = "GetWithReadHandle"
	oMiss      = "miss"
	oHit       = "hit"
	oWaited    = "waited-value"
	oTurn      = "read-turn"
	oCtxErr    = "ctx-error"
	oDone      = "done"
	oUndefined = "undefined"
)

type opRec struct {
	Client  int    `json:"c"`
	Kind    string `json:"op"`
	Key     keyT   `json:"key"`
	ID      uint32 `json:"id,omitempty"` // value written (Set/SRV) or returned (reads)
	Size    int    `json:"size,omitempty"`
	Outcome string `json:"out"`
	Call    int64  `json:"t0"`
	Ret     int64  `json:"t1"`
	// for GetWithReadHandle that got the read turn: index (in the same
	// client's log) of the SetReadValue/SetReadError that ended it
	TurnEnd int `json:"turn_end,omitempty"`
}

type history struct {
	clock   atomic.Int64
	nextID  atomic.Uint32
	sizes   sync.Map // id -> size
	logs    [][]opRec
	r       *vcommon.Report
	caseID  int
	spec    map[string]any
	violMu  sync.Mutex
	nviol   int
	held    atomic.Int64
	reserve atomic.Int64
}

func (h *history) now() int64 { return h.clock.Add(1) }

func (h *history) newID(size int) uint32 {
	id := h.nextID.Add(1)
	h.sizes.Store(id, size)
	return id
}

func (h *history) sizeOf(id uint32) int {
	if v, ok := h.sizes.Load(id); ok {
		return v.(int)
	}
	return -1
}

func (h *history) violate(class, detail string, extra map[string]any, match map[string]any) {
	h.violMu.Lock()
	h.nviol++
	n := h.nviol
	h.violMu.Unlock()
	if n > 6 {
		h.r.Count("violations_not_reported_same_history", 1)
		return
	}
	rep := map[string]any{"case": h.caseID, "history_spec": h.spec}
	for k, v := range extra {
		rep[k] = v
	}
	h.r.Violate(class, detail, rep, match)
}

// ---------------------------------------------------------------------------
// yield hook (process global)

var (
	hookOnce  sync.Once
	hookHits  [2]atomic.Int64
	hookLevel atomic.Int32 // 0 off, 1 mild, 2 strong
)

func installHook() {
	hookOnce.Do(func() {
		verifhook.Set(func(site string) {
			lvl := hookLevel.Load()
			switch site {
			case "cache.setReadValue.beforeSet":
				hookHits[0].Add(1)
			case "cache.readEntry.grantedTurn":
				hookHits[1].Add(1)
			default:
				return
			}
			if lvl == 0 {
				return
			}
			c := rand.Uint32()
			switch x := c & 15; {
			case x < 6:
				for i := uint32(0); i < 1+(c>>4)%4; i++ {
					runtime.Gosched()
				}
			case x < 8+uint32(lvl)*2:
				time.Sleep(time.Duration(1+(c>>8)%100) * time.Microsecond)
			}
		})
	})
}

// ---------------------------------------------------------------------------
// concurrent engine

type heldValue struct {
	v    *cache.Value
	id   uint32
	from string
	key  keyT
}

type engineSpec struct {
	Shards     int   `json:"shards"`
	CacheSize  int64 `json:"cache_size"`
	Clients    int   `json:"clients"`
	Handles    int   `json:"handles"`
	Files      int   `json:"files"`
	Offsets    int   `json:"offsets"`
	Phases     int   `json:"phases"`
	OpsPerPh   int   `json:"ops_per_client_per_phase"`
	HotKeys    bool  `json:"hot_keys"`
	ErrorHeavy bool  `json:"error_heavy"`
	YieldLevel int   `json:"yield_level"`
	ClientSeed uint64 `json:"client_seed"`
}

func drawSpec(rng *rand.Rand, small bool) engineSpec {
	s := engineSpec{
		Shards:    []int{1, 1, 2, 4, 16}[rng.IntN(5)],
		CacheSize: []int64{1 << 10, 4 << 10, 16 << 10, 64 << 10, 256 << 10, 1 << 20}[rng.IntN(6)],
		Clients:   2 + rng.IntN(15),
		Handles:   2 + rng.IntN(3),
		Files:     1 + rng.IntN(2),
		Phases:    2 + rng.IntN(3),
		HotKeys:   rng.IntN(3) == 0,
		ErrorHeavy: rng.IntN(3) == 0,
		YieldLevel: rng.IntN(3),
		ClientSeed: rng.Uint64(),
	}
	if small {
		s.Clients = 2 + rng.IntN(7)
	}
	// 4..64 keys over handles x files x offsets
	keys := 4 + rng.IntN(61)
	if s.HotKeys {
		keys = 2 + rng.IntN(5)
		s.Handles = 2
		s.Files = 1
	}
	s.Offsets = max(1, keys/(s.Handles*s.Files))
	total := 400 + rng.IntN(400)
	s.OpsPerPh = max(8, total/(s.Clients*s.Phases)*2)
	return s
}

func (s engineSpec) valueSize(rng *rand.Rand) int {
	shard := int(s.CacheSize) / s.Shards
	// Values above 256 KiB are not generated: pebble poisons freed values byte
	// by byte under invariants, which costs ~0.3 s per MiB under the race
	// detector.
	const big = 256 << 10
	switch x := rng.IntN(100); {
	case x < 45:
		return minValueSize + rng.IntN(13)
	case x < 85:
		return minValueSize + rng.IntN(max(1, min(shard/4, 4096)))
	case x < 97 || shard > big:
		lo := min(shard/2, big/2)
		return max(minValueSize, lo+rng.IntN(max(1, lo)))
	default:
		return shard + 1 + rng.IntN(max(1, shard/2))
	}
}

var level0 = base.MakeLevel(0)

// runConcurrent executes one generated history and checks it.
func runConcurrent(r *vcommon.Report, caseID int, rng *rand.Rand, small bool) {
	spec := drawSpec(rng, small)
	h := &history{r: r, caseID: caseID}
	h.spec = map[string]any{"spec": spec}
	hookLevel.Store(int32(spec.YieldLevel))
	defer hookLevel.Store(0)
	baseline := manual.GetMetrics()[manual.BlockCacheData].InUseBytes
	hits0, hits1 := hookHits[0].Load(), hookHits[1].Load()

	c := cache.NewWithShards(spec.CacheSize, spec.Shards)
	var handles []*cache.Handle // live handles, index = slot
	var serials []int           // serial of the handle in each slot
	nextSerial := 0
	for i := 0; i < spec.Handles; i++ {
		handles = append(handles, c.NewHandle())
		serials = append(serials, nextSerial)
		nextSerial++
	}
	h.logs = make([][]opRec, spec.Clients)
	helds := make([][]heldValue, spec.Clients)
	var maxEntry atomic.Int64
	shardCap := spec.CacheSize / int64(spec.Shards)

	release := func(cl int, hv heldValue, when string) {
		buf := hv.v.RawBuffer()
		if _, prob := checkValue(buf, hv.id, h.sizeOf(hv.id)); prob != "" {
			h.violate("referenced-value-changed", fmt.Sprintf("client %d holds value %d of %s (obtained by %s); just before Release (%s): %s", cl, hv.id, hv.key, hv.from, when, prob),
				map[string]any{"log_tail": tailLog(h.logs[cl], 12)}, map[string]any{"from": hv.from})
		}
		hv.v.Release()
		h.held.Add(-1)
	}

	client := func(cl int, phase int, wg *sync.WaitGroup) {
		defer wg.Done()
		rng := rand.New(rand.NewPCG(spec.ClientSeed, uint64(cl)<<16|uint64(phase)))
		log := h.logs[cl]
		defer func() { h.logs[cl] = log }()
		var reservations []func()
		hold := func(v *cache.Value, id uint32, from string, k keyT) {
			h.held.Add(1)
			helds[cl] = append(helds[cl], heldValue{v, id, from, k})
			for len(helds[cl]) > 4 || (len(helds[cl]) > 0 && rng.IntN(2) == 0) {
				i := rng.IntN(len(helds[cl]))
				hv := helds[cl][i]
				helds[cl] = append(helds[cl][:i], helds[cl][i+1:]...)
				release(cl, hv, "while running")
			}
		}
		received := func(v *cache.Value, from string, k keyT) uint32 {
			id, prob := checkValue(v.RawBuffer(), 0, -1)
			if prob == "" {
				if sz := h.sizeOf(id); sz != len(v.RawBuffer()) {
					prob = fmt.Sprintf("id %d was created with %d bytes, buffer has %d", id, sz, len(v.RawBuffer()))
				}
			}
			if prob != "" {
				h.violate("returned-value-corrupt", fmt.Sprintf("client %d: %s(%s) returned a value whose bytes are not one written value: %s", cl, from, k, prob),
					map[string]any{"log_tail": tailLog(log, 12)}, map[string]any{"from": from})
			}
			return id
		}
		for j := 0; j < spec.OpsPerPh; j++ {
			slot := rng.IntN(len(handles))
			hd := handles[slot]
			k := keyT{H: serials[slot], File: uint64(1 + rng.IntN(spec.Files)), Off: uint64(rng.IntN(spec.Offsets)) * 4096}
			fn := base.DiskFileNum(k.File)
			x := rng.IntN(100)
			switch {
			case x < 30: // Get
				rec := opRec{Client: cl, Kind: kGet, Key: k, Call: h.now()}
				v := hd.Get(fn, k.Off, level0, cache.CategorySSTableData)
				rec.Outcome = oMiss
				if v != nil {
					rec.Outcome = oHit
					rec.ID = received(v, kGet, k)
				}
				rec.Ret = h.now()
				log = append(log, rec)
				if v != nil {
					hold(v, rec.ID, kGet, k)
				}
			case x < 35: // Peek
				rec := opRec{Client: cl, Kind: kPeek, Key: k, Call: h.now()}
				v := hd.Peek(fn, k.Off, level0, cache.CategorySSTableData)
				rec.Outcome = oMiss
				if v != nil {
					rec.Outcome = oHit
					rec.ID = received(v, kPeek, k)
				}
				rec.Ret = h.now()
				log = append(log, rec)
				if v != nil {
					hold(v, rec.ID, kPeek, k)
				}
			case x < 55: // Set
				size := spec.valueSize(rng)
				id := h.newID(size)
				v := cache.Alloc(size)
				fillValue(v.RawBuffer(), id)
				if int64(size) <= shardCap {
					for {
						m := maxEntry.Load()
						if int64(size) <= m || maxEntry.CompareAndSwap(m, int64(size)) {
							break
						}
					}
				}
				rec := opRec{Client: cl, Kind: kSet, Key: k, ID: id, Size: size, Outcome: oDone, Call: h.now()}
				hd.Set(fn, k.Off, v)
				rec.Ret = h.now()
				log = append(log, rec)
				hold(v, id, kSet, k)
			case x < 63: // Delete
				rec := opRec{Client: cl, Kind: kDelete, Key: k, Outcome: oDone, Call: h.now()}
				hd.Delete(fn, k.Off)
				rec.Ret = h.now()
				log = append(log, rec)
			case x < 67: // EvictFile
				rec := opRec{Client: cl, Kind: kEvict, Key: keyT{H: k.H, File: k.File}, Outcome: oDone, Call: h.now()}
				hd.EvictFile(fn)
				rec.Ret = h.now()
				log = append(log, rec)
			case x < 70: // Reserve
				if len(reservations) < 2 {
					n := 1 + rng.IntN(int(spec.CacheSize))
					if rng.IntN(4) == 0 {
						n = int(spec.CacheSize) * 2
					}
					h.reserve.Add(1)
					reservations = append(reservations, c.Reserve(n))
					r.Count("reservations", 1)
				} else {
					reservations[0]()
					reservations = reservations[1:]
					h.reserve.Add(-1)
				}
			default: // GetWithReadHandle
				ctx := context.Background()
				var cancel context.CancelFunc
				if y := rng.IntN(10); y < 2 {
					ctx, cancel = context.WithCancel(ctx)
					if y == 0 {
						cancel()
					} else {
						d := time.Duration(rng.IntN(300)) * time.Microsecond
						cc := cancel
						time.AfterFunc(d, cc)
					}
				}
				rec := opRec{Client: cl, Kind: kGWRH, Key: k, Call: h.now()}
				cv, rh, _, _, hit, err := hd.GetWithReadHandle(ctx, fn, k.Off, level0, cache.CategorySSTableData)
				switch {
				case err != nil:
					rec.Outcome = oCtxErr
					if cv != nil || rh.Valid() || ctx.Err() == nil || !errors.Is(err, ctx.Err()) {
						rec.Outcome = oUndefined
					}
				case cv != nil && !rh.Valid():
					rec.ID = received(cv, kGWRH, k)
					rec.Outcome = oWaited
					if hit {
						rec.Outcome = oHit
					}
				case cv == nil && rh.Valid():
					rec.Outcome = oTurn
				default:
					rec.Outcome = oUndefined
				}
				rec.Ret = h.now()
				if rec.Outcome == oUndefined {
					h.violate("read-handle-contract", fmt.Sprintf("client %d: GetWithReadHandle(%s) returned value=%v readHandle=%v cacheHit=%v err=%v with ctx.Err()=%v", cl, k, cv != nil, rh.Valid(), hit, err, ctx.Err()),
						map[string]any{"log_tail": tailLog(log, 12)}, nil)
				}
				gi := len(log)
				log = append(log, rec)
				if cv != nil {
					hold(cv, rec.ID, kGWRH+"/"+rec.Outcome, k)
				}
				if rh.Valid() {
					// the read itself
					for y := rng.IntN(4); y > 0; y-- {
						runtime.Gosched()
					}
					if rng.IntN(4) == 0 {
						time.Sleep(time.Duration(rng.IntN(120)) * time.Microsecond)
					}
					failPct := 25
					if spec.ErrorHeavy {
						failPct = 60
					}
					if rng.IntN(100) < failPct {
						rec2 := opRec{Client: cl, Kind: kSRE, Key: k, Outcome: oDone, Call: h.now()}
						rh.SetReadError(errors.New("verif: injected read error"))
						rec2.Ret = h.now()
						log[gi].TurnEnd = len(log)
						log = append(log, rec2)
					} else {
						size := spec.valueSize(rng)
						id := h.newID(size)
						v := cache.Alloc(size)
						fillValue(v.RawBuffer(), id)
						if int64(size) <= shardCap {
							for {
								m := maxEntry.Load()
								if int64(size) <= m || maxEntry.CompareAndSwap(m, int64(size)) {
									break
								}
							}
						}
						rec2 := opRec{Client: cl, Kind: kSRV, Key: k, ID: id, Size: size, Outcome: oDone, Call: h.now()}
						rh.SetReadValue(v)
						rec2.Ret = h.now()
						log[gi].TurnEnd = len(log)
						log = append(log, rec2)
						hold(v, id, kSRV, k)
					}
				}
				if cancel != nil {
					cancel()
				}
			}
		}
		for _, rel := range reservations {
			rel()
			h.reserve.Add(-1)
		}
	}

	sizeViolations := 0
	for phase := 0; phase < spec.Phases; phase++ {
		var wg sync.WaitGroup
		for cl := 0; cl < spec.Clients; cl++ {
			wg.Add(1)
			go client(cl, phase, &wg)
		}
		wg.Wait()
		// quiescent point
		if h.reserve.Load() != 0 {
			r.Inconclusive("case %d: reservations outstanding at a quiescent point (harness bug)", caseID)
		} else if sz, mx := c.Size(), c.MaxSize(); sz > mx {
			within := sz <= mx+int64(spec.Shards)*maxEntry.Load()
			r.Count("size_over_capacity_at_quiescent_points", 1)
			if sizeViolations == 0 {
				sizeViolations++
				reportSize(r, h, "concurrent", phase, sz, mx, within, spec.Shards, maxEntry.Load(), nil)
			}
		}
		r.Count("quiescent_size_checks", 1)
		// handle churn: close one handle, open a new one on the same files
		if phase+1 < spec.Phases && rng.IntN(2) == 0 {
			slot := rng.IntN(len(handles))
			handles[slot].Close()
			handles[slot] = c.NewHandle()
			serials[slot] = nextSerial
			nextSerial++
			r.Count("handles_closed_and_replaced", 1)
		}
	}
	for cl := range helds {
		for _, hv := range helds[cl] {
			release(cl, hv, "at the end of the history")
		}
		helds[cl] = nil
	}
	for _, hd := range handles {
		hd.Close()
	}
	c.Unref()
	if h.held.Load() != 0 {
		r.Inconclusive("case %d: harness still holds %d values", caseID, h.held.Load())
	} else if after := manual.GetMetrics()[manual.BlockCacheData].InUseBytes; after != baseline {
		h.violate("value-leak", fmt.Sprintf("after every reference was released and the cache destroyed, %d bytes of block-cache data are still allocated (baseline %d, now %d)", int64(after)-int64(baseline), baseline, after),
			nil, nil)
	}

	// offline checks
	nops := 0
	for _, l := range h.logs {
		nops += len(l)
	}
	r.Eval(1)
	r.Count("client_ops", int64(nops))
	r.Count("site_hits[cache.setReadValue.beforeSet]", hookHits[0].Load()-hits0)
	r.Count("site_hits[cache.readEntry.grantedTurn]", hookHits[1].Load()-hits1)
	st := checkHistory(r, h, spec)
	if st.hits > 0 && st.concurrentKeys > 0 {
		r.Distinct(spec.Shards, spec.CacheSize, spec.Clients, spec.Handles, spec.Files, spec.Offsets, spec.Phases, spec.HotKeys, spec.ErrorHeavy, spec.ClientSeed)
	}
	if r.WantSample() {
		r.Sample(map[string]any{"case": caseID, "spec": spec, "ops": nops, "hits": st.hits, "waited_values": st.waited, "read_turns": st.turns, "keys_checked": st.partitions, "first_ops_client0": tailLog(h.logs[0][:min(len(h.logs[0]), 8)], 8)})
	}
}

func reportSize(r *vcommon.Report, h *history, part string, phase int, sz, mx int64, within bool, shards int, maxEntry int64, ops any) {
	h.violate("size-exceeds-capacity",
		fmt.Sprintf("%s: with no reservation outstanding Cache.Size()=%d > MaxSize()=%d (shards=%d, largest cached entry so far=%d bytes, overshoot within one entry per shard: %v)", part, sz, mx, shards, maxEntry, within),
		map[string]any{"phase_or_op": phase, "size": sz, "max_size": mx, "ops": ops},
		map[string]any{"within_one_entry_per_shard": within, "part": part})
}

func tailLog(l []opRec, n int) []opRec {
	if len(l) > n {
		l = l[len(l)-n:]
	}
	return append([]opRec(nil), l...)
}

// ---------------------------------------------------------------------------
// offline history checks

type regIn struct {
	op uint8 // 0 read-hit, 1 set, 2 delete
	id uint32
}

var registerModel = porcupine.Model{
	Init: func() interface{} { return uint32(0) },
	Step: func(state, input, output interface{}) (bool, interface{}) {
		st := state.(uint32)
		in := input.(regIn)
		switch in.op {
		case 1:
			return true, in.id
		case 2:
			return true, uint32(0)
		default:
			return st == in.id, st
		}
	},
	Equal: func(a, b interface{}) bool { return a.(uint32) == b.(uint32) },
	DescribeOperation: func(input, output interface{}) string {
		in := input.(regIn)
		return []string{"hit", "set", "delete"}[in.op] + fmt.Sprint("(", in.id, ")")
	},
}

type histStats struct {
	hits, waited, turns, partitions, concurrentKeys int
}

type span struct {
	lo, hi int64
	what   string
}

func checkHistory(r *vcommon.Report, h *history, spec engineSpec) histStats {
	var st histStats
	type fileKey struct {
		H    int
		File uint64
	}
	perKey := map[keyT][]porcupine.Operation{}
	perKeyRecs := map[keyT][]opRec{}
	evicts := map[fileKey][]opRec{}
	// single-flight bookkeeping
	type srvInfo struct {
		rec      opRec
		turnFrom int64 // return of the GetWithReadHandle that granted the turn
		gwrhCall int64
	}
	srvByID := map[uint32]srvInfo{}
	turnSpans := map[keyT][]span{}    // [turn granted (logged), SetRead* call]
	refSpans := map[keyT][]span{}     // client-level intervals during which a read entry reference can be held
	var waits []opRec
	failedTurns := map[keyT][]span{}
	for cl, l := range h.logs {
		for i, rec := range l {
			switch rec.Kind {
			case kSet, kSRV:
				perKey[rec.Key] = append(perKey[rec.Key], porcupine.Operation{ClientId: cl, Input: regIn{1, rec.ID}, Call: rec.Call, Output: nil, Return: rec.Ret})
				perKeyRecs[rec.Key] = append(perKeyRecs[rec.Key], rec)
			case kDelete:
				perKey[rec.Key] = append(perKey[rec.Key], porcupine.Operation{ClientId: cl, Input: regIn{2, 0}, Call: rec.Call, Output: nil, Return: rec.Ret})
				perKeyRecs[rec.Key] = append(perKeyRecs[rec.Key], rec)
			case kEvict:
				fk := fileKey{rec.Key.H, rec.Key.File}
				evicts[fk] = append(evicts[fk], rec)
			case kGet, kPeek:
				if rec.Outcome == oHit {
					st.hits++
					perKey[rec.Key] = append(perKey[rec.Key], porcupine.Operation{ClientId: cl, Input: regIn{0, rec.ID}, Call: rec.Call, Output: nil, Return: rec.Ret})
					perKeyRecs[rec.Key] = append(perKeyRecs[rec.Key], rec)
				}
			case kGWRH:
				switch rec.Outcome {
				case oHit:
					st.hits++
					perKey[rec.Key] = append(perKey[rec.Key], porcupine.Operation{ClientId: cl, Input: regIn{0, rec.ID}, Call: rec.Call, Output: nil, Return: rec.Ret})
					perKeyRecs[rec.Key] = append(perKeyRecs[rec.Key], rec)
					// a hit never acquires a read entry: no reference span
				case oWaited:
					st.waited++
					waits = append(waits, rec)
					refSpans[rec.Key] = append(refSpans[rec.Key], span{rec.Call, rec.Ret, "waited"})
				case oCtxErr:
					refSpans[rec.Key] = append(refSpans[rec.Key], span{rec.Call, rec.Ret, "ctx-error"})
					r.Count("gwrh_context_errors", 1)
				case oTurn:
					st.turns++
					end := l[rec.TurnEnd]
					_ = i
					turnSpans[rec.Key] = append(turnSpans[rec.Key], span{rec.Ret, end.Call, fmt.Sprintf("turn of client %d ended by %s(id %d)", cl, end.Kind, end.ID)})
					refSpans[rec.Key] = append(refSpans[rec.Key], span{rec.Call, end.Ret, "turn"})
					if end.Kind == kSRV {
						srvByID[end.ID] = srvInfo{rec: end, turnFrom: rec.Ret, gwrhCall: rec.Call}
						r.Count("read_turns_succeeded", 1)
					} else {
						r.Count("read_turns_failed", 1)
						failedTurns[rec.Key] = append(failedTurns[rec.Key], span{rec.Ret, end.Call, fmt.Sprintf("failed turn of client %d", cl)})
					}
				}
			}
		}
	}
	// EvictFile is a delete on every key of the file that has a history
	for k := range perKey {
		for _, ev := range evicts[fileKey{k.H, k.File}] {
			perKey[k] = append(perKey[k], porcupine.Operation{ClientId: ev.Client, Input: regIn{2, 0}, Call: ev.Call, Output: nil, Return: ev.Ret})
			perKeyRecs[k] = append(perKeyRecs[k], ev)
		}
	}
	// 1. register semantics, one porcupine run per key
	timeout := 15 * time.Second
	if vcommon.Thorough() {
		timeout = 60 * time.Second
	}
	keys := make([]keyT, 0, len(perKey))
	for k := range perKey {
		keys = append(keys, k)
	}
	sort.Slice(keys, func(i, j int) bool { return keys[i].String() < keys[j].String() })
	for _, k := range keys {
		ops := perKey[k]
		nhits := 0
		for _, o := range ops {
			if o.Input.(regIn).op == 0 {
				nhits++
			}
		}
		if nhits == 0 {
			continue // nothing to refute: misses are always legal
		}
		st.partitions++
		r.Max("max_ops_in_one_key_history", int64(len(ops)))
		if overlapping(ops) {
			st.concurrentKeys++
		}
		res := porcupine.CheckOperationsTimeout(registerModel, ops, timeout)
		switch res {
		case porcupine.Ok:
			r.Count("key_histories_linearizable", 1)
		case porcupine.Unknown:
			r.Inconclusive("case %d key %s: linearizability checker timed out after %v on %d operations", h.caseID, k, timeout, len(ops))
		case porcupine.Illegal:
			recs := perKeyRecs[k]
			sort.Slice(recs, func(i, j int) bool { return recs[i].Call < recs[j].Call })
			detail := explainIllegal(k, recs)
			h.violate("stale-or-foreign-value", detail, map[string]any{"key": k, "key_history": recs}, map[string]any{"kind": classifyIllegal(recs)})
		}
	}
	// 2. single flight
	for k, sp := range turnSpans {
		sort.Slice(sp, func(i, j int) bool { return sp[i].lo < sp[j].lo })
		for i := 1; i < len(sp); i++ {
			if sp[i].lo <= sp[i-1].hi {
				h.violate("read-turns-overlap", fmt.Sprintf("key %s: two read turns were held at the same time: [%d,%d] %s and [%d,%d] %s", k, sp[i-1].lo, sp[i-1].hi, sp[i-1].what, sp[i].lo, sp[i].hi, sp[i].what),
					map[string]any{"key": k}, nil)
				break
			}
		}
	}
	epochEnd := map[uint32]int64{} // SRV id -> latest Call of a waiter that received it
	for _, w := range waits {
		info, ok := srvByID[w.ID]
		switch {
		case !ok:
			h.violate("waiter-foreign-value", fmt.Sprintf("GetWithReadHandle(%s) by client %d returned value %d without a cache hit, but no read-turn holder passed that value to SetReadValue", w.Key, w.Client, w.ID),
				map[string]any{"wait": w}, nil)
			continue
		case info.rec.Key != w.Key:
			h.violate("waiter-foreign-value", fmt.Sprintf("GetWithReadHandle(%s) by client %d returned value %d which was read for %s", w.Key, w.Client, w.ID, info.rec.Key),
				map[string]any{"wait": w, "set_read_value": info.rec}, nil)
			continue
		case info.rec.Call > w.Ret:
			h.violate("waiter-foreign-value", fmt.Sprintf("GetWithReadHandle(%s) returned value %d at t=%d before SetReadValue of it was called (t=%d)", w.Key, w.ID, w.Ret, info.rec.Call),
				map[string]any{"wait": w, "set_read_value": info.rec}, nil)
			continue
		}
		if info.rec.Ret < w.Call {
			// the read entry must have stayed referenced from the end of
			// SetReadValue to the start of this call
			if gapAt, ok := covered(refSpans[w.Key], info.rec.Ret, w.Call); !ok {
				h.violate("waiter-stale-epoch", fmt.Sprintf("GetWithReadHandle(%s) by client %d (t=%d..%d) returned value %d without a cache hit; its SetReadValue returned at t=%d and at t=%d no request for the key was in flight, so the read entry of that epoch was gone", w.Key, w.Client, w.Call, w.Ret, w.ID, info.rec.Ret, gapAt),
					map[string]any{"wait": w, "set_read_value": info.rec}, nil)
				continue
			}
		}
		if w.Call > epochEnd[w.ID] {
			epochEnd[w.ID] = w.Call
		}
	}
	// life spans of the read epochs of one key must not overlap
	epochSpans := map[keyT][]span{}
	for k, sp := range failedTurns {
		epochSpans[k] = append(epochSpans[k], sp...)
	}
	for id, info := range srvByID {
		hi := info.rec.Call
		if e := epochEnd[id]; e > hi {
			hi = e
		}
		epochSpans[info.rec.Key] = append(epochSpans[info.rec.Key], span{info.turnFrom, hi, fmt.Sprintf("epoch of value %d", id)})
	}
	for k, sp := range epochSpans {
		sort.Slice(sp, func(i, j int) bool { return sp[i].lo < sp[j].lo })
		for i := 1; i < len(sp); i++ {
			if sp[i].lo <= sp[i-1].hi {
				h.violate("read-epochs-overlap", fmt.Sprintf("key %s: %s lived over [%d,%d] (turn granted .. last waiter that received it started) and %s over [%d,%d]; a waiter was handed the value of another epoch", k, sp[i-1].what, sp[i-1].lo, sp[i-1].hi, sp[i].what, sp[i].lo, sp[i].hi),
					map[string]any{"key": k}, nil)
				break
			}
		}
	}
	return st
}

// covered reports whether every instant of [from,to] lies inside one of the
// spans (closed intervals over a strictly increasing integer clock: two spans
// chain only if the next starts before the previous ends).
func covered(sp []span, from, to int64) (gapAt int64, ok bool) {
	s := append([]span(nil), sp...)
	sort.Slice(s, func(i, j int) bool { return s[i].lo < s[j].lo })
	reach := from
	for _, x := range s {
		if x.lo > reach {
			break
		}
		if x.hi > reach {
			reach = x.hi
		}
		if reach >= to {
			return 0, true
		}
	}
	if reach >= to {
		return 0, true
	}
	return reach, false
}

func overlapping(ops []porcupine.Operation) bool {
	s := append([]porcupine.Operation(nil), ops...)
	sort.Slice(s, func(i, j int) bool { return s[i].Call < s[j].Call })
	var maxRet int64 = -1
	for _, o := range s {
		if o.Call < maxRet {
			return true
		}
		if o.Return > maxRet {
			maxRet = o.Return
		}
	}
	return false
}

// classifyIllegal names the simplest refuting pattern found in a key history
// that porcupine rejected.
func classifyIllegal(recs []opRec) string {
	written := map[uint32]bool{}
	for _, r := range recs {
		if r.Kind == kSet || r.Kind == kSRV {
			written[r.ID] = true
		}
	}
	for _, r := range recs {
		if r.Outcome == oHit && !written[r.ID] {
			return "hit-of-value-never-stored-under-this-key"
		}
	}
	for _, rd := range recs {
		if rd.Outcome != oHit {
			continue
		}
		var w opRec
		for _, r := range recs {
			if (r.Kind == kSet || r.Kind == kSRV) && r.ID == rd.ID {
				w = r
			}
		}
		for _, r := range recs {
			if r.Call > w.Ret && r.Ret < rd.Call {
				switch r.Kind {
				case kDelete, kEvict:
					return "hit-after-" + r.Kind
				case kSet, kSRV:
					return "hit-of-overwritten-value"
				}
			}
		}
	}
	return "not-linearizable"
}

func explainIllegal(k keyT, recs []opRec) string {
	kind := classifyIllegal(recs)
	n := len(recs)
	return fmt.Sprintf("key %s: the history of %d operations (writes, deletes, evictions and hits) has no linearization in which every hit returns the latest stored value [%s]", k, n, kind)
}

// ---------------------------------------------------------------------------
// tests

func requiredSites(r *vcommon.Report) {
	for i, s := range []string{"cache.setReadValue.beforeSet", "cache.readEntry.grantedTurn"} {
		if hookHits[i].Load() == 0 {
			r.Inconclusive("yield site %s was never reached in this process", s)
		}
	}
}

const concurrentRule = "case = one generated concurrent history: cache of 1-16 shards and 1 KiB-1 MiB, 2-16 clients, 4-64 keys over 2-4 handles x 1-2 files " +
	"(one third of the histories hammer 2-6 hot keys), 2-4 phases separated by quiescent points where handles are closed and replaced, value sizes 4 B to larger than a shard, " +
	"op mix Get/Peek/Set/Delete/EvictFile/Reserve/GetWithReadHandle (value, error, cancelled context); distinct = the generated parameters and client seed; " +
	"non-trivial = at least one hit was checked and at least one key had overlapping operations"

func TestVerifC34(t *testing.T) {
	installHook()
	r := vcommon.NewReport("C34", "main")
	defer r.Finish(t)
	r.Rule(concurrentRule)
	r.Assume("value sizes below 4 bytes (the id needs 4 bytes) and above 256 KiB are not generated; values larger than a shard are generated for shards up to 256 KiB")
	n := vcommon.Scale(210, 2400)
	ran := false
	r.Cases(n, func(i int, rng *rand.Rand) {
		ran = true
		runConcurrent(r, i, rng, !vcommon.Thorough())
	})
	if ran {
		requiredSites(r)
	}
}

// TestVerifC34Asan is the lifetime part: the same histories under
// AddressSanitizer (reports are process-fatal; r.Cases logs each history
// before it runs).
func TestVerifC34Asan(t *testing.T) {
	installHook()
	r := vcommon.NewReport("C34", "asan")
	defer r.Finish(t)
	r.Rule(concurrentRule + " (run under AddressSanitizer)")
	n := vcommon.Scale(30, 300)
	r.Cases(n, func(i int, rng *rand.Rand) {
		runConcurrent(r, i, rng, true)
	})
}

// TestVerifC34Seq is the single-threaded part: exact register semantics and
// the size bound after every operation.
func TestVerifC34Seq(t *testing.T) {
	installHook()
	r := vcommon.NewReport("C34", "seq")
	defer r.Finish(t)
	r.Rule("case = one single-threaded operation sequence (300-800 ops) on a cache of 1-16 shards and 256 B-256 KiB over 2-3 handles; " +
		"exact model: a hit must return the value of the latest Set/SetReadValue not followed by Delete/EvictFile, size checked after every op with no reservation outstanding; " +
		"distinct = parameters and op seed; non-trivial = at least 10 hits and 10 evictions-by-capacity (misses of stored keys)")
	n := vcommon.Scale(400, 12000)
	sizeReported := false
	r.Cases(n, func(ci int, rng *rand.Rand) {
		shards := []int{1, 1, 2, 4, 16}[rng.IntN(5)]
		size := []int64{256, 1 << 10, 4 << 10, 32 << 10, 256 << 10}[rng.IntN(5)]
		nh := 2 + rng.IntN(2)
		nfiles := 1 + rng.IntN(2)
		noffs := 1 + rng.IntN(16)
		nops := 300 + rng.IntN(501)
		spec := engineSpec{Shards: shards, CacheSize: size, Handles: nh, Files: nfiles, Offsets: noffs}
		h := &history{r: r, caseID: ci, spec: map[string]any{"shards": shards, "cache_size": size, "handles": nh, "files": nfiles, "offsets": noffs, "ops": nops}}
		baseline := manual.GetMetrics()[manual.BlockCacheData].InUseBytes
		c := cache.NewWithShards(size, shards)
		var handles []*cache.Handle
		var serials []int
		next := 0
		for i := 0; i < nh; i++ {
			handles = append(handles, c.NewHandle())
			serials = append(serials, next)
			next++
		}
		model := map[keyT]uint32{}
		var trace []string
		var reservations []func()
		var maxEntry int64
		shardCap := size / int64(shards)
		hits, capMisses := 0, 0
		logOp := func(f string, a ...any) {
			trace = append(trace, fmt.Sprintf(f, a...))
		}
		readCheck := func(what string, k keyT, v *cache.Value) {
			if v == nil {
				if model[k] != 0 {
					capMisses++
				}
				return
			}
			id, prob := checkValue(v.RawBuffer(), 0, -1)
			if prob == "" && h.sizeOf(id) != len(v.RawBuffer()) {
				prob = fmt.Sprintf("length %d, created with %d", len(v.RawBuffer()), h.sizeOf(id))
			}
			switch {
			case prob != "":
				h.violate("returned-value-corrupt", fmt.Sprintf("op %d %s(%s): %s", len(trace), what, k, prob), map[string]any{"ops": tailStrings(trace, 60)}, map[string]any{"from": what})
			case model[k] != id:
				kind := "hit-of-overwritten-or-foreign-value"
				if model[k] == 0 {
					kind = "hit-after-delete-or-evict"
				}
				h.violate("stale-or-foreign-value", fmt.Sprintf("op %d %s(%s) returned value %d, the latest stored value is %d (0 = none)", len(trace), what, k, id, model[k]),
					map[string]any{"ops": tailStrings(trace, 80)}, map[string]any{"kind": kind, "part": "seq"})
			default:
				hits++
			}
			v.Release()
		}
		newValue := func() (*cache.Value, uint32, int) {
			sz := spec.valueSize(rng)
			id := h.newID(sz)
			v := cache.Alloc(sz)
			fillValue(v.RawBuffer(), id)
			if int64(sz) <= shardCap && int64(sz) > maxEntry {
				maxEntry = int64(sz)
			}
			return v, id, sz
		}
		for j := 0; j < nops; j++ {
			slot := rng.IntN(len(handles))
			hd := handles[slot]
			k := keyT{H: serials[slot], File: uint64(1 + rng.IntN(nfiles)), Off: uint64(rng.IntN(noffs)) * 512}
			fn := base.DiskFileNum(k.File)
			switch x := rng.IntN(100); {
			case x < 30:
				logOp("Get(%s)", k)
				readCheck("Get", k, hd.Get(fn, k.Off, level0, cache.CategorySSTableData))
			case x < 35:
				logOp("Peek(%s)", k)
				readCheck("Peek", k, hd.Peek(fn, k.Off, level0, cache.CategorySSTableData))
			case x < 62:
				v, id, sz := newValue()
				logOp("Set(%s, id %d, %d B)", k, id, sz)
				hd.Set(fn, k.Off, v)
				v.Release()
				model[k] = id
			case x < 70:
				logOp("Delete(%s)", k)
				hd.Delete(fn, k.Off)
				model[k] = 0
			case x < 74:
				logOp("EvictFile(h%d/f%d)", k.H, k.File)
				hd.EvictFile(fn)
				for mk := range model {
					if mk.H == k.H && mk.File == k.File {
						model[mk] = 0
					}
				}
			case x < 78:
				if len(reservations) == 0 {
					n := 1 + rng.IntN(int(size))
					logOp("Reserve(%d)", n)
					reservations = append(reservations, c.Reserve(n))
				} else {
					logOp("release reservation")
					reservations[0]()
					reservations = reservations[1:]
				}
			case x < 80 && j > 50:
				logOp("Close(handle serial %d); NewHandle -> serial %d", serials[slot], next)
				hd.Close()
				handles[slot] = c.NewHandle()
				serials[slot] = next
				next++
			default:
				logOp("GetWithReadHandle(%s)", k)
				cv, rh, _, _, hit, err := hd.GetWithReadHandle(context.Background(), fn, k.Off, level0, cache.CategorySSTableData)
				switch {
				case err != nil || (cv == nil) == !rh.Valid() || (cv != nil && !hit):
					h.violate("read-handle-contract", fmt.Sprintf("op %d GetWithReadHandle(%s) single-threaded returned value=%v readHandle=%v hit=%v err=%v", len(trace), k, cv != nil, rh.Valid(), hit, err),
						map[string]any{"ops": tailStrings(trace, 40)}, nil)
					if cv != nil {
						cv.Release()
					}
					if rh.Valid() {
						rh.SetReadError(errors.New("x"))
					}
				case cv != nil:
					readCheck("GetWithReadHandle", k, cv)
				default:
					if model[k] != 0 {
						capMisses++
					}
					if rng.IntN(4) == 0 {
						logOp("  SetReadError")
						rh.SetReadError(errors.New("verif: injected read error"))
					} else {
						v, id, sz := newValue()
						logOp("  SetReadValue(id %d, %d B)", id, sz)
						rh.SetReadValue(v)
						v.Release()
						model[k] = id
					}
				}
			}
			if len(reservations) == 0 {
				r.Count("size_checks_after_op", 1)
				if sz, mx := c.Size(), c.MaxSize(); sz > mx {
					within := sz <= mx+int64(shards)*maxEntry
					r.Count("size_over_capacity_after_op", 1)
					if !within || !sizeReported {
						sizeReported = true
						reportSize(r, h, "seq", len(trace), sz, mx, within, shards, maxEntry, tailStrings(trace, 40))
					}
				}
			}
		}
		for _, rel := range reservations {
			rel()
		}
		for _, hd := range handles {
			hd.Close()
		}
		c.Unref()
		if after := manual.GetMetrics()[manual.BlockCacheData].InUseBytes; after != baseline {
			h.violate("value-leak", fmt.Sprintf("after the cache was destroyed %d bytes of block-cache data are still allocated", int64(after)-int64(baseline)), map[string]any{"ops": tailStrings(trace, 40)}, nil)
		}
		r.Eval(1)
		r.Count("seq_ops", int64(len(trace)))
		r.Count("seq_hits_checked", int64(hits))
		r.Count("seq_misses_of_stored_keys", int64(capMisses))
		if hits >= 10 && capMisses >= 10 {
			r.Distinct(shards, size, nh, nfiles, noffs, nops, ci)
		}
		if r.WantSample() {
			r.Sample(map[string]any{"case": ci, "spec": h.spec, "hits": hits, "misses_of_stored_keys": capMisses, "first_ops": tailStrings(trace[:min(12, len(trace))], 12)})
		}
	})
}

func tailStrings(l []string, n int) []string {
	if len(l) > n {
		l = l[len(l)-n:]
	}
	return append([]string(nil), l...)
}
