package c34

import (
	"fmt"
	"testing"

	"github.com/cockroachdb/pebble/internal/base"
	"github.com/cockroachdb/pebble/internal/cache"
)

func TestProbeC34(t *testing.T) {
	c := cache.NewWithShards(100, 1)
	h := c.NewHandle()
	set := func(off uint64, n int) {
		v := cache.Alloc(n)
		h.Set(base.DiskFileNum(1), off, v)
		v.Release()
		fmt.Printf("set off=%d n=%d size=%d max=%d\n", off, n, c.Size(), c.MaxSize())
	}
	set(1, 90)
	set(2, 50)
	set(3, 99)
	set(4, 100)
	set(5, 10)
	set(6, 10)
	h.Close()
	c.Unref()
}
