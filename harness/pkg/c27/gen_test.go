package c27

import (
	"bytes"
	"context"
	"encoding/binary"
	"fmt"
	"math/rand/v2"
	"slices"
	"sort"

	"github.com/cockroachdb/pebble/internal/base"
	"github.com/cockroachdb/pebble/internal/compression"
	"github.com/cockroachdb/pebble/internal/keyspan"
	"github.com/cockroachdb/pebble/internal/testkeys"
	"github.com/cockroachdb/pebble/objstorage"
	"github.com/cockroachdb/pebble/sstable"
	"github.com/cockroachdb/pebble/sstable/blob"
	"github.com/cockroachdb/pebble/sstable/block"
	"github.com/cockroachdb/pebble/sstable/colblk"
	"github.com/cockroachdb/pebble/sstable/tablefilters"
)

// ---------------------------------------------------------------- in-memory object

type memFile struct{ data []byte }

func (f *memFile) Write(p []byte) error        { f.data = append(f.data, p...); return nil }
func (f *memFile) Finish() error               { return nil }
func (f *memFile) Abort()                      {}
func (f *memFile) StartMetadataPortion() error { return nil }
// readAtCalls / readAtBytes count the work of a read-out (deterministic; used
// for the cost estimate of a file, never as an oracle).
var readAtCalls, readAtBytes int64

func (f *memFile) ReadAt(_ context.Context, p []byte, off int64) error {
	readAtCalls++
	readAtBytes += int64(len(p))
	if off < 0 || off+int64(len(p)) > int64(len(f.data)) {
		return fmt.Errorf("memFile: read [%d,%d) past end %d", off, off+int64(len(p)), len(f.data))
	}
	copy(p, f.data[off:])
	return nil
}
func (f *memFile) Close() error { return nil }
func (f *memFile) Size() int64  { return int64(len(f.data)) }
func (f *memFile) NewReadHandle(objstorage.ReadBeforeSize) objstorage.ReadHandle {
	return (*memRH)(f)
}

type memRH memFile

func (h *memRH) ReadAt(ctx context.Context, p []byte, off int64) error {
	return (*memFile)(h).ReadAt(ctx, p, off)
}
func (h *memRH) Close() error                                 { return nil }
func (h *memRH) SetupForCompaction()                          {}
func (h *memRH) RecordCacheHit(context.Context, int64, int64) {}

var _ objstorage.Writable = (*memFile)(nil)
var _ objstorage.Readable = (*memFile)(nil)

// ---------------------------------------------------------------- specs

// Only non-adaptive profiles: the adaptive compressor seeds itself from the
// global math/rand source, which would make the file bytes (and so the replay)
// non-deterministic.
var profiles = map[string]*block.CompressionProfile{
	"none":   block.NoCompression,
	"snappy": block.SnappyCompression,
	"zstd":   block.ZstdCompression,
	"minlz":  block.MinLZCompression,
	"good":   block.GoodCompression,
	"mixed": {
		Name:                "verif-mixed",
		DataBlocks:          block.SimpleCompressionSetting(compression.SnappySetting),
		ValueBlocks:         block.SimpleCompressionSetting(compression.ZstdLevel1),
		OtherBlocks:         compression.MinLZFastest,
		MinReductionPercent: 0,
	},
}
var profileNames = []string{"none", "snappy", "zstd", "minlz", "good", "mixed"}

type tableSpec struct {
	Format          sstable.TableFormat
	Checksum        block.ChecksumType
	Profile         string
	BlockSize       int
	IndexBlockSize  int
	Filter          string // "" or a tablefilters policy name
	TestKeys        bool   // testkeys.Comparer (suffixes) vs default bytewise
	NPrefixes       int
	MaxVersions     int
	ValLen          int // typical value length
	UniformKV       bool
	RangeDels       int
	RangeKeys       int
	BlobRefs        bool
	BlobFormat      blob.FileFormat
	DisableValBlock bool
	UseCache        bool
}

func (s tableSpec) String() string {
	return fmt.Sprintf("fmt=%s cksum=%s comp=%s bs=%d ibs=%d filter=%q testkeys=%v prefixes=%d vers=%d vlen=%d uniform=%v rdel=%d rkey=%d blob=%v/%s novalblk=%v cache=%v",
		s.Format, s.Checksum, s.Profile, s.BlockSize, s.IndexBlockSize, s.Filter, s.TestKeys, s.NPrefixes, s.MaxVersions, s.ValLen,
		s.UniformKV, s.RangeDels, s.RangeKeys, s.BlobRefs, s.BlobFormat, s.DisableValBlock, s.UseCache)
}

func pick[T any](rng *rand.Rand, xs ...T) T { return xs[rng.IntN(len(xs))] }

// genSpec draws a table configuration. sizeBudget roughly bounds the file size
// (the enumeration cost is linear in it).
func genSpec(rng *rand.Rand, i int, thorough bool) tableSpec {
	s := tableSpec{
		Format:   pick(rng, sstable.TableFormatPebblev6, sstable.TableFormatPebblev7, sstable.TableFormatMax, sstable.TableFormatMax),
		Checksum: pick(rng, block.ChecksumTypeCRC32c, block.ChecksumTypeCRC32c, block.ChecksumTypeXXHash64),
		Profile:  profileNames[i%len(profileNames)], // cycle so that every quick run sees every profile
	}
	s.TestKeys = rng.IntN(5) != 0
	// Mostly small blocks: a corrupted read costs O(block length^2) inside
	// pebble (bit-flip search on checksum mismatch). Large blocks are kept as
	// a minority; their corruptions are thinned by the per-file budget.
	s.BlockSize = pick(rng, 48, 100, 100, 256, 256, 600, 600, 1500, 4096, 32768)
	s.IndexBlockSize = pick(rng, 1, 64, 256, 4096, 4096)
	if rng.IntN(2) == 0 {
		s.Filter = pick(rng, "bloom(10)", "bloom(3)", "binaryfuse(8)", "binaryfuse(16)")
		if _, ok := tablefilters.PolicyFromName(s.Filter); !ok {
			s.Filter = "bloom(10)"
		}
	}
	s.NPrefixes = pick(rng, 1, 3, 8, 20, 40)
	s.MaxVersions = pick(rng, 1, 2, 3)
	s.ValLen = pick(rng, 0, 3, 10, 40, 120)
	if thorough && rng.IntN(8) == 0 {
		// a minority of larger tables (up to ~64KiB)
		s.NPrefixes = pick(rng, 80, 150)
		s.MaxVersions = pick(rng, 1, 3)
		s.ValLen = pick(rng, 10, 40, 120)
	}
	s.UniformKV = rng.IntN(3) == 0
	if s.UniformKV {
		// equal-sized uncompressed blocks make whole-block swaps possible
		s.BlockSize = pick(rng, 100, 256, 600)
		if rng.IntN(2) == 0 {
			s.Profile = "none"
		}
	}
	if rng.IntN(2) == 0 {
		s.RangeDels = 1 + rng.IntN(4)
	}
	if rng.IntN(2) == 0 {
		s.RangeKeys = 1 + rng.IntN(4)
	}
	s.BlobRefs = rng.IntN(4) == 0
	s.BlobFormat = pick(rng, blob.FileFormatV1, blob.FileFormatV2)
	s.DisableValBlock = rng.IntN(6) == 0
	s.UseCache = rng.IntN(3) == 0
	return s
}

type kvEntry struct {
	key   base.InternalKey
	value []byte
	blob  bool
}

type builtTable struct {
	spec     tableSpec
	data     []byte
	blobData []byte // nil when no blob references
	cmp      *base.Comparer
	schema   *colblk.KeySchema
	seekKeys [][]byte
	lower    []byte
	upper    []byte
	nPoints  int
	blobVals []blobVal // handles written to the blob file, in order
}

type blobVal struct {
	h blob.Handle
	v []byte
}

func genValue(rng *rand.Rand, typical int, uniform bool) []byte {
	n := typical
	if !uniform && typical > 0 {
		n = rng.IntN(2*typical + 1)
		if rng.IntN(20) == 0 {
			n = typical * 8
		}
	}
	v := make([]byte, n)
	switch rng.IntN(3) {
	case 0: // compressible
		for i := range v {
			v[i] = byte('a' + (i/7)%3)
		}
		if n > 0 {
			v[0] = byte(rng.IntN(256))
		}
	case 1:
		for i := range v {
			v[i] = byte(rng.IntN(256))
		}
	default:
		for i := range v {
			v[i] = "0123456789abcdef"[rng.IntN(16)]
		}
	}
	return v
}

func genPrefixes(rng *rand.Rand, n int, uniform bool) [][]byte {
	set := map[string]bool{}
	var out [][]byte
	for len(out) < n {
		l := 1 + rng.IntN(7)
		if uniform {
			l = 6
		}
		b := make([]byte, l)
		for i := range b {
			b[i] = byte('a' + rng.IntN(26))
		}
		if !uniform && rng.IntN(3) == 0 && len(out) > 0 {
			// share a long prefix with an existing key
			p := out[rng.IntN(len(out))]
			b = append(slices.Clone(p), byte('a'+rng.IntN(26)))
		}
		if !set[string(b)] {
			set[string(b)] = true
			out = append(out, b)
		}
	}
	sort.Slice(out, func(i, j int) bool { return bytes.Compare(out[i], out[j]) < 0 })
	return out
}

// buildTable writes the table (and its blob file) described by spec.
func buildTable(rng *rand.Rand, spec tableSpec) (*builtTable, error) {
	bt := &builtTable{spec: spec}
	bt.cmp = base.DefaultComparer
	if spec.TestKeys {
		bt.cmp = testkeys.Comparer
	}
	ks := colblk.DefaultKeySchema(bt.cmp, 16)
	bt.schema = &ks

	prefixes := genPrefixes(rng, spec.NPrefixes, spec.UniformKV)
	// ---- point keys in (user key asc, seqnum desc) order
	var entries []kvEntry
	seq := base.SeqNum(1000000)
	nextSeq := func() base.SeqNum { seq -= base.SeqNum(1 + rng.IntN(3)); return seq }
	for _, p := range prefixes {
		var userKeys [][]byte
		if spec.TestKeys {
			nv := 1 + rng.IntN(spec.MaxVersions)
			if spec.UniformKV {
				nv = spec.MaxVersions
			}
			suffixes := map[int]bool{}
			for len(suffixes) < nv {
				suffixes[1+rng.IntN(90)] = true
			}
			var ss []int
			for s := range suffixes {
				ss = append(ss, s)
			}
			sort.Sort(sort.Reverse(sort.IntSlice(ss))) // larger suffix sorts first
			if !spec.UniformKV && rng.IntN(6) == 0 {
				userKeys = append(userKeys, slices.Clone(p)) // no suffix sorts before suffixed keys
			}
			for _, s := range ss {
				if spec.UniformKV {
					userKeys = append(userKeys, []byte(fmt.Sprintf("%s@%02d", p, s)))
				} else {
					userKeys = append(userKeys, []byte(fmt.Sprintf("%s@%d", p, s)))
				}
			}
		} else {
			userKeys = append(userKeys, p)
		}
		for _, uk := range userKeys {
			nseq := 1
			if !spec.UniformKV && rng.IntN(5) == 0 {
				nseq = 2 + rng.IntN(2)
			}
			if !spec.TestKeys && !spec.UniformKV {
				nseq = 1 + rng.IntN(spec.MaxVersions)
			}
			for k := 0; k < nseq; k++ {
				kind := base.InternalKeyKindSet
				if !spec.UniformKV {
					switch rng.IntN(14) {
					case 0:
						kind = base.InternalKeyKindDelete
					case 1:
						kind = base.InternalKeyKindSingleDelete
					case 2:
						kind = base.InternalKeyKindMerge
					case 3:
						kind = base.InternalKeyKindSetWithDelete
					case 4:
						kind = base.InternalKeyKindDeleteSized
					}
				}
				var v []byte
				switch kind {
				case base.InternalKeyKindDelete, base.InternalKeyKindSingleDelete:
				case base.InternalKeyKindDeleteSized:
					v = binary.AppendUvarint(nil, uint64(rng.IntN(1000)))
				default:
					v = genValue(rng, spec.ValLen, spec.UniformKV)
				}
				e := kvEntry{key: base.MakeInternalKey(uk, nextSeq(), kind), value: v}
				if spec.BlobRefs && (kind == base.InternalKeyKindSet || kind == base.InternalKeyKindSetWithDelete) && len(v) > 0 && rng.IntN(2) == 0 {
					e.blob = true
				}
				entries = append(entries, e)
			}
		}
	}
	// seqnums must descend within a user key but may be anything across keys;
	// entries were generated with a globally descending counter which satisfies that.
	bt.nPoints = len(entries)

	// ---- blob file first (handles are needed by the table)
	handles := map[int]blob.Handle{}
	if spec.BlobRefs {
		anyBlob := false
		for _, e := range entries {
			anyBlob = anyBlob || e.blob
		}
		if !anyBlob {
			spec.BlobRefs = false
			bt.spec.BlobRefs = false
		}
	}
	if spec.BlobRefs {
		bf := &memFile{}
		fw := blob.NewFileWriter(base.DiskFileNum(9), bf, blob.FileWriterOptions{
			Format:       spec.BlobFormat,
			Compression:  profiles[spec.Profile],
			ChecksumType: spec.Checksum,
			FlushGovernor: block.MakeFlushGovernor(max(spec.BlockSize, 64), 90, base.SizeClassAwareBlockSizeThreshold, nil),
		})
		for i, e := range entries {
			if e.blob {
				h := fw.AddValue(e.value, false)
				handles[i] = h
				bt.blobVals = append(bt.blobVals, blobVal{h: h, v: e.value})
			}
		}
		if _, err := fw.Close(); err != nil {
			return nil, fmt.Errorf("blob writer: %w", err)
		}
		bt.blobData = bf.data
	}

	// ---- the table
	wo := sstable.WriterOptions{
		BlockSize:          spec.BlockSize,
		IndexBlockSize:     spec.IndexBlockSize,
		Comparer:           bt.cmp,
		KeySchema:          bt.schema,
		Compression:        profiles[spec.Profile],
		TableFormat:        spec.Format,
		Checksum:           spec.Checksum,
		DisableValueBlocks: spec.DisableValBlock,
	}
	if spec.Filter != "" {
		wo.FilterPolicy, _ = tablefilters.PolicyFromName(spec.Filter)
	}
	f := &memFile{}
	w := sstable.NewRawWriter(f, wo)
	for i, e := range entries {
		var err error
		if e.blob {
			h := handles[i]
			err = w.AddWithBlobHandle(e.key, blob.InlineHandle{
				InlineHandlePreface: blob.InlineHandlePreface{ReferenceID: 0, ValueLen: h.ValueLen},
				HandleSuffix:        blob.HandleSuffix{BlockID: h.BlockID, ValueID: h.ValueID},
			}, base.ShortAttribute(len(e.value)&7), false, base.KVMeta{})
		} else {
			err = w.Add(e.key, e.value, false, base.KVMeta{})
		}
		if err != nil {
			_ = w.Close()
			return nil, fmt.Errorf("add %s: %w", e.key.Pretty(bt.cmp.FormatKey), err)
		}
	}
	// ---- range dels and range keys: fragmented, ordered, non-overlapping spans
	bounds := func(n int) [][2][]byte {
		// pick 2n distinct sorted boundary keys from the prefix space
		var pts [][]byte
		set := map[string]bool{}
		for tries := 0; len(pts) < 2*n && tries < 200; tries++ {
			var b []byte
			if rng.IntN(2) == 0 {
				b = slices.Clone(prefixes[rng.IntN(len(prefixes))])
			} else {
				b = []byte{byte('a' + rng.IntN(26)), byte('a' + rng.IntN(26))}
			}
			if !set[string(b)] {
				set[string(b)] = true
				pts = append(pts, b)
			}
		}
		sort.Slice(pts, func(i, j int) bool { return bytes.Compare(pts[i], pts[j]) < 0 })
		var out [][2][]byte
		for i := 0; i+1 < len(pts); i += 2 {
			out = append(out, [2][]byte{pts[i], pts[i+1]})
		}
		return out
	}
	if spec.RangeDels > 0 {
		for _, b := range bounds(spec.RangeDels) {
			sp := keyspan.Span{Start: b[0], End: b[1]}
			for k, n := 0, 1+rng.IntN(3); k < n; k++ {
				sp.Keys = append(sp.Keys, keyspan.Key{Trailer: base.MakeTrailer(nextSeq(), base.InternalKeyKindRangeDelete)})
			}
			if err := w.EncodeSpan(sp); err != nil {
				_ = w.Close()
				return nil, fmt.Errorf("rangedel: %w", err)
			}
		}
	}
	if spec.RangeKeys > 0 {
		for _, b := range bounds(spec.RangeKeys) {
			sp := keyspan.Span{Start: b[0], End: b[1]}
			usedSuffix := map[int]bool{}
			for k, n := 0, 1+rng.IntN(3); k < n; k++ {
				sfx := 1 + rng.IntN(50)
				if usedSuffix[sfx] {
					continue
				}
				usedSuffix[sfx] = true
				var suffix []byte
				if spec.TestKeys {
					suffix = []byte(fmt.Sprintf("@%d", sfx))
				}
				switch rng.IntN(4) {
				case 0:
					sp.Keys = append(sp.Keys, keyspan.Key{Trailer: base.MakeTrailer(nextSeq(), base.InternalKeyKindRangeKeyUnset), Suffix: suffix})
				default:
					sp.Keys = append(sp.Keys, keyspan.Key{Trailer: base.MakeTrailer(nextSeq(), base.InternalKeyKindRangeKeySet), Suffix: suffix, Value: genValue(rng, 12, false)})
				}
				if !spec.TestKeys {
					break // a single (empty) suffix only
				}
			}
			if rng.IntN(5) == 0 {
				sp.Keys = append(sp.Keys, keyspan.Key{Trailer: base.MakeTrailer(nextSeq(), base.InternalKeyKindRangeKeyDelete)})
			}
			if err := w.EncodeSpan(sp); err != nil {
				_ = w.Close()
				return nil, fmt.Errorf("rangekey: %w", err)
			}
		}
	}
	if err := w.Close(); err != nil {
		return nil, fmt.Errorf("close: %w", err)
	}
	bt.data = f.data

	// ---- seek keys: existing user keys, prefixes, misses before/after/between
	addSeek := func(k []byte) { bt.seekKeys = append(bt.seekKeys, slices.Clone(k)) }
	addSeek([]byte("a"))
	addSeek([]byte("zzzzzzzzz"))
	step := max(1, len(entries)/12)
	for i := 0; i < len(entries); i += step {
		addSeek(entries[i].key.UserKey)
		p := entries[i].key.UserKey[:bt.cmp.Split(entries[i].key.UserKey)]
		addSeek(p)
		addSeek(append(slices.Clone(p), 'm'))
		if spec.TestKeys {
			addSeek([]byte(fmt.Sprintf("%s@%d", p, 1+rng.IntN(90))))
		}
	}
	if len(entries) > 0 {
		addSeek(entries[len(entries)-1].key.UserKey)
		lo := entries[len(entries)/4].key.UserKey
		hi := entries[(3*len(entries))/4].key.UserKey
		bt.lower = slices.Clone(lo[:bt.cmp.Split(lo)])
		bt.upper = slices.Clone(hi[:bt.cmp.Split(hi)])
		if bt.cmp.Compare(bt.lower, bt.upper) >= 0 {
			bt.lower, bt.upper = nil, nil
		}
	}
	if len(bt.seekKeys) > 40 {
		bt.seekKeys = bt.seekKeys[:40]
	}
	return bt, nil
}

// blobSpec describes a stand-alone blob file.
type blobSpec struct {
	Format    blob.FileFormat
	Checksum  block.ChecksumType
	Profile   string
	BlockSize int
	NValues   int
	ValLen    int
}

func (s blobSpec) String() string {
	return fmt.Sprintf("blob fmt=%s cksum=%s comp=%s bs=%d values=%d vlen=%d", s.Format, s.Checksum, s.Profile, s.BlockSize, s.NValues, s.ValLen)
}

func genBlobSpec(rng *rand.Rand, i int) blobSpec {
	return blobSpec{
		Format:    []blob.FileFormat{blob.FileFormatV1, blob.FileFormatV2}[i%2],
		Checksum:  pick(rng, block.ChecksumTypeCRC32c, block.ChecksumTypeXXHash64),
		Profile:   profileNames[(i/2)%len(profileNames)],
		BlockSize: pick(rng, 64, 200, 1000, 4096),
		NValues:   pick(rng, 1, 5, 30, 80),
		ValLen:    pick(rng, 1, 8, 40, 120),
	}
}

type builtBlob struct {
	spec blobSpec
	data []byte
	vals []blobVal
}

func buildBlob(rng *rand.Rand, spec blobSpec) (*builtBlob, error) {
	bf := &memFile{}
	fw := blob.NewFileWriter(base.DiskFileNum(9), bf, blob.FileWriterOptions{
		Format:        spec.Format,
		Compression:   profiles[spec.Profile],
		ChecksumType:  spec.Checksum,
		FlushGovernor: block.MakeFlushGovernor(spec.BlockSize, 90, base.SizeClassAwareBlockSizeThreshold, nil),
	})
	bb := &builtBlob{spec: spec}
	for k := 0; k < spec.NValues; k++ {
		v := genValue(rng, spec.ValLen, false)
		if len(v) == 0 {
			v = []byte{byte(k)}
		}
		h := fw.AddValue(v, false)
		bb.vals = append(bb.vals, blobVal{h: h, v: v})
		if rng.IntN(15) == 0 {
			fw.FlushForTesting()
		}
	}
	if _, err := fw.Close(); err != nil {
		return nil, err
	}
	bb.data = bf.data
	return bb, nil
}
