package c27

import (
	"context"
	"fmt"
	"hash/fnv"
	"runtime/debug"
	"strings"

	"github.com/cockroachdb/pebble/internal/base"
	"github.com/cockroachdb/pebble/internal/cache"
	"github.com/cockroachdb/pebble/internal/keyspan"
	"github.com/cockroachdb/pebble/internal/sstableinternal"
	"github.com/cockroachdb/pebble/sstable"
	"github.com/cockroachdb/pebble/sstable/blob"
	"github.com/cockroachdb/pebble/sstable/block"
	"github.com/cockroachdb/pebble/sstable/tablefilters"
)

// opResult is the outcome of one read operation (open, one scan, one group
// of seeks, ...). lines is the transcript produced before err (if any).
type opResult struct {
	name     string
	lines    []string
	err      error
	panicMsg string
	stack    string
}

func valRepr(v []byte) string {
	if len(v) <= 12 {
		return fmt.Sprintf("%x", v)
	}
	h := fnv.New64a()
	h.Write(v)
	return fmt.Sprintf("%d:%x:%016x", len(v), v[:6], h.Sum64())
}

// valueErrorMarker replaces the line of an entry whose value fetch failed.
const valueErrorMarker = "<value fetch failed>"

func kvLine(kv *base.InternalKV) (string, error) {
	v, _, err := kv.Value(nil)
	if err != nil {
		return "", err
	}
	return fmt.Sprintf("%q#%d,%d=%s", kv.K.UserKey, kv.K.SeqNum(), kv.K.Kind(), valRepr(v)), nil
}

func spanLine(s *keyspan.Span) string {
	var b strings.Builder
	fmt.Fprintf(&b, "%q-%q:", s.Start, s.End)
	for _, k := range s.Keys {
		fmt.Fprintf(&b, "{#%d,%d %q=%s}", k.SeqNum(), k.Kind(), k.Suffix, valRepr(k.Value))
	}
	return b.String()
}

// safely runs f and converts a Go panic (including memory faults, thanks to
// debug.SetPanicOnFault) into a result.
func safely(name string, f func() ([]string, error)) (res opResult) {
	res.name = name
	defer func() {
		if r := recover(); r != nil {
			res.panicMsg = fmt.Sprint(r)
			res.stack = string(debug.Stack())
		}
	}()
	res.lines, res.err = f()
	return res
}

// topPebbleFrame returns the function of the innermost pebble (non-harness)
// frame below the panic in a debug.Stack() taken inside a recover handler.
func topPebbleFrame(stack string) string {
	seenPanic := false
	for _, l := range strings.Split(stack, "\n") {
		if strings.HasPrefix(l, "panic(") {
			seenPanic = true
			continue
		}
		if !seenPanic || strings.HasPrefix(l, "\t") {
			continue
		}
		if strings.HasPrefix(l, "github.com/cockroachdb/pebble/") && !strings.Contains(l, "/internal/verif/") {
			if i := strings.LastIndex(l, "("); i > 0 {
				l = l[:i]
			}
			return strings.TrimPrefix(l, "github.com/cockroachdb/pebble/")
		}
	}
	return "?"
}

// ---------------------------------------------------------------- blob plumbing

type fixedRefs struct{}

func (fixedRefs) BlobFileIDByID(base.BlobReferenceID) base.BlobFileID { return base.BlobFileID(9) }
func (fixedRefs) IDByBlobFileID(id base.BlobFileID) (base.BlobReferenceID, bool) {
	return 0, id == 9
}

type identityMapping struct{}

func (identityMapping) Lookup(id base.BlobFileID) (base.ObjectInfo, bool) {
	return base.ObjectInfoLiteral{FileType: base.FileTypeBlob, DiskFileNum: base.DiskFileNum(id)}, true
}

type oneBlobProvider struct{ r *blob.FileReader }

func (p oneBlobProvider) GetValueReader(context.Context, base.ObjectInfo, block.InitFileReadStats) (blob.ValueReader, func(), error) {
	return p.r, func() {}, nil
}

// ---------------------------------------------------------------- table read-out

type readCtx struct {
	cacheHandle *cache.Handle // nil when the table is read without block cache
	fileNum     base.DiskFileNum
}

// readTable opens data as a table and runs every read operation. The result
// list is deterministic for given bytes. When open fails only the "open" op
// is returned. blobData (uncorrupted) is used to resolve blob references.
func readTable(bt *builtTable, data []byte, blobData []byte, rc readCtx, stopAtFirstFailure bool) []opResult {
	ctx := context.Background()
	maxLines := 4*bt.nPoints + 64
	var out []opResult
	var r *sstable.Reader
	ro := sstable.ReaderOptions{
		ReaderOptions: block.ReaderOptions{
			CacheOpts: sstableinternal.CacheOptions{CacheHandle: rc.cacheHandle, FileNum: rc.fileNum},
		},
		Comparer:       bt.cmp,
		KeySchemas:     sstable.MakeKeySchemas(bt.schema),
		FilterDecoders: tablefilters.Decoders,
	}
	f := &memFile{data: data}
	res := safely("open", func() ([]string, error) {
		var err error
		r, err = sstable.NewReader(ctx, f, ro)
		if err != nil {
			return nil, err
		}
		tf, err := r.TableFormat()
		if err != nil {
			return nil, err
		}
		lines := []string{fmt.Sprintf("format=%s attrs=%s", tf, r.Attributes)}
		for _, k := range sortedKeys(r.UserProperties) {
			lines = append(lines, fmt.Sprintf("userprop %q=%q", k, r.UserProperties[k]))
		}
		return lines, nil
	})
	out = append(out, res)
	if res.err != nil || res.panicMsg != "" || r == nil {
		return out
	}
	defer func() { safely("close", func() ([]string, error) { return nil, r.Close() }) }()

	failed := func() bool {
		l := out[len(out)-1]
		return stopAtFirstFailure && (l.panicMsg != "")
	}
	add := func(name string, fn func() ([]string, error)) bool {
		out = append(out, safely(name, fn))
		return !failed()
	}

	// blob plumbing (reads of the blob file itself are not under test here)
	blobCtx := sstable.AssertNoBlobHandles
	var closers []func()
	defer func() {
		for _, c := range closers {
			c()
		}
	}()
	if blobData != nil {
		br, err := blob.NewFileReader(ctx, &memFile{data: blobData}, blob.FileReaderOptions{
			ReaderOptions: block.ReaderOptions{CacheOpts: sstableinternal.CacheOptions{FileNum: 9}}})
		if err != nil {
			panic(fmt.Sprintf("harness: pristine blob file does not open: %v", err))
		}
		vf := &blob.ValueFetcher{}
		vf.Init(identityMapping{}, oneBlobProvider{br}, block.ReadEnv{}, 1)
		blobCtx = sstable.TableBlobContext{ValueFetcher: vf, References: fixedRefs{}}
		closers = append(closers, func() {
			safely("close-blob", func() ([]string, error) { _ = vf.Close(); return nil, br.Close() })
		})
	}

	if !add("props", func() ([]string, error) {
		p, err := r.ReadPropertiesBlock(ctx, nil)
		if err != nil {
			return nil, err
		}
		return strings.Split(p.String(), "\n"), nil
	}) {
		return out
	}
	if !add("layout", func() ([]string, error) {
		l, err := r.Layout()
		if err != nil {
			return nil, err
		}
		return layoutLines(l), nil
	}) {
		return out
	}

	newIter := func(lower, upper []byte) (sstable.Iterator, error) {
		return r.NewPointIter(ctx, sstable.IterOptions{
			Lower: lower, Upper: upper,
			Transforms:           sstable.NoTransforms,
			FilterBlockSizeLimit: sstable.AlwaysUseFilterBlock,
			Env:                  sstable.NoReadEnv,
			ReaderProvider:       sstable.MakeTrivialReaderProvider(r),
			BlobContext:          blobCtx,
		})
	}
	// scan drives it with first/next and appends a line per entry.
	scan := func(it sstable.Iterator, first func() *base.InternalKV, next func() *base.InternalKV) (lines []string, err error) {
		defer func() {
			if cerr := it.Close(); err == nil {
				err = cerr
			}
		}()
		for kv := first(); kv != nil; kv = next() {
			l, verr := kvLine(kv)
			if verr != nil {
				return lines, verr
			}
			lines = append(lines, l)
			if len(lines) > maxLines {
				// The iterator keeps producing entries (e.g. it cycles): a
				// deterministic step bound, not a timer, ends the scan. The
				// transcript is longer than any pristine one, so with a nil
				// error this is judged as wrong data.
				lines = append(lines, fmt.Sprintf("<runaway: more than %d entries>", maxLines))
				return lines, nil
			}
		}
		return lines, it.Error()
	}
	if !add("scan-fwd", func() ([]string, error) {
		it, err := newIter(nil, nil)
		if err != nil {
			return nil, err
		}
		return scan(it, it.First, it.Next)
	}) {
		return out
	}
	// A reader that carries on after a value could not be fetched (a corrupt
	// value block or blob block reports an error for that value only): every
	// later value must again be either an error or the correct bytes. Each entry
	// is read twice, as a caller that retries would.
	if !add("scan-past-value-errors", func() (lines []string, err error) {
		it, err := newIter(nil, nil)
		if err != nil {
			return nil, err
		}
		defer func() {
			if cerr := it.Close(); err == nil {
				err = cerr
			}
		}()
		for kv := it.First(); kv != nil; kv = it.Next() {
			l, verr := kvLine(kv)
			if verr != nil {
				l = valueErrorMarker
			}
			lines = append(lines, l)
			if l2, verr2 := kvLine(kv); verr2 == nil && l2 != l {
				lines = append(lines, "<second read of the same entry: "+l2+">")
			}
			if len(lines) > maxLines {
				lines = append(lines, fmt.Sprintf("<runaway: more than %d entries>", maxLines))
				return lines, nil
			}
		}
		return lines, it.Error()
	}) {
		return out
	}
	if !add("scan-bwd", func() ([]string, error) {
		it, err := newIter(nil, nil)
		if err != nil {
			return nil, err
		}
		return scan(it, it.Last, it.Prev)
	}) {
		return out
	}
	if bt.lower != nil {
		if !add("scan-bounds-fwd", func() ([]string, error) {
			it, err := newIter(bt.lower, bt.upper)
			if err != nil {
				return nil, err
			}
			return scan(it, func() *base.InternalKV { return it.SeekGE(bt.lower, base.SeekGEFlagsNone) }, it.Next)
		}) {
			return out
		}
		if !add("scan-bounds-bwd", func() ([]string, error) {
			it, err := newIter(bt.lower, bt.upper)
			if err != nil {
				return nil, err
			}
			return scan(it, func() *base.InternalKV { return it.SeekLT(bt.upper, base.SeekLTFlagsNone) }, it.Prev)
		}) {
			return out
		}
	}
	if !add("scan-nextprefix", func() ([]string, error) {
		it, err := newIter(nil, nil)
		if err != nil {
			return nil, err
		}
		var cur *base.InternalKV
		var succ []byte
		return scan(it, func() *base.InternalKV { cur = it.First(); return cur }, func() *base.InternalKV {
			p := cur.K.UserKey[:bt.cmp.Split(cur.K.UserKey)]
			succ = bt.cmp.ImmediateSuccessor(succ[:0], p)
			cur = it.NextPrefix(succ)
			return cur
		})
	}) {
		return out
	}
	if !add("scan-compaction", func() ([]string, error) {
		var bp block.BufferPool
		bp.Init(5, block.ForCompaction)
		defer bp.Release()
		env := sstable.ReadEnv{Block: block.ReadEnv{BufferPool: &bp}}
		it, err := r.NewCompactionIter(ctx, sstable.NoTransforms, env, sstable.MakeTrivialReaderProvider(r), blobCtx)
		if err != nil {
			return nil, err
		}
		return scan(it, it.First, it.Next)
	}) {
		return out
	}

	// seeks: one op per seek kind; a fresh iterator after every error so that
	// later seeks are still meaningful.
	seekOp := func(name string, do func(it sstable.Iterator, k []byte) *base.InternalKV, follow func(it sstable.Iterator) *base.InternalKV) bool {
		return add(name, func() (lines []string, err error) {
			it, err := newIter(nil, nil)
			if err != nil {
				return nil, err
			}
			defer func() {
				if it != nil {
					if cerr := it.Close(); err == nil {
						err = cerr
					}
				}
			}()
			for _, k := range bt.seekKeys {
				kv := do(it, k)
				for step := 0; step < 2; step++ {
					if kv == nil {
						if e := it.Error(); e != nil {
							return lines, e
						}
						lines = append(lines, fmt.Sprintf("%s(%q)+%d=nil", name, k, step))
						break
					}
					l, verr := kvLine(kv)
					if verr != nil {
						return lines, verr
					}
					lines = append(lines, fmt.Sprintf("%s(%q)+%d=%s", name, k, step, l))
					if step == 0 {
						kv = follow(it)
					}
				}
			}
			return lines, nil
		})
	}
	if !seekOp("seekge", func(it sstable.Iterator, k []byte) *base.InternalKV { return it.SeekGE(k, base.SeekGEFlagsNone) },
		func(it sstable.Iterator) *base.InternalKV { return it.Next() }) {
		return out
	}
	if !seekOp("seeklt", func(it sstable.Iterator, k []byte) *base.InternalKV { return it.SeekLT(k, base.SeekLTFlagsNone) },
		func(it sstable.Iterator) *base.InternalKV { return it.Prev() }) {
		return out
	}
	if !seekOp("seekprefixge", func(it sstable.Iterator, k []byte) *base.InternalKV {
		return it.SeekPrefixGE(k[:bt.cmp.Split(k)], k, base.SeekGEFlagsNone)
	}, func(it sstable.Iterator) *base.InternalKV { return it.Next() }) {
		return out
	}

	spanOps := func(name string, mk func() (keyspan.FragmentIterator, error)) bool {
		return add(name, func() (lines []string, err error) {
			it, err := mk()
			if err != nil {
				return nil, err
			}
			if it == nil {
				return []string{"none"}, nil
			}
			defer it.Close()
			var s *keyspan.Span
			for s, err = it.First(); s != nil; s, err = it.Next() {
				lines = append(lines, "f "+spanLine(s))
				if len(lines) > 1000 {
					return append(lines, "<runaway>"), nil
				}
			}
			if err != nil {
				return lines, err
			}
			for s, err = it.Last(); s != nil; s, err = it.Prev() {
				lines = append(lines, "b "+spanLine(s))
				if len(lines) > 2000 {
					return append(lines, "<runaway>"), nil
				}
			}
			if err != nil {
				return lines, err
			}
			for i, k := range bt.seekKeys {
				if i%4 != 0 {
					continue
				}
				s, err = it.SeekGE(k)
				if err != nil {
					return lines, err
				}
				if s != nil {
					lines = append(lines, fmt.Sprintf("ge(%q) %s", k, spanLine(s)))
				} else {
					lines = append(lines, fmt.Sprintf("ge(%q) nil", k))
				}
				s, err = it.SeekLT(k)
				if err != nil {
					return lines, err
				}
				if s != nil {
					lines = append(lines, fmt.Sprintf("lt(%q) %s", k, spanLine(s)))
				} else {
					lines = append(lines, fmt.Sprintf("lt(%q) nil", k))
				}
			}
			return lines, nil
		})
	}
	if !spanOps("rangedel", func() (keyspan.FragmentIterator, error) {
		return r.NewRawRangeDelIter(ctx, sstable.NoFragmentTransforms, sstable.NoReadEnv)
	}) {
		return out
	}
	if !spanOps("rangekey", func() (keyspan.FragmentIterator, error) {
		return r.NewRawRangeKeyIter(ctx, sstable.NoFragmentTransforms, sstable.NoReadEnv)
	}) {
		return out
	}
	add("validate-checksums", func() ([]string, error) { return nil, r.ValidateBlockChecksums() })
	return out
}

func sortedKeys(m map[string]string) []string {
	var ks []string
	for k := range m {
		ks = append(ks, k)
	}
	for i := range ks {
		for j := i + 1; j < len(ks); j++ {
			if ks[j] < ks[i] {
				ks[i], ks[j] = ks[j], ks[i]
			}
		}
	}
	return ks
}

func layoutLines(l *sstable.Layout) []string {
	var out []string
	h := func(name string, bh block.Handle) {
		if bh.Length != 0 || bh.Offset != 0 {
			out = append(out, fmt.Sprintf("%s %d+%d", name, bh.Offset, bh.Length))
		}
	}
	for _, d := range l.Data {
		out = append(out, fmt.Sprintf("data %d+%d props=%x", d.Offset, d.Length, d.Props))
	}
	for _, d := range l.Index {
		h("index", d)
	}
	h("topindex", l.TopIndex)
	for _, d := range l.Filter {
		h("filter:"+d.Name, d.Handle)
	}
	h("rangedel", l.RangeDel)
	h("rangekey", l.RangeKey)
	for _, d := range l.ValueBlock {
		h("value", d)
	}
	h("valueindex", l.ValueIndex)
	h("properties", l.Properties)
	h("metaindex", l.MetaIndex)
	h("blobrefindex", l.BlobReferenceIndex)
	h("tieringhist", l.TieringHistogram)
	h("footer", l.Footer)
	out = append(out, fmt.Sprintf("format %s", l.Format))
	return out
}

// ---------------------------------------------------------------- blob read-out

func readBlob(bb *builtBlob, data []byte, rc readCtx) []opResult {
	ctx := context.Background()
	var out []opResult
	var r *blob.FileReader
	res := safely("open", func() ([]string, error) {
		var err error
		r, err = blob.NewFileReader(ctx, &memFile{data: data}, blob.FileReaderOptions{
			ReaderOptions: block.ReaderOptions{CacheOpts: sstableinternal.CacheOptions{CacheHandle: rc.cacheHandle, FileNum: rc.fileNum}}})
		if err != nil {
			return nil, err
		}
		return []string{fmt.Sprintf("format=%s index=%s", r.FormatVersion(), r.IndexHandle())}, nil
	})
	out = append(out, res)
	if res.err != nil || res.panicMsg != "" || r == nil {
		return out
	}
	defer func() { safely("close", func() ([]string, error) { return nil, r.Close() }) }()
	add := func(name string, fn func() ([]string, error)) bool {
		out = append(out, safely(name, fn))
		return out[len(out)-1].panicMsg == ""
	}
	if !add("props", func() ([]string, error) {
		p, err := r.ReadProperties(ctx)
		if err != nil {
			return nil, err
		}
		return strings.Split(p.String(), "\n"), nil
	}) {
		return out
	}
	fetchAll := func(name string, order func(i, n int) int, usePool bool) bool {
		return add(name, func() (lines []string, err error) {
			var env block.ReadEnv
			if usePool {
				var bp block.BufferPool
				bp.Init(4, block.ForBlobFileRewrite)
				defer bp.Release()
				env.BufferPool = &bp
			}
			vf := &blob.ValueFetcher{}
			vf.Init(identityMapping{}, oneBlobProvider{r}, env, 1)
			defer func() {
				if cerr := vf.Close(); err == nil {
					err = cerr
				}
			}()
			n := len(bb.vals)
			for i := 0; i < n; i++ {
				bv := bb.vals[order(i, n)]
				var hbuf [blob.MaxInlineHandleLength]byte
				sn := blob.HandleSuffix{BlockID: bv.h.BlockID, ValueID: bv.h.ValueID}.Encode(hbuf[:])
				v, _, ferr := vf.FetchHandle(ctx, hbuf[:sn], bv.h.BlobFileID, bv.h.ValueLen, nil)
				if ferr != nil {
					return lines, ferr
				}
				lines = append(lines, fmt.Sprintf("(%d,%d)=%s", bv.h.BlockID, bv.h.ValueID, valRepr(v)))
			}
			return lines, nil
		})
	}
	if !fetchAll("fetch-fwd", func(i, n int) int { return i }, false) {
		return out
	}
	if !fetchAll("fetch-bwd", func(i, n int) int { return n - 1 - i }, false) {
		return out
	}
	if !fetchAll("fetch-bufferpool", func(i, n int) int { return (i * 7) % n }, true) {
		return out
	}
	add("layout", func() ([]string, error) {
		s, err := r.Layout()
		if err != nil {
			return nil, err
		}
		return strings.Split(s, "\n"), nil
	})
	return out
}
