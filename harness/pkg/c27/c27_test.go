// C27: corrupted table and blob files never yield wrong data.
//
// For generated tables (newest formats with checksummed footer) and blob files
// (v1/v2) the complete read-out of the pristine file is computed first. Then
// every enumerated corruption (pattern x offset) is applied to a copy and the
// same read-out is repeated. Every read operation must either report an error
// or return exactly the original result:
//
//	err == nil && result != original   => VIOLATION "wrong-data"
//	err != nil but the entries returned before the error are not a prefix of
//	the original                        => VIOLATION "wrong-data" (match.before_error = true)
//	Go panic / memory fault             => VIOLATION "read-panic" (match.where = top pebble frame)
package c27

import (
	"encoding/base64"
	"encoding/binary"
	"encoding/json"
	"fmt"
	"math/rand/v2"
	"os"
	"runtime"
	"runtime/debug"
	"slices"
	"sort"
	"strings"
	"sync"
	"syscall"
	"testing"

	"github.com/cockroachdb/pebble/internal/base"
	"github.com/cockroachdb/pebble/internal/cache"
	"github.com/cockroachdb/pebble/internal/verif/vcommon"
	"github.com/cockroachdb/pebble/sstable/block"
)

// ---------------------------------------------------------------- regions and corruptions

type region struct {
	kind  string // footer, metaindex, properties, index, topindex, data, filter, rangedel, rangekey, value, valueindex, blobrefindex, tieringhist, blobvalue, blobindex, blobprops + "-trailer"
	off   int
	len   int
	dense bool
	// physical block this region belongs to (payload+trailer), for block-level patterns
	blockOff, blockLen int
}

type corruption struct {
	pattern string // bitflip, zero, ff, garbage8, zero-block, zero-payload, swap, swap-prefix, truncate, version-set
	off     int    // first modified byte (for truncate: new length)
	n       int    // number of bytes affected
	arg     uint64 // bit index / garbage / byte value
	off2    int    // second block for swaps
	region  string
}

func (c corruption) String() string {
	return fmt.Sprintf("%s@%d(n=%d,arg=%#x,off2=%d,region=%s)", c.pattern, c.off, c.n, c.arg, c.off2, c.region)
}

// apply writes the corrupted file into dst (reusing its storage) and reports
// whether any byte differs from orig.
func (c corruption) apply(dst []byte, orig []byte) ([]byte, bool) {
	dst = append(dst[:0], orig...)
	switch c.pattern {
	case "bitflip":
		dst[c.off] ^= 1 << (c.arg & 7)
	case "zero":
		dst[c.off] = 0
	case "ff":
		dst[c.off] = 0xff
	case "version-set":
		dst[c.off] = byte(c.arg)
	case "garbage8":
		var g [8]byte
		binary.LittleEndian.PutUint64(g[:], c.arg)
		copy(dst[c.off:], g[:])
	case "zero-block", "zero-payload":
		clear(dst[c.off : c.off+c.n])
	case "swap", "swap-prefix":
		a := slices.Clone(dst[c.off : c.off+c.n])
		copy(dst[c.off:c.off+c.n], dst[c.off2:c.off2+c.n])
		copy(dst[c.off2:c.off2+c.n], a)
	case "truncate":
		return dst[:c.off], c.off != len(orig)
	}
	return dst, !slices.Equal(dst, orig)
}

func hashOff(seed uint64, off int) uint64 {
	x := seed ^ uint64(off)*0x9E3779B97F4A7C15
	x ^= x >> 29
	x *= 0xBF58476D1CE4E5B9
	x ^= x >> 32
	return x
}

// enumerate builds the corruption list for a file with the given regions.
func enumerate(fileLen int, regions []region, footerVersionOff int, k int, seed uint64, thorough bool) []corruption {
	var out []corruption
	covered := make([]bool, fileLen)
	for _, rg := range regions {
		for o := rg.off; o < rg.off+rg.len; o++ {
			covered[o] = true
		}
		step := k
		if rg.dense {
			step = 1
		}
		start := rg.off
		if step > 1 {
			start += int(hashOff(seed, rg.off) % uint64(step))
			if start >= rg.off+rg.len {
				start = rg.off // short sparse regions get at least their first byte
			}
		}
		for o := start; o < rg.off+rg.len; o += step {
			h := hashOff(seed, o)
			out = append(out, corruption{pattern: "bitflip", off: o, n: 1, arg: h & 7, region: rg.kind})
			if thorough && (rg.kind == "footer" || strings.HasSuffix(rg.kind, "-trailer")) {
				// every bit of footer and block trailers in the thorough tier
				for b := uint64(1); b < 8; b++ {
					out = append(out, corruption{pattern: "bitflip", off: o, n: 1, arg: (h&7 + b) & 7, region: rg.kind})
				}
			}
			out = append(out, corruption{pattern: "zero", off: o, n: 1, region: rg.kind})
			out = append(out, corruption{pattern: "ff", off: o, n: 1, region: rg.kind})
			if o+8 <= fileLen {
				out = append(out, corruption{pattern: "garbage8", off: o, n: 8, arg: hashOff(seed+1, o), region: rg.kind})
			}
		}
	}
	// bytes not attributed to any region (there should be none) are enumerated densely
	for o, c := range covered {
		if !c {
			out = append(out, corruption{pattern: "bitflip", off: o, n: 1, arg: hashOff(seed, o) & 7, region: "unattributed"})
			out = append(out, corruption{pattern: "zero", off: o, n: 1, region: "unattributed"})
			out = append(out, corruption{pattern: "ff", off: o, n: 1, region: "unattributed"})
		}
	}
	// block-level patterns
	type blk struct {
		off, n int
		kind   string
	}
	var blocks []blk
	seen := map[int]bool{}
	for _, rg := range regions {
		if rg.blockLen > 0 && !seen[rg.blockOff] {
			seen[rg.blockOff] = true
			blocks = append(blocks, blk{rg.blockOff, rg.blockLen, strings.TrimSuffix(rg.kind, "-trailer")})
		}
	}
	sort.Slice(blocks, func(i, j int) bool { return blocks[i].off < blocks[j].off })
	for _, b := range blocks {
		out = append(out, corruption{pattern: "zero-block", off: b.off, n: b.n, region: b.kind})
		if b.n > block.TrailerLen {
			out = append(out, corruption{pattern: "zero-payload", off: b.off, n: b.n - block.TrailerLen, region: b.kind})
		}
	}
	// swaps: whole physical blocks of equal length (every checksum stays valid
	// for its own bytes), else the common prefix of two blocks.
	maxPairs := 60
	if thorough {
		maxPairs = 400
	}
	pairs := 0
	for i := 0; i < len(blocks) && pairs < maxPairs; i++ {
		for _, j := range []int{i + 1, i + 2, len(blocks) - 1 - i} {
			if j <= i || j >= len(blocks) || pairs >= maxPairs {
				continue
			}
			a, b := blocks[i], blocks[j]
			if a.n == b.n {
				out = append(out, corruption{pattern: "swap", off: a.off, off2: b.off, n: a.n, region: a.kind + "<>" + b.kind})
			} else {
				out = append(out, corruption{pattern: "swap-prefix", off: a.off, off2: b.off, n: min(a.n, b.n), region: a.kind + "<>" + b.kind})
			}
			pairs++
		}
	}
	// equal-length pairs anywhere (same kind first): the interesting case
	byLen := map[int][]blk{}
	for _, b := range blocks {
		byLen[b.n] = append(byLen[b.n], b)
	}
	var lens []int
	for l := range byLen {
		lens = append(lens, l)
	}
	sort.Ints(lens)
	for _, l := range lens {
		g := byLen[l]
		for i := 0; i+1 < len(g) && pairs < 2*maxPairs; i++ {
			for j := i + 1; j < len(g) && j <= i+3 && pairs < 2*maxPairs; j++ {
				out = append(out, corruption{pattern: "swap", off: g[i].off, off2: g[j].off, n: l, region: g[i].kind + "<>" + g[j].kind})
				pairs++
			}
		}
	}
	// truncations
	tset := map[int]bool{}
	addT := func(n int) {
		if n >= 0 && n < fileLen {
			tset[n] = true
		}
	}
	for _, n := range []int{0, 1, 7, 8, 37, 38, 47, 48, 52, 53, 56, 57, 60, 61, 69, 70, fileLen - 1, fileLen - 2, fileLen / 2} {
		addT(n)
	}
	for _, b := range blocks {
		addT(b.off)
		addT(b.off + 1)
		addT(b.off + b.n - 1)
		addT(b.off + b.n - block.TrailerLen)
	}
	for o := fileLen - 80; o < fileLen; o += 3 {
		addT(o)
	}
	var ts []int
	for n := range tset {
		ts = append(ts, n)
	}
	sort.Ints(ts)
	for _, n := range ts {
		out = append(out, corruption{pattern: "truncate", off: n, region: "file"})
	}
	// footer version byte set to every other supported value
	if footerVersionOff >= 0 {
		for v := 1; v <= 9; v++ {
			out = append(out, corruption{pattern: "version-set", off: footerVersionOff, n: 1, arg: uint64(v), region: "footer"})
		}
	}
	return out
}

// ---------------------------------------------------------------- comparison

type verdict struct {
	outcome string // identical, error, wrong-data, wrong-data-before-error, read-panic
	op      string
	detail  string
	where   string
	errText string
	stack   string
}

var scanLikeOps = map[string]bool{"scan-fwd": true, "scan-bwd": true, "scan-bounds-fwd": true, "scan-bounds-bwd": true,
	"scan-nextprefix": true, "scan-compaction": true, "seekge": true, "seeklt": true, "seekprefixge": true,
	"rangedel": true, "rangekey": true, "fetch-fwd": true, "fetch-bwd": true, "fetch-bufferpool": true}

func firstDiff(got, want []string) string {
	for i := 0; i < len(got) || i < len(want); i++ {
		g, w := "<missing>", "<missing>"
		if i < len(got) {
			g = got[i]
		}
		if i < len(want) {
			w = want[i]
		}
		if g != w {
			return fmt.Sprintf("line %d: got %s want %s (got %d lines, want %d)", i, g, w, len(got), len(want))
		}
	}
	return ""
}

func judge(base, got []opResult) verdict {
	bm := map[string]opResult{}
	for _, b := range base {
		bm[b.name] = b
	}
	v := verdict{outcome: "identical"}
	for _, g := range got {
		b, ok := bm[g.name]
		if !ok {
			return verdict{outcome: "harness", op: g.name, detail: "op missing in baseline"}
		}
		switch {
		case g.panicMsg != "":
			return verdict{outcome: "read-panic", op: g.name, detail: g.panicMsg, where: topPebbleFrame(g.stack), stack: g.stack}
		case g.name == "scan-past-value-errors":
			// line by line: the pristine line, or the value-error marker; with an
			// iterator-level error the transcript may stop early
			sawErr := g.err != nil
			n := max(len(g.lines), len(b.lines))
			if g.err != nil {
				n = len(g.lines)
			}
			for i := 0; i < n; i++ {
				if i < len(g.lines) && g.lines[i] == valueErrorMarker && i < len(b.lines) {
					sawErr = true
					continue
				}
				if i >= len(g.lines) || i >= len(b.lines) || g.lines[i] != b.lines[i] {
					return verdict{outcome: "wrong-data", op: g.name, detail: firstDiff(g.lines, b.lines) + " (reader continued after per-value errors)"}
				}
			}
			if sawErr && v.outcome == "identical" {
				et := "value fetch failed"
				if g.err != nil {
					et = g.err.Error()
				}
				v = verdict{outcome: "error", op: g.name, errText: et}
			}
		case g.err != nil:
			if scanLikeOps[g.name] {
				if len(g.lines) > len(b.lines) || !slices.Equal(g.lines, b.lines[:len(g.lines)]) {
					return verdict{outcome: "wrong-data-before-error", op: g.name, errText: g.err.Error(),
						detail: firstDiff(g.lines, b.lines[:min(len(g.lines), len(b.lines))]) + "; then error: " + g.err.Error()}
				}
			}
			if v.outcome == "identical" {
				v = verdict{outcome: "error", op: g.name, errText: g.err.Error()}
			}
		default:
			if !slices.Equal(g.lines, b.lines) {
				return verdict{outcome: "wrong-data", op: g.name, detail: firstDiff(g.lines, b.lines)}
			}
		}
	}
	if v.outcome == "identical" && len(got) != len(base) {
		return verdict{outcome: "harness", detail: fmt.Sprintf("ran %d ops, baseline has %d", len(got), len(base))}
	}
	return v
}

// errKind reduces an error text to its shape: tokens that contain a digit or
// look like hex become N.
func errKind(s string) string {
	if len(s) > 200 {
		s = s[:200]
	}
	isSep := func(c byte) bool { return c == ' ' || c == ':' || c == '/' || c == '(' || c == ')' || c == ',' || c == '=' || c == '[' || c == ']' }
	var b strings.Builder
	i := 0
	for i < len(s) {
		if isSep(s[i]) {
			b.WriteByte(s[i])
			i++
			continue
		}
		j := i
		hasDigit, allHex := false, true
		for j < len(s) && !isSep(s[j]) {
			c := s[j]
			if c >= '0' && c <= '9' {
				hasDigit = true
			} else if !(c >= 'a' && c <= 'f' || c == 'x') {
				allHex = false
			}
			j++
		}
		if hasDigit || (allHex && j-i >= 4) {
			b.WriteByte('N')
		} else {
			b.WriteString(s[i:j])
		}
		i = j
	}
	s = b.String()
	if len(s) > 90 {
		s = s[:90]
	}
	return s
}

// violate keeps at most three violations per (class, match) in a process so
// that one recurring defect cannot mask different ones; the rest is counted.
var (
	violMu   sync.Mutex
	violSeen = map[string]int{}
)

func violate(r *vcommon.Report, class, detail string, replay any, match map[string]any) {
	mj, _ := json.Marshal(match)
	k := class + string(mj)
	violMu.Lock()
	violSeen[k]++
	n := violSeen[k]
	violMu.Unlock()
	r.Count("violations_"+class, 1)
	if n > 3 {
		return
	}
	r.Violate(class, detail, replay, match)
}

func b64IfSmall(b []byte) string {
	if len(b) > 24<<10 {
		return fmt.Sprintf("(omitted, %d bytes; regenerate from seed and case)", len(b))
	}
	return base64.StdEncoding.EncodeToString(b)
}

// ---------------------------------------------------------------- table regions

func tableRegions(data []byte, layoutLines []string) (regions []region, footerOff int) {
	dense := map[string]bool{"footer": true, "metaindex": true, "properties": true, "index": true, "topindex": true}
	for _, l := range layoutLines {
		var name string
		var off, n int
		f := strings.Fields(l)
		if len(f) < 2 || f[0] == "format" {
			continue
		}
		name = f[0]
		if _, err := fmt.Sscanf(f[1], "%d+%d", &off, &n); err != nil {
			continue
		}
		if i := strings.Index(name, ":"); i > 0 {
			name = name[:i]
		}
		if name == "footer" {
			regions = append(regions, region{kind: "footer", off: off, len: n, dense: true})
			footerOff = off
			continue
		}
		regions = append(regions, region{kind: name, off: off, len: n, dense: dense[name], blockOff: off, blockLen: n + block.TrailerLen})
		regions = append(regions, region{kind: name + "-trailer", off: off + n, len: block.TrailerLen, dense: true, blockOff: off, blockLen: n + block.TrailerLen})
	}
	return regions, footerOff
}

// ---------------------------------------------------------------- the tests

type fileUnderTest struct {
	kind     string // "table" or "blob"
	desc     string
	data     []byte
	read     func(data []byte, rc readCtx) []opResult
	regions  []region
	verOff   int
	useCache bool
	cfgKey   string
	nBlocks  int
	nPoints  int
	// work of one pristine read-out
	baseReads int64
	baseBytes int64
	baseLines int
	crc32c    bool
	zstd      bool
}

// cpuMillis returns the CPU time consumed by this process so far. It is
// reported as information only and never used by the oracle or the case list.
func cpuMillis() int64 {
	var ru syscall.Rusage
	if err := syscall.Getrusage(syscall.RUSAGE_SELF, &ru); err != nil {
		return 0
	}
	return (ru.Utime.Sec+ru.Stime.Sec)*1000 + int64(ru.Utime.Usec+ru.Stime.Usec)/1000
}

func runFile(r *vcommon.Report, fi int, rng *rand.Rand, fut *fileUnderTest, baseline []opResult) {
	thorough := vcommon.Thorough()
	// Stride for the sparsely enumerated regions: quick k=97; thorough k=1
	// (every byte) for files up to 6KiB, else a stride giving ~2500 offsets.
	// (DESIGN says k=1 up to 64KiB; at ~4ms CPU per corruption under the race
	// detector that is unaffordable, so larger files are strided.)
	k := 97
	if thorough {
		k = 1
		if len(fut.data) > 6<<10 {
			k = max(1, len(fut.data)/2500)
			r.Count("thorough_files_strided", 1)
		} else {
			r.Count("thorough_files_every_byte", 1)
		}
	}
	if s := vcommon.Scale(100, 100); s != 100 && !thorough {
		// VERIF_SCALE > 1 densifies the sparse stride in soak runs
		k = max(1, 97*100/s)
	}
	cs := enumerate(len(fut.data), fut.regions, fut.verOff, k, rng.Uint64(), thorough)
	r.Count("corruptions_enumerated", int64(len(cs)))
	// Per-file CPU budget. The dominant cost of a corrupted read is pebble's
	// own single-bit-flip search on every checksum mismatch, which is
	// quadratic in the block length and is paid by every operation that
	// touches the block. Each corruption gets a deterministic cost estimate
	// (a function of region kind and block length only, never of measured
	// time); when a file exceeds its budget the expensive corruptions are
	// thinned by a fixed stride, then the cheap ones if still needed.
	budget := 15000.0 // estimated milliseconds of CPU per file (the estimate is ~1.5x pessimistic on an idle machine)
	if thorough {
		budget = 45000
	}
	if fut.kind == "blob" {
		budget /= 2
	}
	blockLenAt := map[int]int{}
	for _, rg := range fut.regions {
		if rg.blockLen > 0 {
			for _, o := range []int{rg.off, rg.blockOff} {
				blockLenAt[o] = rg.blockLen
			}
		}
	}
	regionOf := func(off int) (string, int) {
		for _, rg := range fut.regions {
			if off >= rg.off && off < rg.off+rg.len {
				return rg.kind, rg.blockLen
			}
		}
		return "", 0
	}
	readCost := func(l int) float64 { // ms for one failing block read of length l
		return 8 * float64(l) * (150 + float64(l)/3) / 1e6
	}
	opsTouching := func(kind string) float64 {
		switch strings.TrimSuffix(kind, "-trailer") {
		case "footer", "metaindex", "properties", "file":
			return 1
		case "index", "topindex":
			return 14
		case "data":
			return 11
		case "value", "valueindex":
			return 8
		case "blobvalue", "blobindex":
			return 9
		default:
			return 2
		}
	}
	// openMs: a corruption that already fails open; fullMs: open succeeds and
	// every operation walks the (mostly intact) file.
	openMs := 1.5
	// Calibrated on race builds: a block read costs ~0.1ms with crc32c and
	// ~0.03ms with xxhash64 checksums, ~0.1ms more when blocks are zstd
	// compressed (cgo), and about 0.6 of that when a block cache serves repeats.
	perRead := 0.03
	if fut.crc32c {
		perRead = 0.10
	}
	if fut.zstd {
		perRead += 0.10
	}
	if fut.useCache {
		perRead *= 0.6
	}
	fullMs := 1.5 + perRead*float64(fut.baseReads) + 0.004*float64(fut.baseLines)
	if fut.kind == "blob" {
		openMs = 1.0
		fullMs = 3 + 0.15*float64(fut.nPoints)
	}
	failsOpen := func(kind string) bool {
		switch strings.TrimSuffix(kind, "-trailer") {
		case "footer", "metaindex", "properties":
			return true
		}
		return false
	}
	weight := func(c corruption) float64 {
		switch c.pattern {
		case "truncate", "version-set":
			return openMs
		case "swap", "swap-prefix":
			return fullMs + 14*(readCost(blockLenAt[c.off])+readCost(blockLenAt[c.off2]))
		case "zero-block", "zero-payload":
			if failsOpen(c.region) {
				return openMs + readCost(blockLenAt[c.off])
			}
			return fullMs + opsTouching(c.region)*readCost(blockLenAt[c.off])
		}
		kind, bl := regionOf(c.off)
		if c.pattern == "garbage8" {
			if k2, bl2 := regionOf(c.off + 7); bl2 > bl {
				kind, bl = k2, bl2
			}
		}
		if failsOpen(kind) {
			return openMs + readCost(bl)
		}
		return fullMs + opsTouching(kind)*readCost(bl)
	}
	total := 0.0
	ws := make([]float64, len(cs))
	for i, c := range cs {
		ws[i] = weight(c)
		total += ws[i]
	}
	r.Count("estimated_cost_ms_enumerated", int64(total))
	if total > budget {
		heavyMs := max(8.0, fullMs+6)
		var heavySum, lightSum float64
		for _, w := range ws {
			if w > heavyMs {
				heavySum += w
			} else {
				lightSum += w
			}
		}
		lightBudget := min(lightSum, 0.6*budget)
		heavyBudget := max(budget-lightBudget, 0.25*budget)
		mHeavy, mLight := 1, 1
		if heavySum > heavyBudget {
			mHeavy = int(heavySum/heavyBudget) + 1
		}
		if lightSum > lightBudget {
			mLight = int(lightSum/lightBudget) + 1
		}
		thinned := cs[:0:0]
		jh, jl := 0, 0
		for i, c := range cs {
			if ws[i] > heavyMs {
				// stride over single corruptions (not offsets) so that the
				// patterns kept rotate over the offsets
				if jh%mHeavy == 0 {
					thinned = append(thinned, c)
				}
				jh++
			} else {
				if jl%mLight == 0 {
					thinned = append(thinned, c)
				}
				jl++
			}
		}
		r.Count("corruptions_thinned_away", int64(len(cs)-len(thinned)))
		r.Count("files_thinned", 1)
		if mHeavy > 1 {
			r.Count("files_heavy_blocks_thinned", 1)
		}
		cs = thinned
	}
	est := 0.0
	for _, c := range cs {
		est += weight(c)
	}
	r.Count("estimated_cost_ms_executed", int64(est))
	r.Count("files_"+fut.kind, 1)
	r.Count("file_bytes", int64(len(fut.data)))
	r.Max("max_file_bytes", int64(len(fut.data)))

	var ch *cache.Handle
	if fut.useCache {
		c := cache.NewWithShards(8<<20, 1)
		ch = c.NewHandle()
		defer func() {
			safely("cache-close", func() ([]string, error) { ch.Close(); c.Unref(); return nil, nil })
		}()
		r.Count("files_read_through_block_cache", 1)
	}
	calib := os.Getenv("C27_CALIBRATE") != ""
	if calib && len(cs) > 120 {
		step := len(cs) / 120
		var t []corruption
		for i := 0; i < len(cs); i += step {
			t = append(t, cs[i])
		}
		cs = t
	}
	cpu0 := cpuMillis()
	defer func() {
		ms := cpuMillis() - cpu0
		r.Count("cpu_ms_info_only", ms)
		if calib {
			fmt.Printf("CALIB %s file=%d bytes=%d blocks=%d points=%d reads=%d rbytes=%d lines=%d n=%d est=%.2f cpu_ms_per_corruption=%.2f [%s]\n", fut.kind, fi, len(fut.data), fut.nBlocks, fut.nPoints,
				fut.baseReads, fut.baseBytes, fut.baseLines, len(cs), func() float64 {
					e := 0.0
					for _, c := range cs {
						e += weight(c)
					}
					return e / float64(max(1, len(cs)))
				}(), float64(ms)/float64(max(1, len(cs))), fut.desc)
		}
	}()
	var buf []byte
	identicalNotes := 0
	for ci, c := range cs {
		var changed bool
		buf, changed = c.apply(buf, fut.data)
		if !changed {
			r.Count("noop_corruptions_skipped", 1)
			continue
		}
		r.BeginCase(fmt.Sprintf("%d/%d %s", fi, ci, c))
		got := fut.read(buf, readCtx{cacheHandle: ch, fileNum: base.DiskFileNum(1000 + ci)})
		v := judge(baseline, got)
		r.Eval(1)
		r.Count("outcome_"+v.outcome, 1)
		r.Count("pattern_"+c.pattern, 1)
		rk := c.region
		r.SetAdd("regions_"+fut.kind, rk)
		r.Distinct(fut.kind, fut.cfgKey, rk, c.pattern, v.outcome, v.op)
		replay := func() map[string]any {
			return map[string]any{"file_index": fi, "corruption_index": ci, "file": fut.desc, "kind": fut.kind, "corruption": c.String(),
				"pattern": c.pattern, "offset": c.off, "n": c.n, "arg": c.arg, "offset2": c.off2, "region": c.region, "op": v.op,
				"detail": v.detail, "error": v.errText, "stack": v.stack, "file_len": len(fut.data),
				"original_b64": b64IfSmall(fut.data), "regions": fmt.Sprint(fut.regions)}
		}
		switch v.outcome {
		case "error":
			r.SetAdd("error_kinds", errKind(v.errText))
			r.SetAdd("first_failing_op", v.op)
		case "identical":
			if identicalNotes < 3 {
				identicalNotes++
				r.Note("identical read-out despite corruption: file %d (%s) %s", fi, fut.kind, c)
			}
			r.SetAdd("identical_regions", fut.kind+":"+rk+":"+c.pattern)
		case "wrong-data", "wrong-data-before-error":
			// Both are class "wrong-data"; before_error tells whether the op
			// ended with an error after having returned different entries.
			how := "returned without error but differs"
			if v.outcome == "wrong-data-before-error" {
				how = "returned entries that differ from the original before reporting an error"
			}
			violate(r, "wrong-data", fmt.Sprintf("%s file %d [%s] corruption %s: op %s %s: %s", fut.kind, fi, fut.desc, c, v.op, how, v.detail),
				replay(), map[string]any{"kind": fut.kind, "pattern": c.pattern, "region": rk, "op": v.op, "before_error": v.outcome == "wrong-data-before-error"})
		case "read-panic":
			violate(r, "read-panic", fmt.Sprintf("%s file %d [%s] corruption %s: op %s panicked in %s: %s", fut.kind, fi, fut.desc, c, v.op, v.where, strings.SplitN(v.detail, "\n", 2)[0]),
				replay(), map[string]any{"where": v.where, "pattern": c.pattern, "kind": fut.kind})
			r.SetAdd("panic_sites", v.where)
			// A recovered panic may leave pooled objects (sync.Pool of buffer
			// pools, iterators, fetchers) in a half-used state which would make
			// unrelated later reads panic. Two GC cycles empty every sync.Pool.
			runtime.GC()
			runtime.GC()
		default:
			r.Inconclusive("harness problem at file %d corruption %s: %s", fi, c, v.detail)
		}
	}
}

// baselineWork is the work (ReadAt calls, bytes, transcript lines) of the last
// pristine read-out checked by checkBaseline.
var baselineWork struct {
	reads, bytes int64
	lines        int
}

func checkBaseline(r *vcommon.Report, fi int, what string, read func() []opResult) ([]opResult, bool) {
	c0, b0 := readAtCalls, readAtBytes
	b1 := read()
	baselineWork.reads, baselineWork.bytes, baselineWork.lines = readAtCalls-c0, readAtBytes-b0, 0
	for _, o := range b1 {
		baselineWork.lines += len(o.lines)
	}
	for _, o := range b1 {
		if o.panicMsg != "" || o.err != nil {
			r.Inconclusive("file %d (%s): pristine read-out fails in op %s: %v %s", fi, what, o.name, o.err, o.panicMsg)
			return nil, false
		}
	}
	b2 := read()
	if v := judge(b1, b2); v.outcome != "identical" {
		r.Inconclusive("file %d (%s): pristine read-out is not deterministic: %s %s", fi, what, v.op, v.detail)
		return nil, false
	}
	return b1, true
}

func TestVerifC27(t *testing.T) {
	r := vcommon.NewReport("C27", "tables")
	defer r.Finish(t)
	debug.SetPanicOnFault(true)
	debug.SetGCPercent(400)
	r.Rule("case = one corruption (pattern in {bitflip, zero, ff, garbage8, zero-block, zero-payload, swap, swap-prefix, truncate, version-set}, offset) " +
		"of one generated table (formats Pebblev6..max; checksums crc32c/xxhash64; six compression profiles; block sizes 48..32768; single/two-level index; " +
		"bloom/binaryfuse filters; multi-version keys, value blocks, range dels, range keys, blob references; with/without block cache) followed by open + full read-out; " +
		"offsets: every byte of footer/metaindex/properties/index blocks and of each block trailer, every k-th byte elsewhere (k=97 quick, 1 thorough); " +
		"no-op corruptions are skipped; distinct = (config class, region kind, pattern, outcome, first failing op)")
	r.Assume("corruptions that leave a 32-bit checksum valid by chance (2^-32) are not sought")
	r.Assume("the blob file referenced by a corrupted table is pristine (blob files are corrupted in part 'blobs')")
	nfiles := vcommon.Scale(24, 150)
	r.Cases(nfiles, func(fi int, rng *rand.Rand) {
		spec := genSpec(rng, fi, vcommon.Thorough())
		bt, err := buildTable(rng, spec)
		if err != nil {
			r.Inconclusive("file %d: cannot build table %s: %v", fi, spec, err)
			return
		}
		spec = bt.spec
		if !vcommon.Thorough() && len(bt.data) > 24<<10 {
			r.Count("files_over_quick_size_budget", 1)
		}
		read := func(data []byte, rc readCtx) []opResult { return readTable(bt, data, bt.blobData, rc, true) }
		baseline, ok := checkBaseline(r, fi, spec.String(), func() []opResult { return read(bt.data, readCtx{fileNum: 1}) })
		if !ok {
			return
		}
		var layout []string
		npoints := 0
		for _, o := range baseline {
			switch o.name {
			case "layout":
				layout = o.lines
			case "scan-fwd":
				npoints = len(o.lines)
			}
		}
		if npoints != bt.nPoints {
			r.Inconclusive("file %d: wrote %d points, pristine scan returns %d", fi, bt.nPoints, npoints)
			return
		}
		regions, footerOff := tableRegions(bt.data, layout)
		for _, rg := range regions {
			r.SetAdd("block_kinds_present", strings.TrimSuffix(rg.kind, "-trailer"))
		}
		r.SetAdd("formats", spec.Format.String())
		r.SetAdd("profiles", spec.Profile)
		r.SetAdd("checksums", spec.Checksum.String())
		if spec.Filter != "" {
			r.SetAdd("filters", spec.Filter)
		}
		if spec.BlobRefs {
			r.Count("tables_with_blob_refs", 1)
		}
		for _, l := range layout {
			if strings.HasPrefix(l, "topindex") {
				r.Count("tables_two_level_index", 1)
			}
			if strings.HasPrefix(l, "valueindex") {
				r.Count("tables_with_value_blocks", 1)
			}
		}
		r.Count("points_written", int64(bt.nPoints))
		if r.WantSample() {
			r.Sample(map[string]any{"file": fi, "spec": spec.String(), "bytes": len(bt.data), "points": bt.nPoints, "layout_blocks": len(layout) - 1,
				"baseline_ops": len(baseline)})
		}
		// footer: ... checksum(4) version(4) magic(8); the low version byte
		verOff := len(bt.data) - 8 - 4
		_ = footerOff
		fut := &fileUnderTest{kind: "table", desc: spec.String(), data: bt.data, read: read, regions: regions, verOff: verOff, useCache: spec.UseCache, nBlocks: len(layout) - 2, nPoints: bt.nPoints,
			baseReads: baselineWork.reads, baseBytes: baselineWork.bytes, baseLines: baselineWork.lines,
			crc32c: spec.Checksum == block.ChecksumTypeCRC32c, zstd: spec.Profile == "zstd" || spec.Profile == "good" || spec.Profile == "mixed",
			cfgKey: fmt.Sprintf("%s/%s/%s/2lvl=%v/filter=%v/blob=%v/cache=%v", spec.Format, spec.Checksum, spec.Profile, spec.IndexBlockSize < 100, spec.Filter != "", spec.BlobRefs, spec.UseCache)}
		runFile(r, fi, rng, fut, baseline)
	})
}

func TestVerifC27Blob(t *testing.T) {
	r := vcommon.NewReport("C27", "blobs")
	defer r.Finish(t)
	debug.SetPanicOnFault(true)
	debug.SetGCPercent(400)
	r.Rule("case = one corruption (same patterns as part 'tables') of one generated blob file (formats blobV1/blobV2, crc32c/xxhash64, six compression profiles, " +
		"1..120 values, forced flushes) followed by open + ReadProperties + fetch of every value (forward, backward, strided with buffer pool) + Layout; " +
		"offsets: every byte of footer/index/properties blocks and of each block trailer, every k-th byte of value blocks; distinct = (config, region kind, pattern, outcome, first failing op)")
	nfiles := vcommon.Scale(8, 48)
	r.Cases(nfiles, func(fi int, rng *rand.Rand) {
		spec := genBlobSpec(rng, fi)
		bb, err := buildBlob(rng, spec)
		if err != nil {
			r.Inconclusive("blob %d: cannot build %s: %v", fi, spec, err)
			return
		}
		read := func(data []byte, rc readCtx) []opResult { return readBlob(bb, data, rc) }
		baseline, ok := checkBaseline(r, fi, spec.String(), func() []opResult { return read(bb.data, readCtx{fileNum: 1}) })
		if !ok {
			return
		}
		// regions from the open line and the Layout() text
		var regions []region
		footerLen := 38
		if spec.Format >= 2 {
			footerLen = 70
		}
		regions = append(regions, region{kind: "footer", off: len(bb.data) - footerLen, len: footerLen, dense: true})
		addBlock := func(kind string, off, n int, dense bool) {
			regions = append(regions, region{kind: kind, off: off, len: n, dense: dense, blockOff: off, blockLen: n + block.TrailerLen})
			regions = append(regions, region{kind: kind + "-trailer", off: off + n, len: block.TrailerLen, dense: true, blockOff: off, blockLen: n + block.TrailerLen})
		}
		nvals := 0
		for _, o := range baseline {
			switch o.name {
			case "open":
				var f string
				var off, n int
				if _, err := fmt.Sscanf(o.lines[0], "format=%s index=(%d, %d)", &f, &off, &n); err == nil {
					addBlock("blobindex", off, n, true)
				} else {
					r.Inconclusive("blob %d: cannot parse %q: %v", fi, o.lines[0], err)
					return
				}
			case "layout":
				for _, l := range o.lines {
					var i, off, n int
					if _, err := fmt.Sscanf(l, "block %d: offset=%d length=%d", &i, &off, &n); err == nil {
						addBlock("blobvalue", off, n, false)
					} else if _, err := fmt.Sscanf(l, "properties block: offset=%d length=%d", &off, &n); err == nil && n > 0 {
						addBlock("blobprops", off, n, true)
					}
				}
			case "fetch-fwd":
				nvals = len(o.lines)
			}
		}
		if nvals != len(bb.vals) {
			r.Inconclusive("blob %d: wrote %d values, fetched %d", fi, len(bb.vals), nvals)
			return
		}
		r.SetAdd("blob_formats", spec.Format.String())
		r.SetAdd("profiles", spec.Profile)
		r.Count("blob_values_written", int64(len(bb.vals)))
		if r.WantSample() {
			r.Sample(map[string]any{"file": fi, "spec": spec.String(), "bytes": len(bb.data), "values": len(bb.vals), "regions": len(regions)})
		}
		fut := &fileUnderTest{kind: "blob", desc: spec.String(), data: bb.data, read: read, regions: regions, verOff: -1, useCache: fi%3 == 0, nBlocks: len(regions) / 2, nPoints: len(bb.vals),
			baseReads: baselineWork.reads, baseBytes: baselineWork.bytes, baseLines: baselineWork.lines,
			cfgKey: fmt.Sprintf("%s/%s/%s", spec.Format, spec.Checksum, spec.Profile)}
		runFile(r, fi, rng, fut, baseline)
	})
}
