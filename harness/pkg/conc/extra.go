package conc

import (
	"context"
	"fmt"
	"math/rand/v2"
	"sort"
	"sync"

	"github.com/cockroachdb/pebble"
	"github.com/cockroachdb/pebble/objstorage/objstorageprovider"
	"github.com/cockroachdb/pebble/sstable"
	"github.com/cockroachdb/pebble/vfs"
)

// overlap records which API kinds were observed running at the same time.
type overlap struct {
	mu     sync.Mutex
	active map[string]int
	seen   map[string]struct{}
}

func newOverlap() *overlap { return &overlap{active: map[string]int{}, seen: map[string]struct{}{}} }

func (o *overlap) begin(name string) func() {
	o.mu.Lock()
	for other, n := range o.active {
		if n > 0 {
			a, b := name, other
			if a > b {
				a, b = b, a
			}
			o.seen[a+"||"+b] = struct{}{}
		}
	}
	o.active[name]++
	o.mu.Unlock()
	return func() {
		o.mu.Lock()
		o.active[name]--
		o.mu.Unlock()
	}
}

func (o *overlap) pairs() []string {
	o.mu.Lock()
	defer o.mu.Unlock()
	var out []string
	for p := range o.seen {
		out = append(out, p)
	}
	sort.Strings(out)
	return out
}

// ingestPrivate ingests a table into the private "z" range, or excises part of it.
func (w *World) ingestPrivate(r *rand.Rand, n int) error {
	// The private range is written by this goroutine only, one operation after
	// the other, so its contents after every operation are known exactly: any
	// view must show the range as it was after SOME operation (zCheck).
	w.zmu.Lock()
	if len(w.zStates) == 0 {
		w.zStates = append(w.zStates, map[string]string{})
	}
	cur := w.zStates[len(w.zStates)-1]
	next := make(map[string]string, len(cur)+3)
	for k, v := range cur {
		next[k] = v
	}
	w.zmu.Unlock()
	publish := func() {
		w.zmu.Lock()
		w.zStates = append(w.zStates, next)
		w.zmu.Unlock()
	}
	if r.IntN(4) == 0 {
		for k := range next {
			if k >= "za" && k < "zm" {
				delete(next, k)
			}
		}
		publish()
		err := w.DB.Excise(context.Background(), pebble.KeyRange{Start: []byte("za"), End: []byte("zm")})
		w.zDone.Store(int64(len(w.zStates) - 1))
		return err
	}
	path := fmt.Sprintf("ext/z-%d.sst", n)
	_ = w.FS.MkdirAll("ext", 0o755)
	f, err := w.FS.Create(path, vfs.WriteCategoryUnspecified)
	if err != nil {
		return err
	}
	wr := sstable.NewWriter(objstorageprovider.NewFileWritable(f), w.Opts.MakeWriterOptions(0, w.DB.TableFormat()))
	base := r.IntN(20)
	for j := 0; j < 3; j++ {
		k := fmt.Sprintf("z%c%c", 'a'+byte((base+j)/26%26), 'a'+byte((base+j)%26))
		next[k] = fmt.Sprintf("ing%d", n)
		if err := wr.Set([]byte(k), []byte(fmt.Sprintf("ing%d", n))); err != nil {
			wr.Close()
			return err
		}
	}
	if err := wr.Close(); err != nil {
		return err
	}
	publish()
	err = w.DB.Ingest(context.Background(), []string{path})
	w.zDone.Store(int64(len(w.zStates) - 1))
	return err
}

// zCheck compares the private range of one view with the known sequence of
// its states: the view must equal the state after some operation j with
// lower <= j <= (operations issued by the end of the scan).
func (w *World) zCheck(what string, pts map[string]string, lower int64) {
	w.zmu.Lock()
	states := w.zStates
	w.zmu.Unlock()
	if len(states) == 0 {
		return
	}
	got := map[string]string{}
	for k, v := range pts {
		if len(k) == 3 && k[0] == 'z' {
			got[k] = v
		}
	}
	if lower < 0 || lower >= int64(len(states)) {
		lower = 0
	}
	for j := int(lower); j < len(states); j++ {
		st := states[j]
		if len(st) != len(got) {
			continue
		}
		same := true
		for k, v := range st {
			if got[k] != v {
				same = false
				break
			}
		}
		if same {
			w.count("private-range-views-matched")
			return
		}
	}
	var ks []string
	for k, v := range got {
		ks = append(ks, k+"="+v)
	}
	sort.Strings(ks)
	var last []string
	for k, v := range states[len(states)-1] {
		last = append(last, k+"="+v)
	}
	sort.Strings(last)
	w.fail("private-range-state-unknown", "%s: the private range [z,..) shows %v, which is its state after NO operation j in [%d,%d] of the single goroutine that ingests into it and excises [za,zm) (state after the last operation: %v): excised keys reappeared, an ingest was applied partially, or writes were lost",
		what, ks, lower, len(states)-1, last)
}

// checkpointAndScan takes a checkpoint, opens it and checks the group-token
// invariant on it (a checkpoint is a consistent prefix, so every group must be
// whole in it too).
func (w *World) checkpointAndScan(dir string) error {
	if err := w.DB.Checkpoint(dir, pebble.WithFlushedWAL()); err != nil {
		return err
	}
	o := w.Opts.Clone()
	o.FS = w.FS
	o.DebugCheck = nil
	o.DisableAutomaticCompactions = true
	o.EventListener = nil
	db, err := pebble.Open(dir, o)
	if err != nil {
		return fmt.Errorf("opening checkpoint: %w", err)
	}
	cw := &World{R: w.R, Case: w.Case, DB: db, Groups: w.Groups}
	// private deep copy of the batch registry (taken under the parent's lock)
	w.mu.Lock()
	cp := make(map[string]*batchRec, len(w.batches))
	for k, v := range w.batches {
		c := *v
		cp[k] = &c
	}
	w.mu.Unlock()
	cw.batches = cp
	cw.scanView("checkpoint-iter", db, false)
	if cw.failed.Load() {
		w.failed.Store(true)
	}
	if err := db.Close(); err != nil {
		return fmt.Errorf("closing checkpoint: %w", err)
	}
	return w.FS.RemoveAll(dir)
}

// writeMarker writes marker number n: a unique key y<n> that is never deleted,
// alternately through an ingested table (which overlaps nothing, so it goes
// straight into the LSM) and through a committed batch. Markers are written by
// ONE goroutine, one after the other, so marker n+1 is sequenced after marker
// n has completed: every consistent prefix of the history (an iterator or
// snapshot view, a checkpoint) holds exactly the markers 0..m-1 for some m.
func (w *World) writeMarker(r *rand.Rand, chain, n int) error {
	defer markerOps.Add(1)
	key := []byte(fmt.Sprintf("y%d%06d", chain, n))
	if n%2 == 0 {
		path := fmt.Sprintf("ext/y%d-%d.sst", chain, n)
		_ = w.FS.MkdirAll("ext", 0o755)
		f, err := w.FS.Create(path, vfs.WriteCategoryUnspecified)
		if err != nil {
			return err
		}
		wr := sstable.NewWriter(objstorageprovider.NewFileWritable(f), w.Opts.MakeWriterOptions(0, w.DB.TableFormat()))
		if err := wr.Set(key, []byte("m")); err != nil {
			wr.Close()
			return err
		}
		if err := wr.Close(); err != nil {
			return err
		}
		return w.DB.Ingest(context.Background(), []string{path})
	}
	wo := pebble.NoSync
	if r.IntN(2) == 0 {
		wo = pebble.Sync
	}
	return w.DB.Set(key, []byte("m"), wo)
}

// markersClosed checks the marker rule on the point keys of one view.
func (w *World) markersClosed(what string, pts map[string]string) {
	chains := map[byte][]int{}
	for k := range pts {
		if len(k) == 8 && k[0] == 'y' {
			n := 0
			fmt.Sscanf(k[2:], "%d", &n)
			chains[k[1]] = append(chains[k[1]], n)
		}
	}
	if len(chains) == 0 {
		return
	}
	w.count("marker-views")
	for c, idx := range chains {
		w.markerChainClosed(what, c, idx)
	}
}

func (w *World) markerChainClosed(what string, chain byte, idx []int) {
	sort.Ints(idx)
	if markerDebug && what == "checkpoint-iter" {
		fmt.Printf("MARKERDBG %s chain %c: %d markers, last %d (ops so far %d)\n", what, chain, len(idx), idx[len(idx)-1], markerOps.Load())
	}
	for i, n := range idx {
		if n != i {
			w.fail("view-not-a-prefix", "%s: the view holds marker %d of chain %c but not marker %d (the markers of a chain are written one after the other by a single goroutine, alternately by Ingest and by Set; %d markers in the view, highest %d): the view is not a prefix of the history",
				what, n, chain, i, len(idx), idx[len(idx)-1])
			return
		}
	}
}

var markerDebug = false
