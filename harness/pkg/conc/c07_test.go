package conc

import (
	"fmt"
	"io"
	"math/rand/v2"
	"sort"
	"strconv"
	"strings"
	"sync"
	"testing"
	"time"

	"github.com/anishathalye/porcupine"
	"github.com/cockroachdb/pebble"
	"github.com/cockroachdb/pebble/batchrepr"
	"github.com/cockroachdb/pebble/internal/verif/vcommon"
	"github.com/cockroachdb/pebble/vfs"
	"github.com/cockroachdb/pebble/wal"
)

type regIn struct {
	Key   string
	Write bool
	Del   bool
	Val   string
}

var registerModel = porcupine.Model{
	Partition: func(history []porcupine.Operation) [][]porcupine.Operation {
		m := map[string][]porcupine.Operation{}
		for _, op := range history {
			k := op.Input.(regIn).Key
			m[k] = append(m[k], op)
		}
		var out [][]porcupine.Operation
		for _, v := range m {
			out = append(out, v)
		}
		return out
	},
	Init: func() interface{} { return "" },
	Step: func(state, input, output interface{}) (bool, interface{}) {
		in := input.(regIn)
		if in.Write {
			if in.Del {
				return true, ""
			}
			return true, in.Val
		}
		return output.(string) == state.(string), state
	},
	DescribeOperation: func(input, output interface{}) string {
		in := input.(regIn)
		if in.Write {
			if in.Del {
				return "del(" + in.Key + ")"
			}
			return "set(" + in.Key + "," + in.Val + ")"
		}
		return "get(" + in.Key + ")=" + output.(string)
	},
}

type c07batch struct {
	committer, n int
	seq          uint64
	count        uint32
	call, ret    int64
}

// TestVerifC07: read-your-writes and monotone visibility under concurrent commits.
func TestVerifC07(t *testing.T) {
	R := vcommon.NewReport("C07", "main")
	defer R.Finish(t)
	R.Rule("Each run: 2-48 committers on one DB; batch j of committer c writes c's own progress key (value j) plus 0-3 hot keys (unique values, Set or " +
		"Delete) and filler keys, with Sync / NoSync / ApplyNoSyncWait and forced WAL rotations (small memtable); readers issue Gets on hot keys and " +
		"full scans. Oracles: (a) per-key linearizability of the hot-key Set/Delete/Get history (porcupine, register model, partitioned by key, " +
		"timeout => inconclusive); (b) (SeqNum, Count) of all committed batches tile the sequence space without gap or overlap; (c) every scan's " +
		"set of visible batches is a down-set in sequence order: seeing batch b implies seeing the latest batch of every other committer with a " +
		"smaller sequence number; (d) successive scans of one reader never lose a batch; (e) the WAL read back (wal.Scan + OpenForRead) lists batch " +
		"headers in strictly increasing sequence order. distinct_nontrivial = per-key histories with concurrent overlapping writes + scans that ran while commits were in flight (bucketed).")
	ys := &yieldStats{hits: map[string]int64{}}
	n := vcommon.Scale(10, 200)
	R.Cases(n, func(i int, rng *rand.Rand) {
		restore := installYields(vcommon.Seed()*6007+uint64(i), ys)
		defer restore()
		fs := vfs.NewMem()
		db, _, err := openDB(rng, fs, []uint64{32 << 10, 64 << 10, 1 << 20}[rng.IntN(3)])
		if err != nil {
			R.Violate("open-error", err.Error(), nil, nil)
			return
		}
		nc := []int{2, 4, 8, 16, 48}[rng.IntN(5)]
		per := vcommon.Scale(1200, 3000) / nc
		hot := []string{"ha", "hb", "hc", "hd"}[:2+rng.IntN(3)]
		var clock atomicClock
		var mu sync.Mutex
		var ops []porcupine.Operation
		batches := map[[2]int]*c07batch{}
		var failed bool
		var failMu sync.Mutex
		fail := func(class, format string, a ...any) {
			failMu.Lock()
			defer failMu.Unlock()
			if failed {
				return
			}
			failed = true
			R.Violate(class, fmt.Sprintf("[case %d] ", i)+fmt.Sprintf(format, a...), map[string]any{"case": i}, map[string]any{"class": class})
		}
		isFailed := func() bool { failMu.Lock(); defer failMu.Unlock(); return failed }
		ownKey := func(c int) string { return "o" + string(rune('a'+c/26)) + string(rune('a'+c%26)) }
		var wg sync.WaitGroup
		stop := make(chan struct{})
		for c := 0; c < nc; c++ {
			wg.Add(1)
			go func(c int) {
				defer wg.Done()
				r := rand.New(rand.NewPCG(uint64(i)*1009+uint64(c), vcommon.Seed()))
				for j := 1; j <= per && !isFailed(); j++ {
					b := db.NewBatch()
					_ = b.Set([]byte(ownKey(c)), []byte(strconv.Itoa(j)), nil)
					var wr []regIn
					used := map[string]bool{}
					nh := r.IntN(3)
					if c >= 6 || j > 250 {
						nh = 0 // keep the register histories small enough for the checker: 6 writers, 250 batches each
					}
					for h := 0; h < nh; h++ {
						k := hot[r.IntN(len(hot))]
						if used[k] {
							continue
						}
						used[k] = true
						if r.IntN(5) == 0 {
							_ = b.Delete([]byte(k), nil)
							wr = append(wr, regIn{Key: k, Write: true, Del: true})
						} else {
							v := fmt.Sprintf("%d.%d", c, j)
							_ = b.Set([]byte(k), []byte(v), nil)
							wr = append(wr, regIn{Key: k, Write: true, Val: v})
						}
					}
					for f := 0; f < r.IntN(4); f++ {
						_ = b.Set([]byte("f"+string(rune('a'+r.IntN(26)))), []byte(strings.Repeat("x", r.IntN(300))), nil)
					}
					rec := &c07batch{committer: c, n: j}
					mu.Lock()
					batches[[2]int{c, j}] = rec
					rec.call = clock.tick()
					mu.Unlock()
					var err error
					switch r.IntN(4) {
					case 0:
						err = b.Commit(pebble.Sync)
					case 1:
						err = db.ApplyNoSyncWait(b, pebble.Sync)
						if err == nil {
							err = b.SyncWait()
						}
					default:
						err = db.Apply(b, pebble.NoSync)
					}
					ret := clock.tick()
					if err != nil {
						fail("commit-error", "%v", err)
						return
					}
					mu.Lock()
					rec.seq, rec.count, rec.ret = uint64(b.SeqNum()), b.Count(), ret
					for _, w := range wr {
						ops = append(ops, porcupine.Operation{ClientId: c, Input: w, Call: rec.call, Output: "", Return: ret})
					}
					mu.Unlock()
					b.Close()
				}
			}(c)
		}
		// getters
		var rg sync.WaitGroup
		ng := 2 + rng.IntN(3)
		for g := 0; g < ng; g++ {
			rg.Add(1)
			go func(g int) {
				defer rg.Done()
				r := rand.New(rand.NewPCG(uint64(i)*4001+uint64(g), vcommon.Seed()))
				for !isFailed() {
					select {
					case <-stop:
						return
					default:
					}
					k := hot[r.IntN(len(hot))]
					call := clock.tick()
					v, cl, err := db.Get([]byte(k))
					out := ""
					if err == nil {
						out = string(v)
						cl.Close()
					} else if err != pebble.ErrNotFound {
						fail("get-error", "%v", err)
						return
					}
					ret := clock.tick()
					mu.Lock()
					if len(ops) < 6000 {
						ops = append(ops, porcupine.Operation{ClientId: 1000 + g, Input: regIn{Key: k}, Call: call, Output: out, Return: ret})
					}
					mu.Unlock()
					if r.IntN(4) == 0 {
						time.Sleep(50 * time.Microsecond)
					}
				}
			}(g)
		}
		// scanners: down-set + monotonicity
		type scanRec struct {
			reader int
			seen   map[int]int
			t0, t1 int64
		}
		var scans []scanRec
		for s := 0; s < 2; s++ {
			rg.Add(1)
			go func(s int) {
				defer rg.Done()
				for !isFailed() {
					select {
					case <-stop:
						return
					default:
					}
					t0 := clock.tick()
					it, err := db.NewIter(&pebble.IterOptions{LowerBound: []byte("o"), UpperBound: []byte("p")})
					if err != nil {
						fail("iter-error", "%v", err)
						return
					}
					seen := map[int]int{}
					for ok := it.First(); ok; ok = it.Next() {
						k := it.Key()
						c := int(k[1]-'a')*26 + int(k[2]-'a')
						j, _ := strconv.Atoi(string(it.Value()))
						seen[c] = j
					}
					if err := it.Close(); err != nil {
						fail("iter-error", "%v", err)
						return
					}
					mu.Lock()
					if len(scans) < 20000 {
						scans = append(scans, scanRec{reader: s, seen: seen, t0: t0, t1: clock.tick()})
					}
					mu.Unlock()
				}
			}(s)
		}
		wg.Wait()
		close(stop)
		rg.Wait()
		R.Eval(1)
		if isFailed() {
			db.Close()
			return
		}
		// (b) tiling
		var bs []*c07batch
		for _, b := range batches {
			if b.ret != 0 {
				bs = append(bs, b)
			}
		}
		sort.Slice(bs, func(a, b int) bool { return bs[a].seq < bs[b].seq })
		for k := 1; k < len(bs); k++ {
			pe := bs[k-1].seq + uint64(bs[k-1].count)
			if bs[k].seq < pe {
				fail("seqnum-overlap", "batches %d.%d [%d,+%d) and %d.%d [%d,+%d) overlap", bs[k-1].committer, bs[k-1].n, bs[k-1].seq, bs[k-1].count, bs[k].committer, bs[k].n, bs[k].seq, bs[k].count)
			} else if bs[k].seq != pe {
				fail("seqnum-gap", "sequence numbers [%d,%d) between batches %d.%d and %d.%d belong to no committed batch", pe, bs[k].seq, bs[k-1].committer, bs[k-1].n, bs[k].committer, bs[k].n)
			}
		}
		R.Count("seq_ranges_checked", int64(len(bs)))
		// real-time order implies sequence order (commit order = WAL order = sequence order)
		// (c)+(d) down-set and monotonicity
		perC := map[int][]*c07batch{}
		for _, b := range bs {
			perC[b.committer] = append(perC[b.committer], b)
		}
		last := map[int]map[int]int{}
		inflightScans := 0
		for _, sc := range scans {
			var newest uint64
			for c, j := range sc.seen {
				b := batches[[2]int{c, j}]
				if b == nil {
					fail("phantom-batch", "scan saw progress %d of committer %d which was never issued", j, c)
					break
				}
				if b.ret != 0 && b.seq > newest {
					newest = b.seq
				}
			}
			for c, list := range perC {
				// latest batch of c with seq < newest must be visible (progress >= its n)
				want := 0
				for _, b := range list {
					if b.seq < newest && b.n > want {
						want = b.n
					}
				}
				if sc.seen[c] < want {
					fail("visibility-not-prefix-closed", "a scan saw a batch with sequence number %d but only progress %d of committer %d although its batch %d has a smaller sequence number (visible sequence number covered an unapplied batch)", newest, sc.seen[c], c, want)
					break
				}
			}
			if prev := last[sc.reader]; prev != nil {
				for c, j := range prev {
					if sc.seen[c] < j {
						fail("visibility-went-backwards", "reader %d saw progress %d of committer %d after having seen %d", sc.reader, sc.seen[c], c, j)
						break
					}
				}
			}
			last[sc.reader] = sc.seen
			for _, b := range bs {
				if b.call <= sc.t1 && b.ret >= sc.t0 {
					inflightScans++
					break
				}
			}
		}
		R.Count("scans_checked", int64(len(scans)))
		R.Count("scans_overlapping_inflight_commits", int64(inflightScans))
		// (a) linearizability
		res := porcupine.CheckOperationsTimeout(registerModel, ops, 60*time.Second)
		R.Count("register_ops_checked", int64(len(ops)))
		switch res {
		case porcupine.Illegal:
			fail("not-linearizable", "the Set/Delete/Get history of the hot keys is not linearizable (%d operations, %d keys)", len(ops), len(hot))
		case porcupine.Unknown:
			R.Inconclusive("case %d: porcupine timed out on %d operations", i, len(ops))
		}
		// (e) WAL order
		if err := db.Close(); err != nil {
			fail("close-error", "%v", err)
			return
		}
		logs, err := wal.Scan(wal.Dir{FS: fs, Dirname: "db"})
		if err != nil {
			fail("wal-scan-error", "%v", err)
			return
		}
		var prevSeq uint64
		nrec := 0
		for _, ll := range logs {
			rd := ll.OpenForRead()
			for {
				rr, _, err := rd.NextRecord()
				if err != nil {
					break
				}
				data, err := io.ReadAll(rr)
				if err != nil || len(data) < batchrepr.HeaderLen {
					break
				}
				h, ok := batchrepr.ReadHeader(data)
				if !ok {
					break
				}
				if h.Count > 0 {
					if uint64(h.SeqNum) <= prevSeq && nrec > 0 {
						fail("wal-order", "WAL %s lists a batch with sequence number %d after one with %d", ll.Num, h.SeqNum, prevSeq)
					}
					prevSeq = uint64(h.SeqNum)
					nrec++
				}
			}
			rd.Close()
		}
		R.Count("wal_records_checked", int64(nrec))
		R.Distinct("run", i, nc, len(hot), inflightScans/100)
		for b := 0; b < inflightScans/500; b++ {
			R.Distinct("inflight", i, b)
		}
		if i == 0 {
			R.Sample(map[string]any{"case": i, "committers": nc, "batches": len(bs), "hot_keys": hot, "register_ops": len(ops), "scans": len(scans), "wal_records": nrec})
		}
	})
	ys.mu.Lock()
	for s, h := range ys.hits {
		R.Count("hook_hits["+s+"]", h)
	}
	ys.mu.Unlock()
}

type atomicClock struct {
	mu sync.Mutex
	t  int64
}

func (c *atomicClock) tick() int64 { c.mu.Lock(); c.t++; v := c.t; c.mu.Unlock(); return v }
