package conc

import (
	"fmt"
	"math/rand/v2"
	"sync"
	"testing"
	"time"

	"github.com/cockroachdb/pebble/internal/verif/vcommon"
)

// TestVerifC38Conc: a checkpoint taken while ingests and commits are in
// flight is a prefix of the history. Only marker writers run next to the
// checkpointer (no memtable rotation in between, so the WAL that is copied is
// the one being written): three chains of markers, each written one after the
// other by one goroutine, alternately by Ingest (straight into the LSM) and by
// a committed Set (into the WAL).
func TestVerifC38Conc(t *testing.T) {
	R := vcommon.NewReport("C38", "conc")
	defer R.Finish(t)
	R.Rule("Quiet store (1 MiB memtable, no other writers): 3 marker chains (marker n+1 of a chain is issued after marker n completed; even markers are ingested " +
		"tables, odd markers are Set commits, Sync or NoSync) run concurrently with a goroutine taking checkpoints WithFlushedWAL; a seeded hold at the " +
		"yield point after Checkpoint released the DB mutexes keeps the checkpoint open until several markers completed. Each checkpoint is opened and " +
		"scanned: per chain it must hold exactly markers 0..m-1. distinct_nontrivial = checkpoints x markers completed while the checkpoint was open (bucketed).")
	ys := &yieldStats{hits: map[string]int64{}}
	n := vcommon.Scale(10, 120)
	R.Cases(n, func(i int, rng *rand.Rand) {
		restore := installYields(vcommon.Seed()*15485863+uint64(i), ys)
		defer restore()
		w := newWorld(R, i, rng, 1<<20)
		if w == nil {
			return
		}
		var wg sync.WaitGroup
		stop := make(chan struct{})
		for chain := 0; chain < 3; chain++ {
			wg.Add(1)
			go func(chain int) {
				defer wg.Done()
				r := rand.New(rand.NewPCG(uint64(i)*97+uint64(chain), vcommon.Seed()))
				for n := 0; !w.failed.Load(); n++ {
					select {
					case <-stop:
						return
					default:
					}
					if err := w.writeMarker(r, chain, n); err != nil {
						w.fail("marker-error", "%v", err)
						return
					}
					w.count("marker")
				}
			}(chain)
		}
		nck := vcommon.Scale(12, 30)
		for c := 0; c < nck && !w.failed.Load(); c++ {
			before := markerOps.Load()
			if err := w.checkpointAndScan(fmt.Sprintf("ckpt-%d", c)); err != nil {
				w.fail("checkpoint-error", "%v", err)
			}
			R.Distinct("ckpt", i, c, (markerOps.Load()-before)/4)
			w.count("checkpoint")
			time.Sleep(time.Duration(rng.IntN(3)) * time.Millisecond)
		}
		close(stop)
		wg.Wait()
		R.Eval(1)
		w.report()
		if err := w.DB.Close(); err != nil {
			w.fail("close-error", "Close: %v", err)
		}
	})
}
