package conc

import (
	"context"
	"fmt"
	"math/rand/v2"
	"os"
	"strings"
	"sync"
	"testing"
	"time"

	"github.com/cockroachdb/pebble"
	"github.com/cockroachdb/pebble/internal/base"
	"github.com/cockroachdb/pebble/internal/verif/vcommon"
	"github.com/cockroachdb/pebble/rangekey"
	"github.com/cockroachdb/pebble/vfs"
)

func newWorld(R *vcommon.Report, i int, rng *rand.Rand, memSize uint64) *World {
	var fs vfs.FS = vfs.NewMem()
	if rng.IntN(2) == 0 {
		fs = &slowManifestFS{FS: fs, seed: rng.Uint64()}
	}
	db, o, err := openDB(rng, fs, memSize)
	if err != nil {
		R.Violate("open-error", err.Error(), nil, nil)
		return nil
	}
	w := &World{R: R, Case: i, DB: db, Opts: o, FS: fs, Groups: 3 + rng.IntN(4), batches: map[string]*batchRec{}}
	// same formula as open.go: (MemTableSize - memTableEmptySize)/2; the empty size is a few hundred bytes
	w.largeThreshold = int(memSize/2) - 512
	return w
}

func (w *World) report() {
	w.R.Count("views_checked", w.views.Load())
	w.R.Count("views_overlapping_an_inflight_batch_on_a_group_they_read", w.viewsInFlight.Load())
	w.opCounts.Range(func(k, v any) bool {
		w.R.Count("ops["+k.(string)+"]", v.(interface{ Load() int64 }).Load())
		return true
	})
}

// TestVerifC06: batches are atomic to every reader, including large batches.
func TestVerifC06(t *testing.T) {
	R := vcommon.NewReport("C06", "main")
	defer R.Finish(t)
	R.Rule("Each run: 4-12 committers and 4-8 readers on one DB with a small memtable (batch sizes drawn around the large-batch threshold: 1/4, 1/2, 1, 2 x " +
		"threshold +-1); every batch rewrites ALL keys and the range key of 1-2 key groups with one fresh token (optionally after a DeleteRange of " +
		"the group / Deletes), committed with Sync, NoSync or ApplyNoSyncWait; readers take consistent views (one iterator forward or backward, a " +
		"snapshot read by Gets, a snapshot iterator) and require every group to carry exactly one token on all keys and the range key, issued by a " +
		"started batch. Seeded yields at the commit-pipeline and newIter hook sites widen the windows. distinct_nontrivial = runs x views that " +
		"overlapped an in-flight batch on a group they read (bucketed).")
	ys := &yieldStats{hits: map[string]int64{}}
	n := vcommon.Scale(8, 240)
	R.Cases(n, func(i int, rng *rand.Rand) {
		restore := installYields(vcommon.Seed()*7919+uint64(i), ys)
		defer restore()
		memSize := []uint64{32 << 10, 64 << 10, 128 << 10}[rng.IntN(3)]
		w := newWorld(R, i, rng, memSize)
		if w == nil {
			return
		}
		nc, nr := 4+rng.IntN(9), 4+rng.IntN(5)
		perCommitter := vcommon.Scale(100, 250)
		var wg sync.WaitGroup
		stop := make(chan struct{})
		for c := 0; c < nc; c++ {
			wg.Add(1)
			go func(c int) {
				defer wg.Done()
				r := rand.New(rand.NewPCG(uint64(i)*1000+uint64(c), vcommon.Seed()))
				for n := 0; n < perCommitter && !w.failed.Load(); n++ {
					w.commitOne(r, c, n)
				}
			}(c)
		}
		var rg sync.WaitGroup
		for rd := 0; rd < nr; rd++ {
			rg.Add(1)
			go func(rd int) {
				defer rg.Done()
				r := rand.New(rand.NewPCG(uint64(i)*7777+uint64(rd), vcommon.Seed()))
				for !w.failed.Load() {
					select {
					case <-stop:
						return
					default:
					}
					switch r.IntN(4) {
					case 0:
						w.scanView("db-iter forward", w.DB, false)
					case 1:
						w.scanView("db-iter backward", w.DB, true)
					case 2:
						s := w.DB.NewSnapshot()
						w.snapView(s)
						s.Close()
					default:
						s := w.DB.NewSnapshot()
						w.scanView("snapshot-iter", s, r.IntN(2) == 0)
						s.Close()
					}
				}
			}(rd)
		}
		// a flusher creating memtable rotations under the committers
		rg.Add(1)
		go func() {
			defer rg.Done()
			for {
				select {
				case <-stop:
					return
				case <-time.After(3 * time.Millisecond):
					_, _ = w.DB.AsyncFlush()
					w.count("async-flush")
				}
			}
		}()
		wg.Wait()
		close(stop)
		rg.Wait()
		w.finalCheck()
		w.seqTiling(false)
		R.Eval(1)
		w.report()
		R.Distinct("run", i, w.viewsInFlight.Load()/50)
		for b := int64(0); b < w.viewsInFlight.Load()/200; b++ {
			R.Distinct("inflight-views", i, b)
		}
		if i == 0 {
			R.Sample(map[string]any{"case": i, "committers": nc, "readers": nr, "groups": w.Groups, "memtable": memSize,
				"views": w.views.Load(), "views_in_flight": w.viewsInFlight.Load()})
		}
		if err := w.DB.Close(); err != nil {
			w.fail("close-error", "Close: %v", err)
		}
	})
	ys.mu.Lock()
	for s, h := range ys.hits {
		R.Count("hook_hits["+s+"]", h)
	}
	ys.mu.Unlock()
}

// TestVerifC42: concurrent use permitted by the API is race- and deadlock-free.
func TestVerifC42(t *testing.T) {
	R := vcommon.NewReport("C42", "main")
	defer R.Finish(t)
	R.Rule("Each run drives every API the contract allows concurrently on one DB under the race detector: committers (all sync modes, large batches), " +
		"Gets, iterators and snapshot readers each on their own goroutine, Flush/AsyncFlush, manual Compact, Ingest and Excise of a private key " +
		"range, Checkpoint (opened and scanned), Metrics/SSTables/EstimateDiskUsage/ScanInternal, with automatic compactions at concurrency up to 4 " +
		"and all verifhook yields on; oracles: race detector, panics/assertions (invariants are on under -race), no-progress watchdog (process " +
		"timeout => goroutine dump), group-token atomicity in every view, sequence-range tiling, final state = highest-sequence batch per group, " +
		"CheckLevels. distinct_nontrivial = distinct pairs of API kinds observed overlapping in time (per run).")
	ys := &yieldStats{hits: map[string]int64{}}
	n := vcommon.Scale(6, 120)
	R.Cases(n, func(i int, rng *rand.Rand) {
		restore := installYields(vcommon.Seed()*104729+uint64(i), ys)
		defer restore()
		w := newWorld(R, i, rng, []uint64{64 << 10, 256 << 10}[rng.IntN(2)])
		if w == nil {
			return
		}
		ov := newOverlap()
		var wg sync.WaitGroup
		stop := make(chan struct{})
		spawn := func(name string, f func(r *rand.Rand)) {
			if strings.Contains(","+os.Getenv("VERIF_C42_DISABLE")+",", ","+name+",") {
				return // debugging aid: leave one API out
			}
			if only := os.Getenv("VERIF_C42_ONLY"); only != "" && !strings.Contains(","+only+",", ","+name+",") {
				return
			}
			wg.Add(1)
			go func() {
				defer wg.Done()
				r := rand.New(rand.NewPCG(uint64(i)*31+uint64(len(name)), vcommon.Seed()+uint64(len(name))*13))
				for !w.failed.Load() {
					select {
					case <-stop:
						return
					default:
					}
					done := ov.begin(name)
					f(r)
					done()
					w.count(name)
				}
			}()
		}
		nc := 4 + rng.IntN(6)
		per := vcommon.Scale(150, 300)
		var cw sync.WaitGroup
		for c := 0; c < nc; c++ {
			cw.Add(1)
			go func(c int) {
				defer cw.Done()
				r := rand.New(rand.NewPCG(uint64(i)*1000+uint64(c), vcommon.Seed()))
				for n := 0; n < per && !w.failed.Load(); n++ {
					done := ov.begin("commit")
					w.commitOne(r, c, n)
					done()
				}
			}(c)
		}
		spawn("get", func(r *rand.Rand) {
			k := groupKeys(r.IntN(w.Groups))[r.IntN(keysPerGroup)]
			_, c, err := w.DB.Get([]byte(k))
			if err == nil {
				c.Close()
			} else if err != pebble.ErrNotFound {
				w.fail("get-error", "Get: %v", err)
			}
		})
		spawn("iter", func(r *rand.Rand) { w.scanView("db-iter", w.DB, r.IntN(2) == 0) })
		spawn("iter2", func(r *rand.Rand) { w.scanView("db-iter", w.DB, r.IntN(2) == 0) })
		spawn("snapshot", func(r *rand.Rand) {
			s := w.DB.NewSnapshot()
			if r.IntN(2) == 0 {
				w.snapView(s)
			} else {
				w.scanView("snapshot-iter", s, false)
			}
			s.Close()
		})
		spawn("flush", func(r *rand.Rand) {
			if r.IntN(2) == 0 {
				if err := w.DB.Flush(); err != nil {
					w.fail("flush-error", "Flush: %v", err)
				}
			} else if ch, err := w.DB.AsyncFlush(); err == nil {
				<-ch
			}
			time.Sleep(2 * time.Millisecond)
		})
		spawn("compact", func(r *rand.Rand) {
			lo, hi := groupSpan(r.IntN(w.Groups))
			if err := w.DB.Compact(context.Background(), []byte(lo), []byte(hi), r.IntN(2) == 0); err != nil {
				w.fail("compact-error", "Compact: %v", err)
			}
			time.Sleep(2 * time.Millisecond)
		})
		spawn("metrics", func(r *rand.Rand) {
			_ = w.DB.Metrics().String()
			_, _ = w.DB.SSTables()
			_, _ = w.DB.EstimateDiskUsage([]byte("a"), []byte("z"))
			time.Sleep(time.Millisecond)
		})
		spawn("scan-internal", func(r *rand.Rand) {
			lo, hi := groupSpan(r.IntN(w.Groups))
			err := w.DB.ScanInternal(context.Background(), pebble.ScanInternalOptions{
				IterOptions:   pebble.IterOptions{LowerBound: []byte(lo), UpperBound: []byte(hi), KeyTypes: pebble.IterKeyTypePointsAndRanges},
				VisitPointKey: func(key *pebble.InternalKey, value pebble.LazyValue, _ pebble.IteratorLevel) error { return nil },
				VisitRangeDel: func(start, end []byte, seqNum base.SeqNum) error { return nil },
				VisitRangeKey: func(start, end []byte, keys []rangekey.Key) error { return nil },
			})
			if err != nil {
				w.fail("scan-internal-error", "ScanInternal: %v", err)
			}
			time.Sleep(time.Millisecond)
		})
		// private key range (prefix "z") for ingest / excise: disjoint from the groups
		ingN := 0
		spawn("ingest-excise", func(r *rand.Rand) {
			ingN++
			if err := w.ingestPrivate(r, ingN); err != nil {
				w.fail("ingest-error", "%v", err)
			}
			time.Sleep(3 * time.Millisecond)
		})
		for chain := 0; chain < 3; chain++ {
			chain, mkN := chain, 0
			spawn(fmt.Sprintf("marker%d", chain), func(r *rand.Rand) {
				if err := w.writeMarker(r, chain, mkN); err != nil {
					w.fail("marker-error", "%v", err)
				}
				mkN++
			})
		}
		spawn("compact-private", func(r *rand.Rand) {
			// compactions that overlap the span the ingest-excise goroutine excises
			if err := w.DB.Compact(context.Background(), []byte("z"), []byte("zz"), r.IntN(2) == 0); err != nil {
				w.fail("compact-error", "Compact(z,zz): %v", err)
			}
			time.Sleep(time.Millisecond)
		})
		ckN := 0
		spawn("checkpoint", func(r *rand.Rand) {
			ckN++
			if err := w.checkpointAndScan(fmt.Sprintf("ckpt-%d", ckN)); err != nil {
				w.fail("checkpoint-error", "%v", err)
			}
			time.Sleep(5 * time.Millisecond)
		})
		cw.Wait()
		close(stop)
		wg.Wait()
		w.finalCheck()
		w.seqTiling(true) // ingests/excises take sequence numbers too
		R.Eval(1)
		w.report()
		for _, p := range ov.pairs() {
			R.Distinct("overlap", i, p)
			R.SetAdd("api_pairs_observed_overlapping", p)
		}
		if err := w.DB.Close(); err != nil {
			w.fail("close-error", "Close: %v", err)
		}
	})
	ys.mu.Lock()
	for s, h := range ys.hits {
		R.Count("hook_hits["+s+"]", h)
	}
	ys.mu.Unlock()
}
