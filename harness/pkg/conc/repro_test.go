package conc

import (
	"reflect"
	"fmt"
	"math/rand/v2"
	"os"
	"strings"
	"sync"
	"sync/atomic"
	"testing"

	"github.com/cockroachdb/pebble"
	"github.com/cockroachdb/pebble/vfs"
)

// TestReproAtomic is a debugging aid (not a registered check): minimal
// concurrent writers/readers with switchable batch features.
func TestReproAtomic(t *testing.T) {
	feat := os.Getenv("REPRO_FEAT") // any of: delrange,del,rk,large,indexed
	has := func(f string) bool { return strings.Contains(feat, f) }
	for iter := 0; iter < 30; iter++ {
		rng := rand.New(rand.NewPCG(uint64(iter), 7))
		fs := vfs.NewMem()
		db, _, err := openDB(rng, fs, 64<<10)
		if err != nil {
			t.Fatal(err)
		}
		keys := []string{"aa", "ab", "ac", "ad"}
		var stop atomic.Bool
		var wg, rg sync.WaitGroup
		var bad atomic.Value
		for c := 0; c < 6; c++ {
			wg.Add(1)
			go func(c int) {
				defer wg.Done()
				r := rand.New(rand.NewPCG(uint64(iter*100+c), 9))
				for n := 0; n < 400 && !stop.Load(); n++ {
					tok := fmt.Sprintf("%d.%d", c, n)
					pad := r.IntN(40)
					if has("large") && r.IntN(8) == 0 {
						pad = 9000
					}
					if pad == 9000 {
						tok = tok + "L"
					}
					val := []byte(tok + "|" + strings.Repeat("p", pad))
					b := db.NewBatch()
					if has("indexed") && r.IntN(3) == 0 {
						b = db.NewIndexedBatch()
					}
					if has("delrange") && r.IntN(4) == 0 {
						if err := b.DeleteRange([]byte("a"), []byte("b"), nil); err != nil {
							panic(err)
						}
					}
					for _, k := range keys {
						if has("del") && r.IntN(6) == 0 {
							if err := b.Delete([]byte(k), nil); err != nil {
								panic(err)
							}
						}
						if err := b.Set([]byte(k), val, nil); err != nil {
							panic(err)
						}
					}
					if has("rk") {
						if err := b.RangeKeySet([]byte("a"), []byte("b"), []byte("@1"), []byte(tok), nil); err != nil {
							panic(err)
						}
					}
					if err := b.Commit(pebble.NoSync); err != nil {
						panic(err)
					}
					b.Close()
				}
			}(c)
		}
		for rd := 0; rd < 2; rd++ {
			rg.Add(1)
			go func() {
				defer rg.Done()
				for !stop.Load() {
					o := &pebble.IterOptions{KeyTypes: pebble.IterKeyTypePointsOnly}
					if has("rk") {
						o.KeyTypes = pebble.IterKeyTypePointsAndRanges
					}
					it, _ := db.NewIter(o)
					var toks []string
					rk := ""
					for ok := it.First(); ok; ok = it.Next() {
						hp, hr := it.HasPointAndRange()
						if hp {
							toks = append(toks, string(it.Key())+"="+tokenOf(it.Value()))
						}
						if hr {
							for _, k := range it.RangeKeys() {
								rk = string(k.Value)
							}
						}
					}
					dbg := debugOf(it)
					it.Close()
					okv := len(toks) == 0 && rk == ""
					if len(toks) == 4 {
						okv = true
						t0 := strings.SplitN(toks[0], "=", 2)[1]
						for _, x := range toks {
							if strings.SplitN(x, "=", 2)[1] != t0 {
								okv = false
							}
						}
						if has("rk") && rk != t0 {
							okv = false
						}
					}
					if !okv {
						// second look through a fresh iterator and Gets
						it2, _ := db.NewIter(o)
						var again []string
						for ok := it2.First(); ok; ok = it2.Next() {
							if hp, _ := it2.HasPointAndRange(); hp {
								again = append(again, string(it2.Key())+"="+tokenOf(it2.Value()))
							}
						}
						it2.Close()
						bad.Store(fmt.Sprintf("iter %d: view %v rk=%q | immediately after: %v | ITER: %s", iter, toks, rk, again, dbg))
						stop.Store(true)
					}
				}
			}()
		}
		wg.Wait()
		stop.Store(true)
		rg.Wait()
		db.Close()
		if v := bad.Load(); v != nil {
			t.Fatalf("NON-ATOMIC feat=%q: %s", feat, v)
		}
	}
}

func debugOf(it *pebble.Iterator) string {
	v := reflect.ValueOf(it).Elem().FieldByName("VerifDebug")
	if v.IsValid() {
		return v.String()
	}
	return "(no debug field)"
}
