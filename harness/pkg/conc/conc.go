// Package conc holds the concurrency engines (C06, C07, C42): real concurrent
// clients on one pebble.DB under the race detector, with oracles that stay
// sound under concurrency (group-token atomicity, prefix-closed visibility in
// sequence-number order, per-key linearizability, sequence-range tiling).
package conc

import (
	"context"
	"fmt"
	"math/rand/v2"
	"os"
	"runtime"
	"sort"
	"strconv"
	"strings"
	"sync"
	"sync/atomic"
	"time"

	"github.com/cockroachdb/pebble"
	"github.com/cockroachdb/pebble/internal/testkeys"
	"github.com/cockroachdb/pebble/internal/verif/vcommon"
	"github.com/cockroachdb/pebble/internal/verifhook"
	"github.com/cockroachdb/pebble/sstable"
	"github.com/cockroachdb/pebble/sstable/colblk"
	"github.com/cockroachdb/pebble/vfs"
)

// markerOps counts completed marker writes (see writeMarker); the checkpoint
// yield point waits on it.
var markerOps atomic.Int64

// yieldStats counts hits per hook site.
type yieldStats struct {
	mu   sync.Mutex
	hits map[string]int64
}

// installYields installs a seeded yield function at the verifhook sites:
// mostly nothing, sometimes Gosched, sometimes a short sleep.
func installYields(seed uint64, ys *yieldStats) func() {
	if os.Getenv("VERIF_NO_YIELDS") != "" {
		return func() {}
	}
	var ctr atomic.Uint64
	prev := verifhook.Set(func(site string) {
		n := ctr.Add(1)
		// cheap hash of (seed, site, n)
		h := seed*0x9E3779B97F4A7C15 + n*0xBF58476D1CE4E5B9
		for i := 0; i < len(site); i++ {
			h = (h ^ uint64(site[i])) * 0x100000001B3
		}
		h ^= h >> 29
		if strings.HasPrefix(site, "checkpoint.") {
			// the window between capturing the version and copying the WALs:
			// long enough for other goroutines to complete an ingest and a commit
			if h%2 == 0 {
				// hold the checkpoint until a few more markers (ingest, then commit)
				// have completed, or 1.5 s have passed; only the schedule depends on it
				start, t0 := markerOps.Load(), time.Now()
				for markerOps.Load() < start+5 && time.Since(t0) < 1500*time.Millisecond {
					time.Sleep(2 * time.Millisecond)
				}
			}
			return
		}
		switch h % 64 {
		case 0, 1, 2, 3, 4, 5:
			runtime.Gosched()
		case 6, 7:
			time.Sleep(time.Duration(1+h%50) * time.Microsecond)
		case 8:
			time.Sleep(time.Duration(50+h%150) * time.Microsecond)
		}
		if n%64 == 0 {
			ys.mu.Lock()
			ys.hits[site] += 64
			ys.mu.Unlock()
		}
	})
	return func() { verifhook.Set(prev) }
}

type quietLogger struct{}

func (quietLogger) Infof(string, ...interface{})  {}
func (quietLogger) Errorf(string, ...interface{}) {}
func (quietLogger) Fatalf(f string, a ...interface{}) {
	panic("pebble Fatalf: " + fmt.Sprintf(f, a...))
}

func openDB(rng *rand.Rand, fs vfs.FS, memSize uint64) (*pebble.DB, *pebble.Options, error) {
	ks := colblk.DefaultKeySchema(testkeys.Comparer, 16)
	o := &pebble.Options{
		FS: fs, Comparer: testkeys.Comparer, KeySchema: ks.Name, KeySchemas: sstable.MakeKeySchemas(&ks),
		FormatMajorVersion:          pebble.FormatNewest,
		MemTableSize:                memSize,
		MemTableStopWritesThreshold: 8,
		L0CompactionThreshold:       2,
		L0StopWritesThreshold:       1000,
		LBaseMaxBytes:               64 << 10,
		Logger:                      quietLogger{},
		DebugCheck:                  pebble.DebugCheckLevels,
	}
	mc := 1 + rng.IntN(4)
	o.CompactionConcurrencyRange = func() (int, int) { return 1, mc }
	for i := range o.Levels {
		o.Levels[i].BlockSize = []int{64, 512, 4096}[rng.IntN(3)]
		o.TargetFileSizes[i] = []int64{2 << 10, 16 << 10, 2 << 20}[rng.IntN(3)]
	}
	o.EnsureDefaults()
	db, err := pebble.Open("db", o)
	return db, o, err
}

// ---------------------------------------------------------------------------
// group-token workload (C06, C42)

const keysPerGroup = 4

func groupKeys(g int) []string {
	p := string(rune('a' + g))
	ks := make([]string, keysPerGroup)
	for i := range ks {
		ks[i] = p + string(rune('a'+i))
	}
	return ks
}

func groupSpan(g int) (string, string) { return string(rune('a' + g)), string(rune('a' + g + 1)) }

// token = "<committer>.<counter>|" + padding
func tokenOf(v []byte) string {
	if i := strings.IndexByte(string(v), '|'); i >= 0 {
		return string(v[:i])
	}
	return string(v)
}

type batchRec struct {
	token     string
	groups    []int
	call      int64 // logical time before the commit call
	ret       int64 // logical time after it returned (0 = never)
	seq       uint64
	count     uint32
	size      int
	large     bool
	committer int
}

// World is one concurrent run on one DB.
type World struct {
	zmu             sync.Mutex
	zStates         []map[string]string // state of the private range after each of its operations
	zDone           atomic.Int64        // index of the last completed operation on the private range
	diagMu          sync.Mutex
	diag            map[int64]string // t0 -> extra diagnostics for a failing view
	AlwaysStability bool             // every iterator view is re-read and cloned (C04)
	R               *vcommon.Report
	Case            int
	DB              *pebble.DB
	Opts            *pebble.Options
	FS              vfs.FS
	Groups          int
	clock           atomic.Int64
	mu              sync.Mutex
	batches         map[string]*batchRec // by token
	failed          atomic.Bool
	largeThreshold  int

	views, viewsInFlight, rkViews atomic.Int64
	opCounts                      sync.Map // name -> *atomic.Int64
}

func (w *World) count(name string) {
	v, _ := w.opCounts.LoadOrStore(name, new(atomic.Int64))
	v.(*atomic.Int64).Add(1)
}

func (w *World) fail(class, format string, a ...any) {
	if w.failed.Swap(true) {
		return
	}
	w.R.Violate(class, fmt.Sprintf("[case %d] ", w.Case)+fmt.Sprintf(format, a...), map[string]any{"case": w.Case}, map[string]any{"class": class})
}

// commitOne builds and commits one batch that rewrites every key (and the range
// key) of 1-2 groups with one fresh token.
func (w *World) commitOne(rng *rand.Rand, committer int, n int) {
	tok := fmt.Sprintf("%d.%d", committer, n)
	ng := 1 + rng.IntN(2)
	gs := []int{rng.IntN(w.Groups)}
	if ng == 2 {
		g2 := rng.IntN(w.Groups)
		if g2 != gs[0] {
			gs = append(gs, g2)
		}
	}
	// sizes around the large-batch threshold
	pad := 0
	switch rng.IntN(10) {
	case 0:
		pad = w.largeThreshold / (len(gs) * keysPerGroup) // total ≈ threshold
	case 1:
		pad = w.largeThreshold/(len(gs)*keysPerGroup)/2 + rng.IntN(3) - 1
	case 2:
		pad = 2 * w.largeThreshold / (len(gs) * keysPerGroup)
	case 3:
		pad = w.largeThreshold/(len(gs)*keysPerGroup)/4 + rng.IntN(3) - 1
	default:
		pad = rng.IntN(40)
	}
	val := []byte(tok + "|" + strings.Repeat("p", pad))
	b := w.DB.NewBatch()
	if rng.IntN(3) == 0 {
		b = w.DB.NewIndexedBatch()
	}
	for _, g := range gs {
		lo, hi := groupSpan(g)
		if rng.IntN(4) == 0 {
			_ = b.DeleteRange([]byte(lo), []byte(hi), nil)
		}
		ks := groupKeys(g)
		// random order of key writes inside the batch
		for _, i := range rng.Perm(len(ks)) {
			if rng.IntN(6) == 0 {
				_ = b.Delete([]byte(ks[i]), nil)
			}
			_ = b.Set([]byte(ks[i]), val, nil)
		}
		_ = b.RangeKeySet([]byte(lo), []byte(hi), []byte("@1"), []byte(tok), nil)
	}
	rec := &batchRec{token: tok, groups: gs, committer: committer, size: b.Len(), large: b.Len() >= w.largeThreshold}
	w.mu.Lock()
	rec.call = w.clock.Add(1)
	w.batches[tok] = rec
	w.mu.Unlock()
	var err error
	switch rng.IntN(4) {
	case 0:
		err = b.Commit(pebble.Sync)
	case 1:
		err = w.DB.Apply(b, pebble.NoSync)
	case 2:
		err = w.DB.ApplyNoSyncWait(b, pebble.Sync)
		if err == nil {
			err = b.SyncWait()
		}
	default:
		err = b.Commit(pebble.NoSync)
	}
	if err != nil {
		w.fail("commit-error", "commit of %s: %v", tok, err)
		return
	}
	w.mu.Lock()
	rec.seq, rec.count = uint64(b.SeqNum()), b.Count()
	if rec.seq == 0 {
		rec.large = true // sequence number unavailable: the batch went the flushable-batch path
	}
	rec.ret = w.clock.Add(1)
	w.mu.Unlock()
	b.Close()
	w.count("commit")
	if rec.large {
		w.count("commit-large-batch")
	}
}

// inFlight reports whether some batch touching group g overlapped [t0,t1].
func (w *World) inFlight(g int, t0, t1 int64) bool {
	w.mu.Lock()
	defer w.mu.Unlock()
	for _, b := range w.batches {
		if (b.ret == 0 || b.ret >= t0) && b.call <= t1 {
			for _, bg := range b.groups {
				if bg == g {
					return true
				}
			}
		}
	}
	return false
}

// checkView verifies one consistent view: per group all present keys carry one
// token, no key of the group is missing once the group was ever written in this
// view, the range key carries the same token, and the token belongs to a batch
// whose call had started.
func (w *World) checkView(what string, t0 int64, pts map[string]string, rks map[int]string) {
	t1 := w.clock.Add(1)
	w.views.Add(1)
	anyFlight := false
	for g := 0; g < w.Groups; g++ {
		toks := map[string]int{}
		for _, k := range groupKeys(g) {
			if v, ok := pts[k]; ok {
				toks[v]++
			}
		}
		if rk, ok := rks[g]; ok {
			toks[rk] += 100
		}
		if len(toks) == 0 {
			continue
		}
		if len(toks) > 1 || (toks[firstKey(toks)]%100) != keysPerGroup || toks[firstKey(toks)] < 100 {
			var desc []string
			for _, k := range groupKeys(g) {
				desc = append(desc, k+"="+pts[k])
			}
			// diagnostics: what the harness knows about the batches involved, and
			// what a fresh iterator shows a moment later
			var info []string
			w.mu.Lock()
			for tok := range toks {
				if b := w.batches[tok]; b != nil {
					info = append(info, fmt.Sprintf("%s{seq=%d count=%d size=%d large=%v call=%d ret=%d}", tok, b.seq, b.count, b.size, b.large, b.call, b.ret))
				}
			}
			w.mu.Unlock()
			sort.Strings(info)
			second := "?"
			if it, err := w.DB.NewIter(&pebble.IterOptions{KeyTypes: pebble.IterKeyTypePointsAndRanges}); err == nil {
				p2, r2, _ := w.readAll(it, false)
				it.Close()
				var d2 []string
				for _, k := range groupKeys(g) {
					d2 = append(d2, k+"="+p2[k])
				}
				second = strings.Join(d2, " ") + " rangekey=" + r2[g]
			}
			w.diagMu.Lock()
			extra := w.diag[t0]
			w.diagMu.Unlock()
			w.fail("batch-not-atomic", "%s: group %d seen partially applied in one consistent view (t0=%d t1=%d): %s rangekey=%q (every batch rewrites all %d keys and the range key of a group with one token) | batches: %s | a fresh iterator afterwards: %s%s | %s",
				what, g, t0, t1, strings.Join(desc, " "), rks[g], keysPerGroup, strings.Join(info, " "), second, extra, w.DB.DebugString())
			return
		}
		tok := firstKey(toks)
		w.mu.Lock()
		rec := w.batches[tok]
		w.mu.Unlock()
		if rec == nil {
			w.fail("phantom-batch", "%s: group %d carries token %q that no committer issued", what, g, tok)
			return
		}
		if w.inFlight(g, t0, t1) {
			anyFlight = true
		}
	}
	if anyFlight {
		w.viewsInFlight.Add(1)
	}
}

func firstKey(m map[string]int) string {
	for k := range m {
		return k
	}
	return ""
}

type iterable interface {
	NewIter(o *pebble.IterOptions) (*pebble.Iterator, error)
}

// readAll scans the whole iterator in one direction and returns the point
// tokens, the range-key value per group and a direction-independent signature
// of everything that was seen (full values).
func (w *World) readAll(it *pebble.Iterator, reverse bool) (map[string]string, map[int]string, string) {
	pts := map[string]string{}
	rks := map[int]string{}
	var sig []string
	step := it.Next
	ok := false
	if reverse {
		step = it.Prev
		ok = it.Last()
	} else {
		ok = it.First()
	}
	for ; ok; ok = step() {
		hp, hr := it.HasPointAndRange()
		k := string(it.Key())
		e := k
		if hp {
			pts[k] = tokenOf(it.Value())
			e += "=" + tokenOf(it.Value()) + "/" + strconv.Itoa(len(it.Value()))
		}
		if hr {
			// spans of adjacent groups written by one batch carry the same value
			// and are defragmented into one span: attribute it to every group covered
			s, en := it.RangeBounds()
			for g := int(s[0] - 'a'); g < int(en[0]-'a') && g < w.Groups; g++ {
				for _, rk := range it.RangeKeys() {
					rks[g] = string(rk.Value)
				}
			}
			for _, rk := range it.RangeKeys() {
				e += fmt.Sprintf(" [%s,%s)%s=%s", s, en, rk.Suffix, rk.Value)
			}
		}
		sig = append(sig, e)
	}
	sort.Strings(sig)
	return pts, rks, strings.Join(sig, ";")
}

// scanView reads a full view through one iterator. Every third view is also
// checked for stability (C04): after the first scan the goroutine lets the
// committers run, then re-reads the SAME iterator in the other direction and
// reads a Clone of it; all three must show exactly the same contents, whatever
// was committed, flushed or compacted in between.
func (w *World) scanView(what string, src iterable, reverse bool) {
	t0 := w.clock.Add(1)
	zLower := int64(0)
	if strings.HasPrefix(what, "db-iter") {
		zLower = w.zDone.Load()
	}
	it, err := src.NewIter(&pebble.IterOptions{KeyTypes: pebble.IterKeyTypePointsAndRanges})
	if err != nil {
		w.fail("iter-error", "%s: NewIter: %v", what, err)
		return
	}
	pts, rks, sig := w.readAll(it, reverse)
	err = it.Error()
	if err == nil && (t0%3 == 0 || w.AlwaysStability) {
		for i := 0; i < 4; i++ {
			runtime.Gosched()
		}
		if t0%2 == 0 {
			time.Sleep(time.Duration(50+t0%400) * time.Microsecond)
		}
		_, _, sig2 := w.readAll(it, !reverse)
		if err = it.Error(); err == nil && sig2 != sig {
			w.fail("iterator-view-changed", "%s: the same iterator showed different contents on its second scan: first %q, second %q", what, sig, sig2)
		}
		if err == nil {
			cl, cerr := it.Clone(pebble.CloneOptions{})
			if cerr != nil {
				err = cerr
			} else {
				_, _, sig3 := w.readAll(cl, reverse)
				err = cl.Error()
				if cerr := cl.Close(); err == nil {
					err = cerr
				}
				if err == nil && sig3 != sig {
					w.fail("iterator-view-changed", "%s: a Clone showed different contents than its parent's first scan: parent %q, clone %q", what, sig, sig3)
				}
			}
		}
		w.count("view-stability-checks")
	}
	if err == nil && w.inconsistent(pts, rks) {
		// diagnostics with the SAME iterator before it is closed
		var sb strings.Builder
		for round := 0; round < 2; round++ {
			for _, rev := range []bool{reverse, !reverse} {
				p2, r2, _ := w.readAll(it, rev)
				fmt.Fprintf(&sb, " | same iterator again (reverse=%v): %s", rev, w.viewStr(p2, r2))
			}
		}
		if cl, cerr := it.Clone(pebble.CloneOptions{}); cerr == nil {
			for _, rev := range []bool{reverse, !reverse} {
				p2, r2, _ := w.readAll(cl, rev)
				fmt.Fprintf(&sb, " | clone (reverse=%v): %s", rev, w.viewStr(p2, r2))
			}
			cl.Close()
		}
		// step-by-step reverse walk with internal detail
		fmt.Fprintf(&sb, " | reverse walk:")
		for ok := it.Last(); ok; ok = it.Prev() {
			hp, _ := it.HasPointAndRange()
			if hp {
				fmt.Fprintf(&sb, " %s=%s", it.Key(), tokenOf(it.Value()))
			}
		}
		fmt.Fprintf(&sb, " | seeks:")
		for g := 0; g < w.Groups; g++ {
			for _, k := range groupKeys(g) {
				if it.SeekGE([]byte(k)) {
					fmt.Fprintf(&sb, " GE(%s)=%s:%s", k, it.Key(), tokenOf(it.Value()))
				}
				if it.SeekLT([]byte(k + "\x00")) {
					fmt.Fprintf(&sb, " LT(%s+)=%s:%s", k, it.Key(), tokenOf(it.Value()))
				}
			}
		}
		w.diagMu.Lock()
		if w.diag == nil {
			w.diag = map[int64]string{}
		}
		w.diag[t0] = sb.String()
		w.diagMu.Unlock()
	}
	if cerr := it.Close(); err == nil {
		err = cerr
	}
	if err != nil {
		w.fail("iter-error", "%s: %v", what, err)
		return
	}
	w.checkView(what, t0, pts, rks)
	w.markersClosed(what, pts)
	w.zCheck(what, pts, zLower)
	w.count("view:" + strings.SplitN(what, " ", 2)[0])
}

// snapView reads a view through point lookups on a snapshot.
func (w *World) snapView(s *pebble.Snapshot) {
	t0 := w.clock.Add(1)
	pts := map[string]string{}
	for g := 0; g < w.Groups; g++ {
		for _, k := range groupKeys(g) {
			v, c, err := s.Get([]byte(k))
			if err == pebble.ErrNotFound {
				continue
			}
			if err != nil {
				w.fail("get-error", "snapshot Get(%s): %v", k, err)
				return
			}
			pts[k] = tokenOf(v)
			c.Close()
		}
	}
	// no range keys through Get: mirror the point token so the check applies to points only
	rks := map[int]string{}
	for g := 0; g < w.Groups; g++ {
		if v, ok := pts[groupKeys(g)[0]]; ok {
			rks[g] = v
		}
	}
	w.checkView("snapshot-gets", t0, pts, rks)
	w.count("view:snapshot-gets")
}

// finalCheck runs at quiescence: the last committed batch (by sequence number)
// per group must be what every key of the group holds; CheckLevels must pass.
func (w *World) finalCheck() {
	if w.failed.Load() {
		return
	}
	if err := w.DB.CheckLevels(nil); err != nil {
		w.fail("check-levels", "CheckLevels at quiescence: %v", err)
		return
	}
	// Batch.SeqNum() is unavailable after a large (flushable) batch was
	// committed (its data is handed to the flushable queue), so the final-state
	// rule is stated with what is always known: the batch whose token a group
	// finally holds must not have returned before another committed batch on
	// that group was even called (that one has a higher sequence number), and
	// among batches with known sequence numbers it must not be older than one
	// with a higher number.
	w.mu.Lock()
	byGroup := map[int][]*batchRec{}
	for _, b := range w.batches {
		if b.ret == 0 {
			continue
		}
		for _, g := range b.groups {
			byGroup[g] = append(byGroup[g], b)
		}
	}
	all := w.batches
	w.mu.Unlock()
	for g, bs := range byGroup {
		var tok string
		for i, k := range groupKeys(g) {
			v, c, err := w.DB.Get([]byte(k))
			if err != nil {
				w.fail("final-state", "at quiescence Get(%s): %v although group %d was written", k, err, g)
				return
			}
			got := tokenOf(v)
			c.Close()
			if i > 0 && got != tok {
				w.fail("batch-not-atomic", "at quiescence group %d holds tokens %s and %s", g, tok, got)
				return
			}
			tok = got
		}
		cur := all[tok]
		if cur == nil || cur.ret == 0 {
			w.fail("final-state", "at quiescence group %d holds token %q of no committed batch", g, tok)
			return
		}
		for _, b := range bs {
			if b.call > cur.ret {
				w.fail("final-state", "at quiescence group %d holds token %s although batch %s on the same group was started after %s had returned (lost update)", g, tok, b.token, tok)
				return
			}
			if !b.large && !cur.large && b.seq > cur.seq {
				w.fail("final-state", "at quiescence group %d holds token %s (seq %d) although committed batch %s has the higher sequence number %d", g, tok, cur.seq, b.token, b.seq)
				return
			}
		}
	}
	w.scanView("final-scan", w.DB, false)
}

// seqTiling checks that committed batches own disjoint, gap-free sequence ranges.
func (w *World) seqTiling(allowGaps bool) {
	w.mu.Lock()
	var bs []*batchRec
	for _, b := range w.batches {
		if b.ret != 0 && b.count > 0 && !b.large {
			bs = append(bs, b)
		}
	}
	w.mu.Unlock()
	sort.Slice(bs, func(i, j int) bool { return bs[i].seq < bs[j].seq })
	for i := 1; i < len(bs); i++ {
		prevEnd := bs[i-1].seq + uint64(bs[i-1].count)
		if bs[i].seq < prevEnd {
			w.fail("seqnum-overlap", "batches %s [%d,+%d) and %s [%d,+%d) have overlapping sequence ranges", bs[i-1].token, bs[i-1].seq, bs[i-1].count, bs[i].token, bs[i].seq, bs[i].count)
			return
		}
		if !allowGaps && bs[i].seq != prevEnd && w.numLarge() == 0 {
			w.fail("seqnum-gap", "sequence numbers [%d,%d) between batches %s and %s belong to no committed batch", prevEnd, bs[i].seq, bs[i-1].token, bs[i].token)
			return
		}
	}
	w.R.Count("seq_ranges_checked", int64(len(bs)))
}

func itoa(i int) string { return strconv.Itoa(i) }

var _ = context.Background

func (w *World) numLarge() int {
	w.mu.Lock()
	defer w.mu.Unlock()
	n := 0
	for _, b := range w.batches {
		if b.large {
			n++
		}
	}
	return n
}

// inconsistent is the quick form of checkView's atomicity rule.
func (w *World) inconsistent(pts map[string]string, rks map[int]string) bool {
	for g := 0; g < w.Groups; g++ {
		toks := map[string]int{}
		for _, k := range groupKeys(g) {
			if v, ok := pts[k]; ok {
				toks[v]++
			}
		}
		if rk, ok := rks[g]; ok {
			toks[rk] += 100
		}
		if len(toks) == 0 {
			continue
		}
		if len(toks) > 1 || (toks[firstKey(toks)]%100) != keysPerGroup || toks[firstKey(toks)] < 100 {
			return true
		}
	}
	return false
}

func (w *World) viewStr(pts map[string]string, rks map[int]string) string {
	var sb strings.Builder
	for g := 0; g < w.Groups; g++ {
		for _, k := range groupKeys(g) {
			fmt.Fprintf(&sb, "%s=%s ", k, pts[k])
		}
		fmt.Fprintf(&sb, "rk%d=%s ", g, rks[g])
	}
	return sb.String()
}
