package conc

import (
	"math/rand/v2"
	"sync"
	"testing"
	"time"

	"github.com/cockroachdb/pebble/internal/verif/vcommon"
)

// TestVerifC04Conc: an iterator (and its clones) keeps a fixed view for its
// lifetime while other goroutines commit, flush and compact.
func TestVerifC04Conc(t *testing.T) {
	R := vcommon.NewReport("C04", "conc")
	defer R.Finish(t)
	R.Rule("Each run: 4-10 committers (batches around the large-batch threshold rewriting whole key groups with one token, Sync/NoSync/ApplyNoSyncWait) " +
		"and a flusher, against 4-8 readers that open an iterator on the DB or on a snapshot WHILE commits are in flight, scan it, yield to the " +
		"committers, scan the same iterator again in the other direction and scan a Clone of it: all three scans must return identical keys, values " +
		"and range keys (and each must be batch-atomic). Seeded yields at the commit-pipeline and newIter hook sites widen the window between " +
		"sequence-number allocation, memtable application and publication. distinct_nontrivial = runs x stability checks (bucketed).")
	ys := &yieldStats{hits: map[string]int64{}}
	n := vcommon.Scale(6, 90)
	R.Cases(n, func(i int, rng *rand.Rand) {
		restore := installYields(vcommon.Seed()*104729+uint64(i), ys)
		defer restore()
		memSize := []uint64{32 << 10, 64 << 10, 128 << 10}[rng.IntN(3)]
		w := newWorld(R, i, rng, memSize)
		if w == nil {
			return
		}
		w.AlwaysStability = true
		nc, nr := 4+rng.IntN(7), 4+rng.IntN(5)
		perCommitter := vcommon.Scale(120, 160)
		var wg sync.WaitGroup
		stop := make(chan struct{})
		for c := 0; c < nc; c++ {
			wg.Add(1)
			go func(c int) {
				defer wg.Done()
				r := rand.New(rand.NewPCG(uint64(i)*1000+uint64(c), vcommon.Seed()))
				for n := 0; n < perCommitter && !w.failed.Load(); n++ {
					w.commitOne(r, c, n)
				}
			}(c)
		}
		var rg sync.WaitGroup
		for rd := 0; rd < nr; rd++ {
			rg.Add(1)
			go func(rd int) {
				defer rg.Done()
				r := rand.New(rand.NewPCG(uint64(i)*7777+uint64(rd), vcommon.Seed()))
				for !w.failed.Load() {
					select {
					case <-stop:
						return
					default:
					}
					if r.IntN(4) == 0 {
						s := w.DB.NewSnapshot()
						w.scanView("snapshot-iter", s, r.IntN(2) == 0)
						s.Close()
					} else {
						w.scanView("db-iter", w.DB, r.IntN(2) == 0)
					}
				}
			}(rd)
		}
		rg.Add(1)
		go func() {
			defer rg.Done()
			for {
				select {
				case <-stop:
					return
				case <-time.After(3 * time.Millisecond):
					_, _ = w.DB.AsyncFlush()
					w.count("async-flush")
				}
			}
		}()
		wg.Wait()
		close(stop)
		rg.Wait()
		w.finalCheck()
		R.Eval(1)
		w.report()
		var checks int64
		if v, ok := w.opCounts.Load("view-stability-checks"); ok {
			checks = v.(interface{ Load() int64 }).Load()
		}
		for b := int64(0); b <= checks/100; b++ {
			R.Distinct("stability", i, b)
		}
		if i == 0 {
			R.Sample(map[string]any{"case": i, "committers": nc, "readers": nr, "groups": w.Groups, "memtable": memSize,
				"views": w.views.Load(), "views_in_flight": w.viewsInFlight.Load(), "stability_checks": checks})
		}
		if err := w.DB.Close(); err != nil {
			w.fail("close-error", "Close: %v", err)
		}
	})
	ys.mu.Lock()
	for s, h := range ys.hits {
		R.Count("hook_hits["+s+"]", h)
	}
	ys.mu.Unlock()
}
