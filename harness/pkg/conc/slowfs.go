package conc

import (
	"strings"
	"sync/atomic"
	"time"

	"github.com/cockroachdb/pebble/vfs"
)

// slowManifestFS makes syncs of the MANIFEST slow (0.3-2.5 ms, seeded): the
// manifest lock is then held for a while without DB.mu, so that jobs that have
// finished their work (compactions, flushes, ingests, excises) queue up behind
// it and are installed in whatever order the lock is handed over - the
// interleavings in which a queued job is cancelled or invalidated by the job in
// front of it. Only the schedule depends on it.
type slowManifestFS struct {
	vfs.FS
	seed uint64
	n    atomic.Uint64
}

func (f *slowManifestFS) wrap(file vfs.File, err error, name string) (vfs.File, error) {
	if err != nil || file == nil || !strings.Contains(name, "MANIFEST-") {
		return file, err
	}
	return &slowFile{File: file, fs: f}, nil
}

func (f *slowManifestFS) Create(name string, cat vfs.DiskWriteCategory) (vfs.File, error) {
	file, err := f.FS.Create(name, cat)
	return f.wrap(file, err, name)
}

func (f *slowManifestFS) ReuseForWrite(oldname, newname string, cat vfs.DiskWriteCategory) (vfs.File, error) {
	file, err := f.FS.ReuseForWrite(oldname, newname, cat)
	return f.wrap(file, err, newname)
}

type slowFile struct {
	vfs.File
	fs *slowManifestFS
}

func (s *slowFile) Sync() error {
	n := s.fs.n.Add(1)
	h := (n*0x9E3779B97F4A7C15 + s.fs.seed) >> 40
	if h%3 != 0 {
		time.Sleep(time.Duration(300+h%2200) * time.Microsecond)
	}
	return s.File.Sync()
}

func (s *slowFile) SyncData() error { return s.Sync() }
