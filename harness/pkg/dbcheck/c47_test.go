package dbcheck

import (
	"bytes"
	"math/rand/v2"
	"runtime"
	"strings"
	"testing"
	"time"

	"github.com/cockroachdb/pebble"
	"github.com/cockroachdb/pebble/internal/manual"
	"github.com/cockroachdb/pebble/internal/verif/vcommon"
	"github.com/cockroachdb/pebble/vfs"
	"github.com/cockroachdb/pebble/vfs/vfstest"
)

// pebbleGoroutines returns the stacks of goroutines that have a pebble frame
// and are not part of the harness or the test runner.
func pebbleGoroutines() []string {
	buf := make([]byte, 1<<22)
	buf = buf[:runtime.Stack(buf, true)]
	var out []string
	for _, g := range strings.Split(string(buf), "\n\n") {
		if !strings.Contains(g, "github.com/cockroachdb/pebble") {
			continue
		}
		if strings.Contains(g, "internal/verif/") || strings.Contains(g, "testing.tRunner") || strings.Contains(g, "testing.(*T)") {
			continue
		}
		out = append(out, g)
	}
	return out
}

// TestVerifC47: Close releases everything and leaves a reopenable DB.
func TestVerifC47(t *testing.T) {
	R := vcommon.NewReport("C47", "main")
	defer R.Finish(t)
	R.Rule("Histories over all configurations with iterators, snapshots, EFOS, batches, ingests, excises, value separation and reopen cycles; at the end " +
		"every object is closed and DB.Close must return nil; then: no goroutine with a pebble frame survives a bounded settle (40 polls x 25 ms), " +
		"no file handle stays open (vfstest.WithOpenFileTracking), internal/manual in-use bytes for block cache and memtables are back at the " +
		"pre-Open baseline, and the directory reopens to the model state. distinct_nontrivial = distinct (history, LSM shape) pairs.")
	n := vcommon.Scale(120, 3000)
	k := Knobs{Name: "C47", Units: 90, FlushGate: true, RangeKeys: true, Batches: true, BatchIters: true, Snapshots: true, LongIters: true, Iters: true, IterBurst: 8,
		EFOS: true, Maint: true, Reopen: true, Ingest: true, Excise: true, BigValues: true, ValueSep: true, AuditEvery: 30, NoAutoCompactionsPct: 10}
	R.Cases(n, func(i int, rng *rand.Rand) {
		// settle leftovers of the previous case first
		for p := 0; p < 40 && len(pebbleGoroutines()) > 0; p++ {
			time.Sleep(25 * time.Millisecond)
		}
		baseG := len(pebbleGoroutines())
		baseM := manual.GetMetrics()
		inner := vfs.NewMem()
		fs, dump := vfstest.WithOpenFileTracking(inner)
		closeMid := rng.IntN(3) == 0
		r := NewRunFS(R, "C47", k, i, rng, fs, func(r *Run) {
			if closeMid {
				// close while background work is likely in flight
				r.Cfg.L0CompactionThreshold = 1
				r.Cfg.DisableAuto = false
			}
		})
		ok := r.Execute() // Execute ends with closeAll (Close errors are violations)
		R.Eval(1)
		if !ok {
			return
		}
		// goroutines
		var left []string
		for p := 0; p < 40; p++ {
			left = pebbleGoroutines()
			if len(left) <= baseG {
				break
			}
			time.Sleep(25 * time.Millisecond)
		}
		if len(left) > baseG {
			r.fail("goroutine-leak", "%d goroutine(s) with a pebble frame still alive after Close (baseline %d):\n%s", len(left), baseG, strings.Join(left, "\n\n"))
			return
		}
		// open files
		var b bytes.Buffer
		dump(&b)
		if b.Len() > 0 {
			r.fail("open-files-leak", "file handles still open after Close:\n%s", clipStr(b.String(), 4000))
			return
		}
		// manual memory
		m := manual.GetMetrics()
		for p := manual.Purpose(1); p < manual.NumPurposes; p++ {
			if m[p].InUseBytes != baseM[p].InUseBytes {
				r.fail("manual-memory-leak", "internal/manual purpose %d: %d bytes in use after Close, baseline %d", p, m[p].InUseBytes, baseM[p].InUseBytes)
				return
			}
		}
		R.Count("close_cycles_checked", 1)
		// reopen to the same state
		o := MakeOptions(r.Cfg, fs, nil)
		o.FormatMajorVersion = pebble.FormatMajorVersion(r.Cfg.FMV)
		db, err := pebble.Open(r.Dir, o)
		if err != nil {
			r.fail("reopen-error", "Open after Close: %v", err)
			return
		}
		canon, err := ReadCanon(db.NewIter, nil)
		if cerr := db.Close(); err == nil {
			err = cerr
		}
		if err != nil {
			r.fail("reopen-error", "reading after reopen: %v", err)
			return
		}
		if r.Cfg.DisableWAL {
			// unflushed writes of a WAL-less store do not survive Close by design
			R.Count("reopen_not_compared_wal_disabled", 1)
		} else if want := CanonFull(r.M); canon != want {
			r.fail("reopen-state-mismatch", "state after Close+Open differs from the model\nreopened:\n%s\nmodel:\n%s", clipStr(canon, 3000), clipStr(want, 3000))
			return
		}
		R.Count("reopens_compared", 1)
		var b2 bytes.Buffer
		dump(&b2)
		if b2.Len() > 0 {
			r.fail("open-files-leak", "file handles still open after the second Close:\n%s", clipStr(b2.String(), 4000))
		}
	})
}

