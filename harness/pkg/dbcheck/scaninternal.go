package dbcheck

import (
	"context"
	"fmt"
	"sort"

	"github.com/cockroachdb/pebble"
	"github.com/cockroachdb/pebble/internal/base"
	irangekey "github.com/cockroachdb/pebble/internal/rangekey"
	"github.com/cockroachdb/pebble/internal/verif/model"
	"github.com/cockroachdb/pebble/rangekey"
	"github.com/cockroachdb/pebble/vfs"
)

type scanItem struct {
	seq  base.SeqNum
	ord  int
	del  bool
	op   model.Op
	kind string
}

// stepScanInternal implements the C45 oracle: the output of ScanInternal over a
// span, replayed into an empty DB in sequence-number order, must give the same
// visible state inside the span as the model at the scan's sequence number.
func (r *Run) stepScanInternal() {
	lo, hi := r.randRange()
	st := r.M
	what := "db"
	var scan func(ctx context.Context, o pebble.ScanInternalOptions) error = r.db.ScanInternal
	if len(r.snaps) > 0 && r.rng.IntN(3) == 0 {
		s := r.snaps[r.rng.IntN(len(r.snaps))]
		if len(s.excised) == 0 {
			st, scan, what = s.st, s.s.ScanInternal, fmt.Sprintf("snapshot@%d", s.born)
		}
	}
	obsolete := r.rng.IntN(2) == 0
	var items []scanItem
	n := 0
	failAt := -1
	if r.rng.IntN(8) == 0 {
		failAt = r.rng.IntN(4)
	}
	injected := fmt.Errorf("verif: injected rate-limit error")
	o := pebble.ScanInternalOptions{
		IterOptions:         pebble.IterOptions{LowerBound: []byte(lo), UpperBound: []byte(hi), KeyTypes: pebble.IterKeyTypePointsAndRanges},
		IncludeObsoleteKeys: obsolete,
		VisitPointKey: func(key *pebble.InternalKey, value pebble.LazyValue, _ pebble.IteratorLevel) error {
			v, _, err := value.Value(nil)
			if err != nil {
				return err
			}
			k, val := string(key.UserKey), string(v)
			n++
			it := scanItem{seq: key.SeqNum(), ord: n, kind: key.Kind().String()}
			switch key.Kind() {
			case base.InternalKeyKindSet, base.InternalKeyKindSetWithDelete:
				it.op = model.Op{Kind: model.OpSet, Key: k, Value: val}
			case base.InternalKeyKindMerge:
				it.op = model.Op{Kind: model.OpMerge, Key: k, Value: val}
			case base.InternalKeyKindDelete, base.InternalKeyKindDeleteSized, base.InternalKeyKindSingleDelete:
				it.op, it.del = model.Op{Kind: model.OpDelete, Key: k}, true
			default:
				return fmt.Errorf("verif: unexpected point kind %s", key.Kind())
			}
			items = append(items, it)
			return nil
		},
		VisitRangeDel: func(start, end []byte, seqNum base.SeqNum) error {
			n++
			items = append(items, scanItem{seq: seqNum, ord: n, del: true, kind: "RANGEDEL", op: model.Op{Kind: model.OpDeleteRange, Key: string(start), End: string(end)}})
			return nil
		},
		VisitRangeKey: func(start, end []byte, keys []rangekey.Key) error {
			for _, k := range keys {
				n++
				it := scanItem{seq: k.SeqNum(), ord: n, kind: k.Kind().String()}
				switch k.Kind() {
				case base.InternalKeyKindRangeKeySet:
					it.op = model.Op{Kind: model.OpRangeKeySet, Key: string(start), End: string(end), Suffix: string(k.Suffix), Value: string(k.Value)}
				case base.InternalKeyKindRangeKeyUnset:
					it.op, it.del = model.Op{Kind: model.OpRangeKeyUnset, Key: string(start), End: string(end), Suffix: string(k.Suffix)}, true
				case base.InternalKeyKindRangeKeyDelete:
					it.op, it.del = model.Op{Kind: model.OpRangeKeyDelete, Key: string(start), End: string(end)}, true
				default:
					return fmt.Errorf("verif: unexpected range key kind %s", k.Kind())
				}
				items = append(items, it)
			}
			return nil
		},
	}
	calls := 0
	if failAt >= 0 {
		o.RateLimitFunc = func(key *pebble.InternalKey, value pebble.LazyValue) error {
			calls++
			if calls > failAt {
				return injected
			}
			return nil
		}
	}
	r.log("ScanInternal(%s) [%s,%s) obsolete=%v failAt=%d", what, lo, hi, obsolete, failAt)
	err := scan(context.Background(), o)
	if failAt >= 0 && calls > failAt {
		// the callback returned an error: the scan must fail, not truncate silently
		r.count("scans_with_injected_callback_error", 1)
		if err == nil {
			r.fail("scan-swallowed-callback-error", "ScanInternal returned nil although RateLimitFunc returned an error at call %d", failAt+1)
		}
		return
	}
	if err != nil {
		r.fail("scan-internal-error", "ScanInternal(%s) [%s,%s): %v", what, lo, hi, err)
		return
	}
	// replay in sequence-number order; on ties deletions first (entries of one
	// ingested table share a sequence number and its tombstones do not cover its
	// own keys)
	sort.SliceStable(items, func(i, j int) bool {
		if items[i].seq != items[j].seq {
			return items[i].seq < items[j].seq
		}
		if items[i].del != items[j].del {
			return items[i].del
		}
		return items[i].ord < items[j].ord
	})
	fs := vfs.NewMem()
	ro := MakeOptions(r.Cfg, fs, nil)
	ro.FormatMajorVersion = pebble.FormatNewest
	ro.DisableWAL = true
	db2, err := pebble.Open("replay", ro)
	if err != nil {
		r.fail("harness-replay-open", "%v", err)
		return
	}
	defer db2.Close()
	viaBatch := r.rng.IntN(2) == 0
	b := db2.NewBatch()
	for _, it := range items {
		if err := applyRaw(b, it.op); err != nil {
			r.fail("harness-replay-apply", "replaying %s: %v", it.op, err)
			return
		}
		if !viaBatch {
			if err := b.Commit(pebble.NoSync); err != nil {
				r.fail("harness-replay-apply", "commit: %v", err)
				return
			}
			b.Close()
			b = db2.NewBatch()
		}
	}
	if err := b.Commit(pebble.NoSync); err != nil {
		r.fail("harness-replay-apply", "commit: %v", err)
		return
	}
	b.Close()
	if r.rng.IntN(2) == 0 {
		db2.Flush()
	}
	got, err := ReadCanon(db2.NewIter, &pebble.IterOptions{LowerBound: []byte(lo), UpperBound: []byte(hi)})
	if err != nil {
		r.fail("harness-replay-read", "%v", err)
		return
	}
	want := CanonSpans(st, [][2]string{{lo, hi}})
	want = want[:len(want)-3] // strip the "--\n" terminator
	r.count("internal_scans_replayed", 1)
	r.count("internal_scan_items", int64(len(items)))
	if len(items) > 0 {
		r.R.Distinct("scan", r.Case, r.step, len(items))
	}
	if got != want {
		var ks []string
		for _, it := range items {
			ks = append(ks, fmt.Sprintf("%s#%d,%s", it.op, it.seq, it.kind))
		}
		r.fail("scan-replay-mismatch", "ScanInternal(%s) [%s,%s) obsolete=%v replayed into an empty DB differs from the model inside the span\nreplayed:\n%s\nmodel:\n%s\nitems: %v",
			what, lo, hi, obsolete, clipStr(got, 2500), clipStr(want, 2500), ks)
	}
}

// applyRaw adds op to b. Range-key fragments emitted by ScanInternal may have
// suffixed bounds (fragments are cut at sstable boundaries), which the public
// RangeKey* methods reject under the invariants build; those are added as raw
// internal keys with the same encoding the public methods produce.
func applyRaw(b *pebble.Batch, op model.Op) error {
	suffixed := func(k string) bool { _, s := model.SplitKey(k); return s != "" }
	switch op.Kind {
	case model.OpRangeKeySet, model.OpRangeKeyUnset, model.OpRangeKeyDelete:
		if !suffixed(op.Key) && !suffixed(op.End) {
			return ApplyOp(b, op, nil)
		}
	default:
		return ApplyOp(b, op, nil)
	}
	var kind base.InternalKeyKind
	var val []byte
	switch op.Kind {
	case model.OpRangeKeySet:
		kind = base.InternalKeyKindRangeKeySet
		sv := []irangekey.SuffixValue{{Suffix: []byte(op.Suffix), Value: []byte(op.Value)}}
		val = make([]byte, irangekey.EncodedSetValueLen([]byte(op.End), sv))
		irangekey.EncodeSetValue(val, []byte(op.End), sv)
	case model.OpRangeKeyUnset:
		kind = base.InternalKeyKindRangeKeyUnset
		sf := [][]byte{[]byte(op.Suffix)}
		val = make([]byte, irangekey.EncodedUnsetValueLen([]byte(op.End), sf))
		irangekey.EncodeUnsetValue(val, []byte(op.End), sf)
	default:
		kind = base.InternalKeyKindRangeKeyDelete
		val = []byte(op.End)
	}
	ik := base.MakeInternalKey([]byte(op.Key), 0, kind)
	return b.AddInternalKey(&ik, val, nil)
}
