package dbcheck

import (
	"math/rand/v2"
	"testing"

	"github.com/cockroachdb/pebble/internal/verif/vcommon"
)

// runDeck runs n histories with the given knobs and registers coverage.
func runDeck(t *testing.T, prop, part string, k Knobs, nq, nt int, rule string, after func(r *Run)) {
	R := vcommon.NewReport(prop, part)
	defer R.Finish(t)
	R.Rule(rule + " Histories are generated from (VERIF_SEED, case index); each has its own drawn configuration " +
		"(format major version, memtable size, L0/Lbase thresholds, target file and block sizes, cache sizes, compaction concurrency, " +
		"manifest rotation size, WAL on/off, filters). distinct_nontrivial counts distinct (history, LSM shape) pairs seen at audits " +
		"(shape = tables per level + memtable count); the counter nontrivial_histories counts histories that reached >=2 tables on >=2 levels.")
	n := vcommon.Scale(nq, nt)
	R.Cases(n, func(i int, rng *rand.Rand) {
		r := NewRun(R, prop, k, i, rng)
		ok := r.Execute()
		R.Eval(1)
		if after != nil {
			after(r)
		}
		if i < 2 && ok && R.WantSample() {
			h := r.hist
			if len(h) > 60 {
				h = h[:60]
			}
			R.Sample(map[string]any{"case": i, "config": r.Cfg, "first_steps": h, "final_model_state": r.M.String()})
		}
	})
}

// C01: latest-state reads match the sequential model.
func TestVerifC01(t *testing.T) {
	k := Knobs{Name: "C01", Units: 120, FlushGate: true, RangeKeys: true, Batches: true, Maint: true, Reopen: true, Ingest: true, Excise: true,
		BigValues: true, ValueSep: true, AuditEvery: 6, NoAutoCompactionsPct: 15}
	runDeck(t, "C01", "main", k, 300, 6000,
		"Single-threaded histories of all write kinds (Set, Delete, DeleteSized, SingleDelete per contract, DeleteRange, Merge, LogData, range keys, "+
			"small and large batches, ingests, excises) with Flush/Compact/reopen in between; after every 6th step and around every maintenance action "+
			"a full audit compares Get of every key of the key space and a forward+backward scan of a fresh iterator with the model.", nil)
}

// C01, second deck: layered LSMs. Automatic compactions are off and the base
// level is forced high (LBaseMaxBytes = 1), so that ingested tables stack up
// over several levels (L6, L5, L4, ...) with boundaries that coincide (a range
// tombstone ending exactly at a point key of a deeper table, a table's largest
// key equal to the next one's smallest); flushes and manual compactions of
// narrow ranges then have to decide, level by level, which tombstones may be
// dropped. Every step is followed by a full audit.
func TestVerifC01Layers(t *testing.T) {
	k := Knobs{Name: "C01L", Units: 70, SmallKeySpace: true, RangeKeys: true, Batches: true, Maint: true, Ingest: true, IngestHeavy: true, Excise: true,
		AuditEvery: 2, NoAutoCompactionsPct: 100}
	R := vcommon.NewReport("C01", "layers")
	defer R.Finish(t)
	R.Rule("Layered-LSM histories: automatic compactions disabled, LBaseMaxBytes=1 (level multiplier 2, 3 or 10), ingest-heavy (small tables of points, point and " +
		"range tombstones and range keys whose bounds are drawn from a 4-7 letter key space so that boundaries coincide across levels), interleaved with " +
		"batches, flushes and manual compactions of narrow ranges; a full audit (Get of every key + forward and backward scan of a fresh iterator " +
		"against the model) runs after every second step and around every maintenance action. distinct_nontrivial counts distinct (history, LSM shape) pairs; " +
		"the counter histories_with_3_or_more_populated_levels_below_L0 says how many histories reached a deep layering.")
	n := vcommon.Scale(300, 6000)
	R.Cases(n, func(i int, rng *rand.Rand) {
		r := NewRunFS(R, "C01", k, i, rng, nil, func(r *Run) {
			r.Cfg.LBaseMaxBytes = 1
			r.Cfg.FlushGate = false
			r.Cfg.MemTableSize = 256 << 10
			if r.Cfg.TargetFileSize > 4<<10 {
				r.Cfg.TargetFileSize = 1 << 10
			}
		})
		r.Execute()
		R.Eval(1)
		if r.deepest >= 3 {
			R.Count("histories_with_3_or_more_populated_levels_below_L0", 1)
		}
	})
}

// C02: iterator positioning matches the model for every op sequence.
func TestVerifC02(t *testing.T) {
	k := Knobs{Name: "C02", Units: 110, RangeKeys: true, Iters: true, Limits: true, Masking: true, Snapshots: true, Maint: true, Ingest: true,
		IterBurst: 60, AuditEvery: 25, NoAutoCompactionsPct: 15}
	runDeck(t, "C02", "main", k, 800, 6000,
		"Histories as in C01 interleaved with bursts of 60 random positioning ops (SeekGE/LT, SeekPrefixGE, First/Last, Next/Prev, NextPrefix, "+
			"*WithLimit, SetBounds, SetOptions) on fresh iterators with random bounds, key types and masking; each op's result is compared with the "+
			"model's cursor over the materialised position list; limit ops are checked against the documented set of legal outcomes.", nil)
}

// C03: snapshots are stable point-in-time views.
func TestVerifC03(t *testing.T) {
	k := Knobs{Name: "C03", Units: 130, FlushGate: true, RangeKeys: true, Snapshots: true, SnapAudit: true, Batches: true, Maint: true, Ingest: true, Excise: true,
		Ratchet: true, Iters: true, IterBurst: 15, AuditEvery: 8, NoAutoCompactionsPct: 15}
	runDeck(t, "C03", "main", k, 600, 6000,
		"Histories with up to 4 snapshots opened at random points and read (Get of every key, full scans, positioning bursts) after every later "+
			"audit point across flushes, compactions, ingests and format upgrades; keys inside spans excised after the snapshot was taken are not "+
			"audited through it (documented exception).", nil)
}

// C05: indexed batch reads overlay the batch on the committed state.
func TestVerifC05(t *testing.T) {
	k := Knobs{Name: "C05", Units: 150, RangeKeys: true, Batches: true, BatchIters: true, LongIters: true, Iters: true, Limits: true, IterBurst: 12, Maint: true, AuditEvery: 15, NoAutoCompactionsPct: 15}
	runDeck(t, "C05", "main", k, 900, 8000,
		"Histories with up to 4 open batches (indexed and plain) receiving all op kinds while the DB is written to; indexed batches are read through "+
			"(Get of every key, scans with random options) and compared with model(committed state) + batch ops; DB reads are compared with the "+
			"model while batches are open (no leak), batches are committed, abandoned or applied into other batches.", nil)
}

// C08: range keys.
func TestVerifC08(t *testing.T) {
	k := Knobs{Name: "C08", Units: 110, RangeKeys: true, Iters: true, Batches: true, Maint: true, Ingest: true, Excise: true, Limits: true,
		IterBurst: 40, AuditEvery: 8, NoAutoCompactionsPct: 15}
	runDeck(t, "C08", "main", k, 1500, 8000,
		"Range-key-heavy histories (overlapping RangeKeySet/Unset/Delete with several suffixes, identical values on adjacent fragments, in batches "+
			"and ingested tables, flushed into different levels, excised); iterators in ranges-only and combined mode with bounds cutting spans, "+
			"seeks inside spans and prefix seeks; every position's HasPointAndRange, RangeBounds and RangeKeys is compared with the model's "+
			"defragmented, clipped spans.", nil)
}

// C09: range-key masking.
func TestVerifC09(t *testing.T) {
	k := Knobs{Name: "C09", Units: 100, RangeKeys: true, Iters: true, Masking: true, Maint: true, IterBurst: 40, AuditEvery: 20,
		MaskFilterDiff: true, NoAutoCompactionsPct: 15}
	runDeck(t, "C09", "main", k, 1500, 8000,
		"C08 decks with points at every suffix under/over the range keys; combined iterators with RangeKeyMasking.Suffix drawn from all suffixes; "+
			"each masked scan is compared with the model's masking rule and run twice, with and without the block-property filter mask.", nil)
}

// C04: iterators and clones keep a fixed view for their lifetime.
func TestVerifC04(t *testing.T) {
	k := Knobs{Name: "C04", Units: 150, RangeKeys: true, Batches: true, BatchIters: true, LongIters: true, Iters: true, IterBurst: 10, Maint: true,
		Ingest: true, Excise: true, AuditEvery: 10, NoAutoCompactionsPct: 10, TinyCaches: true}
	runDeck(t, "C04", "main", k, 150, 3000,
		"Histories with up to 6 long-lived iterators (on the DB and on indexed batches, plus clones with and without new options) created at random "+
			"points and re-driven (full forward and backward walk + positioning ops) after later writes, flushes, compactions that delete their files "+
			"(file cache of 1-2 handles and a zero-byte block cache force re-opening files), ingests and excises; batch iterators must not see "+
			"later batch mutations until SetOptions or Clone{RefreshBatchView} and must see them afterwards.", nil)
}

// C14: background maintenance never changes what readers see.
func TestVerifC14(t *testing.T) {
	k := Knobs{Name: "C14", Units: 140, FlushGate: true, RangeKeys: true, Snapshots: true, SnapAudit: true, LongIters: true, EFOS: true, Maint: true, MaintHeavy: true,
		Ingest: true, Excise: true, Ratchet: true, BigValues: true, ValueSep: true, AuditEvery: 12, NoAutoCompactionsPct: 30}
	runDeck(t, "C14", "main", k, 120, 3000,
		"Histories shaped to provoke each maintenance kind (flush, default/move/delete-only/elision-only/intra-L0 compactions, manual Compact, "+
			"blob-file and virtual-sstable rewrites, format ratchets); a full audit of the latest state, every open snapshot, EFOS and long-lived "+
			"iterator brackets every maintenance action (before and after, both against the model). The event listener records which kinds really ran.",
		nil)
}

// C15: LSM level invariant holds after every operation.
func TestVerifC15(t *testing.T) {
	k := Knobs{Name: "C15", Units: 130, FlushGate: true, RangeKeys: true, Batches: true, Maint: true, Ingest: true, IngestHeavy: true, Excise: true, BigValues: true,
		AuditEvery: 1, LightAudit: true, VersionWalk: true, NoAutoCompactionsPct: 20}
	runDeck(t, "C15", "main", k, 200, 4000,
		"Histories biased to ingests (landing in low levels, overlapping memtables, split ingests), excises and IngestAndExcise; after EVERY step "+
			"CheckLevels runs, an independent walker checks the current version (per-level bounds ordering and non-overlap, L0 sublevel non-overlap and "+
			"sequence ordering between overlapping L0 files, Version.CheckOrdering) and a content walker opens every new table and checks each entry "+
			"against the table's recorded bounds and sequence range. Options.DebugCheck=DebugCheckLevels runs on every version install.", nil)
}

// C36: ingest and excise behave like their logical equivalents.
func TestVerifC36(t *testing.T) {
	k := Knobs{Name: "C36", Units: 120, FlushGate: true, RangeKeys: true, Batches: true, Maint: true, Ingest: true, IngestHeavy: true, Excise: true, LongIters: true,
		Snapshots: true, SnapAudit: true, BigValues: true, AuditEvery: 4, NoAutoCompactionsPct: 20}
	runDeck(t, "C36", "main", k, 200, 4000,
		"Histories dominated by Ingest (1-3 disjoint tables with points, merges, point and range tombstones, range keys; overlapping the memtable or "+
			"not; flushable or not), IngestAndExcise and Excise, interleaved with writes and maintenance; the model applies an ingest as one unit "+
			"(a table's tombstones do not cover its own keys), an excise as removal of all point and range keys in the span; iterators opened "+
			"before an excise are re-driven afterwards and must be unchanged.", nil)
}

// C37: eventually-file-only snapshots keep their protected view.
func TestVerifC37(t *testing.T) {
	k := Knobs{Name: "C37", Units: 130, FlushGate: true, RangeKeys: true, EFOS: true, EFOSHeavy: true, SnapAudit: true, Maint: true, Ingest: true, Excise: true,
		AuditEvery: 6, NoAutoCompactionsPct: 20}
	runDeck(t, "C37", "main", k, 150, 3000,
		"Histories with 1-2 EFOS over 1-2 key ranges, writes to the protected ranges before and after creation, forced transitions (flush + "+
			"WaitForFileOnlySnapshot), compactions of the pinned files, and excises / IngestAndExcise overlapping or adjacent to the ranges; reads "+
			"inside the protected ranges (Get of every key, bounded scans) are compared with the model state at creation before and after the transition.",
		nil)
}

// C44: separated values read back identically.
func TestVerifC44(t *testing.T) {
	k := Knobs{Name: "C44", Units: 140, RangeKeys: false, Batches: true, Snapshots: true, SnapAudit: true, Maint: true, MaintHeavy: true, Reopen: true,
		Ingest: false, BigValues: true, ValueSep: true, ForceValueSep: true, Iters: true, IterBurst: 12, AuditEvery: 7, NoAutoCompactionsPct: 10}
	runDeck(t, "C44", "main", k, 150, 3000,
		"Value-separation histories: ValueSeparationPolicy with MinimumSize in {1..64}, values of length threshold-1/threshold/threshold+1, empty, "+
			"and multi-block; overwrites create blob garbage so blob-file rewrite compactions run (listener-confirmed); every value read through Get, "+
			"iterators (ValueAndErr) and snapshots is compared byte for byte with the model across flushes, compactions, rewrites and reopen.", nil)
}

// C45: internal scans reproduce the visible state when replayed.
func TestVerifC45(t *testing.T) {
	k := Knobs{Name: "C45", Units: 120, RangeKeys: true, Batches: true, Snapshots: true, Maint: true, Ingest: true, Excise: true, ScanInternal: true,
		NoMerge: true, BigValues: true, ValueSep: true, AuditEvery: 30, NoAutoCompactionsPct: 25}
	runDeck(t, "C45", "main", k, 200, 4000,
		"Histories without Merge/SingleDelete (a documented precondition of collapsed internal scans) with open snapshots forcing several versions "+
			"per key; ScanInternal over random spans cutting range keys and range deletions, on the DB and on snapshots, IncludeObsoleteKeys both "+
			"ways; the emitted point keys, range deletions and range keys are replayed in sequence-number order into an empty DB (individually or "+
			"as one batch, flushed or not) whose visible state inside the span must equal the model at the scan's sequence number; a RateLimitFunc "+
			"returning an error mid-scan must make the scan fail.", nil)
}
