package dbcheck

import (
	"context"
	"fmt"

	"github.com/cockroachdb/pebble/internal/base"
	"github.com/cockroachdb/pebble/internal/manifest"
	"github.com/cockroachdb/pebble/internal/testkeys"
	"github.com/cockroachdb/pebble/objstorage"
	"github.com/cockroachdb/pebble/sstable"
)

// versionWalk is the independent structural monitor of C15: it walks the
// current version without using CheckLevels' machinery.
//
//   - files of one level L1..L6, and of one L0 sublevel, never overlap and are
//     sorted by bounds;
//   - two overlapping L0 files in different sublevels: the higher sublevel
//     holds the newer file (larger largest sequence number);
//   - every L0 file appears in exactly one sublevel;
//   - Version.CheckOrdering agrees;
//   - every not-yet-seen physical table is opened and each point key, range
//     deletion and range key is checked against the table's recorded bounds
//     and sequence-number range.
func (r *Run) versionWalk(why string) {
	v := r.db.DebugCurrentVersion()
	if v == nil {
		return
	}
	cmp := testkeys.Comparer.Compare
	r.count("version_walks", 1)
	if err := v.CheckOrdering(); err != nil {
		r.fail("version-ordering", "Version.CheckOrdering(%s): %v", why, err)
		return
	}
	checkRun := func(what string, files []*manifest.TableMetadata) bool {
		for i := 1; i < len(files); i++ {
			a, b := files[i-1].UserKeyBounds(), files[i].UserKeyBounds()
			if a.Overlaps(cmp, b) {
				r.fail("level-overlap", "%s (%s): tables %s %s and %s %s overlap", what, why, files[i-1].TableNum, a, files[i].TableNum, b)
				return false
			}
			if cmp(a.Start, b.Start) > 0 {
				r.fail("level-unsorted", "%s (%s): tables %s and %s out of order", what, why, files[i-1].TableNum, files[i].TableNum)
				return false
			}
		}
		return true
	}
	for level := 1; level < manifest.NumLevels; level++ {
		var files []*manifest.TableMetadata
		for f := range v.Levels[level].All() {
			files = append(files, f)
		}
		r.count("level_files_checked", int64(len(files)))
		if !checkRun(fmt.Sprintf("L%d", level), files) {
			return
		}
	}
	// L0
	type l0f struct {
		f  *manifest.TableMetadata
		sl int
	}
	var l0 []l0f
	seen := map[base.TableNum]int{}
	for sl, slice := range v.L0SublevelFiles {
		var files []*manifest.TableMetadata
		for f := range slice.All() {
			files = append(files, f)
			l0 = append(l0, l0f{f, sl})
			seen[f.TableNum]++
		}
		if !checkRun(fmt.Sprintf("L0.%d", sl), files) {
			return
		}
	}
	n0 := 0
	for f := range v.Levels[0].All() {
		n0++
		if seen[f.TableNum] != 1 {
			r.fail("l0-sublevel-membership", "L0 table %s appears in %d sublevels (%s)", f.TableNum, seen[f.TableNum], why)
			return
		}
	}
	if n0 != len(l0) {
		r.fail("l0-sublevel-membership", "L0 has %d tables, sublevels hold %d (%s)", n0, len(l0), why)
		return
	}
	r.count("l0_files_checked", int64(n0))
	for i := range l0 {
		for j := i + 1; j < len(l0); j++ {
			a, b := l0[i], l0[j]
			if a.sl == b.sl {
				continue
			}
			ab, bb := a.f.UserKeyBounds(), b.f.UserKeyBounds()
			if !ab.Overlaps(cmp, bb) {
				continue
			}
			lo, hi := a, b
			if lo.sl > hi.sl {
				lo, hi = hi, lo
			}
			r.count("l0_overlapping_pairs_checked", 1)
			if !(hi.f.SeqNums.High > lo.f.SeqNums.High) {
				r.fail("l0-sublevel-order", "overlapping L0 tables %s (sublevel %d, seq %d-%d) and %s (sublevel %d, seq %d-%d): higher sublevel is not newer (%s)",
					lo.f.TableNum, lo.sl, lo.f.SeqNums.Low, lo.f.SeqNums.High, hi.f.TableNum, hi.sl, hi.f.SeqNums.Low, hi.f.SeqNums.High, why)
				return
			}
		}
	}
	// table contents
	if r.seenTables == nil {
		r.seenTables = map[uint64]bool{}
	}
	for _, f := range v.AllTables() {
		if f.Virtual || r.seenTables[uint64(f.TableNum)] {
			continue
		}
		r.seenTables[uint64(f.TableNum)] = true
		if !r.walkTable(f, why) {
			return
		}
	}
}

func (r *Run) walkTable(f *manifest.TableMetadata, why string) bool {
	ctx := context.Background()
	prov := r.db.ObjProvider()
	rd, err := prov.OpenForReading(ctx, base.FileTypeTable, f.TableBacking.DiskFileNum, objstorage.OpenOptions{MustExist: true})
	if err != nil {
		// the table may have been compacted away and deleted between the
		// version snapshot and now; that is not a violation
		r.count("tables_gone_before_walk", 1)
		return true
	}
	reader, err := sstable.NewReader(ctx, rd, r.opts.MakeReaderOptions())
	if err != nil {
		r.fail("table-open", "opening table %s: %v", f.TableNum, err)
		return false
	}
	defer reader.Close()
	cmp := testkeys.Comparer.Compare
	bounds := f.UserKeyBounds()
	inSeq := func(s base.SeqNum) bool {
		if s == 0 && f.SeqNums.Low == f.SeqNums.High {
			return true // ingested table: global sequence number applied at read time
		}
		if s == 0 && f.SeqNums.Low == 0 {
			return true
		}
		return s >= f.SeqNums.Low && s <= f.SeqNums.High
	}
	it, err := reader.NewIter(sstable.NoTransforms, nil, nil, sstable.DebugHandlesBlobContext)
	if err != nil {
		r.fail("table-open", "point iterator of table %s: %v", f.TableNum, err)
		return false
	}
	n := 0
	for kv := it.First(); kv != nil; kv = it.Next() {
		n++
		k := kv.K
		if cmp(k.UserKey, bounds.Start) < 0 || !bounds.End.IsUpperBoundFor(cmp, k.UserKey) {
			r.fail("table-content-outside-bounds", "table %s bounds %s contains point key %s (%s)", f.TableNum, bounds, k.Pretty(testkeys.Comparer.FormatKey), why)
			it.Close()
			return false
		}
		if !inSeq(k.SeqNum()) {
			r.fail("table-content-outside-seqnums", "table %s seqnums %d-%d contains point key %s (%s)", f.TableNum, f.SeqNums.Low, f.SeqNums.High, k.Pretty(testkeys.Comparer.FormatKey), why)
			it.Close()
			return false
		}
	}
	if err := it.Close(); err != nil {
		r.fail("table-open", "iterating table %s: %v", f.TableNum, err)
		return false
	}
	for _, kind := range []string{"rangedel", "rangekey"} {
		var spans []spanInfo
		var err error
		if kind == "rangedel" {
			spans, err = readSpans(reader, true)
		} else {
			spans, err = readSpans(reader, false)
		}
		if err != nil {
			r.fail("table-open", "%s iterator of table %s: %v", kind, f.TableNum, err)
			return false
		}
		for _, sp := range spans {
			n++
			// a span [start,end) must lie within [bounds.Start, bounds.End]
			if cmp(sp.start, bounds.Start) < 0 || !bounds.End.IsUpperBoundFor(cmp, sp.start) {
				r.fail("table-content-outside-bounds", "table %s bounds %s contains %s span [%s,%s) (%s)", f.TableNum, bounds, kind, sp.start, sp.end, why)
				return false
			}
			// exclusive span end may equal an exclusive or inclusive table end key
			if c := cmp(sp.end, bounds.End.Key); c > 0 {
				r.fail("table-content-outside-bounds", "table %s bounds %s contains %s span [%s,%s) (%s)", f.TableNum, bounds, kind, sp.start, sp.end, why)
				return false
			}
			for _, s := range sp.seqs {
				if !inSeq(s) {
					r.fail("table-content-outside-seqnums", "table %s seqnums %d-%d contains %s span [%s,%s)#%d (%s)", f.TableNum, f.SeqNums.Low, f.SeqNums.High, kind, sp.start, sp.end, s, why)
					return false
				}
			}
		}
	}
	r.count("tables_content_walked", 1)
	r.count("table_entries_checked", int64(n))
	return true
}

type spanInfo struct {
	start, end []byte
	seqs       []base.SeqNum
}

func readSpans(reader *sstable.Reader, rangeDel bool) ([]spanInfo, error) {
	ctx := context.Background()
	var out []spanInfo
	if rangeDel {
		it, err := reader.NewRawRangeDelIter(ctx, sstable.NoFragmentTransforms, sstable.NoReadEnv)
		if err != nil || it == nil {
			return nil, err
		}
		defer it.Close()
		for s, err := it.First(); ; s, err = it.Next() {
			if err != nil {
				return nil, err
			}
			if s == nil {
				break
			}
			si := spanInfo{start: append([]byte(nil), s.Start...), end: append([]byte(nil), s.End...)}
			for _, k := range s.Keys {
				si.seqs = append(si.seqs, k.SeqNum())
			}
			out = append(out, si)
		}
		return out, nil
	}
	it, err := reader.NewRawRangeKeyIter(ctx, sstable.NoFragmentTransforms, sstable.NoReadEnv)
	if err != nil || it == nil {
		return nil, err
	}
	defer it.Close()
	for s, err := it.First(); ; s, err = it.Next() {
		if err != nil {
			return nil, err
		}
		if s == nil {
			break
		}
		si := spanInfo{start: append([]byte(nil), s.Start...), end: append([]byte(nil), s.End...)}
		for _, k := range s.Keys {
			si.seqs = append(si.seqs, k.SeqNum())
		}
		out = append(out, si)
	}
	return out, nil
}
