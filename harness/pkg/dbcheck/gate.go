package dbcheck

import (
	"strings"
	"sync"
	"time"

	"github.com/cockroachdb/pebble/vfs"
)

// flushGate widens the window in which flushables (memtables, large batches,
// flushable ingests with or without an excise) sit in the flush queue: while
// it is closed, the creation of a table inside the DB directory - the first
// thing a flush or compaction does - blocks. The history keeps running against
// the queued flushables (later ingests and excises must be ordered against
// them, reads must merge them) and the gate is reopened after a few steps.
//
// The gate only shapes the schedule; verdicts never depend on it. A blocked
// creation gives up after maxWait so that an operation that itself waits for a
// flush (an ingest that cannot become a flushable, a stalled write) cannot
// deadlock the single-threaded driver; that is counted.
type flushGate struct {
	mu       sync.Mutex
	closed   bool
	ch       chan struct{}
	timeouts int64
	blocked  int64
}

const gateMaxWait = 150 * time.Millisecond

func (g *flushGate) close() {
	g.mu.Lock()
	if !g.closed {
		g.closed = true
		g.ch = make(chan struct{})
	}
	g.mu.Unlock()
}

func (g *flushGate) open() {
	g.mu.Lock()
	if g.closed {
		g.closed = false
		close(g.ch)
	}
	g.mu.Unlock()
}

func (g *flushGate) isClosed() bool {
	g.mu.Lock()
	defer g.mu.Unlock()
	return g.closed
}

func (g *flushGate) wait() {
	g.mu.Lock()
	if !g.closed {
		g.mu.Unlock()
		return
	}
	ch := g.ch
	g.blocked++
	g.mu.Unlock()
	select {
	case <-ch:
	case <-time.After(gateMaxWait):
		g.mu.Lock()
		g.timeouts++
		g.mu.Unlock()
	}
}

type gateFS struct {
	vfs.FS
	g   *flushGate
	dir string
}

func (f gateFS) Create(name string, cat vfs.DiskWriteCategory) (vfs.File, error) {
	if strings.HasSuffix(name, ".sst") && strings.HasPrefix(name, f.dir) {
		f.g.wait()
	}
	return f.FS.Create(name, cat)
}

// openGate reopens the flush gate (no-op without one).
func (r *Run) openGate() {
	if r.gate != nil {
		r.gate.open()
		r.gateLeft = 0
	}
}

// gateStep is called before every step; safe says whether the step is known
// not to wait for a flush or compaction.
func (r *Run) gateStep(safe bool) {
	if r.gate == nil {
		return
	}
	switch {
	case !safe:
		r.openGate()
	case r.gate.isClosed():
		r.gateLeft--
		if r.gateLeft <= 0 {
			r.openGate()
		}
	case r.rng.IntN(5) == 0:
		r.gate.close()
		r.gateLeft = 2 + r.rng.IntN(8)
		r.count("flush_gate_windows", 1)
	}
}
