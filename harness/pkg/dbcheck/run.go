package dbcheck

import (
	"context"
	"fmt"
	"math/rand/v2"
	"os"
	"runtime/debug"
	"sort"
	"strings"

	"github.com/cockroachdb/pebble"
	"github.com/cockroachdb/pebble/internal/verif/model"
	"github.com/cockroachdb/pebble/internal/verif/vcommon"
	"github.com/cockroachdb/pebble/vfs"
)

// NewRun draws a configuration and opens a fresh DB.
func NewRun(R *vcommon.Report, prop string, k Knobs, caseIdx int, rng *rand.Rand) *Run {
	return NewRunFS(R, prop, k, caseIdx, rng, nil, nil)
}

// NewRunFS is NewRun on a caller-supplied file system; setup may adjust the
// run (configuration, hook, options) before the DB is opened.
func NewRunFS(R *vcommon.Report, prop string, k Knobs, caseIdx int, rng *rand.Rand, fs vfs.FS, setup func(r *Run)) *Run {
	r := &Run{R: R, Prop: prop, K: k, Case: caseIdx, rng: rng, Ev: &Events{}, M: model.NewState(),
		w1set: map[string]int{}, w1mg: map[string]bool{}, shapes: map[string]struct{}{}, Stats: map[string]int64{}}
	r.Cfg = drawConfig(rng, k)
	if k.Ratchet {
		// leave room for upgrades
		r.Cfg.FMV = int(pebble.FormatMinSupported) + rng.IntN(int(pebble.FormatNewest-pebble.FormatMinSupported)+1)/2
		if k.RatchetHeavy {
			r.Cfg.FMV = int(pebble.FormatMinSupported) + rng.IntN(int(pebble.FormatNewest-pebble.FormatMinSupported))
		}
	}
	letters := "abcdefgh"[:r.Cfg.Letters]
	for _, c := range letters {
		r.prefixes = append(r.prefixes, string(c))
	}
	// a few two-letter prefixes so that prefix collisions ("a" vs "ab") occur
	for i := 0; i < 3; i++ {
		p := string(letters[rng.IntN(len(letters))]) + string(letters[rng.IntN(len(letters))])
		dup := false
		for _, q := range r.prefixes {
			if q == p {
				dup = true
			}
		}
		if !dup {
			r.prefixes = append(r.prefixes, p)
		}
	}
	sort.Strings(r.prefixes)
	r.fs = fs
	if r.fs == nil {
		r.fs = vfs.NewMem()
	}
	r.Dir = "db"
	if setup != nil {
		setup(r)
	}
	if r.Cfg.FlushGate {
		r.gate = &flushGate{}
		r.fs = gateFS{FS: r.fs, g: r.gate, dir: r.Dir + "/"}
	}
	r.opts = MakeOptions(r.Cfg, r.fs, r.Ev)
	if r.OptsHook != nil {
		r.OptsHook(r.opts)
	}
	r.attachFileCache()
	r.opts.EnsureDefaults()
	db, err := pebble.Open(r.Dir, r.opts)
	if err != nil {
		r.fail("open-error", "Open: %v", err)
		return r
	}
	r.setDB(db)
	r.log("open cfg=%+v", r.Cfg)
	return r
}

// Execute runs the history and the final checks. Returns false if a violation
// was recorded.
func (r *Run) Execute() bool {
	if r.failed {
		return false
	}
	defer func() {
		if p := recover(); p != nil {
			r.fail("panic", "panic during history: %v\n%s", p, debug.Stack())
			// the DB is in an unknown state; abandon it
		}
	}()
	for r.step = 1; r.step <= r.K.Units && !r.failed; r.step++ {
		r.oneStep()
		if r.K.AuditEvery > 0 && r.step%r.K.AuditEvery == 0 {
			r.audit("periodic")
		}
	}
	r.openGate()
	if !r.failed {
		r.audit("final")
	}
	r.finish()
	return !r.failed
}

func (r *Run) finish() {
	r.openGate()
	if r.gate != nil {
		r.gate.mu.Lock()
		r.count("flush_gate_blocked_creates", r.gate.blocked)
		r.count("flush_gate_timeouts", r.gate.timeouts)
		r.gate.mu.Unlock()
	}
	// report coverage facts
	for k, v := range r.Stats {
		r.R.Count(k, v)
	}
	r.Ev.mu.Lock()
	for k := range r.Ev.kinds {
		r.R.SetAdd("maintenance_kinds_observed", k)
	}
	nbg := len(r.Ev.bgErr)
	var bg string
	if nbg > 0 {
		bg = r.Ev.bgErr[0]
	}
	r.Ev.mu.Unlock()
	if nbg > 0 && !r.failed {
		r.fail("background-error", "background error without any injected fault: %s", bg)
	}
	for s := range r.shapes {
		r.R.Distinct("shape", r.Case, s)
	}
	r.R.Count("distinct_lsm_shapes", int64(len(r.shapes)))
	if r.nontrivial {
		r.R.Count("nontrivial_histories", 1)
	}
	if !r.NoFinalClose {
		r.closeAll()
	}
}

// attachFileCache gives the DB a tiny file cache when the configuration asks
// for it (forces tables to be re-opened constantly).
func (r *Run) attachFileCache() {
	if r.Cfg.FileCacheSize > 0 {
		if r.fileCache == nil {
			r.fileCache = pebble.NewFileCache(1, r.Cfg.FileCacheSize)
		}
		r.opts.FileCache = r.fileCache
	}
}

// CloseAll closes every object and the DB.
func (r *Run) CloseAll() { r.closeAll() }

// closeAll closes every object and the DB; Close errors are violations (C47).
func (r *Run) closeAll() {
	r.openGate()
	if r.db == nil {
		return
	}
	if r.failed {
		// leave the DB alone: closing with leaked objects would only add noise
		for _, io := range r.iters {
			io.it.Close()
		}
		for _, s := range r.snaps {
			s.s.Close()
		}
		for _, e := range r.efos {
			e.s.Close()
		}
		for _, b := range r.bats {
			b.b.Close()
		}
		r.db.Close()
		r.setDB(nil)
		return
	}
	r.quiesce()
	if err := r.db.Close(); err != nil {
		r.fail("close-error", "DB.Close: %v", err)
	}
	r.setDB(nil)
	if r.fileCache != nil {
		r.fileCache.Unref()
		r.fileCache = nil
	}
}

// quiesce closes iterators, snapshots, EFOS and batches.
func (r *Run) quiesce() {
	for _, io := range r.iters {
		if err := io.it.Close(); err != nil {
			r.fail("iterator-close-error", "%s Close: %v", io.desc, err)
		}
	}
	r.iters = nil
	for _, s := range r.snaps {
		if err := s.s.Close(); err != nil {
			r.fail("snapshot-close-error", "snapshot Close: %v", err)
		}
	}
	r.snaps = nil
	for _, e := range r.efos {
		if err := e.s.Close(); err != nil {
			r.fail("efos-close-error", "EFOS Close: %v", err)
		}
	}
	r.efos = nil
	for _, b := range r.bats {
		if err := b.b.Close(); err != nil {
			r.fail("batch-close-error", "batch Close: %v", err)
		}
	}
	r.bats = nil
}

func (r *Run) oneStep() {
	type choice struct {
		w    int
		f    func()
		safe bool // known not to wait for a flush or compaction (flush gate)
	}
	var cs []choice
	add := func(w int, f func()) {
		if w > 0 {
			cs = append(cs, choice{w, f, false})
		}
	}
	addSafe := func(w int, f func()) {
		if w > 0 {
			cs = append(cs, choice{w, f, true})
		}
	}
	addSafe(30, r.stepWrite)
	addSafe(8, r.stepImmediateBatch)
	addSafe(6, r.stepGet)
	if r.K.Batches {
		addSafe(10, r.stepBatch)
	}
	if r.K.Snapshots {
		addSafe(5, r.stepSnapshot)
	}
	if r.K.Iters {
		addSafe(10, r.stepIterBurst)
	}
	if r.K.LongIters {
		addSafe(5, r.stepLongIter)
	}
	if r.K.BatchIters && r.K.Iters {
		addSafe(12, r.stepBatchIterRefresh)
	}
	if r.K.Maint {
		if r.K.MaintHeavy {
			add(22, r.stepMaint)
		} else {
			add(8, r.stepMaint)
		}
	}
	if r.K.Reopen {
		if r.gate != nil && r.gate.isClosed() && r.rng.IntN(2) == 0 {
			// close and reopen while flushables (memtables, large batches,
			// flushable ingests) are still queued: they must come back from the WAL
			addSafe(3, func() {
				r.count("reopens_with_flush_gate_closed", 1)
				r.stepReopen()
				r.openGate()
			})
		} else {
			add(1, r.stepReopen)
		}
	}
	if r.gate != nil && r.K.Ingest && r.K.Reopen {
		// several ingests (and excises) queued behind the closed gate, then a
		// close+reopen: the queued flushables must be rebuilt from the WAL
		addSafe(2, func() {
			r.gate.close()
			r.gateLeft = 100
			r.count("flush_gate_windows", 1)
			for i, n := 0, 2+r.rng.IntN(3); i < n && !r.failed; i++ {
				r.stepWrite()
				if !r.failed {
					r.stepIngest()
				}
			}
			if !r.failed {
				r.count("reopens_with_flush_gate_closed", 1)
				r.stepReopen()
			}
			r.openGate()
		})
	}
	if r.K.Ingest {
		w := 5
		if r.K.IngestHeavy {
			w = 18
		}
		if r.gate != nil && r.gate.isClosed() {
			w *= 3 // order more ingests against the queued flushables
		}
		addSafe(w, r.stepIngest)
	}
	if r.K.Excise {
		w := 2
		if r.K.IngestHeavy {
			w = 6
		}
		if r.gate != nil && r.gate.isClosed() {
			w *= 3
		}
		addSafe(w, r.stepExcise)
	}
	if r.K.EFOS {
		if r.K.EFOSHeavy {
			add(12, r.stepEFOS)
		} else {
			add(3, r.stepEFOS)
		}
	}
	if r.K.Ratchet {
		if r.K.RatchetHeavy {
			add(8, r.stepRatchet)
		} else {
			add(2, r.stepRatchet)
		}
	}
	if r.K.ScanInternal {
		add(12, r.stepScanInternal)
	}
	for _, e := range r.Extra {
		e := e
		add(e.Weight, func() { e.F(r) })
	}
	tot := 0
	for _, c := range cs {
		tot += c.w
	}
	x := r.rng.IntN(tot)
	for _, c := range cs {
		if x < c.w {
			r.gateStep(c.safe)
			c.f()
			return
		}
		x -= c.w
	}
}

func (r *Run) stepWrite() {
	op := r.genOp(true)
	wo := r.writeOpts()
	r.log("db.%s sync=%v", op, wo.Sync)
	r.issue("db."+op.String(), r.syncDurable(wo), batchApply([]model.Op{op}))
	if err := ApplyOp(r.db, op, wo); err != nil {
		r.fail("write-error", "%s: %v", op, err)
		return
	}
	r.ack()
	r.commitUnit([]model.Op{op}, false)
}

// stepImmediateBatch builds a batch and commits it in the same step.
func (r *Run) stepImmediateBatch() {
	n := 1 + r.rng.IntN(8)
	indexed := r.rng.IntN(3) == 0
	var b *pebble.Batch
	if indexed {
		b = r.db.NewIndexedBatch()
	} else {
		b = r.db.NewBatch()
	}
	var ops []model.Op
	for i := 0; i < n; i++ {
		op := r.genOp(true)
		r.w1Apply(op)
		if err := ApplyOp(b, op, nil); err != nil {
			r.fail("batch-write-error", "%s: %v", op, err)
			b.Close()
			return
		}
		ops = append(ops, op)
	}
	how := r.rng.IntN(3)
	wo := r.writeOpts()
	r.log("batch{%s} commit how=%d indexed=%v sync=%v", opsStr(ops), how, indexed, wo.Sync)
	r.issue("batch{"+opsStr(ops)+"}", r.syncDurable(wo), batchApply(ops))
	var err error
	switch how {
	case 0:
		err = b.Commit(wo)
	case 1:
		err = r.db.Apply(b, wo)
	default:
		if wo.Sync {
			err = r.db.ApplyNoSyncWait(b, wo)
			if err == nil {
				err = b.SyncWait()
			}
		} else {
			err = r.db.Apply(b, wo)
		}
	}
	if err != nil {
		r.fail("commit-error", "commit: %v", err)
		return
	}
	r.ack()
	nc := 0
	for _, o := range ops {
		if o.Kind != model.OpLogData { // LogData is not counted
			nc++
		}
	}
	if c := b.Count(); int(c) != nc {
		r.fail("batch-count", "Batch.Count()=%d, %d counted ops were added", c, nc)
	}
	r.commitUnit(ops, true)
	if err := b.Close(); err != nil {
		r.fail("batch-close-error", "%v", err)
	}
	if len(ops) > 0 && r.K.BigValues {
		r.count("immediate_batches", 1)
	}
}

func opsStr(ops []model.Op) string {
	var ss []string
	for _, o := range ops {
		ss = append(ss, o.String())
	}
	return strings.Join(ss, "; ")
}

func (r *Run) stepGet() {
	k := r.randKey()
	got, ok, err := getValue(dbGet(r.db), k)
	r.count("gets_compared", 1)
	if err != nil {
		r.fail("get-mismatch", "Get(%s) error %v", k, err)
		return
	}
	exp, eok := r.M.Points[k]
	if ok != eok || got != exp {
		r.fail("get-mismatch", "Get(%s) = (%q,%v), model (%q,%v)", k, tr(got), ok, tr(exp), eok)
	}
}

// overlay returns committed state ⊕ batch ops.
func (r *Run) overlay(b *batchObj) *model.State {
	st := r.M.Clone()
	st.ApplyBatch(b.ops)
	return st
}

// stepBatch drives long-lived batches: create, add ops, read through, commit,
// abandon, apply into another batch.
func (r *Run) stepBatch() {
	if len(r.bats) == 0 || (len(r.bats) < 4 && r.rng.IntN(4) == 0) {
		bo := &batchObj{indexed: r.rng.IntN(4) != 0, id: r.nbat}
		r.nbat++
		if bo.indexed {
			bo.b = r.db.NewIndexedBatch()
		} else {
			bo.b = r.db.NewBatch()
		}
		r.bats = append(r.bats, bo)
		r.log("batch%d = new indexed=%v", bo.id, bo.indexed)
		return
	}
	i := r.rng.IntN(len(r.bats))
	bo := r.bats[i]
	switch x := r.rng.IntN(20); {
	case x < 9: // add ops
		n := 1 + r.rng.IntN(3)
		for j := 0; j < n; j++ {
			op := r.genOp(false)
			r.log("batch%d.%s", bo.id, op)
			if err := ApplyOp(bo.b, op, nil); err != nil {
				r.fail("batch-write-error", "%s: %v", op, err)
				return
			}
			bo.ops = append(bo.ops, op)
		}
		// no leak into the DB: spot check one touched key
		if len(bo.ops) > 0 {
			op := bo.ops[len(bo.ops)-1]
			if op.Kind == model.OpSet || op.Kind == model.OpDelete || op.Kind == model.OpMerge {
				got, ok, err := getValue(dbGet(r.db), op.Key)
				exp, eok := r.M.Points[op.Key]
				r.count("leak_checks", 1)
				if err != nil || ok != eok || got != exp {
					r.fail("uncommitted-batch-leaked", "after batch%d.%s, DB Get(%s)=(%q,%v,%v), model (%q,%v)", bo.id, op, op.Key, tr(got), ok, err, tr(exp), eok)
				}
			}
		}
	case x < 13: // read through the batch
		if !bo.indexed {
			return
		}
		st := r.overlay(bo)
		if r.rng.IntN(2) == 0 {
			r.log("batch%d full Get audit", bo.id)
			r.checkGets(fmt.Sprintf("batch%d", bo.id), "batch-read-mismatch", batchGet(bo.b), st, nil)
			r.count("batch_get_audits", 1)
		} else {
			mo := r.randIterOpts()
			r.log("batch%d scan %v", bo.id, mo)
			r.scanCompare(fmt.Sprintf("batch%d", bo.id), "batch-read-mismatch", bo.b.NewIter, st, mo)
			r.count("batch_scan_audits", 1)
		}
	case x < 15: // open a long-lived iterator on the batch
		if !bo.indexed || !r.K.BatchIters || len(r.iters) >= 6 {
			return
		}
		mo := r.randIterOpts()
		po := r.toPebbleOpts(mo, false)
		it, err := bo.b.NewIter(po)
		if err != nil {
			r.fail("batch-read-mismatch", "batch NewIter: %v", err)
			return
		}
		io := &iterObj{it: it, m: model.NewIter(r.overlay(bo), mo), desc: fmt.Sprintf("batch%d-iter%v", bo.id, mo), batch: bo, base: r.M.Clone(), born: r.step, frozen: true, l6: po.UseL6Filters}
		r.iters = append(r.iters, io)
		r.log("iter on batch%d %v", bo.id, mo)
	case x < 18: // commit
		r.closeBatchIters(bo) // iterators over a batch must be closed before it is committed
		wo := r.writeOpts()
		r.log("batch%d{%s} commit sync=%v", bo.id, opsStr(bo.ops), wo.Sync)
		// committing an empty batch is a no-op (nothing is written or synced)
		r.issue(fmt.Sprintf("batch%d{%s}", bo.id, opsStr(bo.ops)), r.syncDurable(wo) && len(bo.ops) > 0, batchApply(bo.ops))
		if err := bo.b.Commit(wo); err != nil {
			r.fail("commit-error", "commit: %v", err)
			return
		}
		r.ack()
		r.commitUnit(bo.ops, false)
		bo.b.Close()
		r.bats = append(r.bats[:i], r.bats[i+1:]...)
		r.count("long_lived_batches_committed", 1)
	case x < 19: // abandon
		r.closeBatchIters(bo)
		r.log("batch%d abandon", bo.id)
		if err := bo.b.Close(); err != nil {
			r.fail("batch-close-error", "%v", err)
		}
		r.bats = append(r.bats[:i], r.bats[i+1:]...)
		r.count("batches_abandoned", 1)
	default: // apply into another batch
		if len(r.bats) < 2 {
			return
		}
		j := (i + 1 + r.rng.IntN(len(r.bats)-1)) % len(r.bats)
		dst := r.bats[j]
		r.log("batch%d.Apply(batch%d)", dst.id, bo.id)
		if err := dst.b.Apply(bo.b, nil); err != nil {
			r.fail("batch-write-error", "Batch.Apply: %v", err)
			return
		}
		dst.ops = append(dst.ops, bo.ops...)
		r.count("batch_apply_into_batch", 1)
	}
}

func (r *Run) closeBatchIters(bo *batchObj) {
	var victims []*iterObj
	for _, io := range r.iters {
		if io.batch == bo {
			victims = append(victims, io)
		}
	}
	for _, io := range victims {
		r.closeIter(io)
	}
}

func (r *Run) closeIter(io *iterObj) {
	for i, x := range r.iters {
		if x == io {
			r.iters = append(r.iters[:i], r.iters[i+1:]...)
			break
		}
	}
	if err := io.it.Close(); err != nil {
		r.fail("iterator-close-error", "%s Close: %v", io.desc, err)
	}
}

func (r *Run) stepSnapshot() {
	if len(r.snaps) < 4 && (len(r.snaps) == 0 || r.rng.IntN(3) == 0) {
		s := &snapObj{s: r.db.NewSnapshot(), st: r.M.Clone(), born: r.step}
		r.snaps = append(r.snaps, s)
		r.log("snapshot@%d = new", s.born)
		return
	}
	i := r.rng.IntN(len(r.snaps))
	s := r.snaps[i]
	switch r.rng.IntN(6) {
	case 0:
		// iterators on the snapshot must be closed first; we only hold none
		r.log("snapshot@%d close", s.born)
		if err := s.s.Close(); err != nil {
			r.fail("snapshot-close-error", "%v", err)
		}
		r.snaps = append(r.snaps[:i], r.snaps[i+1:]...)
	case 1, 2:
		k := r.randKey()
		if inSpans(s.excised, k) {
			return
		}
		got, ok, err := getValue(snapGet(s.s), k)
		exp, eok := s.st.Points[k]
		r.count("snapshot_gets_compared", 1)
		if err != nil || ok != eok || got != exp {
			r.fail("snapshot-mismatch", "snapshot@%d Get(%s)=(%q,%v,%v), model (%q,%v)", s.born, k, tr(got), ok, err, tr(exp), eok)
		}
	default:
		if len(s.excised) > 0 {
			return
		}
		mo := r.randIterOpts()
		r.log("snapshot@%d scan %v", s.born, mo)
		r.scanCompare(fmt.Sprintf("snapshot@%d", s.born), "snapshot-mismatch", s.s.NewIter, s.st, mo)
		r.count("snapshot_scans", 1)
	}
}

func (r *Run) stepLongIter() {
	if len(r.iters) < 6 && (len(r.iters) == 0 || r.rng.IntN(3) != 0) {
		mo := r.randIterOpts()
		it, err := r.db.NewIter(r.toPebbleOpts(mo, false))
		if err != nil {
			r.fail("iterator-view-changed", "NewIter: %v", err)
			return
		}
		io := &iterObj{it: it, m: model.NewIter(r.M.Clone(), mo), desc: fmt.Sprintf("db-iter%v", mo), born: r.step, frozen: true}
		r.iters = append(r.iters, io)
		r.log("long iter@%d = new %v", r.step, mo)
		return
	}
	i := r.rng.IntN(len(r.iters))
	io := r.iters[i]
	switch x := r.rng.IntN(10); {
	case x < 2:
		r.log("long iter@%d close", io.born)
		r.closeIter(io)
	case x < 3 && io.batch != nil:
		// SetOptions refreshes the iterator's view of the batch (the DB part
		// of the view stays pinned).
		mo := r.randIterOpts()
		r.log("iter@%d on batch%d SetOptions(%v) [refresh]", io.born, io.batch.id, mo)
		io.it.SetOptions(r.toPebbleOpts(mo, false))
		st := io.base.Clone()
		st.ApplyBatch(io.batch.ops)
		io.m.SetState(st)
		io.m.SetOpts(mo)
		io.desc = fmt.Sprintf("batch%d-iter%v(refreshed@%d)", io.batch.id, mo, r.step)
		r.count("batch_view_refreshes", 1)
		r.redrive(io, "after-refresh")
	case x < 5 && io.batch != nil && r.K.Iters && r.rng.IntN(2) == 0:
		r.batchIterRefresh(io)
	case x < 5:
		// clone
		if len(r.iters) >= 6 {
			return
		}
		co := pebble.CloneOptions{}
		st := io.m.State()
		mo := io.m.Opts()
		if r.rng.IntN(2) == 0 {
			mo = r.randIterOpts()
			co.IterOptions = r.toPebbleOpts(mo, false)
		}
		if io.batch != nil && r.rng.IntN(2) == 0 {
			// The clone sees the batch as of now; the DB part of the view stays
			// the one the original iterator pinned at creation (io.base).
			co.RefreshBatchView = true
			st = io.base.Clone()
			st.ApplyBatch(io.batch.ops)
			r.count("batch_view_refreshes", 1)
		}
		c, err := io.it.Clone(co)
		if err != nil {
			r.fail("iterator-view-changed", "Clone: %v", err)
			return
		}
		cio := &iterObj{it: c, m: model.NewIter(st, mo), desc: "clone-of-" + io.desc, batch: io.batch, base: io.base, born: io.born, frozen: true}
		r.iters = append(r.iters, cio)
		r.log("clone of iter@%d opts=%v", io.born, mo)
		r.count("iterator_clones", 1)
	default:
		r.log("redrive iter@%d", io.born)
		r.redrive(io, "step")
		if r.K.Iters && !r.failed {
			r.iterOps(io, 10)
		}
	}
}

// batchIterRefresh positions a batch iterator (possibly pausing it at a
// limit), mutates the batch underneath it, refreshes the batch view with the
// SAME options (the cheap path of SetOptions) and seeks again near the old
// position.
func (r *Run) batchIterRefresh(io *iterObj) {
	bo := io.batch
	limited := false
	if r.K.Limits && r.rng.IntN(3) == 0 {
		// end the first burst with a limited seek whose limit is close to the
		// seek key, so that the iterator is likely to pause at the limit
		k := r.randSeekKey()
		p, _ := model.SplitKey(k)
		io.forceLimitSeek = [2]string{k, pick(r.rng, p+"\x00", p+"\x00", p+fmt.Sprintf("@%d", 1))}
		if model.Cmp(io.forceLimitSeek[1], k) <= 0 {
			io.forceLimitSeek = [2]string{}
		} else {
			limited = true
		}
	}
	if limited {
		r.iterOps(io, 1)
	} else {
		r.iterOps(io, 1+r.rng.IntN(4))
	}
	if r.failed {
		return
	}
	for j, n := 0, 1+r.rng.IntN(2); j < n; j++ {
		op := r.genOp(false)
		r.log("batch%d.%s (under iter@%d)", bo.id, op, io.born)
		io.full = append(io.full, "BATCH."+op.String())
		if err := ApplyOp(bo.b, op, nil); err != nil {
			r.fail("batch-write-error", "%s: %v", op, err)
			return
		}
		bo.ops = append(bo.ops, op)
	}
	mo := io.m.Opts()
	po := r.toPebbleOpts(mo, false)
	po.UseL6Filters = io.l6
	// half of the time the first seek after the refresh goes to (or just before)
	// the key the iterator was on: the internal iterator may already be past it
	if cur, on := io.m.Cur(); on && r.rng.IntN(2) == 0 {
		p, _ := model.SplitKey(cur.Key)
		io.forceFirstSeek = pick(r.rng, cur.Key, cur.Key, p, p+fmt.Sprintf("@%d", r.Cfg.MaxSuffix+1))
	} else if !on && io.lastSeek != "" && (limited || r.rng.IntN(2) == 0) {
		// not on a key (exhausted, or paused at a limit): seek again at or
		// just after the previous seek key
		lp, ls := model.SplitKey(io.lastSeek)
		after := io.lastSeek + "\x00"
		if ls != "" || strings.HasSuffix(lp, "\x00") {
			after = io.lastSeek
		}
		io.forceFirstSeek = pick(r.rng, io.lastSeek, io.lastSeek, after)
	}
	r.log("iter@%d on batch%d SetOptions(same %v) [refresh]", io.born, bo.id, mo)
	io.full = append(io.full, "SetOptions(same)")
	io.it.SetOptions(po)
	st := io.base.Clone()
	st.ApplyBatch(bo.ops)
	io.m.SetState(st)
	r.count("batch_view_refreshes_same_options", 1)
	r.iterOps(io, 1+r.rng.IntN(4))
}

// stepBatchIterRefresh makes sure an indexed batch with an open iterator
// exists and runs a few position / mutate / refresh / re-seek rounds on it.
func (r *Run) stepBatchIterRefresh() {
	var io *iterObj
	for _, x := range r.iters {
		if x.batch != nil {
			io = x
		}
	}
	if io == nil {
		var bo *batchObj
		for _, b := range r.bats {
			if b.indexed {
				bo = b
			}
		}
		if bo == nil {
			if len(r.bats) >= 4 {
				return
			}
			bo = &batchObj{indexed: true, id: r.nbat, b: r.db.NewIndexedBatch()}
			r.nbat++
			r.bats = append(r.bats, bo)
			r.log("batch%d = new indexed=true", bo.id)
		}
		if len(r.iters) >= 6 {
			return
		}
		mo := r.randIterOpts()
		if r.rng.IntN(2) == 0 {
			mo.KeyTypes = model.PointsOnly
		}
		po := r.toPebbleOpts(mo, false)
		it, err := bo.b.NewIter(po)
		if err != nil {
			r.fail("batch-read-mismatch", "batch NewIter: %v", err)
			return
		}
		io = &iterObj{it: it, m: model.NewIter(r.overlay(bo), mo), desc: fmt.Sprintf("batch%d-iter%v", bo.id, mo), batch: bo, base: r.M.Clone(), born: r.step, frozen: true, l6: po.UseL6Filters}
		r.iters = append(r.iters, io)
		r.log("iter on batch%d %v", bo.id, mo)
	}
	for j, n := 0, 1+r.rng.IntN(3); j < n && !r.failed; j++ {
		r.batchIterRefresh(io)
	}
}

// stepIterBurst opens a short-lived iterator on the latest state (or a
// snapshot) and runs a burst of random positioning ops against the model.
func (r *Run) stepIterBurst() {
	mo := r.randIterOpts()
	st := r.M
	var it *pebble.Iterator
	var err error
	desc := "db"
	if r.K.Snapshots && len(r.snaps) > 0 && r.rng.IntN(4) == 0 {
		s := r.snaps[r.rng.IntN(len(r.snaps))]
		if len(s.excised) == 0 {
			st = s.st
			it, err = s.s.NewIter(r.toPebbleOpts(mo, false))
			desc = fmt.Sprintf("snapshot@%d", s.born)
		}
	}
	useFilter := false
	if it == nil {
		if r.K.MaskFilterDiff && r.K.Masking && r.rng.IntN(2) == 0 {
			// masking-heavy deck: combined iteration with a mask suffix
			mo.KeyTypes = model.PointsAndRanges
			if mo.MaskSuffix == "" {
				mo.MaskSuffix = fmt.Sprintf("@%d", 1+r.rng.IntN(r.Cfg.MaxSuffix+1))
			}
		}
		useFilter = r.K.MaskFilterDiff && mo.MaskSuffix != "" && r.rng.IntN(3) != 0
		if useFilter {
			r.count("bursts_with_filter_mask", 1)
			if r.K.Maint && r.rng.IntN(2) == 0 {
				// block-property filters only act on tables: move the memtable out
				if err := r.db.Flush(); err != nil {
					r.fail("flush-error", "Flush: %v", err)
					return
				}
				r.durable("flush")
				r.count("flushes_before_filter_bursts", 1)
			}
		}
		it, err = r.db.NewIter(r.toPebbleOpts(mo, useFilter))
	}
	if err != nil {
		r.fail("iter-op-mismatch", "NewIter: %v", err)
		return
	}
	io := &iterObj{it: it, m: model.NewIter(st, mo), desc: fmt.Sprintf("%s-iter%v", desc, mo), born: r.step, useFilter: useFilter}
	r.log("burst on %s filter=%v", io.desc, useFilter)
	r.iterOps(io, r.K.IterBurst)
	if err := it.Close(); err != nil && !r.failed {
		r.fail("iterator-close-error", "%v", err)
	}
}

// iterOps issues n random positioning ops and checks each against the model.
func (r *Run) iterOps(io *iterObj, n int) {
	it, m := io.it, io.m
	var trace []string
	defer func() {
		io.full = append(io.full, trace...)
		if len(trace) > 0 {
			r.log("  ops on %s (now %v): %s", io.desc, m.Opts(), strings.Join(trace, " "))
		}
	}()
	bad := func(op string, format string, a ...any) {
		tail := trace
		if len(tail) > 40 {
			tail = tail[len(tail)-40:]
		}
		extra := ""
		if strings.HasPrefix(op, "SeekGE(") && os.Getenv("VERIF_ITER_DIAG") != "" {
			k := strings.TrimSuffix(strings.TrimPrefix(op, "SeekGE("), ")")
			if cl, err := it.Clone(pebble.CloneOptions{}); err == nil {
				ok := cl.SeekGE([]byte(k))
				extra = fmt.Sprintf(" | diag: a Clone answers SeekGE(%s) with %s", k, pstr(ReadPos(cl), ok))
				cl.Close()
			}
			if cl, err := it.Clone(pebble.CloneOptions{}); err == nil && os.Getenv("VERIF_ITER_DIAG") != "1" {
				prev := os.Getenv("VERIF_ITER_DIAG")
				ok1 := cl.SeekGE([]byte(prev))
				p1 := pstr(ReadPos(cl), ok1)
				ok2 := cl.SeekGE([]byte(k))
				extra += fmt.Sprintf("; a Clone doing SeekGE(%s)=%s then SeekGE(%s)=%s", prev, p1, k, pstr(ReadPos(cl), ok2))
				cl.Close()
			}
			ok := it.First()
			_ = ok
			ok = it.SeekGE([]byte(k))
			extra += fmt.Sprintf("; the same iterator after First+SeekGE: %s", pstr(ReadPos(it), ok))
		}
		if os.Getenv("VERIF_ITER_DIAG") != "" {
			extra += fmt.Sprintf(" | FULL OPS: %s %s | BASE: %s | LSM:\n%s", strings.Join(io.full, " "), strings.Join(trace, " "), func() string {
				if io.base != nil {
					return io.base.String()
				}
				return io.m.State().String()
			}(), r.db.DebugString())
		}
		r.fail("iter-op-mismatch", "%s: %s: %s | ops so far: %s%s", io.desc, op, fmt.Sprintf(format, a...), strings.Join(tail, " "), extra)
	}
	// checkValid compares a deterministic result
	check := func(op string, gotValid bool, exp model.Pos, expOK bool) bool {
		r.count("iter_ops_checked", 1)
		if err := it.Error(); err != nil {
			bad(op, "unexpected iterator error %v", err)
			return false
		}
		if gotValid != expOK {
			var g string
			if gotValid {
				g = pstr(ReadPos(it), true)
			} else {
				g = "<invalid>"
			}
			bad(op, "got %s, model %s", g, pstr(exp, expOK))
			return false
		}
		if gotValid {
			got := ReadPos(it)
			if !PosEqual(exp, got) {
				bad(op, "got %s, model %s", pstr(got, true), pstr(exp, true))
				return false
			}
			if !r.boundsOK(m.Opts(), got.Key) {
				bad(op, "key %s outside bounds", got.Key)
				return false
			}
		}
		if it.Valid() != gotValid {
			bad(op, "Valid()=%v but op returned %v", it.Valid(), gotValid)
			return false
		}
		return true
	}
	upperHasSuffix := func() bool {
		o := m.Opts()
		if !o.HasUpper {
			return false
		}
		_, s := model.SplitKey(o.Upper)
		return s != ""
	}
	// pending holds the remaining ops of a compound "bounds walk": a window of
	// bounds derived from the previous one (adjacent forward / backward, or
	// overlapping) followed by a seek at one of its edges and a few steps. It
	// drives the bounds-monotonicity optimisations of the sstable and level
	// iterators, including across a prefix seek that a bloom filter rejects.
	var pending []string
	var forcedBounds *[2]string
	var forcedKey string
	// seekKey draws a seek key, sometimes repeating the iterator's previous
	// seek key (the no-op / paused-position seek shortcuts of Iterator).
	var forcedLimit string
	if io.forceFirstSeek != "" {
		pending = append(pending, "SeekGE")
		forcedKey, io.forceFirstSeek = io.forceFirstSeek, ""
	} else if io.forceLimitSeek[0] != "" && r.K.Limits {
		pending = append(pending, "SeekGEWithLimit")
		forcedKey, forcedLimit = io.forceLimitSeek[0], io.forceLimitSeek[1]
		io.forceLimitSeek = [2]string{}
	}
	seekKey := func(i int) string {
		k := r.seekKeyFor(m, i)
		if io.lastSeek != "" && r.rng.IntN(3) == 0 {
			k = io.lastSeek
		}
		io.lastSeek = k
		return k
	}
	for i := 0; i < n && !r.failed; i++ {
		var ops []string
		if len(pending) > 0 {
			ops = pending[:1]
			pending = pending[1:]
		} else if !m.Positioned() {
			ops = []string{"First", "Last", "SeekGE", "SeekLT", "SeekPrefixGE", "SetBounds", "BoundsWalk"}
			if r.K.Limits {
				ops = append(ops, "SeekGEWithLimit", "SeekLTWithLimit")
			}
		} else if m.InPrefixMode() {
			ops = []string{"Next", "Next", "Next", "SeekPrefixGE", "SeekPrefixGE", "SeekGE", "First", "Last", "SeekLT", "SetBounds", "BoundsWalk"}
			if !upperHasSuffix() { // NextPrefix with a suffixed upper bound is a documented error
				ops = append(ops, "NextPrefix")
			}
		} else {
			ops = []string{"Next", "Next", "Next", "Next", "Prev", "Prev", "Prev", "SeekGE", "SeekGE", "SeekLT", "SeekLT", "First", "Last", "SeekPrefixGE", "SetBounds", "BoundsWalk", "BoundsWalk"}
			if io.batch == nil {
				ops = append(ops, "SetOptions")
			}
			if _, on := m.Cur(); on && !upperHasSuffix() {
				ops = append(ops, "NextPrefix", "NextPrefix")
			}
			if r.K.Limits {
				ops = append(ops, "NextWithLimit", "NextWithLimit", "PrevWithLimit", "PrevWithLimit", "SeekGEWithLimit", "SeekLTWithLimit")
			}
		}
		op := ops[r.rng.IntN(len(ops))]
		if (op == "Next" || op == "Prev") && !m.Positioned() {
			continue // a step of a bounds walk whose seek was not issued
		}
		switch op {
		case "First":
			trace = append(trace, "First")
			exp, ok := m.First()
			check(op, it.First(), exp, ok)
		case "Last":
			trace = append(trace, "Last")
			exp, ok := m.Last()
			check(op, it.Last(), exp, ok)
		case "BoundsWalk":
			o := m.Opts()
			var lo, hi string
			for try := 0; try < 8; try++ {
				switch {
				case o.HasLower && o.HasUpper && r.rng.IntN(5) < 2: // adjacent, forward
					lo, hi = o.Upper, r.randSeekKey()
				case o.HasLower && o.HasUpper && r.rng.IntN(3) < 1: // adjacent, backward
					lo, hi = r.randSeekKey(), o.Lower
				case o.HasLower && o.HasUpper && r.rng.IntN(2) == 0: // overlapping, forward
					lo, hi = r.randSeekKey(), r.randSeekKey()
					if model.Cmp(lo, o.Lower) < 0 || model.Cmp(lo, o.Upper) > 0 {
						lo = o.Lower
					}
				default:
					lo, hi = r.randSeekKey(), r.randSeekKey()
					if model.Cmp(lo, hi) > 0 {
						lo, hi = hi, lo
					}
				}
				if model.Cmp(lo, hi) < 0 {
					break
				}
				lo, hi = "", ""
			}
			if lo == "" && hi == "" {
				continue
			}
			forcedBounds = &[2]string{lo, hi}
			r.count("bounds_walk_windows", 1)
			// the seek that follows the new window
			var seek string
			switch r.rng.IntN(8) {
			case 0, 1, 2:
				seek, forcedKey = "SeekGE", lo
			case 3:
				seek, forcedKey = "SeekLT", hi
			case 4:
				seek, forcedKey = "SeekGE", r.randSeekKey()
			case 5, 6:
				seek, forcedKey = "SeekPrefixGE", r.randKey()
				if r.rng.IntN(2) == 0 {
					// a prefix that probably exists in no table (bloom filter miss)
					seek, forcedKey = "SeekPrefixGE", r.randPrefix()+"\x00"+r.randSuffix()
					if lp, _ := model.SplitKey(lo); r.rng.IntN(2) == 0 {
						forcedKey = lp + r.randSuffix()
					}
				}
			default:
				seek = pick(r.rng, "First", "Last")
			}
			pending = append(pending[:0], "SetBounds", seek)
			for j, nsteps := 0, r.rng.IntN(3); j < nsteps; j++ {
				if seek == "SeekPrefixGE" || seek == "SeekGE" || seek == "First" {
					pending = append(pending, "Next")
				} else {
					pending = append(pending, "Prev")
				}
			}
			if r.rng.IntN(2) == 0 {
				pending = append(pending, "BoundsWalk")
			}
			continue
		case "SeekGE":
			k := seekKey(i)
			if forcedKey != "" {
				k, forcedKey = forcedKey, ""
			}
			trace = append(trace, "SeekGE("+k+")")
			exp, ok := m.SeekGE(k)
			check(op+"("+k+")", it.SeekGE([]byte(k)), exp, ok)
		case "SeekLT":
			k := seekKey(i)
			if forcedKey != "" {
				k, forcedKey = forcedKey, ""
			}
			trace = append(trace, "SeekLT("+k+")")
			exp, ok := m.SeekLT(k)
			check(op+"("+k+")", it.SeekLT([]byte(k)), exp, ok)
		case "SeekPrefixGE":
			k := r.randKey()
			if forcedKey != "" {
				k, forcedKey = forcedKey, ""
			}
			o := m.Opts()
			if (o.HasLower && model.Cmp(k, o.Lower) < 0) || (o.HasUpper && model.Cmp(k, o.Upper) >= 0) {
				// documented to error when the prefix differs from the bound's; not generated
				continue
			}
			trace = append(trace, "SeekPrefixGE("+k+")")
			exp, ok := m.SeekPrefixGE(k)
			if check(op+"("+k+")", it.SeekPrefixGE([]byte(k)), exp, ok) && ok {
				if model.Prefix(exp.Key) != model.Prefix(k) {
					bad(op, "model bug: foreign prefix")
				}
			}
			r.count("prefix_seeks", 1)
		case "Next":
			trace = append(trace, "Next")
			exp, ok := m.Next()
			check(op, it.Next(), exp, ok)
		case "Prev":
			trace = append(trace, "Prev")
			exp, ok := m.Prev()
			check(op, it.Prev(), exp, ok)
		case "NextPrefix":
			trace = append(trace, "NextPrefix")
			if m.InPrefixMode() {
				got := it.NextPrefix()
				r.count("iter_ops_checked", 1)
				if got || it.Valid() {
					bad(op, "NextPrefix in prefix mode must exhaust the iterator, got %s", pstr(ReadPos(it), true))
				}
				// model: exhausted at the end of the prefix list
				for {
					if _, ok := m.Next(); !ok {
						break
					}
				}
				continue
			}
			exp, ok := m.NextPrefix()
			check(op, it.NextPrefix(), exp, ok)
		case "SetBounds":
			mo := m.Opts()
			nb := r.randIterOpts()
			mo.HasLower, mo.Lower, mo.HasUpper, mo.Upper = nb.HasLower, nb.Lower, nb.HasUpper, nb.Upper
			if forcedBounds != nil {
				mo.HasLower, mo.Lower, mo.HasUpper, mo.Upper = true, forcedBounds[0], true, forcedBounds[1]
				forcedBounds = nil
			}
			trace = append(trace, fmt.Sprintf("SetBounds(%v)", mo))
			po := r.toPebbleOpts(mo, false)
			it.SetBounds(po.LowerBound, po.UpperBound)
			m.SetOpts(mo)
			r.count("iter_ops_checked", 1)
			if it.Valid() {
				bad(op, "iterator still valid after SetBounds")
			}
		case "SetOptions":
			mo := r.randIterOpts()
			if io.useFilter && mo.MaskSuffix == "" && r.rng.IntN(2) == 0 {
				mo.KeyTypes, mo.MaskSuffix = model.PointsAndRanges, m.Opts().MaskSuffix
			}
			trace = append(trace, fmt.Sprintf("SetOptions(%v)", mo))
			it.SetOptions(r.toPebbleOpts(mo, io.useFilter && mo.MaskSuffix != ""))
			m.SetOpts(mo)
			r.count("iter_ops_checked", 1)
			if it.Valid() {
				bad(op, "iterator still valid after SetOptions")
			}
		case "NextWithLimit":
			l := r.randSeekKey()
			trace = append(trace, "NextWithLimit("+l+")")
			res := it.NextWithLimit([]byte(l))
			N, ok := m.PeekNext()
			r.limitResult(op+"("+l+")", io, res, N, ok, ok && model.Cmp(N.Key, l) < 0, func() { m.Next() }, func() { m.PauseForward(false, "") }, bad)
		case "PrevWithLimit":
			l := r.randSeekKey()
			trace = append(trace, "PrevWithLimit("+l+")")
			res := it.PrevWithLimit([]byte(l))
			N, ok := m.PeekPrev()
			r.limitResult(op+"("+l+")", io, res, N, ok, ok && model.Cmp(N.Key, l) >= 0, func() { m.Prev() }, func() { m.PauseBackward(false, "") }, bad)
		case "SeekGEWithLimit":
			k := seekKey(i)
			if forcedKey != "" {
				k, forcedKey = forcedKey, ""
				io.lastSeek = k
			}
			l := r.randSeekKey()
			if forcedLimit != "" {
				l, forcedLimit = forcedLimit, ""
			}
			if model.Cmp(l, k) <= 0 {
				continue
			}
			trace = append(trace, "SeekGEWithLimit("+k+","+l+")")
			res := it.SeekGEWithLimit([]byte(k), []byte(l))
			N, ok := m.PeekSeekGE(k)
			r.limitResult(op+"("+k+","+l+")", io, res, N, ok, ok && model.Cmp(N.Key, l) < 0, func() { m.SeekGE(k) }, func() { m.PauseForward(true, k) }, bad)
		case "SeekLTWithLimit":
			k := seekKey(i)
			l := r.randSeekKey()
			if model.Cmp(l, k) >= 0 {
				continue
			}
			trace = append(trace, "SeekLTWithLimit("+k+","+l+")")
			res := it.SeekLTWithLimit([]byte(k), []byte(l))
			N, ok := m.PeekSeekLT(k)
			r.limitResult(op+"("+k+","+l+")", io, res, N, ok, ok && model.Cmp(N.Key, l) >= 0, func() { m.SeekLT(k) }, func() { m.PauseBackward(true, k) }, bad)
		}
	}
}

// limitResult applies the documented non-deterministic contract of the
// *WithLimit operations (DESIGN.md §3.1 "Limits").
func (r *Run) limitResult(op string, io *iterObj, res pebble.IterValidityState, N model.Pos, exists, insideLimit bool,
	advance func(), pause func(), bad func(op, format string, a ...any)) {
	r.count("iter_ops_checked", 1)
	r.count("limit_ops_checked", 1)
	it := io.it
	if err := it.Error(); err != nil {
		bad(op, "unexpected iterator error %v", err)
		return
	}
	switch res {
	case pebble.IterValid:
		if !exists {
			bad(op, "IterValid at %s but the model has no further position", pstr(ReadPos(it), true))
			return
		}
		got := ReadPos(it)
		if !PosEqual(N, got) {
			bad(op, "IterValid at %s, model's next position is %s", pstr(got, true), pstr(N, true))
			return
		}
		advance()
	case pebble.IterAtLimit:
		if insideLimit {
			bad(op, "IterAtLimit although the next position %s is inside the limit", pstr(N, true))
			return
		}
		if it.Valid() {
			bad(op, "Valid() true at IterAtLimit")
			return
		}
		r.count("limit_pauses", 1)
		pause()
	case pebble.IterExhausted:
		if exists {
			bad(op, "IterExhausted although the model has %s", pstr(N, true))
			return
		}
		advance()
	}
}

func (r *Run) boundsOK(o model.IterOpts, k string) bool {
	if o.HasLower && model.Cmp(k, o.Lower) < 0 {
		return false
	}
	if o.HasUpper && model.Cmp(k, o.Upper) >= 0 {
		return false
	}
	return true
}

// seekKeyFor draws a seek key; biased towards keys just after the current
// position (exercises TrySeekUsingNext) and towards the bounds.
func (r *Run) seekKeyFor(m *model.Iter, i int) string {
	o := m.Opts()
	switch r.rng.IntN(8) {
	case 0:
		if o.HasLower {
			return o.Lower
		}
	case 1:
		if o.HasUpper {
			return o.Upper
		}
	case 2, 3:
		if cur, ok := m.Cur(); ok {
			// a key at or slightly after the current one
			p, _ := model.SplitKey(cur.Key)
			return pick(r.rng, cur.Key, p+"\x00", p+r.randSuffix())
		}
	}
	return r.randSeekKey()
}

func (r *Run) stepMaint() {
	switch x := r.rng.IntN(10); {
	case x < 4:
		r.log("Flush")
		r.bracket("flush", func() error { return r.db.Flush() })
		if !r.failed {
			r.durable("Flush")
		}
	case x < 5:
		r.log("AsyncFlush")
		r.bracket("async-flush", func() error {
			ch, err := r.db.AsyncFlush()
			if err != nil {
				return err
			}
			<-ch
			return nil
		})
	default:
		a, b := r.randRange()
		par := r.rng.IntN(2) == 0
		r.log("Compact(%s,%s,%v)", a, b, par)
		r.bracket("compact", func() error { return r.db.Compact(context.Background(), []byte(a), []byte(b), par) })
	}
}

// bracket audits before and after a maintenance action.
func (r *Run) bracket(what string, f func() error) {
	if r.K.AuditEvery > 0 {
		r.audit("before-" + what)
		if r.failed {
			return
		}
	}
	if err := f(); err != nil {
		r.fail("maintenance-error", "%s: %v", what, err)
		return
	}
	r.count("maintenance_actions", 1)
	if r.K.AuditEvery > 0 {
		r.audit("after-" + what)
	}
}

func (r *Run) stepReopen() {
	r.log("close+reopen")
	r.quiesce()
	if r.failed {
		return
	}
	if r.Cfg.DisableWAL {
		// without a WAL only a flush makes writes outlive Close
		if err := r.db.Flush(); err != nil {
			r.fail("maintenance-error", "flush: %v", err)
			return
		}
		r.durable("Flush")
	}
	if err := r.db.Close(); err != nil {
		r.fail("close-error", "DB.Close: %v", err)
		return
	}
	r.durable("Close")
	// DisableWAL histories lose unflushed writes by design; the harness
	// flushes before closing in that configuration (done below via model
	// consistency: we flush first).
	r.setDB(nil)
	fmv := r.Cfg.FMV
	r.opts = MakeOptions(r.Cfg, r.fs, r.Ev)
	r.opts.FormatMajorVersion = pebble.FormatMajorVersion(fmv)
	if r.OptsHook != nil {
		r.OptsHook(r.opts)
	}
	r.attachFileCache()
	r.opts.EnsureDefaults()
	db, err := pebble.Open(r.Dir, r.opts)
	if err != nil {
		r.fail("reopen-error", "Open: %v", err)
		return
	}
	r.setDB(db)
	r.count("reopens", 1)
	r.audit("after-reopen")
}

func (r *Run) stepRatchet() {
	cur := r.db.FormatMajorVersion()
	if cur >= pebble.FormatNewest {
		return
	}
	target := cur + 1
	if r.rng.IntN(3) == 0 {
		target = cur + pebble.FormatMajorVersion(1+r.rng.IntN(int(pebble.FormatNewest-cur)))
	}
	r.log("Ratchet %d -> %d", cur, target)
	if rh, ok := r.Hook.(RatchetHook); ok {
		rh.RatchetIssue(int(cur), int(target))
	}
	r.bracket("ratchet", func() error { return r.db.RatchetFormatMajorVersion(target) })
	if r.failed {
		return
	}
	if rh, ok := r.Hook.(RatchetHook); ok {
		rh.RatchetAck(int(r.db.FormatMajorVersion()))
	}
	if got := r.db.FormatMajorVersion(); got < target {
		r.fail("ratchet-not-applied", "after RatchetFormatMajorVersion(%d) the version is %d", target, got)
	}
	r.Cfg.FMV = int(r.db.FormatMajorVersion())
	r.count("ratchets", 1)
}

func (r *Run) stepIngest() {
	if r.db.FormatMajorVersion() < pebble.FormatMinSupported {
		return
	}
	excise := r.K.Excise && r.rng.IntN(4) == 0 && r.db.FormatMajorVersion() >= pebble.FormatVirtualSSTables
	var lo, hi string
	if excise {
		lo, hi = r.randRange()
	}
	tables := r.genIngestTables(lo, hi, excise)
	if !excise && r.lastExLo != "" && r.rng.IntN(3) == 0 {
		// a table that touches the most recent excise span from outside: its
		// largest key is the span's (inclusive) start, or its smallest key is the
		// span's (exclusive) end
		var ops []model.Op
		if r.rng.IntN(2) == 0 {
			if k := r.randKey(); model.Cmp(k, r.lastExLo) < 0 && r.rng.IntN(2) == 0 {
				ops = append(ops, model.Op{Kind: model.OpSet, Key: k, Value: r.newValue()})
			}
			ops = append(ops, model.Op{Kind: model.OpSet, Key: r.lastExLo, Value: r.newValue()})
		} else {
			ops = append(ops, model.Op{Kind: model.OpSet, Key: r.lastExHi, Value: r.newValue()})
			if k := r.randKey(); model.Cmp(k, r.lastExHi) > 0 && r.rng.IntN(2) == 0 {
				ops = append(ops, model.Op{Kind: model.OpSet, Key: k, Value: r.newValue()})
			}
		}
		tables = [][]model.Op{ops}
		r.count("ingests_touching_last_excise_span", 1)
	}
	if len(tables) == 0 {
		return
	}
	var paths []string
	tf := r.db.TableFormat()
	for i, ops := range tables {
		r.ingestN++
		p := fmt.Sprintf("ext/ingest-%d-%d.sst", r.ingestN, i)
		r.fs.MkdirAll("ext", 0o755)
		if err := BuildSST(r.fs, p, r.opts, tf, ops); err != nil {
			r.fail("harness-sst-build", "building sst %v: %v", opsStr(ops), err)
			return
		}
		paths = append(paths, p)
	}
	var desc []string
	for _, ops := range tables {
		desc = append(desc, "{"+opsStr(ops)+"}")
	}
	tcopy := tables
	r.issueKind("ingest "+strings.Join(desc, " "), "ingest", !r.Cfg.DisableWAL, func(st *model.State) {
		if excise {
			st.Excise(lo, hi)
		}
		for _, ops := range tcopy {
			st.ApplyIngestTable(ops)
		}
	})
	var err error
	if excise {
		r.log("IngestAndExcise [%s,%s) %s", lo, hi, strings.Join(desc, " "))
		_, err = r.db.IngestAndExcise(context.Background(), paths, nil, nil, pebble.KeyRange{Start: []byte(lo), End: []byte(hi)})
	} else {
		r.log("Ingest %s", strings.Join(desc, " "))
		err = r.db.Ingest(context.Background(), paths)
	}
	if err != nil {
		r.fail("ingest-error", "ingest: %v", err)
		return
	}
	r.ack()
	if excise {
		r.M.Excise(lo, hi)
		r.w1PoisonRange(lo, hi)
		r.noteExcise(lo, hi)
		r.count("ingest_and_excise", 1)
	}
	for _, ops := range tables {
		r.M.ApplyIngestTable(ops)
		// SingleDelete bookkeeping: like the model, tombstones of a table do not
		// cover the table's own keys, so process deletions first. Keys written by
		// an ingest are never single-deleted afterwards.
		for _, o := range ops {
			switch o.Kind {
			case model.OpDelete:
				delete(r.w1set, o.Key)
				delete(r.w1mg, o.Key)
			case model.OpDeleteRange:
				r.w1Apply(o)
			}
		}
		for _, o := range ops {
			switch o.Kind {
			case model.OpSet, model.OpMerge:
				r.w1set[o.Key] += 2
				r.w1mg[o.Key] = true
			}
		}
	}
	r.count("ingests", 1)
	r.count("units", 1)
	if r.K.AuditEvery > 0 {
		r.audit("after-ingest")
	}
}

// noteExcise records an excised span on classic snapshots (documented
// exception: data inside may disappear from them).
func (r *Run) noteExcise(lo, hi string) {
	r.lastExLo, r.lastExHi = lo, hi
	for _, s := range r.snaps {
		s.excised = append(s.excised, [2]string{lo, hi})
	}
}

func (r *Run) stepExcise() {
	if r.db.FormatMajorVersion() < pebble.FormatVirtualSSTables {
		return
	}
	lo, hi := r.randRange()
	// An excise that overlaps an EFOS's protected ranges waits for the EFOS to
	// become file-only, which needs a flush: flush first so the single history
	// thread cannot block on itself.
	for _, e := range r.efos {
		for _, rg := range e.ranges {
			if model.Cmp(lo, rg[1]) < 0 && model.Cmp(rg[0], hi) < 0 {
				if err := r.db.Flush(); err != nil {
					r.fail("maintenance-error", "flush: %v", err)
					return
				}
			}
		}
	}
	r.log("Excise [%s,%s)", lo, hi)
	r.issueKind(fmt.Sprintf("excise [%s,%s)", lo, hi), "excise", !r.Cfg.DisableWAL, func(st *model.State) { st.Excise(lo, hi) })
	if err := r.db.Excise(context.Background(), pebble.KeyRange{Start: []byte(lo), End: []byte(hi)}); err != nil {
		r.fail("excise-error", "Excise: %v", err)
		return
	}
	r.ack()
	r.M.Excise(lo, hi)
	r.w1PoisonRange(lo, hi)
	r.noteExcise(lo, hi)
	r.count("excises", 1)
	r.count("units", 1)
	if r.K.AuditEvery > 0 {
		r.audit("after-excise")
	}
}

func (r *Run) stepEFOS() {
	if len(r.efos) < 2 && (len(r.efos) == 0 || r.rng.IntN(3) == 0) {
		// the API requires sorted, non-overlapping ranges
		var rgs [][2]string
		var krs []pebble.KeyRange
		a, b := r.randRange()
		rgs = append(rgs, [2]string{a, b})
		if r.rng.IntN(2) == 0 {
			c, d := r.randRange()
			if model.Cmp(b, c) <= 0 {
				rgs = append(rgs, [2]string{c, d})
			} else if model.Cmp(d, a) <= 0 {
				rgs = [][2]string{{c, d}, {a, b}}
			}
		}
		for _, rg := range rgs {
			krs = append(krs, pebble.KeyRange{Start: []byte(rg[0]), End: []byte(rg[1])})
		}
		e := &efosObj{s: r.db.NewEventuallyFileOnlySnapshot(krs), st: r.M.Clone(), ranges: rgs, born: r.step}
		r.efos = append(r.efos, e)
		r.log("EFOS@%d = new %v", e.born, rgs)
		return
	}
	i := r.rng.IntN(len(r.efos))
	e := r.efos[i]
	switch r.rng.IntN(6) {
	case 0:
		r.log("EFOS@%d close", e.born)
		if err := e.s.Close(); err != nil {
			r.fail("efos-close-error", "%v", err)
		}
		r.efos = append(r.efos[:i], r.efos[i+1:]...)
	case 1:
		// force the transition: flush, then wait
		r.log("EFOS@%d flush+wait", e.born)
		if err := r.db.Flush(); err != nil {
			r.fail("maintenance-error", "flush: %v", err)
			return
		}
		if err := e.s.WaitForFileOnlySnapshot(context.Background(), 0); err != nil {
			r.fail("efos-wait-error", "WaitForFileOnlySnapshot: %v", err)
			return
		}
		r.count("efos_transitions_forced", 1)
		r.auditEFOS(e, "after-transition")
	default:
		r.auditEFOS(e, "step")
	}
}
