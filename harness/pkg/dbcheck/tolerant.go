package dbcheck

import (
	"context"
	"fmt"
	"strings"

	"github.com/cockroachdb/pebble"
	"github.com/cockroachdb/pebble/internal/verif/model"
)

// This file holds the operations the fault engine (C43) issues while I/O
// faults may be injected: an operation may return an error, but a success
// must still match the model.

// StepOnce runs one ordinary (fault-free) step of the history.
func (r *Run) StepOnce() {
	r.step++
	r.oneStep()
}

// Audit runs the full audit.
func (r *Run) Audit(why string) { r.audit(why) }

// WriteStep issues a plain write unit; writes touch only the WAL and the
// memtable, so they must succeed whatever table I/O faults are active.
func (r *Run) WriteStep() {
	r.step++
	if r.rng.IntN(2) == 0 {
		r.stepWrite()
	} else {
		r.stepImmediateBatch()
	}
}

// TolerantGet reads one key: an error is acceptable, a success must match.
func (r *Run) TolerantGet() (errored bool) {
	r.step++
	k := r.randKey()
	got, ok, err := getValue(dbGet(r.db), k)
	if err != nil {
		r.count("faulted_gets_errored", 1)
		return true
	}
	r.count("faulted_gets_succeeded", 1)
	exp, eok := r.M.Points[k]
	if ok != eok || got != exp {
		r.fail("wrong-result-under-faults", "Get(%s) succeeded under injected faults with (%q,%v), model (%q,%v)", k, tr(got), ok, tr(exp), eok)
	}
	return false
}

// TolerantScan walks a fresh iterator: every position returned before an
// error must match the model; after an error the iterator must stay invalid
// with a non-nil Error() until repositioned.
func (r *Run) TolerantScan() (errored bool) {
	r.step++
	mo := r.randIterOpts()
	it, err := r.db.NewIter(r.toPebbleOpts(mo, false))
	if err != nil {
		r.count("faulted_scans_errored", 1)
		return true
	}
	defer it.Close()
	exp := model.NewIter(r.M, mo).Scan()
	fwd := r.rng.IntN(2) == 0
	i := 0
	if !fwd {
		i = len(exp) - 1
	}
	var ok bool
	if fwd {
		ok = it.First()
	} else {
		ok = it.Last()
	}
	for ok {
		got := ReadPos(it)
		if strings.HasPrefix(got.Value, "<error:") {
			// a lazily fetched value failed: acceptable under faults
			r.count("faulted_value_fetch_errors", 1)
			return true
		}
		if i < 0 || i >= len(exp) || !PosEqual(exp[i], got) {
			e := "<end>"
			if i >= 0 && i < len(exp) {
				e = pstr(exp[i], true)
			}
			// second look through a fresh iterator: is the wrong result persistent?
			second := "n/a"
			if it2, err2 := r.db.NewIter(r.toPebbleOpts(mo, false)); err2 == nil {
				var ps []string
				for ok2 := it2.First(); ok2; ok2 = it2.Next() {
					ps = append(ps, pstr(ReadPos(it2), true))
				}
				second = fmt.Sprintf("%v (err %v)", ps, it2.Error())
				it2.Close()
			}
			var want []string
			for _, p := range exp {
				want = append(want, pstr(p, true))
			}
			r.fail("wrong-result-under-faults", "scan %v under injected faults: position %d got %s, model %s (iterator Error() at that point: %v; Valid()=%v)\nsecond look with a fresh iterator: %s\nmodel: %v\nLSM:\n%s",
				mo, i, pstr(got, true), e, it.Error(), it.Valid(), second, want, r.db.DebugString())
			return false
		}
		r.count("faulted_scan_positions_compared", 1)
		if fwd {
			i++
			ok = it.Next()
		} else {
			i--
			ok = it.Prev()
		}
	}
	if err := it.Error(); err != nil {
		r.count("faulted_scans_errored", 1)
		// the error must be sticky for relative ops
		if fwd {
			ok = it.Next()
		} else {
			ok = it.Prev()
		}
		if ok || it.Valid() || it.Error() == nil {
			r.fail("iterator-error-not-sticky", "after error %v a relative op returned valid=%v Error()=%v", err, ok, it.Error())
		}
		return true
	}
	// no error: the scan must have been complete
	if (fwd && i != len(exp)) || (!fwd && i != -1) {
		r.fail("wrong-result-under-faults", "scan %v under injected faults ended early without an error at position %d of %d (keys silently missing)", mo, i, len(exp))
	}
	r.count("faulted_scans_completed", 1)
	return false
}

// TolerantMaint runs Flush or Compact; an error is acceptable.
func (r *Run) TolerantMaint() (errored bool) {
	r.step++
	var err error
	if r.rng.IntN(2) == 0 {
		r.log("Flush (faults may be active)")
		err = r.db.Flush()
		if err == nil {
			r.durable("Flush")
		}
	} else {
		a, b := r.randRange()
		r.log("Compact(%s,%s) (faults may be active)", a, b)
		err = r.db.Compact(context.Background(), []byte(a), []byte(b), r.rng.IntN(2) == 0)
	}
	if err != nil {
		r.count("faulted_maintenance_errored", 1)
		return true
	}
	r.count("faulted_maintenance_succeeded", 1)
	return false
}

// TolerantIngest ingests tables; if Ingest returns an error the unit must have
// no effect at all (checked by the audits after the faults stop).
func (r *Run) TolerantIngest() (errored bool) {
	r.step++
	tables := r.genIngestTables("", "", false)
	if len(tables) == 0 {
		return false
	}
	var paths []string
	tf := r.db.TableFormat()
	for i, ops := range tables {
		r.ingestN++
		p := fmt.Sprintf("ext/ingest-%d-%d.sst", r.ingestN, i)
		r.fs.MkdirAll("ext", 0o755)
		if err := BuildSST(r.fs, p, r.opts, tf, ops); err != nil {
			// building the external file itself hit a fault: nothing was ingested
			r.count("faulted_ingest_build_errored", 1)
			return true
		}
		paths = append(paths, p)
	}
	var desc []string
	for _, ops := range tables {
		desc = append(desc, "{"+opsStr(ops)+"}")
	}
	r.log("Ingest %s (faults may be active)", strings.Join(desc, " "))
	tcopy := tables
	r.issueKind("ingest "+strings.Join(desc, " "), "ingest", !r.Cfg.DisableWAL, func(st *model.State) {
		for _, ops := range tcopy {
			st.ApplyIngestTable(ops)
		}
	})
	if err := r.db.Ingest(context.Background(), paths); err != nil {
		r.count("faulted_ingests_errored", 1)
		if rb, ok := r.Hook.(interface{ Retract() }); ok {
			rb.Retract()
		}
		return true
	}
	r.ack()
	for _, ops := range tables {
		r.M.ApplyIngestTable(ops)
		for _, o := range ops {
			switch o.Kind {
			case model.OpDelete:
				delete(r.w1set, o.Key)
				delete(r.w1mg, o.Key)
			case model.OpDeleteRange:
				r.w1Apply(o)
			}
		}
		for _, o := range ops {
			if o.Kind == model.OpSet || o.Kind == model.OpMerge {
				r.w1set[o.Key] += 2
				r.w1mg[o.Key] = true
			}
		}
	}
	r.count("faulted_ingests_succeeded", 1)
	r.count("units", 1)
	return false
}

// BackgroundErrors returns and clears the background errors seen so far.
func (r *Run) BackgroundErrors() []string {
	r.Ev.mu.Lock()
	defer r.Ev.mu.Unlock()
	e := r.Ev.bgErr
	r.Ev.bgErr = nil
	return e
}

// Reopen closes and reopens the DB (all objects are closed first).
func (r *Run) Reopen() { r.step++; r.stepReopen() }

// Finish performs the end-of-history bookkeeping and closes the DB.
func (r *Run) Finish() { r.finish() }

// SetStep sets the current step (used by engines that drive steps manually).
func (r *Run) SetStep(n int) { r.step = n }

var _ = pebble.ErrNotFound

func clipStr(s string, n int) string {
	if len(s) > n {
		return s[:n] + fmt.Sprintf("…(%d bytes)", len(s))
	}
	return s
}

// Survivor is a long-lived iterator that lives through a fault round: it is
// opened before the faults start (its view is frozen at that state), seeked
// while faults are injected (an error is acceptable, a result without error
// must be right) and seeked again after the faults have stopped, when every
// result must be right and error-free. A reader that keeps its iterator across
// a transient I/O error is exactly what CockroachDB's retry loops do.
type Survivor struct {
	it          *pebble.Iterator
	m           *model.Iter
	last        string
	errored     []string // seek keys whose operation failed under faults
	lastErrored bool     // the previous operation returned an error
}

// SurvivorOpen opens the survivor iterator on the current state.
func (r *Run) SurvivorOpen() *Survivor {
	mo := model.IterOpts{KeyTypes: model.PointsAndRanges}
	if !r.K.RangeKeys || r.rng.IntN(2) == 0 {
		mo.KeyTypes = model.PointsOnly
	}
	it, err := r.db.NewIter(r.toPebbleOpts(mo, false))
	if err != nil {
		r.fail("survivor-open", "NewIter: %v", err)
		return nil
	}
	return &Survivor{it: it, m: model.NewIter(r.M.Clone(), mo)}
}

// Seeks runs n absolute positioning operations (plus a step each) on the
// survivor. With faultsOn an error is acceptable.
func (r *Run) SurvivorSeeks(s *Survivor, n int, faultsOn bool) {
	if s == nil {
		return
	}
	for i := 0; i < n && !r.failed; i++ {
		k := r.randSeekKey()
		if !faultsOn && len(s.errored) > 0 {
			// first of all go back to where an operation failed
			k, s.errored = s.errored[0], s.errored[1:]
		} else if s.lastErrored && s.last != "" && r.rng.IntN(4) != 0 {
			k = s.last // retry right away what just failed, as a caller would
		} else if s.last != "" && r.rng.IntN(3) == 0 {
			k = s.last // re-seek where an earlier seek (possibly a failed one) went
		}
		s.last = k
		var got, stepGot bool
		var exp, stepExp model.Pos
		var ok, stepOK bool
		op := "SeekGE"
		if r.rng.IntN(2) == 0 {
			exp, ok = s.m.SeekGE(k)
			got = s.it.SeekGE([]byte(k))
		} else {
			op = "SeekLT"
			exp, ok = s.m.SeekLT(k)
			got = s.it.SeekLT([]byte(k))
		}
		check := func(what string, got bool, exp model.Pos, ok bool) bool {
			r.log("  survivor %s(%s) valid=%v err=%v (faults on: %v)", what, k, got, s.it.Error(), faultsOn)
			if err := s.it.Error(); err != nil {
				if !faultsOn {
					// C43 allows an operation to return an error; that an iterator
					// keeps reporting the injected error on an absolute seek after the
					// faults stopped (contrary to the Iterator doc comment) is counted,
					// not judged.
					r.count("survivor_errors_after_the_faults_stopped", 1)
				}
				r.count("survivor_ops_errored", 1)
				if faultsOn && len(s.errored) < 6 {
					s.errored = append(s.errored, k)
				}
				return false
			}
			var gp model.Pos
			if got {
				gp = ReadPos(s.it)
				if strings.HasPrefix(gp.Value, "<error:") {
					if !faultsOn {
						r.count("survivor_errors_after_the_faults_stopped", 1)
					}
					r.count("survivor_ops_errored", 1)
					return false
				}
			}
			if got != ok || (got && !PosEqual(exp, gp)) {
				r.fail("wrong-result-under-faults", "long-lived iterator (opened before the fault round, faults on now: %v): %s(%s) = %s with nil error, frozen model view has %s",
					faultsOn, what, k, pstr(gp, got), pstr(exp, ok))
				return false
			}
			r.count("survivor_ops_compared", 1)
			return true
		}
		okNow := check(op, got, exp, ok)
		s.lastErrored = !okNow && !r.failed
		if !okNow || r.failed {
			continue
		}
		if !got {
			continue
		}
		if op == "SeekGE" {
			stepExp, stepOK = s.m.Next()
			stepGot = s.it.Next()
			check("Next after "+op, stepGot, stepExp, stepOK)
		} else {
			stepExp, stepOK = s.m.Prev()
			stepGot = s.it.Prev()
			check("Prev after "+op, stepGot, stepExp, stepOK)
		}
	}
}

// SurvivorClose closes the survivor.
func (r *Run) SurvivorClose(s *Survivor) {
	if s != nil {
		_ = s.it.Close()
	}
}
