// Package dbcheck is the conformance driver of DESIGN.md §3.3: it runs
// generated single-threaded histories against a real pebble.DB on MemFS and
// compares every read with the reference model (package model).
package dbcheck

import (
	"context"
	"fmt"
	"math/rand/v2"
	"sort"
	"strings"
	"sync"
	"time"

	"github.com/cockroachdb/errors"
	"github.com/cockroachdb/pebble"
	"github.com/cockroachdb/pebble/internal/testkeys"
	"github.com/cockroachdb/pebble/internal/verif/model"
	"github.com/cockroachdb/pebble/internal/verif/vcommon"
	"github.com/cockroachdb/pebble/objstorage/objstorageprovider"
	"github.com/cockroachdb/pebble/sstable"
	"github.com/cockroachdb/pebble/sstable/colblk"
	"github.com/cockroachdb/pebble/sstable/tablefilters/bloom"
	"github.com/cockroachdb/pebble/vfs"
)

// Knobs select what a history contains (the "deck" of a property).
type Knobs struct {
	Name                 string
	Units                int // number of steps
	RangeKeys            bool
	Batches              bool
	Snapshots            bool
	Iters                bool // positioning-op bursts on short-lived iterators
	LongIters            bool // iterators kept open across later writes/maintenance
	BatchIters           bool
	Masking              bool
	Limits               bool
	Maint                bool
	Reopen               bool
	Ingest               bool
	Excise               bool
	EFOS                 bool
	BigValues            bool
	ValueSep             bool
	Ratchet              bool
	AuditEvery           int // full audit every k steps (0 = only at end)
	IterBurst            int // positioning ops per burst
	SnapAudit            bool
	NoAutoCompactionsPct int
	MaskFilterDiff       bool // C09: differential run with/without block-property mask
	TinyCaches           bool // C04: file cache of 1-2 handles, zero block cache
	MaintHeavy           bool
	IngestHeavy          bool
	EFOSHeavy            bool
	LightAudit           bool // C15: per-step audit = structural checks only (full audit every 10th)
	VersionWalk          bool // C15: independent version + table content walkers
	ForceValueSep        bool
	RatchetHeavy         bool
	ScanInternal         bool // C45
	FlushGate            bool // hold flushables in the queue for a few steps in half of the cases
	SmallKeySpace        bool // 3-4 letters, 1-2 suffixes: boundaries coincide often
	NoMerge              bool // no Merge / SingleDelete (precondition of collapsed internal scans)
}

// Config is the drawn DB configuration; recorded in replays.
type Config struct {
	FMV                      int
	MemTableSize             uint64
	L0CompactionThreshold    int
	L0FileThreshold          int
	LBaseMaxBytes            int64
	LevelMultiplier          int
	FlushDelayMs             int // FlushDelayDeleteRange / FlushDelayRangeKey in ms (0 = off)
	TargetFileSize           int64
	BlockSize                int
	IndexBlockSize           int
	RestartInterval          int
	CacheSize                int64
	FileCacheSize            int
	DisableAuto              bool
	MaxConcurrent            int
	MaxManifest              int64
	Bloom                    bool
	DisableWAL               bool
	FlushSplitBytes          int64
	ValueSep                 bool
	ValSepMin                int
	Letters                  int
	MaxSuffix                int
	DisableIngestAsFlushable bool
	IngestSplit              bool
	DeleteOnlyExcise         bool
	FlushGate                bool
}

func drawConfig(rng *rand.Rand, k Knobs) Config {
	c := Config{
		FMV:                      int(pebble.FormatMinSupported) + rng.IntN(int(pebble.FormatNewest-pebble.FormatMinSupported)+1),
		MemTableSize:             pick(rng, uint64(16<<10), 32<<10, 64<<10, 256<<10, 1<<20),
		L0CompactionThreshold:    pick(rng, 1, 2, 4),
		L0FileThreshold:          pick(rng, 2, 4, 500),
		LBaseMaxBytes:            pick(rng, int64(1), 64, 1<<10, 8<<10, 64<<10, 64<<20),
		LevelMultiplier:          pick(rng, 0, 0, 2, 3),
		FlushDelayMs:             pick(rng, 0, 0, 1, 600000),
		TargetFileSize:           pick(rng, int64(512), 1<<10, 4<<10, 2<<20),
		BlockSize:                pick(rng, 32, 128, 512, 4096),
		IndexBlockSize:           pick(rng, 32, 256, 4096),
		RestartInterval:          pick(rng, 1, 2, 16),
		CacheSize:                pick(rng, int64(0), 16<<10, 1<<20),
		FileCacheSize:            pick(rng, 0, 0, 1, 2, 8), // 0 = default
		DisableAuto:              rng.IntN(100) < k.NoAutoCompactionsPct,
		MaxConcurrent:            1 + rng.IntN(4),
		MaxManifest:              pick(rng, int64(1), 1<<10, 128<<20),
		Bloom:                    rng.IntN(2) == 0,
		DisableWAL:               rng.IntN(8) == 0,
		FlushSplitBytes:          pick(rng, int64(0), 1<<10, 0),
		Letters:                  3 + rng.IntN(4),
		MaxSuffix:                3 + rng.IntN(4),
		DisableIngestAsFlushable: rng.IntN(3) == 0,
		IngestSplit:              rng.IntN(2) == 0,
		DeleteOnlyExcise:         rng.IntN(2) == 0,
	}
	if k.SmallKeySpace {
		c.Letters = 3 + rng.IntN(2)
		c.MaxSuffix = 1 + rng.IntN(2)
	}
	if k.FlushGate && !c.DisableIngestAsFlushable && rng.IntN(2) == 0 {
		c.FlushGate = true
	}
	if k.ValueSep && (k.ForceValueSep || rng.IntN(3) != 0) {
		c.ValueSep = true
		c.ValSepMin = pick(rng, 1, 3, 8, 24, 64)
	}
	if k.ValueSep && c.FMV < int(pebble.FormatValueSeparation) && k.ForceValueSep {
		c.FMV = int(pebble.FormatValueSeparation) + rng.IntN(int(pebble.FormatNewest-pebble.FormatValueSeparation)+1)
	}
	if k.TinyCaches {
		c.CacheSize = 1
		c.FileCacheSize = 1 + rng.IntN(2)
	}
	return c
}

func pick[T any](rng *rand.Rand, xs ...T) T { return xs[rng.IntN(len(xs))] }

// Events records what background work really ran.
type Events struct {
	mu    sync.Mutex
	kinds map[string]int
	bgErr []string
}

func (e *Events) add(k string) {
	e.mu.Lock()
	if e.kinds == nil {
		e.kinds = map[string]int{}
	}
	e.kinds[k]++
	e.mu.Unlock()
}

type quietLogger struct{ onFatal func(string) }

func (quietLogger) Infof(string, ...interface{})  {}
func (quietLogger) Errorf(string, ...interface{}) {}
func (l quietLogger) Fatalf(f string, a ...interface{}) {
	msg := fmt.Sprintf(f, a...)
	if l.onFatal != nil {
		l.onFatal(msg)
	}
	panic("pebble Fatalf: " + msg)
}

// MakeOptions builds pebble.Options from a Config.
func MakeOptions(c Config, fs vfs.FS, ev *Events) *pebble.Options {
	ks := colblk.DefaultKeySchema(testkeys.Comparer, 16)
	o := &pebble.Options{
		FS:                          fs,
		Comparer:                    testkeys.Comparer,
		KeySchema:                   ks.Name,
		KeySchemas:                  sstable.MakeKeySchemas(&ks),
		FormatMajorVersion:          pebble.FormatMajorVersion(c.FMV),
		MemTableSize:                c.MemTableSize,
		MemTableStopWritesThreshold: map[bool]int{false: 6, true: 40}[c.FlushGate],
		L0CompactionThreshold:       c.L0CompactionThreshold,
		L0CompactionFileThreshold:   c.L0FileThreshold,
		L0StopWritesThreshold:       1000,
		LBaseMaxBytes:               c.LBaseMaxBytes,
		LevelMultiplier:             c.LevelMultiplier,
		FlushDelayDeleteRange:       time.Duration(c.FlushDelayMs) * time.Millisecond,
		FlushDelayRangeKey:          time.Duration(c.FlushDelayMs) * time.Millisecond,
		DisableAutomaticCompactions: c.DisableAuto,
		MaxManifestFileSize:         c.MaxManifest,
		DisableWAL:                  c.DisableWAL,
		FlushSplitBytes:             c.FlushSplitBytes,
		Logger:                      quietLogger{},
		DebugCheck:                  pebble.DebugCheckLevels,
		BlockPropertyCollectors:     []func() pebble.BlockPropertyCollector{sstable.NewTestKeysBlockPropertyCollector},
	}
	o.CacheSize = c.CacheSize
	mc := c.MaxConcurrent
	o.CompactionConcurrencyRange = func() (int, int) { return 1, mc }
	for i := range o.Levels {
		o.Levels[i].BlockSize = c.BlockSize
		o.Levels[i].IndexBlockSize = c.IndexBlockSize
		o.Levels[i].BlockRestartInterval = c.RestartInterval
		o.TargetFileSizes[i] = c.TargetFileSize
		if c.Bloom {
			o.Levels[i].TableFilterPolicy = func() pebble.TableFilterPolicy { return bloom.FilterPolicy(10) }
		}
	}
	dif := c.DisableIngestAsFlushable
	o.DisableIngestAsFlushable = func() bool { return dif }
	is := c.IngestSplit
	o.IngestSplit = func() bool { return is }
	if c.ValueSep {
		min := c.ValSepMin
		o.ValueSeparationPolicy = func() pebble.ValueSeparationPolicy {
			return pebble.ValueSeparationPolicy{Enabled: true, MinimumSize: min, MinimumMVCCGarbageSize: min,
				MaxBlobReferenceDepth: 3, RewriteMinimumAge: 0, GarbageRatioLowPriority: 0.1, GarbageRatioHighPriority: 0.3}
		}
	}
	if ev != nil {
		o.EventListener = &pebble.EventListener{
			FlushEnd: func(i pebble.FlushInfo) {
				if i.Err == nil {
					ev.add("flush:" + i.Reason)
				}
			},
			CompactionEnd: func(i pebble.CompactionInfo) {
				if i.Err == nil {
					k := "compaction:" + i.Reason
					if len(i.Input) > 0 && i.Input[0].Level == 0 && i.Output.Level == 0 {
						k += "(intra-L0)"
					}
					ev.add(k)
				}
			},
			BlobFileRewriteEnd: func(i pebble.BlobFileRewriteInfo) { ev.add("blob-file-rewrite") },
			TableIngested:      func(i pebble.TableIngestInfo) { ev.add("ingest") },
			FormatUpgrade:      func(v pebble.FormatMajorVersion) { ev.add("format-upgrade") },
			BackgroundError: func(err error) {
				if errors.Is(err, pebble.ErrCancelledCompaction) {
					// a compaction cancelled by an ingest/excise and retried: benign by design
					ev.add("compaction-cancelled")
					return
				}
				ev.mu.Lock()
				ev.bgErr = append(ev.bgErr, err.Error())
				ev.mu.Unlock()
			},
		}
		o.EventListener.EnsureDefaults(nil)
	}
	return o
}

// ---------------------------------------------------------------------------

type iterObj struct {
	it             *pebble.Iterator
	m              *model.Iter
	desc           string
	batch          *batchObj    // non-nil for batch iterators
	base           *model.State // batch iterators: committed state pinned at creation
	born           int
	frozen         bool        // long-lived: created before later writes
	excisedSpans   [][2]string // spans excised after creation (documented exception for nothing here; kept for snapshots)
	lastSeek       string      // previous seek key of a positioning burst
	useFilter      bool        // created with RangeKeyMasking.Filter (kept across SetOptions)
	forceFirstSeek string      // if set, the next burst starts with SeekGE of this key
	forceLimitSeek [2]string   // if set, the next burst starts with SeekGEWithLimit(key, limit)
	full           []string    // every op on the iterator since its creation (diagnostics)
	l6             bool        // UseL6Filters the iterator was created with
}

type snapObj struct {
	s       *pebble.Snapshot
	st      *model.State
	born    int
	excised [][2]string // spans excised after creation: reads inside are not audited
}

type efosObj struct {
	s      *pebble.EventuallyFileOnlySnapshot
	st     *model.State
	ranges [][2]string
	born   int
}

type batchObj struct {
	b       *pebble.Batch
	indexed bool
	ops     []model.Op
	id      int
}

// UnitHook observes the life cycle of write units; used by the crash engine.
// Issue is called before Pebble is invoked with a function that applies the
// unit to a model state; Ack after the call returned successfully; Durable
// when everything acknowledged so far is durable (Flush / Close returned).
type UnitHook interface {
	Issue(desc string, kind string, apply func(st *model.State), durableOnAck bool) // kind: "batch" | "ingest" | "excise"
	Ack()
	Durable(what string)
}

func (r *Run) issue(desc string, durable bool, apply func(st *model.State)) {
	r.issueKind(desc, "batch", durable, apply)
}
func (r *Run) issueKind(desc, kind string, durable bool, apply func(st *model.State)) {
	if r.Hook != nil {
		r.Hook.Issue(desc, kind, apply, durable)
	}
}
func (r *Run) ack() {
	if r.Hook != nil {
		r.Hook.Ack()
	}
}
func (r *Run) durable(what string) {
	if r.Hook != nil {
		r.Hook.Durable(what)
	}
}

// syncDurable reports whether a commit with these write options is durable
// when acknowledged.
func (r *Run) syncDurable(wo *pebble.WriteOptions) bool {
	return wo != nil && wo.Sync && !r.Cfg.DisableWAL
}

func batchApply(ops []model.Op) func(st *model.State) {
	cp := append([]model.Op(nil), ops...)
	return func(st *model.State) { st.ApplyBatch(cp) }
}

// ExtraStep is an additional step kind injected by another engine.
type ExtraStep struct {
	Weight int
	F      func(r *Run)
}

// RatchetHook is optionally implemented by a UnitHook.
type RatchetHook interface {
	RatchetIssue(from, to int)
	RatchetAck(now int)
}

// Canon renders a state canonically: the combined-iteration position list.
func Canon(st *model.State) string {
	var sb strings.Builder
	for _, p := range model.NewIter(st, model.IterOpts{KeyTypes: model.PointsAndRanges}).Scan() {
		sb.WriteString(p.String())
		sb.WriteByte('\n')
	}
	return sb.String()
}

// CanonSpans renders the part of a state inside the given spans (CanonFull
// format, one bounded combined scan per span).
func CanonSpans(st *model.State, spans [][2]string) string {
	var sb strings.Builder
	for _, sp := range spans {
		o := model.IterOpts{KeyTypes: model.PointsAndRanges, HasLower: true, Lower: sp[0], HasUpper: true, Upper: sp[1]}
		for _, p := range model.NewIter(st, o).Scan() {
			writePos(&sb, p)
		}
		sb.WriteString("--\n")
	}
	return sb.String()
}

// CanonFull is Canon without value truncation.
func CanonFull(st *model.State) string {
	var sb strings.Builder
	for _, p := range model.NewIter(st, model.IterOpts{KeyTypes: model.PointsAndRanges}).Scan() {
		writePos(&sb, p)
	}
	return sb.String()
}

func writePos(sb *strings.Builder, p model.Pos) {
	fmt.Fprintf(sb, "%q", p.Key)
	if p.HasPoint {
		fmt.Fprintf(sb, "=%q", p.Value)
	}
	if p.HasRange {
		fmt.Fprintf(sb, " [%q,%q)", p.RStart, p.REnd)
		for _, k := range p.RKeys {
			fmt.Fprintf(sb, "{%q:%q}", k.Suffix, k.Value)
		}
	}
	sb.WriteByte('\n')
}

// ReadCanon scans a DB (or snapshot) with a combined iterator and renders what
// it sees in the CanonFull format.
func ReadCanon(newIter func(o *pebble.IterOptions) (*pebble.Iterator, error), o *pebble.IterOptions) (string, error) {
	if o == nil {
		o = &pebble.IterOptions{}
	}
	o.KeyTypes = pebble.IterKeyTypePointsAndRanges
	it, err := newIter(o)
	if err != nil {
		return "", err
	}
	var sb strings.Builder
	for ok := it.First(); ok; ok = it.Next() {
		writePos(&sb, ReadPos(it))
	}
	err = it.Error()
	if cerr := it.Close(); err == nil {
		err = cerr
	}
	return sb.String(), err
}

// DB returns the run's current database.
func (r *Run) DB() *pebble.DB { return r.db }

func (r *Run) setDB(db *pebble.DB) {
	r.dbMu.Lock()
	r.db = db
	r.dbMu.Unlock()
}

// CurrentDB returns the current database; safe to call from other goroutines
// (file-system observers).
func (r *Run) CurrentDB() *pebble.DB {
	r.dbMu.Lock()
	defer r.dbMu.Unlock()
	return r.db
}

// Quiesce closes all iterators, snapshots, EFOS and batches.
func (r *Run) Quiesce() { r.quiesce() }

// Opts returns the options the current DB was opened with.
func (r *Run) Opts() *pebble.Options { return r.opts }

// Rng returns the run's generator.
func (r *Run) Rng() *rand.Rand { return r.rng }

// Step returns the current step number.
func (r *Run) Step() int { return r.step }

// Failed reports whether a violation was recorded.
func (r *Run) Failed() bool { return r.failed }

// Fail records a violation from another engine.
func (r *Run) Fail(class, format string, a ...any) { r.fail(class, format, a...) }

// FailMatch records a violation with structured match fields.
func (r *Run) FailMatch(class string, match map[string]any, format string, a ...any) {
	detail := fmt.Sprintf(format, a...)
	r.failed = true
	h := r.hist
	if len(h) > 400 {
		h = h[len(h)-400:]
	}
	if match == nil {
		match = map[string]any{}
	}
	match["class"] = class
	r.R.Violate(class, fmt.Sprintf("[%s case %d step %d] %s", r.K.Name, r.Case, r.step, detail),
		map[string]any{"knobs": r.K, "config": r.Cfg, "case": r.Case, "history_tail": h, "model_state": r.M.String()}, match)
}

// ViolateSoft records a violation without stopping the history (used for
// classes that are listed as known findings so that exploration continues).
func (r *Run) ViolateSoft(class string, match map[string]any, format string, a ...any) {
	if r.soft == nil {
		r.soft = map[string]int{}
	}
	r.soft[class]++
	if r.soft[class] > 2 {
		r.count("soft_violations_not_recorded_again", 1)
		return
	}
	keep := r.failed
	r.FailMatch(class, match, format, a...)
	r.failed = keep
}

// Log appends to the history log.
func (r *Run) Log(format string, a ...any) { r.log(format, a...) }

// Count adds to a run statistic.
func (r *Run) Count(name string, n int64) { r.count(name, n) }

// CrashRestart abandons the current DB (closing it on its own file system),
// reopens on newFS and rebases the model on st. SingleDelete bookkeeping is
// poisoned: keys written before the crash are never single-deleted.
func (r *Run) CrashRestart(newFS vfs.FS, st *model.State) {
	for _, io := range r.iters {
		io.it.Close()
	}
	for _, s := range r.snaps {
		s.s.Close()
	}
	for _, e := range r.efos {
		e.s.Close()
	}
	for _, b := range r.bats {
		b.b.Close()
	}
	r.iters, r.snaps, r.efos, r.bats = nil, nil, nil, nil
	if r.db != nil {
		r.db.Close()
		r.setDB(nil)
	}
	if r.fileCache != nil {
		r.fileCache.Unref()
		r.fileCache = nil
	}
	r.fs = newFS
	r.M = st.Clone()
	for _, k := range r.keyUniverse() {
		r.w1set[k] = 2
		r.w1mg[k] = true
	}
	r.seenTables = nil
	r.opts = MakeOptions(r.Cfg, r.fs, r.Ev)
	if r.OptsHook != nil {
		r.OptsHook(r.opts)
	}
	r.attachFileCache()
	r.opts.EnsureDefaults()
	db, err := pebble.Open(r.Dir, r.opts)
	if err != nil {
		r.fail("reopen-error", "Open after crash: %v", err)
		return
	}
	r.setDB(db)
	r.Cfg.FMV = int(db.FormatMajorVersion())
}

// Run is one history.
type Run struct {
	R                  *vcommon.Report
	Prop               string
	K                  Knobs
	Cfg                Config
	Case               int
	rng                *rand.Rand
	fs                 vfs.FS
	gate               *flushGate
	gateLeft           int
	lastExLo, lastExHi string   // most recent excise span
	deepest            int      // max number of populated levels below L0 seen at an audit
	Hook               UnitHook // optional observer of unit issue/ack (crash and fault engines)
	Dir                string
	db                 *pebble.DB
	opts               *pebble.Options
	Ev                 *Events
	M                  *model.State
	hist               []string
	step               int
	uniq               int
	w1set              map[string]int  // number of Sets since last delete-ish
	w1mg               map[string]bool // merged since last delete-ish
	iters              []*iterObj
	snaps              []*snapObj
	efos               []*efosObj
	bats               []*batchObj
	nbat               int
	prefixes           []string
	failed             bool
	shapes             map[string]struct{}
	nontrivial         bool
	sawShadow          bool
	ingestN            int
	OptsHook           func(o *pebble.Options)
	dbMu               sync.Mutex
	soft               map[string]int
	NoSyncWrites       bool
	Extra              []ExtraStep // additional weighted steps supplied by other engines
	NoFinalClose       bool
	fileCache          *pebble.FileCache
	seenTables         map[uint64]bool
	Stats              map[string]int64
}

func (r *Run) count(name string, n int64) { r.Stats[name] += n }

func (r *Run) log(format string, a ...any) {
	r.hist = append(r.hist, fmt.Sprintf("%d: ", r.step)+fmt.Sprintf(format, a...))
}

// fail records a violation with the history as replay.
func (r *Run) fail(class, format string, a ...any) {
	detail := fmt.Sprintf(format, a...)
	r.failed = true
	h := r.hist
	if len(h) > 400 {
		h = h[len(h)-400:]
	}
	r.R.Violate(class, fmt.Sprintf("[%s case %d step %d] %s", r.K.Name, r.Case, r.step, detail),
		map[string]any{"knobs": r.K, "config": r.Cfg, "case": r.Case, "history_tail": h, "model_state": r.M.String()},
		map[string]any{"class": class})
}

func (r *Run) keyUniverse() []string {
	var ks []string
	for _, p := range r.prefixes {
		ks = append(ks, p)
		for s := 1; s <= r.Cfg.MaxSuffix; s++ {
			ks = append(ks, fmt.Sprintf("%s@%d", p, s))
		}
	}
	return ks
}

func (r *Run) randPrefix() string { return r.prefixes[r.rng.IntN(len(r.prefixes))] }

func (r *Run) randSuffix() string { return fmt.Sprintf("@%d", 1+r.rng.IntN(r.Cfg.MaxSuffix)) }

func (r *Run) randKey() string {
	p := r.randPrefix()
	if r.rng.IntN(4) == 0 {
		return p
	}
	return p + r.randSuffix()
}

// randBoundKey returns a key usable as a bound/seek key: existing keys, prefixes,
// and keys between/outside.
func (r *Run) randSeekKey() string {
	switch r.rng.IntN(10) {
	case 0:
		return r.randPrefix() + "\x00"
	case 1:
		return string(rune('a' + r.rng.IntN(r.Cfg.Letters+1)))
	case 2:
		return r.randPrefix() + fmt.Sprintf("@%d", 1+r.rng.IntN(r.Cfg.MaxSuffix+2))
	default:
		return r.randKey()
	}
}

// RandRange draws a key range.
func (r *Run) RandRange() (string, string) { return r.randRange() }

func (r *Run) randRange() (string, string) {
	for {
		a, b := r.randPrefix(), r.randPrefix()
		if r.rng.IntN(6) == 0 {
			b = b + "\x00"
		}
		if model.Cmp(a, b) > 0 {
			a, b = b, a
		}
		if model.Cmp(a, b) < 0 {
			return a, b
		}
		if r.rng.IntN(2) == 0 {
			return a, a + "\x00"
		}
	}
}

// randPointRange returns DeleteRange bounds (may carry suffixes).
func (r *Run) randPointRange() (string, string) {
	if r.rng.IntN(3) != 0 {
		return r.randRange()
	}
	for i := 0; i < 20; i++ {
		a, b := r.randKey(), r.randKey()
		if model.Cmp(a, b) > 0 {
			a, b = b, a
		}
		if model.Cmp(a, b) < 0 {
			return a, b
		}
	}
	return r.randRange()
}

func (r *Run) newValue() string {
	r.uniq++
	v := fmt.Sprintf("v%d.%d", r.step, r.uniq)
	if r.K.BigValues || r.K.ValueSep {
		switch r.rng.IntN(12) {
		case 0:
			v += strings.Repeat("x", r.rng.IntN(200))
		case 1:
			if r.K.BigValues {
				v += strings.Repeat("y", int(r.Cfg.MemTableSize/uint64(pick(r.rng, 2, 3, 4, 8)))+r.rng.IntN(3)-1)
			}
		case 2:
			return "" // empty value
		case 3:
			if r.Cfg.ValueSep {
				// straddle the separation threshold
				n := r.Cfg.ValSepMin + r.rng.IntN(3) - 1
				for len(v) < n {
					v += "z"
				}
				if len(v) > n && n > 0 {
					v = v[:n]
				}
			}
		}
	}
	return v
}

// genOp draws a write op that is legal in the current model state. allowSD
// permits SingleDelete (only for units committed immediately).
func (r *Run) genOp(allowSD bool) model.Op {
	for {
		x := r.rng.IntN(100)
		switch {
		case x < 38:
			return model.Op{Kind: model.OpSet, Key: r.randKey(), Value: r.newValue()}
		case x < 46:
			return model.Op{Kind: model.OpDelete, Key: r.randKey()}
		case x < 50:
			if r.db.FormatMajorVersion() < pebble.FormatDeleteSizedAndObsolete {
				continue
			}
			return model.Op{Kind: model.OpDeleteSized, Key: r.randKey(), Size: uint32(r.rng.IntN(100))}
		case x < 56:
			if !allowSD || r.K.NoMerge {
				continue
			}
			// W1: exactly one Set and no Merge since the last delete.
			var cands []string
			for k, n := range r.w1set {
				if n == 1 && !r.w1mg[k] {
					cands = append(cands, k)
				}
			}
			if len(cands) == 0 {
				continue
			}
			sort.Strings(cands)
			return model.Op{Kind: model.OpSingleDelete, Key: cands[r.rng.IntN(len(cands))]}
		case x < 64:
			a, b := r.randPointRange()
			return model.Op{Kind: model.OpDeleteRange, Key: a, End: b}
		case x < 74:
			if r.K.NoMerge {
				continue
			}
			return model.Op{Kind: model.OpMerge, Key: r.randKey(), Value: "+" + r.newValue()}
		case x < 76:
			return model.Op{Kind: model.OpLogData, Value: "log"}
		default:
			if !r.K.RangeKeys {
				continue
			}
			a, b := r.randRange()
			switch y := r.rng.IntN(10); {
			case y < 6:
				v := r.newValue()
				if r.rng.IntN(3) == 0 {
					v = "same" // identical values on adjacent fragments force defragmentation
				}
				return model.Op{Kind: model.OpRangeKeySet, Key: a, End: b, Suffix: r.randSuffix(), Value: v}
			case y < 8:
				return model.Op{Kind: model.OpRangeKeyUnset, Key: a, End: b, Suffix: r.randSuffix()}
			default:
				return model.Op{Kind: model.OpRangeKeyDelete, Key: a, End: b}
			}
		}
	}
}

// w1Apply updates the SingleDelete-contract bookkeeping for a committed op.
func (r *Run) w1Apply(o model.Op) {
	switch o.Kind {
	case model.OpSet:
		r.w1set[o.Key]++
	case model.OpMerge:
		r.w1mg[o.Key] = true
		r.w1set[o.Key] += 2 // a key that saw a merge is never single-deletable until deleted
	case model.OpDelete, model.OpDeleteSized, model.OpSingleDelete:
		delete(r.w1set, o.Key)
		delete(r.w1mg, o.Key)
	case model.OpDeleteRange:
		for k := range r.w1set {
			if model.Cmp(k, o.Key) >= 0 && model.Cmp(k, o.End) < 0 {
				delete(r.w1set, k)
				delete(r.w1mg, k)
			}
		}
	}
}

// w1Poison marks every key as non-single-deletable (used when the exact
// history of a key becomes uncertain, e.g. after an ingest/excise).
func (r *Run) w1PoisonRange(start, end string) {
	for _, k := range r.keyUniverse() {
		if model.Cmp(k, start) >= 0 && model.Cmp(k, end) < 0 {
			delete(r.w1set, k)
			delete(r.w1mg, k)
		}
	}
}

type writer interface {
	Set(key, value []byte, o *pebble.WriteOptions) error
	Delete(key []byte, o *pebble.WriteOptions) error
	DeleteSized(key []byte, size uint32, o *pebble.WriteOptions) error
	SingleDelete(key []byte, o *pebble.WriteOptions) error
	DeleteRange(start, end []byte, o *pebble.WriteOptions) error
	Merge(key, value []byte, o *pebble.WriteOptions) error
	LogData(data []byte, o *pebble.WriteOptions) error
	RangeKeySet(start, end, suffix, value []byte, o *pebble.WriteOptions) error
	RangeKeyUnset(start, end, suffix []byte, o *pebble.WriteOptions) error
	RangeKeyDelete(start, end []byte, o *pebble.WriteOptions) error
}

// ApplyOp issues a model op against a pebble writer (DB or Batch).
func ApplyOp(w writer, o model.Op, wo *pebble.WriteOptions) error {
	switch o.Kind {
	case model.OpSet:
		return w.Set([]byte(o.Key), []byte(o.Value), wo)
	case model.OpDelete:
		return w.Delete([]byte(o.Key), wo)
	case model.OpDeleteSized:
		return w.DeleteSized([]byte(o.Key), o.Size, wo)
	case model.OpSingleDelete:
		return w.SingleDelete([]byte(o.Key), wo)
	case model.OpDeleteRange:
		return w.DeleteRange([]byte(o.Key), []byte(o.End), wo)
	case model.OpMerge:
		return w.Merge([]byte(o.Key), []byte(o.Value), wo)
	case model.OpLogData:
		return w.LogData([]byte(o.Value), wo)
	case model.OpRangeKeySet:
		return w.RangeKeySet([]byte(o.Key), []byte(o.End), []byte(o.Suffix), []byte(o.Value), wo)
	case model.OpRangeKeyUnset:
		return w.RangeKeyUnset([]byte(o.Key), []byte(o.End), []byte(o.Suffix), wo)
	case model.OpRangeKeyDelete:
		return w.RangeKeyDelete([]byte(o.Key), []byte(o.End), wo)
	}
	return fmt.Errorf("unknown op")
}

func (r *Run) writeOpts() *pebble.WriteOptions {
	if r.Cfg.DisableWAL || r.NoSyncWrites || r.rng.IntN(3) != 0 {
		return pebble.NoSync
	}
	return pebble.Sync
}

// commitUnit applies ops to the model after Pebble acknowledged them. w1done
// says the SingleDelete bookkeeping was already updated while generating.
func (r *Run) commitUnit(ops []model.Op, w1done bool) {
	for _, o := range ops {
		if o.Kind == model.OpSet || o.Kind == model.OpMerge {
			if _, ok := r.M.Points[o.Key]; ok {
				r.sawShadow = true
			}
		}
		r.M.Apply(o)
		if !w1done {
			r.w1Apply(o)
		}
	}
	r.count("units", 1)
	r.count("write_ops", int64(len(ops)))
}

// ---------------------------------------------------------------------------
// read comparison

type reader interface {
	Get(key []byte) ([]byte, interface{ Close() error }, error)
}

func getValue(get func([]byte) ([]byte, func(), error), k string) (string, bool, error) {
	v, cl, err := get([]byte(k))
	if err == pebble.ErrNotFound {
		return "", false, nil
	}
	if err != nil {
		return "", false, err
	}
	s := string(v)
	cl()
	return s, true, nil
}

func dbGet(d *pebble.DB) func([]byte) ([]byte, func(), error) {
	return func(k []byte) ([]byte, func(), error) {
		v, c, err := d.Get(k)
		if err != nil {
			return nil, nil, err
		}
		return v, func() { c.Close() }, nil
	}
}
func snapGet(s *pebble.Snapshot) func([]byte) ([]byte, func(), error) {
	return func(k []byte) ([]byte, func(), error) {
		v, c, err := s.Get(k)
		if err != nil {
			return nil, nil, err
		}
		return v, func() { c.Close() }, nil
	}
}
func efosGet(s *pebble.EventuallyFileOnlySnapshot) func([]byte) ([]byte, func(), error) {
	return func(k []byte) ([]byte, func(), error) {
		v, c, err := s.Get(k)
		if err != nil {
			return nil, nil, err
		}
		return v, func() { c.Close() }, nil
	}
}
func batchGet(b *pebble.Batch) func([]byte) ([]byte, func(), error) {
	return func(k []byte) ([]byte, func(), error) {
		v, c, err := b.Get(k)
		if err != nil {
			return nil, nil, err
		}
		return v, func() { c.Close() }, nil
	}
}

// checkGets compares Get of every key of the universe (optionally restricted)
// against st. skip(k) excludes keys.
func (r *Run) checkGets(what, class string, get func([]byte) ([]byte, func(), error), st *model.State, skip func(string) bool) {
	for _, k := range r.keyUniverse() {
		if skip != nil && skip(k) {
			continue
		}
		got, ok, err := getValue(get, k)
		r.count("gets_compared", 1)
		if err != nil {
			r.fail(class, "%s: Get(%s) error %v", what, k, err)
			return
		}
		exp, eok := st.Points[k]
		if ok != eok || got != exp {
			r.fail(class, "%s: Get(%s) = (%q,%v), model (%q,%v)", what, k, tr(got), ok, tr(exp), eok)
			return
		}
	}
}

func tr(s string) string {
	if len(s) > 40 {
		return fmt.Sprintf("%s…(%d bytes)", s[:32], len(s))
	}
	return s
}

// ReadPos extracts what a valid pebble iterator exposes.
func ReadPos(it *pebble.Iterator) model.Pos {
	var p model.Pos
	p.Key = string(it.Key())
	hp, hr := it.HasPointAndRange()
	p.HasPoint, p.HasRange = hp, hr
	if hp {
		v, err := it.ValueAndErr()
		if err != nil {
			p.Value = "<error: " + err.Error() + ">"
		} else {
			p.Value = string(v)
		}
	}
	if hr {
		s, e := it.RangeBounds()
		p.RStart, p.REnd = string(s), string(e)
		for _, rk := range it.RangeKeys() {
			p.RKeys = append(p.RKeys, model.RKV{Suffix: string(rk.Suffix), Value: string(rk.Value)})
		}
	}
	return p
}

// PosEqual compares an expected and an observed position.
func PosEqual(a, b model.Pos) bool {
	if a.Key != b.Key || a.HasPoint != b.HasPoint || a.HasRange != b.HasRange {
		return false
	}
	if a.HasPoint && a.Value != b.Value {
		return false
	}
	if a.HasRange {
		if a.RStart != b.RStart || a.REnd != b.REnd || len(a.RKeys) != len(b.RKeys) {
			return false
		}
		for i := range a.RKeys {
			if a.RKeys[i] != b.RKeys[i] {
				return false
			}
		}
	}
	return true
}

func pstr(p model.Pos, ok bool) string {
	if !ok {
		return "<invalid>"
	}
	s := p.String()
	if len(s) > 160 {
		s = s[:160] + "…"
	}
	return s
}

// scanCompare walks a fresh iterator forward and backward and compares with the
// model iterator's position list.
func (r *Run) scanCompare(what, class string, newIter func(o *pebble.IterOptions) (*pebble.Iterator, error), st *model.State, mo model.IterOpts) {
	r.scanCompare1(what, class, newIter, st, mo, false)
	if r.K.MaskFilterDiff && mo.MaskSuffix != "" && !r.failed {
		// differential run: the block-property filter mask must not change results
		r.scanCompare1(what+"+filter-mask", class, newIter, st, mo, true)
		r.count("masked_scans_with_and_without_filter", 1)
	}
}

func (r *Run) scanCompare1(what, class string, newIter func(o *pebble.IterOptions) (*pebble.Iterator, error), st *model.State, mo model.IterOpts, useFilter bool) {
	po := r.toPebbleOpts(mo, useFilter)
	it, err := newIter(po)
	if err != nil {
		r.fail(class, "%s: NewIter error %v", what, err)
		return
	}
	defer func() {
		if err := it.Close(); err != nil && !r.failed {
			r.fail(class, "%s: iterator Close error %v", what, err)
		}
	}()
	mi := model.NewIter(st, mo)
	exp := mi.Scan()
	i := 0
	for ok := it.First(); ok; ok = it.Next() {
		got := ReadPos(it)
		r.count("scan_positions_compared", 1)
		if i >= len(exp) || !PosEqual(exp[i], got) {
			var e string
			if i < len(exp) {
				e = pstr(exp[i], true)
			} else {
				e = "<end>"
			}
			r.fail(class, "%s: forward scan %v position %d: got %s, model %s", what, mo, i, pstr(got, true), e)
			return
		}
		i++
	}
	if err := it.Error(); err != nil {
		r.fail(class, "%s: forward scan error %v", what, err)
		return
	}
	if i != len(exp) {
		r.fail(class, "%s: forward scan %v ended after %d positions, model has %d (next %s)", what, mo, i, len(exp), pstr(exp[i], true))
		return
	}
	i = len(exp) - 1
	for ok := it.Last(); ok; ok = it.Prev() {
		got := ReadPos(it)
		r.count("scan_positions_compared", 1)
		if i < 0 || !PosEqual(exp[i], got) {
			e := "<end>"
			if i >= 0 {
				e = pstr(exp[i], true)
			}
			r.fail(class, "%s: backward scan %v position %d: got %s, model %s", what, mo, i, pstr(got, true), e)
			return
		}
		i--
	}
	if err := it.Error(); err != nil {
		r.fail(class, "%s: backward scan error %v", what, err)
		return
	}
	if i != -1 {
		r.fail(class, "%s: backward scan %v stopped early, model still has %s", what, mo, pstr(exp[i], true))
	}
}

func (r *Run) toPebbleOpts(mo model.IterOpts, useMaskFilter bool) *pebble.IterOptions {
	o := &pebble.IterOptions{}
	if mo.HasLower {
		o.LowerBound = []byte(mo.Lower)
	}
	if mo.HasUpper {
		o.UpperBound = []byte(mo.Upper)
	}
	switch mo.KeyTypes {
	case model.PointsOnly:
		o.KeyTypes = pebble.IterKeyTypePointsOnly
	case model.RangesOnly:
		o.KeyTypes = pebble.IterKeyTypeRangesOnly
	default:
		o.KeyTypes = pebble.IterKeyTypePointsAndRanges
	}
	// no semantic effect: L6 tables consult their bloom filters too
	o.UseL6Filters = r.rng.IntN(2) == 0
	if mo.MaskSuffix != "" {
		o.RangeKeyMasking.Suffix = []byte(mo.MaskSuffix)
		if useMaskFilter {
			o.RangeKeyMasking.Filter = func() pebble.BlockPropertyFilterMask { return sstable.NewTestKeysMaskingFilter() }
		}
	}
	return o
}

func (r *Run) randIterOpts() model.IterOpts {
	var o model.IterOpts
	if r.rng.IntN(3) == 0 {
		o.HasLower, o.Lower = true, r.randSeekKey()
	}
	if r.rng.IntN(3) == 0 {
		o.HasUpper, o.Upper = true, r.randSeekKey()
		if r.rng.IntN(3) != 0 {
			o.Upper = model.Prefix(o.Upper)
		}
	}
	if o.HasLower && o.HasUpper && model.Cmp(o.Lower, o.Upper) > 0 {
		o.Lower, o.Upper = o.Upper, o.Lower
	}
	if r.K.RangeKeys {
		o.KeyTypes = pick(r.rng, model.PointsOnly, model.RangesOnly, model.PointsAndRanges, model.PointsAndRanges)
		if r.K.Masking && o.KeyTypes == model.PointsAndRanges && r.rng.IntN(2) == 0 {
			o.MaskSuffix = fmt.Sprintf("@%d", r.rng.IntN(r.Cfg.MaxSuffix+2))
			if o.MaskSuffix == "@0" {
				o.MaskSuffix = "@1"
			}
		}
	}
	return o
}

// audit compares the latest state, every snapshot, EFOS and long-lived
// iterator with the model.
func (r *Run) audit(why string) {
	if r.failed {
		return
	}
	if r.K.VersionWalk {
		r.versionWalk(why)
		if r.failed {
			return
		}
	}
	if r.K.LightAudit && r.step%10 != 0 && why == "periodic" {
		if err := r.db.CheckLevels(nil); err != nil {
			r.fail("check-levels", "CheckLevels(%s): %v", why, err)
		}
		r.count("structural_audits", 1)
		r.noteShape()
		return
	}
	r.count("audits", 1)
	r.checkGets("latest("+why+")", "get-mismatch", dbGet(r.db), r.M, nil)
	if r.failed {
		return
	}
	kt := model.PointsOnly
	if r.K.RangeKeys {
		kt = model.PointsAndRanges
	}
	r.scanCompare("latest("+why+")", "scan-mismatch", r.db.NewIter, r.M, model.IterOpts{KeyTypes: kt})
	if r.failed {
		return
	}
	if r.K.RangeKeys && r.rng.IntN(2) == 0 {
		r.scanCompare("latest-ranges("+why+")", "scan-mismatch", r.db.NewIter, r.M, model.IterOpts{KeyTypes: model.RangesOnly})
	}
	if r.K.Masking && r.K.RangeKeys && !r.failed {
		mo := model.IterOpts{KeyTypes: model.PointsAndRanges, MaskSuffix: fmt.Sprintf("@%d", 1+r.rng.IntN(r.Cfg.MaxSuffix+1))}
		r.scanCompare("latest-masked("+why+")", "masking-mismatch", r.db.NewIter, r.M, mo)
		r.count("masked_scans", 1)
	}
	if r.K.SnapAudit {
		for _, s := range r.snaps {
			if r.failed {
				return
			}
			skip := func(k string) bool { return inSpans(s.excised, k) }
			r.checkGets(fmt.Sprintf("snapshot@%d(%s)", s.born, why), "snapshot-mismatch", snapGet(s.s), s.st, skip)
			if len(s.excised) == 0 && !r.failed {
				r.scanCompare(fmt.Sprintf("snapshot@%d(%s)", s.born, why), "snapshot-mismatch", s.s.NewIter, s.st, model.IterOpts{KeyTypes: kt})
			}
			r.count("snapshot_audits", 1)
		}
		for _, e := range r.efos {
			if r.failed {
				return
			}
			r.auditEFOS(e, why)
		}
	}
	for _, io := range r.iters {
		if r.failed {
			return
		}
		if io.frozen {
			r.redrive(io, why)
		}
	}
	if err := r.db.CheckLevels(nil); err != nil {
		r.fail("check-levels", "CheckLevels(%s): %v", why, err)
	}
	r.noteShape()
}

func inSpans(sp [][2]string, k string) bool {
	for _, s := range sp {
		if model.Cmp(k, s[0]) >= 0 && model.Cmp(k, s[1]) < 0 {
			return true
		}
	}
	return false
}

func (r *Run) auditEFOS(e *efosObj, why string) {
	for _, k := range r.keyUniverse() {
		if !inSpans(e.ranges, k) {
			continue
		}
		got, ok, err := getValue(efosGet(e.s), k)
		r.count("efos_gets_compared", 1)
		if err != nil {
			r.fail("efos-mismatch", "EFOS@%d(%s): Get(%s) error %v", e.born, why, k, err)
			return
		}
		exp, eok := e.st.Points[k]
		if ok != eok || got != exp {
			r.fail("efos-mismatch", "EFOS@%d(%s): Get(%s)=(%q,%v) model (%q,%v)", e.born, why, k, tr(got), ok, tr(exp), eok)
			return
		}
	}
	kt := model.PointsOnly
	if r.K.RangeKeys {
		kt = model.PointsAndRanges
	}
	for _, rg := range e.ranges {
		mo := model.IterOpts{HasLower: true, Lower: rg[0], HasUpper: true, Upper: rg[1], KeyTypes: kt}
		r.scanCompare(fmt.Sprintf("EFOS@%d(%s)", e.born, why), "efos-mismatch",
			func(o *pebble.IterOptions) (*pebble.Iterator, error) { return e.s.NewIter(o) }, e.st, mo)
		if r.failed {
			return
		}
	}
	r.count("efos_audits", 1)
}

// redrive walks a long-lived iterator fully and compares with its frozen view.
func (r *Run) redrive(io *iterObj, why string) {
	exp := model.NewIter(io.m.State(), io.m.Opts()).Scan()
	what := fmt.Sprintf("long-lived %s born@%d (%s)", io.desc, io.born, why)
	i := 0
	for ok := io.it.First(); ok; ok = io.it.Next() {
		got := ReadPos(io.it)
		r.count("frozen_iter_positions_compared", 1)
		if i >= len(exp) || !PosEqual(exp[i], got) {
			e := "<end>"
			if i < len(exp) {
				e = pstr(exp[i], true)
			}
			r.fail("iterator-view-changed", "%s: forward position %d: got %s, frozen view has %s", what, i, pstr(got, true), e)
			return
		}
		i++
	}
	if err := io.it.Error(); err != nil {
		r.fail("iterator-view-changed", "%s: error %v", what, err)
		return
	}
	if i != len(exp) {
		r.fail("iterator-view-changed", "%s: forward walk ended after %d of %d positions", what, i, len(exp))
		return
	}
	i = len(exp) - 1
	for ok := io.it.Last(); ok; ok = io.it.Prev() {
		got := ReadPos(io.it)
		r.count("frozen_iter_positions_compared", 1)
		if i < 0 || !PosEqual(exp[i], got) {
			r.fail("iterator-view-changed", "%s: backward position %d: got %s", what, i, pstr(got, true))
			return
		}
		i--
	}
	if err := io.it.Error(); err != nil {
		r.fail("iterator-view-changed", "%s: error %v", what, err)
		return
	}
	if i != -1 {
		r.fail("iterator-view-changed", "%s: backward walk stopped early at %d", what, i)
	}
	io.m.Last()
	for {
		if _, ok := io.m.Prev(); !ok {
			break
		}
	}
	r.count("frozen_iter_redrives", 1)
}

func (r *Run) noteShape() {
	m := r.db.Metrics()
	var sb strings.Builder
	levels := 0
	tables := int64(0)
	for i := range m.Levels {
		n := m.Levels[i].Tables.Count
		fmt.Fprintf(&sb, "%d,", n)
		if n > 0 {
			levels++
		}
		tables += int64(n)
	}
	fmt.Fprintf(&sb, "m%d", m.MemTable.Count)
	r.shapes[sb.String()] = struct{}{}
	below := 0
	for i := 1; i < len(m.Levels); i++ {
		if m.Levels[i].Tables.Count > 0 {
			below++
		}
	}
	if below > r.deepest {
		r.deepest = below
	}
	if tables >= 2 && levels >= 2 {
		r.nontrivial = true
	}
}

// ---------------------------------------------------------------------------
// sstable building for ingestion

// IngestTable is the content of one table to ingest.
type IngestTable struct {
	Ops  []model.Op
	Path string
}

// BuildSST writes ops (already legal for one table) to path on fs.
func BuildSST(fs vfs.FS, path string, o *pebble.Options, format sstable.TableFormat, ops []model.Op) error {
	f, err := fs.Create(path, vfs.WriteCategoryUnspecified)
	if err != nil {
		return err
	}
	wo := o.MakeWriterOptions(0, format)
	w := sstable.NewWriter(objstorageprovider.NewFileWritable(f), wo)
	// points in key order
	var pts, rds, rks []model.Op
	for _, op := range ops {
		switch op.Kind {
		case model.OpSet, model.OpDelete, model.OpMerge:
			pts = append(pts, op)
		case model.OpDeleteRange:
			rds = append(rds, op)
		default:
			rks = append(rks, op)
		}
	}
	sort.SliceStable(pts, func(i, j int) bool { return model.Cmp(pts[i].Key, pts[j].Key) < 0 })
	sort.SliceStable(rds, func(i, j int) bool { return model.Cmp(rds[i].Key, rds[j].Key) < 0 })
	sort.SliceStable(rks, func(i, j int) bool { return model.Cmp(rks[i].Key, rks[j].Key) < 0 })
	for _, op := range pts {
		switch op.Kind {
		case model.OpSet:
			err = w.Set([]byte(op.Key), []byte(op.Value))
		case model.OpDelete:
			err = w.Delete([]byte(op.Key))
		case model.OpMerge:
			err = w.Merge([]byte(op.Key), []byte(op.Value))
		}
		if err != nil {
			w.Close()
			return err
		}
	}
	for _, op := range rds {
		if err = w.DeleteRange([]byte(op.Key), []byte(op.End)); err != nil {
			w.Close()
			return err
		}
	}
	for _, op := range rks {
		switch op.Kind {
		case model.OpRangeKeySet:
			err = w.RangeKeySet([]byte(op.Key), []byte(op.End), []byte(op.Suffix), []byte(op.Value))
		case model.OpRangeKeyUnset:
			err = w.RangeKeyUnset([]byte(op.Key), []byte(op.End), []byte(op.Suffix))
		case model.OpRangeKeyDelete:
			err = w.RangeKeyDelete([]byte(op.Key), []byte(op.End))
		}
		if err != nil {
			w.Close()
			return err
		}
	}
	return w.Close()
}

// genIngestTables draws 1–3 tables over disjoint key ranges [lo,hi).
func (r *Run) genIngestTables(lo, hi string, restrict bool) [][]model.Op {
	// partition prefixes among tables: contiguous runs of prefixes
	ps := append([]string(nil), r.prefixes...)
	sort.Slice(ps, func(i, j int) bool { return model.Cmp(ps[i], ps[j]) < 0 })
	if restrict {
		var q []string
		for _, p := range ps {
			if model.Cmp(p, lo) >= 0 && model.Cmp(p+"\x00", hi) <= 0 {
				q = append(q, p)
			}
		}
		ps = q
	}
	if len(ps) == 0 {
		return nil
	}
	nt := 1 + r.rng.IntN(3)
	// choose nt disjoint contiguous groups
	start := r.rng.IntN(len(ps))
	var tables [][]model.Op
	for t := 0; t < nt && start < len(ps); t++ {
		n := 1 + r.rng.IntN(3)
		if start+n > len(ps) {
			n = len(ps) - start
		}
		group := ps[start : start+n]
		start += n + r.rng.IntN(2)
		var ops []model.Op
		usedPoint := map[string]bool{}
		npts := r.rng.IntN(6)
		for i := 0; i < npts; i++ {
			p := group[r.rng.IntN(len(group))]
			k := p
			if r.rng.IntN(4) != 0 {
				k = p + r.randSuffix()
			}
			if usedPoint[k] {
				continue
			}
			usedPoint[k] = true
			switch x := r.rng.IntN(10); {
			case x < 7:
				ops = append(ops, model.Op{Kind: model.OpSet, Key: k, Value: r.newValue()})
			case x < 8 && !r.K.NoMerge:
				ops = append(ops, model.Op{Kind: model.OpMerge, Key: k, Value: "+" + r.newValue()})
			default:
				ops = append(ops, model.Op{Kind: model.OpDelete, Key: k})
			}
		}
		// range ops over sub-ranges of the group: boundaries are prefixes of the
		// group plus the successor of the last prefix.
		bs := append([]string(nil), group...)
		bs = append(bs, group[len(group)-1]+"\x00")
		if r.rng.IntN(3) == 0 {
			i := r.rng.IntN(len(bs) - 1)
			j := i + 1 + r.rng.IntN(len(bs)-1-i)
			dr := model.Op{Kind: model.OpDeleteRange, Key: bs[i], End: bs[j]}
			if r.rng.IntN(2) == 0 {
				// end (or start) the tombstone exactly at a key that exists in the
				// store: table and tombstone boundaries then coincide across levels
				var ex []string
				for k := range r.M.Points {
					if model.Cmp(k, group[0]) > 0 && model.Cmp(k, bs[len(bs)-1]) < 0 {
						ex = append(ex, k)
					}
				}
				if len(ex) > 0 {
					sort.Slice(ex, func(a, b int) bool { return model.Cmp(ex[a], ex[b]) < 0 })
					e := ex[r.rng.IntN(len(ex))]
					if model.Cmp(dr.Key, e) < 0 && r.rng.IntN(3) != 0 {
						dr.End = e
					} else if model.Cmp(e, dr.End) < 0 {
						dr.Key = e
					}
				}
			}
			ops = append(ops, dr)
		}
		if r.K.RangeKeys && r.rng.IntN(2) == 0 {
			// disjoint range-key ops: walk boundaries left to right
			i := 0
			for i < len(bs)-1 {
				j := i + 1 + r.rng.IntN(len(bs)-1-i)
				switch x := r.rng.IntN(6); {
				case x < 3:
					ops = append(ops, model.Op{Kind: model.OpRangeKeySet, Key: bs[i], End: bs[j], Suffix: r.randSuffix(), Value: r.newValue()})
				case x < 4:
					ops = append(ops, model.Op{Kind: model.OpRangeKeyUnset, Key: bs[i], End: bs[j], Suffix: r.randSuffix()})
				case x < 5:
					ops = append(ops, model.Op{Kind: model.OpRangeKeyDelete, Key: bs[i], End: bs[j]})
				}
				i = j
			}
		}
		if len(ops) == 0 {
			ops = append(ops, model.Op{Kind: model.OpSet, Key: group[0], Value: r.newValue()})
		}
		tables = append(tables, ops)
	}
	return tables
}

var _ = context.Background
