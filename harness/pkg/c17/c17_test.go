// C17: the compaction iterator's output preserves every snapshot's view.
//
// Each case builds an internal-key stream (points, fragmented range deletions
// and range keys), a snapshot list and an elision configuration, runs the real
// compact.Iter over it and compares, for every read sequence number in
// snapshots ∪ {latest} and every probe user key, the reference resolution of
// the input with that of the output (model.go). Where elision is not allowed a
// hypothetical older base entry is placed beneath both, so that a wrongly
// dropped tombstone, or a MERGE wrongly turned into a SET, changes the result.
package c17

import (
	"encoding/binary"
	"fmt"
	"math/rand/v2"
	"runtime/debug"
	"sort"
	"strings"
	"testing"

	"github.com/cockroachdb/pebble/internal/base"
	"github.com/cockroachdb/pebble/internal/compact"
	"github.com/cockroachdb/pebble/internal/keyspan"
	"github.com/cockroachdb/pebble/internal/rangekey"
	"github.com/cockroachdb/pebble/internal/testkeys"
	"github.com/cockroachdb/pebble/internal/verif/vcommon"
)

var comparer = testkeys.Comparer

// The monitor allocates many short-lived small objects; a laxer GC target
// keeps the collector from dominating the run on a shared machine.
func init() { debug.SetGCPercent(400) }

// ---- running the real iterator ------------------------------------------

type emitted struct {
	span bool
	key  string
}

type result struct {
	out      stream
	order    []emitted
	nondet   []string
	ineff    []string
	missized []string
	err      error
	panicked string
}

func toSpans(in []span) []keyspan.Span {
	out := make([]keyspan.Span, 0, len(in))
	for _, s := range in {
		ks := keyspan.Span{Start: []byte(s.S), End: []byte(s.E)}
		for _, k := range s.Keys {
			key := keyspan.Key{Trailer: base.MakeTrailer(base.SeqNum(k.Seq), k.Kind)}
			if k.Kind == kRKSet || k.Kind == kRKUnset {
				key.Suffix = []byte(k.Suf)
			}
			if k.Kind == kRKSet {
				key.Value = []byte(k.Val)
			}
			ks.Keys = append(ks.Keys, key)
		}
		out = append(out, ks)
	}
	return out
}

func fromSpan(s *keyspan.Span) span {
	o := span{S: string(s.Start), E: string(s.End)}
	for _, k := range s.Keys {
		o.Keys = append(o.Keys, skey{Seq: uint64(k.SeqNum()), Kind: k.Kind(), Suf: string(k.Suffix), Val: string(k.Value)})
	}
	return o
}

func toElision(e elision) compact.TombstoneElision {
	switch e.Mode {
	case 0:
		return compact.NoTombstoneElision()
	case 1:
		return compact.ElideTombstonesOutsideOf(nil)
	}
	var rs []base.UserKeyBounds
	for _, r := range e.Ranges {
		rs = append(rs, base.UserKeyBoundsEndExclusiveIf([]byte(r.S), []byte(r.E), !r.Incl))
	}
	return compact.ElideTombstonesOutsideOf(rs)
}

// run feeds st (RD and RK already fragmented) to compact.Iter and collects
// everything it emits. nilIters passes nil instead of empty span iterators.
func run(st *stream, cfg config, nilIters bool) (res result) {
	defer func() {
		if p := recover(); p != nil {
			res.panicked = fmt.Sprint(p)
		}
	}()
	kvs := make([]base.InternalKV, 0, len(st.Pts))
	for _, p := range st.Pts {
		kvs = append(kvs, base.InternalKV{
			K: base.MakeInternalKey([]byte(p.K), base.SeqNum(p.Seq), p.Kind),
			V: base.MakeInPlaceValue([]byte(p.V)),
		})
	}
	var snaps compact.Snapshots
	for _, s := range cfg.Snaps {
		snaps = append(snaps, base.SeqNum(s))
	}
	icfg := compact.IterConfig{
		Comparer:              comparer,
		Merge:                 base.DefaultMerger.Merge,
		Snapshots:             snaps,
		TombstoneElision:      toElision(cfg.ElPt),
		RangeKeyElision:       toElision(cfg.ElRK),
		IsBottommostDataLayer: cfg.Bottom,
		IneffectualSingleDeleteCallback: func(k []byte) {
			res.ineff = append(res.ineff, string(k))
		},
		NondeterministicSingleDeleteCallback: func(k []byte) {
			res.nondet = append(res.nondet, string(k))
		},
		MissizedDeleteCallback: func(k []byte, elided, expected uint64) {
			res.missized = append(res.missized, string(k))
		},
	}
	var rdIter, rkIter keyspan.FragmentIterator
	if len(st.RD) > 0 || !nilIters {
		rdIter = keyspan.NewIter(comparer.Compare, toSpans(st.RD))
	}
	if len(st.RK) > 0 || !nilIters {
		rkIter = keyspan.NewIter(comparer.Compare, toSpans(st.RK))
	}
	it := compact.NewIter(icfg, base.NewFakeIter(comparer, kvs), rdIter, rkIter)
	for kv := it.First(); kv != nil; kv = it.Next() {
		k := string(kv.K.UserKey)
		switch kind := kv.K.Kind(); {
		case kind == kRangeD:
			sp := fromSpan(it.Span())
			res.out.RD = append(res.out.RD, sp)
			res.order = append(res.order, emitted{true, sp.S})
			if sp.S != k {
				res.err = fmt.Errorf("RANGEDEL key %q returned with Span() %s", k, sp)
			}
		case rangekey.IsRangeKey(kind):
			sp := fromSpan(it.Span())
			res.out.RK = append(res.out.RK, sp)
			res.order = append(res.order, emitted{true, sp.S})
			if sp.S != k {
				res.err = fmt.Errorf("range key %q returned with Span() %s", k, sp)
			}
		default:
			v, _, err := kv.Value(nil)
			if err != nil {
				res.err = err
			}
			res.out.Pts = append(res.out.Pts, pt{K: k, Seq: uint64(kv.K.SeqNum()), Kind: kind, V: string(v)})
			res.order = append(res.order, emitted{false, k})
		}
	}
	if err := it.Error(); err != nil && res.err == nil {
		res.err = err
	}
	if err := it.Close(); err != nil && res.err == nil {
		res.err = err
	}
	return res
}

// ---- the monitor -------------------------------------------------------

var probeKeys = func() []string {
	var ps []string
	for c := 'a'; c <= 'g'; c++ {
		ps = append(ps, string(c), string(c)+"0")
	}
	return ps
}()

type verdict struct {
	discarded  string // non-empty: why the case is outside the statement
	nontrivial bool
}

type monitor struct {
	r *vcommon.Report
}

func (m *monitor) violate(class, detail string, raw, fed *stream, cfg config, res *result, extra map[string]any) {
	rep := map[string]any{
		"config":    cfg.String(),
		"input":     raw.dump(),
		"input_fed": fed.dump(),
	}
	if res != nil {
		rep["output"] = res.out.dump()
		rep["nondeterministic_singledel"] = res.nondet
		rep["ineffectual_singledel"] = res.ineff
		rep["missized"] = res.missized
		if res.err != nil {
			rep["error"] = res.err.Error()
		}
		if res.panicked != "" {
			rep["panic"] = res.panicked
		}
	}
	for k, v := range extra {
		rep[k] = v
	}
	m.r.Violate(class, detail, rep, map[string]any{"class": class})
}

// structural checks on what the iterator emitted.
func (m *monitor) checkStructure(raw, fed *stream, cfg config, res *result) {
	out := &res.out
	for i := 1; i < len(out.Pts); i++ {
		a, b := out.Pts[i-1], out.Pts[i]
		ka := base.MakeInternalKey([]byte(a.K), base.SeqNum(a.Seq), a.Kind)
		kb := base.MakeInternalKey([]byte(b.K), base.SeqNum(b.Seq), b.Kind)
		if base.InternalCompare(comparer.Compare, ka, kb) >= 0 {
			m.violate("output-order", fmt.Sprintf("output point keys not strictly increasing: %s then %s", a, b), raw, fed, cfg, res, nil)
			break
		}
	}
	for name, spans := range map[string][]span{"RANGEDEL": out.RD, "range-key": out.RK} {
		for i, s := range spans {
			if !(s.S < s.E) || len(s.Keys) == 0 {
				m.violate("output-span-malformed", fmt.Sprintf("%s span %s is empty", name, s), raw, fed, cfg, res, nil)
			}
			if i > 0 && spans[i-1].E > s.S {
				m.violate("output-order", fmt.Sprintf("%s spans out of order / overlapping: %s then %s", name, spans[i-1], s), raw, fed, cfg, res, nil)
			}
			for j, k := range s.Keys {
				if j > 0 && s.Keys[j-1].trailer() < k.trailer() {
					m.violate("output-order", fmt.Sprintf("%s span %s keys not in trailer-descending order", name, s), raw, fed, cfg, res, nil)
				}
				if (name == "RANGEDEL") != (k.Kind == kRangeD) {
					m.violate("output-span-malformed", fmt.Sprintf("%s span %s holds a key of a foreign kind", name, s), raw, fed, cfg, res, nil)
				}
				if k.Seq == 0 {
					m.violate("seqnum-zeroed", fmt.Sprintf("%s span %s has a zero sequence number", name, s), raw, fed, cfg, res, nil)
				}
			}
		}
	}
	// spans are emitted where an sstable writer needs them: before every point
	// at or after their start key, after every point before it.
	maxPt, maxSpan := "", ""
	for _, e := range res.order {
		if e.span {
			if maxPt != "" && e.key <= maxPt {
				m.violate("output-order", fmt.Sprintf("span starting at %q emitted after point key %q", e.key, maxPt), raw, fed, cfg, res, nil)
				break
			}
			if e.key > maxSpan {
				maxSpan = e.key
			}
		} else {
			if e.key < maxSpan {
				m.violate("output-order", fmt.Sprintf("point key %q emitted after span starting at %q", e.key, maxSpan), raw, fed, cfg, res, nil)
				break
			}
			if e.key > maxPt {
				maxPt = e.key
			}
		}
	}
	// sequence-number zeroing: only with IsBottommostDataLayer, only for an
	// entry whose original sequence number lies in the bottom stripe.
	for _, p := range out.Pts {
		if p.Seq != 0 {
			continue
		}
		m.r.Count("outputs_seqnum_zeroed", 1)
		if !cfg.Bottom {
			m.violate("seqnum-zeroed", fmt.Sprintf("%s has a zeroed sequence number without IsBottommostDataLayer", p), raw, fed, cfg, res, nil)
			continue
		}
		if orig, ok := newestOperandSeq(p.V); ok && len(cfg.Snaps) > 0 && orig >= cfg.Snaps[0] {
			m.violate("seqnum-zeroed", fmt.Sprintf("%s (originally #%d) zeroed outside the bottom snapshot stripe (first snapshot %d)", p, orig, cfg.Snaps[0]), raw, fed, cfg, res, nil)
		}
	}
}

// values are "s<seq>;" / "m<seq>;" tokens; the last token of a (merged) value
// names the newest contributing entry.
func newestOperandSeq(v string) (uint64, bool) {
	v = strings.TrimSuffix(v, ";")
	if i := strings.LastIndexByte(v, ';'); i >= 0 {
		v = v[i+1:]
	}
	if len(v) < 2 {
		return 0, false
	}
	var n uint64
	if _, err := fmt.Sscanf(v[1:], "%d", &n); err != nil {
		return 0, false
	}
	return n, true
}

// compareViews checks resolve(in) == resolve(out) for all read seqnums and
// probe keys, without and (where elision is not allowed) with a base.
func (m *monitor) compareViews(in, out *stream, raw, fed *stream, cfg config, reads []uint64, res *result, pass string) bool {
	ok := true
	for _, k := range probeKeys {
		ptBase := !cfg.Bottom && cfg.ElPt.inUse(k)
		if ptBase && hasSingleDel(in, k) && !contractOK(in, k, true) {
			// an older SET beneath would itself break the SingleDelete contract
			ptBase = false
			m.r.Count("base_skipped_singledel_contract", 1)
		}
		rkBase := !cfg.Bottom && cfg.ElRK.inUse(k)
		for _, s := range reads {
			for _, wb := range []bool{false, true} {
				if wb && !ptBase {
					continue
				}
				a, b := resolvePoint(in, k, s, wb), resolvePoint(out, k, s, wb)
				m.r.Count("point_resolutions_compared", 1)
				if a != b {
					ok = false
					class := "view-mismatch"
					if wb && resolvePoint(in, k, s, false) == resolvePoint(out, k, s, false) {
						class = "elision-exposes-base"
					}
					m.violate(class, fmt.Sprintf("%s: point key %q at read seqnum %d (base=%v): input resolves to %+v, output to %+v", pass, k, s, wb, a, b),
						raw, fed, cfg, res, map[string]any{"key": k, "read_seqnum": s, "with_base": wb, "pass": pass})
				}
			}
			for _, wb := range []bool{false, true} {
				if wb && !rkBase {
					continue
				}
				a, b := resolveRK(in, k, s, wb), resolveRK(out, k, s, wb)
				m.r.Count("rangekey_resolutions_compared", 1)
				if a != b {
					ok = false
					class := "rangekey-view-mismatch"
					if wb && resolveRK(in, k, s, false) == resolveRK(out, k, s, false) {
						class = "rangekey-elision-exposes-base"
					}
					m.violate(class, fmt.Sprintf("%s: range keys at %q at read seqnum %d (base=%v): input {%s}, output {%s}", pass, k, s, wb, a, b),
						raw, fed, cfg, res, map[string]any{"key": k, "read_seqnum": s, "with_base": wb, "pass": pass})
				}
			}
			if !ok && m.r.NumViolations() > 0 {
				return false // one mismatch per case is enough
			}
		}
	}
	return ok
}

// accurateDelSized: no range tombstone touches k and every DELSIZED of k is
// directly above a SET/SETWITHDEL/MERGE whose size it records exactly.
func accurateDelSized(st *stream, k string) bool {
	for _, s := range st.RD {
		if s.S <= k && k < s.E {
			return false
		}
	}
	var ps []pt
	for _, p := range st.Pts {
		if p.K == k {
			ps = append(ps, p)
		}
	}
	for i, p := range ps {
		if p.Kind != kDelSz {
			continue
		}
		if i+1 >= len(ps) || len(p.V) == 0 {
			return false
		}
		o := ps[i+1]
		if o.Kind != kSet && o.Kind != kSetDel && o.Kind != kMerge {
			return false
		}
		n, w := binary.Uvarint([]byte(p.V))
		if w != len(p.V) || n != uint64(len(o.K)+len(o.V)) {
			return false
		}
	}
	return true
}

// check runs one case. raw is the generator's stream (raw spans), extra the
// additional fragmentation points.
func (m *monitor) check(raw *stream, extra []string, cfg config, nilIters bool, secondPass []uint64) verdict {
	sortPts(raw.Pts)
	fed := &stream{Pts: raw.Pts, RD: fragment(raw.RD, extra), RK: fragment(raw.RK, extra)}

	// SingleDelete contract (generator side).
	keysSeen := map[string]bool{}
	for _, p := range raw.Pts {
		keysSeen[p.K] = true
	}
	contract := true
	for k := range keysSeen {
		if hasSingleDel(raw, k) && !contractOK(raw, k, false) {
			contract = false
		}
	}
	res := run(fed, cfg, nilIters)
	m.r.Count("iterator_runs", 1)
	m.r.Count("input_entries", int64(fed.size()))
	m.r.Count("output_entries", int64(res.out.size()))
	if len(res.ineff) > 0 {
		m.r.Count("runs_with_ineffectual_singledel_callback", 1)
	}
	if len(res.missized) > 0 {
		m.r.Count("runs_with_missized_delete_callback", 1)
	}
	if !contract {
		if len(res.nondet) > 0 {
			m.r.Count("discarded_contract_broken_callback_fired", 1)
		} else {
			m.r.Count("discarded_contract_broken_callback_silent", 1)
		}
		return verdict{discarded: "singledel-contract"}
	}
	if res.panicked != "" {
		m.violate("panic", "compact.Iter panicked: "+res.panicked, raw, fed, cfg, &res, nil)
		return verdict{}
	}
	if len(res.nondet) > 0 {
		// The harness's own contract check accepted the stream; the callback
		// disagrees. Behaviour is then undefined by pebble's own account, so the
		// case is not judged, but it is reported.
		m.r.Count("discarded_nondeterministic_callback_on_contract_ok", 1)
		m.r.Note("NondeterministicSingleDeleteCallback fired on a stream the harness considers contract-conforming: %v cfg=%s", raw.dump(), cfg)
		return verdict{discarded: "nondeterministic-callback"}
	}
	if res.err != nil {
		m.violate("unexpected-error", "compact.Iter returned an error on valid input: "+res.err.Error(), raw, fed, cfg, &res, nil)
		return verdict{}
	}
	m.checkStructure(raw, fed, cfg, &res)
	reads := append(append([]uint64(nil), cfg.Snaps...), latestSeq)
	if !m.compareViews(raw, &res.out, raw, fed, cfg, reads, &res, "pass1") {
		return verdict{nontrivial: true}
	}
	for k := range keysSeen {
		if accurateDelSized(raw, k) {
			for _, mk := range res.missized {
				if mk == k {
					m.violate("missized-callback-spurious", fmt.Sprintf("MissizedDeleteCallback fired for %q although every DELSIZED of that key records the exact size of the entry it deletes", k), raw, fed, cfg, &res, nil)
				}
			}
		}
	}
	// Second pass: the output is itself a legal compaction input. Recompact it
	// with a subset of the snapshots (some were released) and require the views
	// of the ORIGINAL input to survive the composition.
	if secondPass != nil {
		cfg2 := cfg
		cfg2.Snaps = secondPass
		in2 := &stream{Pts: res.out.Pts, RD: res.out.RD, RK: res.out.RK}
		res2 := run(in2, cfg2, nilIters)
		m.r.Count("second_pass_runs", 1)
		switch {
		case res2.panicked != "":
			m.violate("panic", "compact.Iter panicked recompacting its own output: "+res2.panicked, raw, in2, cfg2, &res2, map[string]any{"first_pass_config": cfg.String()})
		case len(res2.nondet) > 0:
			m.r.Count("second_pass_discarded_nondeterministic", 1)
		case res2.err != nil:
			m.violate("unexpected-error", "compact.Iter returned an error recompacting its own output: "+res2.err.Error(), raw, in2, cfg2, &res2, map[string]any{"first_pass_config": cfg.String()})
		default:
			m.checkStructure(raw, in2, cfg2, &res2)
			reads2 := append(append([]uint64(nil), secondPass...), latestSeq)
			m.compareViews(raw, &res2.out, raw, in2, cfg2, reads2, &res2, "pass2")
		}
	}
	return verdict{nontrivial: fed.size() >= 2}
}

// ---- random generator ----------------------------------------------------

func pick[T any](rng *rand.Rand, xs ...T) T { return xs[rng.IntN(len(xs))] }

func uvarint(n uint64) string { return string(binary.AppendUvarint(nil, n)) }

func genElision(rng *rand.Rand) elision {
	switch x := rng.IntN(100); {
	case x < 33:
		return elision{Mode: 0}
	case x < 62:
		return elision{Mode: 1}
	}
	n := 1 + rng.IntN(3)
	idx := rng.Perm(len(probeKeys))[:2*n]
	sort.Ints(idx)
	var rs []keyRange
	for i := 0; i < n; i++ {
		r := keyRange{S: probeKeys[idx[2*i]], E: probeKeys[idx[2*i+1]], Incl: rng.IntN(2) == 0}
		if rng.IntN(5) == 0 {
			r.E, r.Incl = r.S, true // single-key range
		}
		rs = append(rs, r)
	}
	return elision{Mode: 2, Ranges: rs}
}

func genConfig(rng *rand.Rand, maxSeq uint64) config {
	var cfg config
	ns := pick(rng, 0, 0, 1, 1, 1, 2, 2, 3, 4)
	set := map[uint64]bool{}
	for i := 0; i < ns; i++ {
		set[1+rng.Uint64N(maxSeq+1)] = true
	}
	for s := range set {
		cfg.Snaps = append(cfg.Snaps, s)
	}
	sort.Slice(cfg.Snaps, func(i, j int) bool { return cfg.Snaps[i] < cfg.Snaps[j] })
	cfg.ElPt = genElision(rng)
	if rng.IntN(100) < 70 {
		cfg.ElRK = cfg.ElPt
	} else {
		cfg.ElRK = genElision(rng)
	}
	if cfg.ElPt.Mode == 1 && cfg.ElRK.Mode == 1 && rng.IntN(100) < 60 {
		cfg.Bottom = true
	}
	return cfg
}

// genStream: 1–6 user keys, sequence numbers 1..12.
func genStream(rng *rand.Rand, repairContract bool) (*stream, []string, uint64) {
	nk := 1 + rng.IntN(6)
	keys := []string{"a", "b", "c", "d", "e", "f"}[:nk]
	bounds := []string{"a", "b", "c", "d", "e", "f", "g"}[:nk+1]
	maxSeq := uint64(1 + rng.IntN(12))
	nops := 1 + rng.IntN(int(maxSeq)+2)
	st := &stream{}
	usedPt := map[string]bool{} // key#seq taken by a point
	type kw struct {
		k base.InternalKeyKind
		w int
	}
	weights := []kw{{kSet, 24}, {kMerge, 14}, {kDel, 11}, {kSetDel, 7}, {kDelSz, 10}, {kSingle, 11}, {kRangeD, 11}, {kRKSet, 6}, {kRKUnset, 3}, {kRKDel, 3}}
	if rng.IntN(4) == 0 {
		// point-only stream
		weights = weights[:6]
	}
	tot := 0
	for _, w := range weights {
		tot += w.w
	}
	rkUsed := map[string]bool{} // "seq/kind/suffix"
	for i := 0; i < nops; i++ {
		x := rng.IntN(tot)
		var kind base.InternalKeyKind
		for _, w := range weights {
			if x < w.w {
				kind = w.k
				break
			}
			x -= w.w
		}
		seq := 1 + rng.Uint64N(maxSeq)
		switch kind {
		case kRangeD, kRKSet, kRKUnset, kRKDel:
			i0 := rng.IntN(len(bounds) - 1)
			i1 := i0 + 1 + rng.IntN(len(bounds)-1-i0)
			sp := span{S: bounds[i0], E: bounds[i1]}
			if kind == kRangeD {
				sp.Keys = []skey{{Seq: seq, Kind: kRangeD}}
				st.RD = append(st.RD, sp)
				continue
			}
			k := skey{Seq: seq, Kind: kind}
			if kind != kRKDel {
				k.Suf = pick(rng, rkSuffixes...)
			}
			if kind == kRKSet {
				k.Val = fmt.Sprintf("r%d%s", seq, sp.S)
			}
			// at one sequence number a suffix is either set or unset, once
			id := fmt.Sprintf("%d/%s", seq, k.Suf)
			if kind != kRKDel {
				if rkUsed[id] {
					continue
				}
				rkUsed[id] = true
			}
			sp.Keys = []skey{k}
			st.RK = append(st.RK, sp)
		default:
			k := pick(rng, keys...)
			id := fmt.Sprintf("%s#%d", k, seq)
			if usedPt[id] {
				continue
			}
			usedPt[id] = true
			p := pt{K: k, Seq: seq, Kind: kind}
			switch kind {
			case kSet, kSetDel:
				p.V = fmt.Sprintf("s%d;", seq)
			case kMerge:
				p.V = fmt.Sprintf("m%d;", seq)
			}
			st.Pts = append(st.Pts, p)
		}
	}
	sortPts(st.Pts)
	// DELSIZED values: mostly the exact size of the entry beneath.
	for i := range st.Pts {
		p := &st.Pts[i]
		if p.Kind != kDelSz {
			continue
		}
		switch x := rng.IntN(100); {
		case x < 15:
			p.V = ""
		case x < 35:
			p.V = uvarint(uint64(rng.IntN(12)))
		default:
			if i+1 < len(st.Pts) && st.Pts[i+1].K == p.K && (st.Pts[i+1].Kind == kSet || st.Pts[i+1].Kind == kSetDel || st.Pts[i+1].Kind == kMerge) {
				p.V = uvarint(uint64(len(p.K) + len(st.Pts[i+1].V)))
			} else {
				p.V = uvarint(uint64(1 + rng.IntN(8)))
			}
		}
	}
	if repairContract {
		// turn SINGLEDELs that break the contract into DELs, oldest first
		for _, k := range keys {
			for !contractOK(st, k, false) {
				fixed := false
				for i := len(st.Pts) - 1; i >= 0 && !fixed; i-- {
					if st.Pts[i].K == k && st.Pts[i].Kind == kSingle {
						sub := &stream{RD: st.RD}
						for _, q := range st.Pts {
							if q.K == k && q.Seq <= st.Pts[i].Seq {
								sub.Pts = append(sub.Pts, q)
							}
						}
						if !contractOK(sub, k, false) {
							st.Pts[i].Kind = kDel
							fixed = true
						}
					}
				}
				if !fixed {
					break
				}
			}
		}
	}
	var extra []string
	for _, b := range bounds {
		if rng.IntN(6) == 0 {
			extra = append(extra, b)
		}
	}
	return st, extra, maxSeq
}

func subsetSnaps(rng *rand.Rand, snaps []uint64) []uint64 {
	out := []uint64{}
	for _, s := range snaps {
		if rng.IntN(2) == 0 {
			out = append(out, s)
		}
	}
	return out
}

func TestVerifC17(t *testing.T) {
	r := vcommon.NewReport("C17", "main")
	defer r.Finish(t)
	r.Rule("random internal-key stream (1-6 user keys, seqnums 1..12; SET, SETWITHDEL, DEL, DELSIZED, SINGLEDEL per contract, MERGE, " +
		"fragmented RANGEDELs and RANGEKEYSET/UNSET/DEL spans), 0-4 snapshots, elision {nothing, everything, outside random in-use ranges}, " +
		"bottommost flag; distinct = distinct (stream, configuration); non-trivial = not discarded for a broken SingleDelete contract and at least 2 input entries")
	r.Assume("reads interpret SINGLEDEL as DEL; DELSIZED as DEL; base.DefaultMerger (concatenation) is associative")
	r.Assume("IsBottommostDataLayer is only combined with elide-everything for both keyspaces (the only way pebble's compaction sets it)")
	r.Assume("streams in which a SINGLEDEL meets more than one SET, or a MERGE, since the last delete are outside the statement and are discarded (counted)")
	m := &monitor{r: r}
	n := vcommon.Scale(150000, 3000000)
	r.Cases(n, func(i int, rng *rand.Rand) {
		raw, extra, maxSeq := genStream(rng, rng.IntN(100) < 92)
		cfg := genConfig(rng, maxSeq)
		var second []uint64
		if rng.IntN(2) == 0 {
			second = subsetSnaps(rng, cfg.Snaps)
		}
		v := m.check(raw, extra, cfg, rng.IntN(2) == 0, second)
		r.Eval(1)
		if v.discarded != "" {
			r.Count("discarded_"+v.discarded, 1)
			return
		}
		if v.nontrivial {
			r.Distinct(raw.fingerprint(), cfg.String(), extra)
			r.Count("snapshots_total", int64(len(cfg.Snaps)))
			r.SetAdd("elision_modes", fmt.Sprintf("pt=%d rk=%d bottom=%v", cfg.ElPt.Mode, cfg.ElRK.Mode, cfg.Bottom))
			for _, p := range raw.Pts {
				r.SetAdd("kinds_in_input", kindName(p.Kind))
			}
			if len(raw.RD) > 0 {
				r.SetAdd("kinds_in_input", "RANGEDEL")
			}
			for _, s := range raw.RK {
				r.SetAdd("kinds_in_input", kindName(s.Keys[0].Kind))
			}
			if r.WantSample() && len(raw.Pts) >= 3 && len(cfg.Snaps) > 0 {
				fed := &stream{Pts: raw.Pts, RD: fragment(raw.RD, extra), RK: fragment(raw.RK, extra)}
				res := run(fed, cfg, false)
				r.Sample(map[string]any{"config": cfg.String(), "input": fed.dump(), "output": res.out.dump()})
			}
		}
	})
}

// ---- exhaustive enumeration ------------------------------------------------

type symbol struct {
	absent bool
	kind base.InternalKeyKind
	key  string // point key, or span start
	end  string // span end
	suf  string
	wrong bool // DELSIZED with a wrong size
}

func pointAlphabet() []symbol {
	syms := []symbol{{absent: true}}
	for _, k := range []string{"a", "b"} {
		for _, kind := range []base.InternalKeyKind{kSet, kSetDel, kDel, kDelSz, kSingle, kMerge} {
			syms = append(syms, symbol{kind: kind, key: k})
		}
		syms = append(syms, symbol{kind: kDelSz, key: k, wrong: true})
	}
	for _, se := range [][2]string{{"a", "b"}, {"b", "c"}, {"a", "c"}} {
		syms = append(syms, symbol{kind: kRangeD, key: se[0], end: se[1]})
	}
	return syms
}

func rangeKeyAlphabet() []symbol {
	syms := []symbol{{absent: true}}
	for _, se := range [][2]string{{"a", "b"}, {"b", "c"}, {"a", "c"}} {
		for _, suf := range []string{"@1", "@2"} {
			syms = append(syms, symbol{kind: kRKSet, key: se[0], end: se[1], suf: suf})
			syms = append(syms, symbol{kind: kRKUnset, key: se[0], end: se[1], suf: suf})
		}
		syms = append(syms, symbol{kind: kRKDel, key: se[0], end: se[1]})
	}
	return syms
}

// buildEnumerated: slot j (0-based) carries sequence number j+1.
func buildEnumerated(syms []symbol, digits []int) *stream {
	st := &stream{}
	for j, d := range digits {
		s := syms[d]
		seq := uint64(j + 1)
		if s.absent {
			continue
		}
		switch s.kind {
		case kRangeD:
			st.RD = append(st.RD, span{S: s.key, E: s.end, Keys: []skey{{Seq: seq, Kind: kRangeD}}})
		case kRKSet:
			st.RK = append(st.RK, span{S: s.key, E: s.end, Keys: []skey{{Seq: seq, Kind: kRKSet, Suf: s.suf, Val: fmt.Sprintf("r%d", seq)}}})
		case kRKUnset:
			st.RK = append(st.RK, span{S: s.key, E: s.end, Keys: []skey{{Seq: seq, Kind: kRKUnset, Suf: s.suf}}})
		case kRKDel:
			st.RK = append(st.RK, span{S: s.key, E: s.end, Keys: []skey{{Seq: seq, Kind: kRKDel}}})
		default:
			p := pt{K: s.key, Seq: seq, Kind: s.kind}
			switch s.kind {
			case kSet, kSetDel:
				p.V = fmt.Sprintf("s%d;", seq)
			case kMerge:
				p.V = fmt.Sprintf("m%d;", seq)
			case kDelSz:
				if s.wrong {
					p.V = uvarint(99)
				} else {
					p.V = "\x00exact" // placeholder, resolved below
				}
			}
			st.Pts = append(st.Pts, p)
		}
	}
	sortPts(st.Pts)
	for i := range st.Pts {
		p := &st.Pts[i]
		if p.Kind == kDelSz && p.V == "\x00exact" {
			p.V = ""
			if i+1 < len(st.Pts) && st.Pts[i+1].K == p.K {
				if o := st.Pts[i+1]; o.Kind == kSet || o.Kind == kSetDel || o.Kind == kMerge {
					p.V = uvarint(uint64(len(o.K) + len(o.V)))
				}
			}
		}
	}
	return st
}

func exhaustiveConfigs(nseq int, rangeKeys bool) []config {
	var snapSets [][]uint64
	for mask := 0; mask < 1<<(nseq-1); mask++ {
		var s []uint64
		for b := 0; b < nseq-1; b++ {
			if mask&(1<<b) != 0 {
				s = append(s, uint64(b+2)) // snapshot b+2 separates seqnum b+1 from b+2
			}
		}
		snapSets = append(snapSets, s)
	}
	inuseA := elision{Mode: 2, Ranges: []keyRange{{S: "a", E: "a", Incl: true}}}
	var out []config
	for _, s := range snapSets {
		out = append(out,
			config{Snaps: s, ElPt: elision{Mode: 0}, ElRK: elision{Mode: 0}},
			config{Snaps: s, ElPt: elision{Mode: 1}, ElRK: elision{Mode: 1}},
			config{Snaps: s, ElPt: inuseA, ElRK: inuseA})
		if !rangeKeys {
			out = append(out, config{Snaps: s, ElPt: elision{Mode: 1}, ElRK: elision{Mode: 1}, Bottom: true})
		}
	}
	return out
}

func runExhaustive(t *testing.T, part string, syms []symbol, rangeKeys bool) {
	r := vcommon.NewReport("C17", part)
	defer r.Finish(t)
	nseq := 3
	if vcommon.Thorough() {
		nseq = 4
	}
	what := "point kinds {SET, SETWITHDEL, DEL, DELSIZED(exact), DELSIZED(wrong size), SINGLEDEL, MERGE} on 2 user keys + RANGEDEL over [a,b) [b,c) [a,c)"
	if rangeKeys {
		what = "RANGEKEYSET/UNSET of 2 suffixes and RANGEKEYDEL over [a,b) [b,c) [a,c)"
	}
	r.Rule(fmt.Sprintf("exhaustive: every assignment of {absent, %s} to sequence numbers 1..%d, crossed with every snapshot subset and elision in "+
		"{nothing, everything, everything+bottommost (points only), in-use [a,a]}; distinct = (stream, configuration); non-trivial = not discarded and at least 2 entries", what, nseq))
	r.Assume("same reading of SINGLEDEL/DELSIZED/merge semantics as part main; contract-breaking SINGLEDEL streams are discarded (counted)")
	m := &monitor{r: r}
	total := 1
	for i := 0; i < nseq; i++ {
		total *= len(syms)
	}
	cfgs := exhaustiveConfigs(nseq, rangeKeys)
	r.Cases(total, func(i int, _ *rand.Rand) {
		digits := make([]int, nseq)
		x := i
		for j := range digits {
			digits[j] = x % len(syms)
			x /= len(syms)
		}
		for ci, cfg := range cfgs {
			raw := buildEnumerated(syms, digits)
			var second []uint64
			if len(cfg.Snaps) > 0 {
				second = cfg.Snaps[1:] // release the oldest snapshot
			}
			v := m.check(raw, nil, cfg, ci%2 == 0, second)
			r.Eval(1)
			if v.discarded != "" {
				r.Count("discarded_"+v.discarded, 1)
				continue
			}
			if v.nontrivial {
				r.Distinct(i, ci)
			}
		}
		r.Count("exh_"+part+"_streams_enumerated", 1)
	})
	// The property as a whole is checked at level "exploration"; the counters
	// below state the small space that this part enumerates completely.
	r.Max("max_exh_"+part+"_seqnums", int64(nseq))
	r.Max("max_exh_"+part+"_alphabet_size", int64(len(syms)))
	r.Max("max_exh_"+part+"_streams_in_space", int64(total))
	r.Max("max_exh_"+part+"_configs_per_stream", int64(len(cfgs)))
	if si, _ := vcommon.Shard(); si == 0 {
		r.Note("part %s enumerates completely: %d^%d = %d streams x %d configurations (complete iff counter exh_%s_streams_enumerated == %d)", part, len(syms), nseq, total, len(cfgs), part, total)
	}
}

func TestVerifC17ExhPoints(t *testing.T)    { runExhaustive(t, "exh-points", pointAlphabet(), false) }
func TestVerifC17ExhRangeKeys(t *testing.T) { runExhaustive(t, "exh-rangekeys", rangeKeyAlphabet(), true) }
