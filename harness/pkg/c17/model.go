// Package c17 holds the runtime monitor for property C17: the output of the
// compaction iterator (internal/compact.Iter) gives every snapshot, and the
// latest state, the same view of every user key as its input did.
//
// model.go is the reference side: a tiny data model of an internal-key stream
// (points, range deletions, range keys), the `resolve` oracle that says what a
// read at sequence number s sees at user key k, the SingleDelete usage
// contract, and a trivial fragmenter. Nothing here calls into pebble's
// compaction code.
package c17

import (
	"encoding/binary"
	"fmt"
	"sort"
	"strings"

	"github.com/cockroachdb/pebble/internal/base"
)

const (
	kSet     = base.InternalKeyKindSet
	kSetDel  = base.InternalKeyKindSetWithDelete
	kDel     = base.InternalKeyKindDelete
	kDelSz   = base.InternalKeyKindDeleteSized
	kSingle  = base.InternalKeyKindSingleDelete
	kMerge   = base.InternalKeyKindMerge
	kRangeD  = base.InternalKeyKindRangeDelete
	kRKSet   = base.InternalKeyKindRangeKeySet
	kRKUnset = base.InternalKeyKindRangeKeyUnset
	kRKDel   = base.InternalKeyKindRangeKeyDelete
)

// latestSeq is the read sequence number of "the latest state".
const latestSeq = uint64(1) << 40

// pt is one point entry.
type pt struct {
	K    string
	Seq  uint64
	Kind base.InternalKeyKind
	V    string // raw value bytes (DELSIZED: uvarint or empty)
}

// skey is one key of a span.
type skey struct {
	Seq  uint64
	Kind base.InternalKeyKind
	Suf  string
	Val  string
}

func (k skey) trailer() uint64 { return k.Seq<<8 | uint64(k.Kind) }

// span is [S,E) with keys sorted by trailer descending.
type span struct {
	S, E string
	Keys []skey
}

// stream is a compaction input or output. Pts is sorted by (K asc, Seq desc).
// RD / RK may be raw (overlapping; generator output) or fragmented.
type stream struct {
	Pts []pt
	RD  []span
	RK  []span
}

func sortPts(p []pt) {
	sort.SliceStable(p, func(i, j int) bool {
		if p[i].K != p[j].K {
			return p[i].K < p[j].K
		}
		if p[i].Seq != p[j].Seq {
			return p[i].Seq > p[j].Seq
		}
		return p[i].Kind > p[j].Kind
	})
}

func sortKeys(k []skey) {
	sort.SliceStable(k, func(i, j int) bool { return k[i].trailer() > k[j].trailer() })
}

// fragment splits raw spans at every boundary (plus the extra split points)
// and returns sorted, non-overlapping spans whose keys are sorted by trailer
// descending.
func fragment(raw []span, extra []string) []span {
	if len(raw) == 0 {
		return nil
	}
	bm := map[string]bool{}
	for _, s := range raw {
		bm[s.S] = true
		bm[s.E] = true
	}
	for _, e := range extra {
		bm[e] = true
	}
	var bs []string
	for b := range bm {
		bs = append(bs, b)
	}
	sort.Strings(bs)
	var out []span
	for i := 0; i+1 < len(bs); i++ {
		var keys []skey
		for _, s := range raw {
			if s.S <= bs[i] && bs[i+1] <= s.E {
				keys = append(keys, s.Keys...)
			}
		}
		if len(keys) == 0 {
			continue
		}
		sortKeys(keys)
		out = append(out, span{S: bs[i], E: bs[i+1], Keys: keys})
	}
	return out
}

// pview is what a read sees at one user key in the point keyspace.
type pview struct {
	Exists bool
	V      string
}

// resolvePoint is the reference read: newest visible entry wins; MERGE
// operands accumulate down to a SET / delete; a visible range tombstone covers
// every older point. withBase adds a hypothetical SET#0 "BASE;" below
// everything (data of a lower level that is not part of the compaction).
func resolvePoint(st *stream, k string, read uint64, withBase bool) pview {
	var rd uint64
	hasRD := false
	for i := range st.RD {
		s := &st.RD[i]
		if s.S <= k && k < s.E {
			for _, key := range s.Keys {
				if key.Seq < read && (!hasRD || key.Seq > rd) {
					rd, hasRD = key.Seq, true
				}
			}
		}
	}
	acc, merged := "", false
	for i := range st.Pts {
		p := &st.Pts[i]
		if p.K != k || p.Seq >= read {
			continue
		}
		if hasRD && p.Seq < rd {
			return pview{merged, acc}
		}
		switch p.Kind {
		case kSet, kSetDel:
			return pview{true, p.V + acc}
		case kDel, kDelSz, kSingle:
			return pview{merged, acc}
		case kMerge:
			acc, merged = p.V+acc, true
		default:
			panic("resolvePoint: unexpected kind")
		}
	}
	if withBase && !hasRD {
		return pview{true, "BASE;" + acc}
	}
	return pview{merged, acc}
}

var rkSuffixes = []string{"@1", "@2", "@3"}

// resolveRK is the reference read of the range-key keyspace at user key k:
// per suffix the newest visible SET/UNSET decides; a RANGEKEYDEL removes
// everything older. withBase adds a hypothetical RANGEKEYSET#0 of every suffix.
func resolveRK(st *stream, k string, read uint64, withBase bool) string {
	var keys []skey
	for i := range st.RK {
		s := &st.RK[i]
		if s.S <= k && k < s.E {
			for _, key := range s.Keys {
				if key.Seq < read {
					keys = append(keys, key)
				}
			}
		}
	}
	sortKeys(keys)
	seen := map[string]string{}
	deleted := false
	for _, key := range keys {
		if key.Kind == kRKDel {
			deleted = true
			break
		}
		if _, ok := seen[key.Suf]; ok {
			continue
		}
		if key.Kind == kRKSet {
			seen[key.Suf] = "=" + key.Val
		} else {
			seen[key.Suf] = ""
		}
	}
	if withBase && !deleted {
		for _, s := range rkSuffixes {
			if _, ok := seen[s]; !ok {
				seen[s] = "=BASE"
			}
		}
	}
	var parts []string
	for s, v := range seen {
		if v != "" {
			parts = append(parts, s+v)
		}
	}
	sort.Strings(parts)
	return strings.Join(parts, ",")
}

// contractOK reports whether the history of user key k respects the
// SingleDelete contract: when a SINGLEDEL is written the key has been SET at
// most once, and never MERGEd, since the last DEL/DELSIZED/SINGLEDEL/RANGEDEL.
// withBase places one older SET below the stream.
func contractOK(st *stream, k string, withBase bool) bool {
	type ev struct {
		seq  uint64
		kind base.InternalKeyKind
	}
	var evs []ev
	for _, p := range st.Pts {
		if p.K == k {
			evs = append(evs, ev{p.Seq, p.Kind})
		}
	}
	for i := range st.RD {
		s := &st.RD[i]
		if s.S <= k && k < s.E {
			for _, key := range s.Keys {
				evs = append(evs, ev{key.Seq, kRangeD})
			}
		}
	}
	sort.SliceStable(evs, func(i, j int) bool {
		if evs[i].seq != evs[j].seq {
			return evs[i].seq < evs[j].seq
		}
		// a RANGEDEL does not cover a point at its own sequence number
		return evs[i].kind == kRangeD && evs[j].kind != kRangeD
	})
	cnt, merged := 0, false
	if withBase {
		cnt = 1
	}
	for _, e := range evs {
		switch e.kind {
		case kRangeD, kDel, kDelSz:
			cnt, merged = 0, false
		case kSet:
			cnt++
		case kSetDel:
			cnt, merged = 1, false
		case kMerge:
			cnt++
			merged = true
		case kSingle:
			if cnt > 1 || merged {
				return false
			}
			cnt, merged = 0, false
		}
	}
	return true
}

func hasSingleDel(st *stream, k string) bool {
	for _, p := range st.Pts {
		if p.K == k && p.Kind == kSingle {
			return true
		}
	}
	return false
}

// ---- elision / configuration model ----------------------------------------

type keyRange struct {
	S, E string
	Incl bool // E inclusive
}

// elision: Mode 0 = nothing may be elided, 1 = everything, 2 = everything
// outside the in-use Ranges.
type elision struct {
	Mode   int
	Ranges []keyRange
}

// inUse reports whether data may exist below the compaction at user key k,
// i.e. whether a tombstone at k must be kept.
func (e elision) inUse(k string) bool {
	switch e.Mode {
	case 0:
		return true
	case 1:
		return false
	}
	for _, r := range e.Ranges {
		if r.S <= k && (k < r.E || (r.Incl && k == r.E)) {
			return true
		}
	}
	return false
}

func (e elision) String() string {
	switch e.Mode {
	case 0:
		return "nothing"
	case 1:
		return "everything"
	}
	var b strings.Builder
	b.WriteString("outside")
	for _, r := range e.Ranges {
		c := ")"
		if r.Incl {
			c = "]"
		}
		fmt.Fprintf(&b, " [%s,%s%s", r.S, r.E, c)
	}
	return b.String()
}

type config struct {
	Snaps  []uint64 // ascending, distinct
	ElPt   elision
	ElRK   elision
	Bottom bool // IsBottommostDataLayer (only legal when both elide everything)
}

func (c config) String() string {
	return fmt.Sprintf("snapshots=%v tombstone-elision={%s} rangekey-elision={%s} bottommost=%v", c.Snaps, c.ElPt, c.ElRK, c.Bottom)
}

// ---- printing -----------------------------------------------------------

func kindName(k base.InternalKeyKind) string { return k.String() }

func (p pt) String() string {
	v := p.V
	if p.Kind == kDelSz && len(v) > 0 {
		n, w := binary.Uvarint([]byte(v))
		if w == len(v) {
			v = fmt.Sprintf("varint(%d)", n)
		} else {
			v = fmt.Sprintf("%x", v)
		}
	}
	return fmt.Sprintf("%s#%d,%s:%s", p.K, p.Seq, kindName(p.Kind), v)
}

func (s span) String() string {
	var b strings.Builder
	fmt.Fprintf(&b, "[%s,%s):{", s.S, s.E)
	for i, k := range s.Keys {
		if i > 0 {
			b.WriteString(" ")
		}
		fmt.Fprintf(&b, "#%d,%s", k.Seq, kindName(k.Kind))
		if k.Suf != "" || k.Val != "" {
			fmt.Fprintf(&b, "(%s=%s)", k.Suf, k.Val)
		}
	}
	b.WriteString("}")
	return b.String()
}

func (st *stream) dump() map[string]any {
	var p, rd, rk []string
	for _, x := range st.Pts {
		p = append(p, x.String())
	}
	for _, x := range st.RD {
		rd = append(rd, x.String())
	}
	for _, x := range st.RK {
		rk = append(rk, x.String())
	}
	return map[string]any{"points": p, "rangedels": rd, "rangekeys": rk}
}

func (st *stream) size() int {
	n := len(st.Pts)
	for _, s := range st.RD {
		n += len(s.Keys)
	}
	for _, s := range st.RK {
		n += len(s.Keys)
	}
	return n
}

func (st *stream) fingerprint() string {
	var b strings.Builder
	for _, x := range st.Pts {
		b.WriteString(x.String())
		b.WriteByte('|')
	}
	b.WriteByte('/')
	for _, x := range st.RD {
		b.WriteString(x.String())
	}
	b.WriteByte('/')
	for _, x := range st.RK {
		b.WriteString(x.String())
	}
	return b.String()
}
