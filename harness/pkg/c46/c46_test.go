// C46: Options survive a serialize/parse round trip.
//
// Oracle: for random valid Options o, o' := Parse(o.String()) must give
// o'.String() == o.String(), o.CheckCompatibility(dir, o.String()) must be nil,
// and (store part) a DB opened with o writes an OPTIONS file that parses back
// to the same string and against which the same options are compatible.
package c46

import (
	"fmt"
	"math/rand/v2"
	"strings"
	"testing"
	"time"

	"github.com/cockroachdb/pebble"
	"github.com/cockroachdb/pebble/internal/base"
	"github.com/cockroachdb/pebble/internal/testkeys"
	"github.com/cockroachdb/pebble/internal/verif/vcommon"
	"github.com/cockroachdb/pebble/sstable/block"
	"github.com/cockroachdb/pebble/sstable/tablefilters"
	"github.com/cockroachdb/pebble/vfs"
	"github.com/cockroachdb/pebble/wal"
)

type xcleaner struct{}

func (xcleaner) Clean(fs vfs.FS, fileType base.FileType, path string) error { return fs.Remove(path) }
func (xcleaner) String() string                                                { return "verif-cleaner" }

var xComparer = func() *pebble.Comparer { c := *pebble.DefaultComparer; c.Name = "verif.comparer"; return &c }()
var xMerger = func() *pebble.Merger { m := *pebble.DefaultMerger; m.Name = "verif.merger"; return &m }()

func hooks() *pebble.ParseHooks {
	return &pebble.ParseHooks{
		NewCleaner: func(name string) (pebble.Cleaner, error) {
			if name == "verif-cleaner" {
				return xcleaner{}, nil
			}
			return nil, fmt.Errorf("unknown cleaner %q", name)
		},
		NewComparer: func(name string) (*pebble.Comparer, error) {
			if name == xComparer.Name {
				return xComparer, nil
			}
			return nil, fmt.Errorf("unknown comparer %q", name)
		},
		NewMerger: func(name string) (*pebble.Merger, error) {
			if name == xMerger.Name {
				return xMerger, nil
			}
			return nil, fmt.Errorf("unknown merger %q", name)
		},
		NewFilterPolicy: func(name string) (pebble.TableFilterPolicy, error) {
			if p, ok := tablefilters.PolicyFromName(name); ok {
				return p, nil
			}
			return nil, fmt.Errorf("unknown filter policy %q", name)
		},
	}
}

func pick[T any](rng *rand.Rand, xs ...T) T { return xs[rng.IntN(len(xs))] }

// boundary-biased integer in [0, max]
func bint(rng *rand.Rand, max int64) int64 {
	switch rng.IntN(6) {
	case 0:
		return 0
	case 1:
		return 1
	case 2:
		return max
	case 3:
		return rng.Int64N(16)
	default:
		return rng.Int64N(max + 1)
	}
}

func bdur(rng *rand.Rand) time.Duration {
	switch rng.IntN(6) {
	case 0:
		return 0
	case 1:
		return time.Duration(rng.Int64N(1000))
	case 2:
		return time.Duration(rng.Int64N(1000)) * time.Millisecond
	case 3:
		return time.Duration(rng.Int64N(100000)) * time.Second
	case 4:
		return time.Duration(rng.Int64N(1 << 50))
	default:
		return time.Duration(rng.Int64N(3600)) * time.Second
	}
}


func randFilter(rng *rand.Rand) pebble.TableFilterPolicy {
	// names the registry understands; discovered by probing a few candidates
	cands := []string{"none"}
	for _, n := range []string{"rocksdb.BuiltinBloomFilter", "bloom(10)", "bloom(1)", "bloom(20)", "binaryfuse(8)", "binaryfuse(16)", "binary_fuse(8)", "fuse8", "adaptive_bloom(10,1000)"} {
		if _, ok := tablefilters.PolicyFromName(n); ok {
			cands = append(cands, n)
		}
	}
	p, _ := tablefilters.PolicyFromName(pick(rng, cands...))
	return p
}

func randOptions(rng *rand.Rand, forStore bool) (*pebble.Options, []string) {
	o := &pebble.Options{}
	var set []string
	maybe := func(name string, f func()) {
		if rng.IntN(100) < 60 {
			f()
			set = append(set, name)
		}
	}
	big := int64(1) << 40
	if forStore {
		big = 1 << 22
	}
	maybe("BytesPerSync", func() { o.BytesPerSync = int(bint(rng, big)) })
	maybe("CacheSize", func() { o.CacheSize = bint(rng, 1<<24) })
	maybe("Cleaner", func() { o.Cleaner = pick[pebble.Cleaner](rng, pebble.DeleteCleaner{}, pebble.ArchiveCleaner{}, xcleaner{}) })
	maybe("CompactionDebtConcurrency", func() { o.CompactionDebtConcurrency = uint64(bint(rng, big)) })
	maybe("CompactionGarbageFraction", func() {
		f := pick(rng, 0.0, 0.1, 0.25, 0.4, 1.0, rng.Float64())
		o.CompactionGarbageFractionForMaxConcurrency = func() float64 { return f }
	})
	maybe("Comparer", func() { o.Comparer = pick(rng, pebble.DefaultComparer, testkeys.Comparer, xComparer) })
	maybe("DisableWAL", func() { o.DisableWAL = rng.IntN(2) == 0 })
	maybe("DisableIngestAsFlushable", func() { v := rng.IntN(2) == 0; o.DisableIngestAsFlushable = func() bool { return v } })
	maybe("FlushDelayDeleteRange", func() { o.FlushDelayDeleteRange = bdur(rng) })
	maybe("FlushDelayRangeKey", func() { o.FlushDelayRangeKey = bdur(rng) })
	maybe("FlushSplitBytes", func() { o.FlushSplitBytes = bint(rng, big) })
	maybe("FormatMajorVersion", func() {
		o.FormatMajorVersion = pebble.FormatMinSupported + pebble.FormatMajorVersion(rng.IntN(int(pebble.FormatNewest-pebble.FormatMinSupported)+1))
	})
	maybe("L0CompactionConcurrency", func() { o.L0CompactionConcurrency = int(bint(rng, 1000)) })
	maybe("L0CompactionFileThreshold", func() { o.L0CompactionFileThreshold = int(bint(rng, 100000)) })
	maybe("L0CompactionThreshold", func() { o.L0CompactionThreshold = int(bint(rng, 1000)) })
	maybe("L0StopWritesThreshold", func() { o.L0StopWritesThreshold = int(bint(rng, 1000)) })
	maybe("LBaseMaxBytes", func() { o.LBaseMaxBytes = bint(rng, big) })
	maybe("LevelMultiplier", func() { o.LevelMultiplier = int(bint(rng, 100)) })
	maybe("CompactionConcurrencyRange", func() {
		lo := 1 + rng.IntN(8)
		hi := lo + rng.IntN(8)
		o.CompactionConcurrencyRange = func() (int, int) { return lo, hi }
	})
	maybe("MaxConcurrentDownloads", func() { n := 1 + rng.IntN(64); o.MaxConcurrentDownloads = func() int { return n } })
	maybe("MaxManifestFileSize", func() { o.MaxManifestFileSize = bint(rng, big) })
	maybe("MaxOpenFiles", func() { o.MaxOpenFiles = int(bint(rng, 100000)) })
	maybe("MemTableSize", func() {
		if forStore {
			o.MemTableSize = uint64(pick(rng, 1<<16, 1<<18, 1<<20, 300000))
		} else {
			o.MemTableSize = uint64(bint(rng, 1<<31))
		}
	})
	maybe("MemTableStopWritesThreshold", func() { o.MemTableStopWritesThreshold = int(2 + bint(rng, 100)) })
	maybe("DeletionPacing.BaselineRate", func() { r := uint64(bint(rng, big)); o.DeletionPacing.BaselineRate = func() uint64 { return r } })
	maybe("DeletionPacing.FreeSpaceThresholdBytes", func() { o.DeletionPacing.FreeSpaceThresholdBytes = uint64(bint(rng, big)) })
	maybe("DeletionPacing.FreeSpaceTimeframe", func() { o.DeletionPacing.FreeSpaceTimeframe = bdur(rng) })
	maybe("DeletionPacing.BacklogTimeframe", func() { o.DeletionPacing.BacklogTimeframe = bdur(rng) })
	maybe("Merger", func() { o.Merger = pick(rng, pebble.DefaultMerger, xMerger) })
	maybe("MultiLevelCompactionHeuristic", func() {
		switch rng.IntN(3) {
		case 0:
			o.MultiLevelCompactionHeuristic = pebble.OptionNoMultiLevel
		case 1:
			o.MultiLevelCompactionHeuristic = pebble.OptionWriteAmpHeuristic
		default:
			h := pebble.WriteAmpHeuristic{AddPropensity: pick(rng, 0.0, 0.1, 0.005, 1.5, rng.Float64()*10, -0.5, -1.75, -0.004, -rng.Float64()*3), AllowL0: rng.IntN(2) == 0}
			o.MultiLevelCompactionHeuristic = func() pebble.MultiLevelHeuristic { return &h }
		}
	})
	maybe("ReadCompactionRate", func() { o.ReadCompactionRate = bint(rng, big) })
	maybe("ReadSamplingMultiplier", func() { o.ReadSamplingMultiplier = pick(rng, int64(-1), bint(rng, big)) })
	maybe("NumDeletionsThreshold", func() { o.NumDeletionsThreshold = int(bint(rng, 1<<30)) })
	maybe("DeletionSizeRatioThreshold", func() { o.DeletionSizeRatioThreshold = pick(rng, float32(0.5), 0.7, 0.123456789, rng.Float32(), rng.Float32()*100) })
	maybe("TombstoneDenseCompactionThreshold", func() {
		f := pick(rng, -1.0, 0.0, 0.1, 0.2, 1.0, rng.Float64())
		o.TombstoneDenseCompactionThreshold = func() float64 { return f }
	})
	maybe("FileCacheShards", func() { o.FileCacheShards = int(1 + bint(rng, 64)) })
	maybe("ValidateOnIngest", func() { o.ValidateOnIngest = rng.IntN(2) == 0 })
	if !forStore {
		maybe("WALDir", func() { o.WALDir = pick(rng, "wal", "/a/b/c", "rel/dir", "with space/x", "a=b", "ü/ñ") })
	}
	maybe("WALBytesPerSync", func() { o.WALBytesPerSync = int(bint(rng, big)) })
	maybe("SecondaryCacheSizeBytes", func() {
		if !forStore {
			o.SecondaryCacheSizeBytes = bint(rng, big)
		}
	})
	maybe("IteratorTracking.PollInterval", func() { o.IteratorTracking.PollInterval = bdur(rng) })
	maybe("IteratorTracking.MaxAge", func() { o.IteratorTracking.MaxAge = bdur(rng) })
	maybe("ValueSeparationPolicy", func() {
		p := pebble.ValueSeparationPolicy{
			Enabled:                  rng.IntN(4) != 0,
			MinimumSize:              int(1 + bint(rng, 1<<20)),
			MinimumMVCCGarbageSize:   int(1 + bint(rng, 1<<20)),
			MaxBlobReferenceDepth:    int(1 + bint(rng, 100)),
			RewriteMinimumAge:        bdur(rng),
			GarbageRatioLowPriority:  pick(rng, 0.0, 0.1, 0.25, 1.0, rng.Float64()),
			GarbageRatioHighPriority: pick(rng, 0.0, 0.3, 0.5, 1.0, rng.Float64()),
		}
		o.ValueSeparationPolicy = func() pebble.ValueSeparationPolicy { return p }
	})
	if !forStore {
		maybe("WALFailover", func() {
			w := &pebble.WALFailoverOptions{Secondary: wal.Dir{Dirname: pick(rng, "sec", "/mnt/other/wal", "s p"), FS: vfs.Default}}
			if rng.IntN(2) == 0 {
				w.Secondary.ID = pick(rng, "abcdef0123456789", "id-1")
			}
			if rng.IntN(2) == 0 {
				w.PrimaryDirProbeInterval = bdur(rng)
				w.HealthyProbeLatencyThreshold = bdur(rng)
				w.HealthyInterval = bdur(rng)
				w.UnhealthySamplingInterval = bdur(rng)
				w.ElevatedWriteStallThresholdLag = bdur(rng)
				d := bdur(rng)
				w.UnhealthyOperationLatencyThreshold = func() (time.Duration, bool) { return d, true }
			}
			o.WALFailover = w
		})
	}
	profiles := []*block.CompressionProfile{}
	for _, n := range []string{"NoCompression", "Snappy", "ZSTD", "MinLZ", "Fast", "Balanced", "Good", "Default", "Fastest", "ZSTD1", "ZSTD3", "MinLZ1"} {
		if p := block.CompressionProfileByName(n); p != nil {
			profiles = append(profiles, p)
		}
	}
	for i := range o.Levels {
		l := &o.Levels[i]
		maybe(fmt.Sprintf("Levels[%d]", i), func() {
			l.BlockRestartInterval = int(bint(rng, 64))
			l.BlockSize = int(bint(rng, 1<<20))
			l.BlockSizeThreshold = int(bint(rng, 100))
			l.IndexBlockSize = int(bint(rng, 1<<20))
			if rng.IntN(2) == 0 && len(profiles) > 0 {
				p := pick(rng, profiles...)
				l.Compression = func() *block.CompressionProfile { return p }
			}
			if rng.IntN(2) == 0 {
				fp := randFilter(rng)
				l.TableFilterPolicy = func() pebble.TableFilterPolicy { return fp }
			}
			o.TargetFileSizes[i] = bint(rng, big)
			if forStore && o.TargetFileSizes[i] != 0 && o.TargetFileSizes[i] < 1024 {
				o.TargetFileSizes[i] = 1024
			}
		})
	}
	return o, set
}

func firstDiff(a, b string) string {
	la, lb := strings.Split(a, "\n"), strings.Split(b, "\n")
	for i := 0; i < len(la) || i < len(lb); i++ {
		var x, y string
		if i < len(la) {
			x = la[i]
		}
		if i < len(lb) {
			y = lb[i]
		}
		if x != y {
			return fmt.Sprintf("line %d: %q vs %q", i+1, x, y)
		}
	}
	return ""
}

func TestVerifC46(t *testing.T) {
	r := vcommon.NewReport("C46", "main")
	defer r.Finish(t)
	r.Rule("random valid Options (each serialised field set with p=0.6 to a boundary-biased value, then EnsureDefaults); " +
		"distinct = distinct serialised strings; non-trivial = at least 3 fields explicitly set")
	n := vcommon.Scale(20000, 600000)
	r.ParallelCases(n, 8, func(i int, rng *rand.Rand) {
		o, set := randOptions(rng, false)
		o.EnsureDefaults()
		s1 := o.String()
		r.Eval(1)
		if len(set) >= 3 {
			r.Distinct(s1)
		}
		for _, f := range set {
			r.SetAdd("fields_set", strings.SplitN(f, "[", 2)[0])
		}
		if i < 2 {
			r.Sample(map[string]any{"case": i, "fields_set": set, "serialised": s1})
		}
		var o2 pebble.Options
		if err := o2.Parse(s1, hooks()); err != nil {
			r.Violate("parse-error", fmt.Sprintf("Parse(o.String()) failed: %v", err), map[string]any{"case": i, "options": s1}, nil)
			return
		}
		// String() is only defined on options that went through EnsureDefaults
		// (a nil Comparer panics; LevelMultiplier 0 is not a valid value and is
		// omitted from the serialisation when it has its default), so the parsed
		// options get their defaults like Open gives them before re-serialising.
		o2.EnsureDefaults()
		s2 := o2.String()
		if s1 != s2 {
			r.Violate("roundtrip-mismatch", "o'.String() != o.String(): "+firstDiff(s1, s2),
				map[string]any{"case": i, "original": s1, "reparsed": s2}, map[string]any{"diff": firstDiff(s1, s2)})
			return
		}
		// a third generation must be stable as well
		var o3 pebble.Options
		if err := o3.Parse(s2, hooks()); err != nil {
			r.Violate("parse-error", fmt.Sprintf("Parse of second generation failed: %v", err), map[string]any{"case": i, "options": s2}, nil)
			return
		}
		o3.EnsureDefaults()
		if s3 := o3.String(); s3 != s1 {
			r.Violate("roundtrip-mismatch", "third generation differs: "+firstDiff(s1, s3),
				map[string]any{"case": i, "original": s1, "reparsed": s3}, map[string]any{"diff": firstDiff(s1, s3)})
			return
		}
		// compatibility with its own serialisation; o.FS is a MemFS so that the
		// WAL-dir resolution inside CheckCompatibility touches no real files.
		o.FS = vfs.NewMem()
		if err := o.CheckCompatibility("store", s1); err != nil {
			r.Violate("incompatible-with-self", fmt.Sprintf("CheckCompatibility(o.String()) = %v", err), map[string]any{"case": i, "options": s1}, nil)
		}
		r.Count("roundtrips", 1)
	})
}

// TestVerifC46Store: through a real store. Open writes the OPTIONS file; its
// content must parse back to the string of the options Open ran with and be
// compatible with them; reopening with the parsed options must succeed.
func TestVerifC46Store(t *testing.T) {
	r := vcommon.NewReport("C46", "store")
	defer r.Finish(t)
	r.Rule("random valid Options opened on a MemFS store; OPTIONS file read back, parsed, re-serialised; reopen with parsed options; distinct = distinct OPTIONS contents")
	n := vcommon.Scale(150, 3000)
	r.Cases(n, func(i int, rng *rand.Rand) {
		o, set := randOptions(rng, true)
		fs := vfs.NewMem()
		o.FS = fs
		o.Logger = quietLogger{}
		d, err := pebble.Open("store", o)
		if err != nil {
			// Options that Validate rejects are not "valid Options".
			r.Count("open_rejected", 1)
			return
		}
		r.Eval(1)
		_ = d.Set([]byte("a"), []byte("b"), pebble.NoSync)
		_ = d.Flush() // with DisableWAL only a flush makes the write outlive Close
		if err := d.Close(); err != nil {
			r.Violate("close-error", err.Error(), map[string]any{"case": i}, nil)
			return
		}
		ls, _ := fs.List("store")
		var content string
		for _, f := range ls {
			if strings.HasPrefix(f, "OPTIONS-") {
				b, _ := readAll(fs, "store/"+f)
				content = string(b)
			}
		}
		if content == "" {
			r.Violate("no-options-file", "store has no OPTIONS file", map[string]any{"case": i, "files": ls}, nil)
			return
		}
		r.Distinct(content)
		if i < 1 {
			r.Sample(map[string]any{"case": i, "fields_set": set, "OPTIONS": content})
		}
		var o2 pebble.Options
		if err := o2.Parse(content, hooks()); err != nil {
			r.Violate("parse-error", fmt.Sprintf("Parse(OPTIONS file) failed: %v", err), map[string]any{"case": i, "options": content}, nil)
			return
		}
		o2.EnsureDefaults()
		if s2 := o2.String(); s2 != content {
			r.Violate("roundtrip-mismatch", "OPTIONS file does not round trip: "+firstDiff(content, s2),
				map[string]any{"case": i, "original": content, "reparsed": s2}, map[string]any{"diff": firstDiff(content, s2)})
			return
		}
		o2.FS = fs
		o2.Logger = quietLogger{}
		if err := o2.CheckCompatibility("store", content); err != nil {
			r.Violate("incompatible-with-self", fmt.Sprintf("CheckCompatibility = %v", err), map[string]any{"case": i, "options": content}, nil)
			return
		}
		d2, err := pebble.Open("store", &o2)
		if err != nil {
			r.Violate("reopen-failed", fmt.Sprintf("reopen with parsed options: %v", err), map[string]any{"case": i, "options": content}, nil)
			return
		}
		v, closer, err := d2.Get([]byte("a"))
		if err != nil || string(v) != "b" {
			r.Violate("reopen-lost-data", fmt.Sprintf("Get(a) after reopen = %q, %v", v, err), map[string]any{"case": i}, nil)
		}
		if closer != nil {
			closer.Close()
		}
		d2.Close()
	})
}

type quietLogger struct{}

func (quietLogger) Infof(string, ...interface{})  {}
func (quietLogger) Errorf(string, ...interface{}) {}
func (quietLogger) Fatalf(f string, a ...interface{}) {
	panic(fmt.Sprintf(f, a...))
}

func readAll(fs vfs.FS, p string) ([]byte, error) {
	f, err := fs.Open(p)
	if err != nil {
		return nil, err
	}
	defer f.Close()
	st, err := f.Stat()
	if err != nil {
		return nil, err
	}
	b := make([]byte, st.Size())
	_, err = f.ReadAt(b, 0)
	return b, err
}
