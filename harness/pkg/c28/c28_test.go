// C28: compression round-trips for every algorithm and setting.
//
// Oracle (part "main"): for every compression.Setting s (none, snappy, minlz
// levels, zstd levels) and every AdaptiveCompressor parameterisation,
//
//	out, used := Compress(dst, x)
//	d := GetDecompressor(used.Algorithm)
//	d.DecompressedLen(out) == len(x)  &&  d.DecompressInto(buf, out) == nil  &&  buf == x
//
// and Compress must not modify x. Inputs cover lengths 0..256KiB (boundary
// biased, 2^k±1) and several shapes (random, constant, periodic, text-like,
// compressible head + incompressible tail, long-range repeats, sparse).
//
// Oracle (part "block"): blocks written through block.PhysicalBlockMaker
// (block.Compressor + trailer + checksum) into an in-memory object are read
// back through block.Reader (checksum validation + decompression by the
// indicator stored in the trailer) and must equal the logical block; the
// indicator stored must be allowed by the profile for the block kind and the
// min-reduction threshold must be respected.
package c28

import (
	"bytes"
	"context"
	"encoding/binary"
	"encoding/json"
	"fmt"
	"math/rand/v2"
	"os"
	"runtime/debug"
	"strings"
	"sync"
	"testing"

	"github.com/cockroachdb/pebble/internal/base"
	"github.com/cockroachdb/pebble/internal/cache"
	"github.com/cockroachdb/pebble/internal/compression"
	"github.com/cockroachdb/pebble/internal/sstableinternal"
	"github.com/cockroachdb/pebble/internal/verif/vcommon"
	"github.com/cockroachdb/pebble/objstorage"
	"github.com/cockroachdb/pebble/sstable/block"
	"github.com/cockroachdb/pebble/sstable/block/blockkind"
)

const maxLen = 256 << 10

// ---------------------------------------------------------------- inputs

var words = strings.Fields(`the quick brown fox jumps over the lazy dog pebble sstable block compression
zstd snappy minlz level key value range delete merge set index filter footer checksum trailer
lorem ipsum dolor sit amet consectetur adipiscing elit sed do eiusmod tempor incididunt ut labore
0 1 2 3 10 100 1000 65535 65536 4294967295 user/table/1/ user/table/2/ /Min /Max @ # = : ;`)

func genLen(rng *rand.Rand) int {
	switch rng.IntN(10) {
	case 0:
		return rng.IntN(4) // 0..3
	case 1, 2:
		// 2^k-1, 2^k, 2^k+1 for k in 0..18
		k := rng.IntN(19)
		n := (1 << k) + rng.IntN(3) - 1
		if n > maxLen {
			n = maxLen
		}
		return n
	case 3:
		return rng.IntN(64)
	case 4, 5:
		return rng.IntN(4096)
	case 6, 7:
		return rng.IntN(40000)
	case 8:
		// around 64KiB, the classic 16-bit boundary
		return 65536 - 300 + rng.IntN(600)
	default:
		return rng.IntN(maxLen + 1)
	}
}

var shapes = []string{"random", "constant", "periodic", "text", "head-compressible", "tail-compressible",
	"longrange", "sparse", "lowentropy", "runs"}

func fillRandom(rng *rand.Rand, b []byte) {
	i := 0
	for ; i+8 <= len(b); i += 8 {
		binary.LittleEndian.PutUint64(b[i:], rng.Uint64())
	}
	for ; i < len(b); i++ {
		b[i] = byte(rng.Uint32())
	}
}

func fillText(rng *rand.Rand, b []byte) {
	i := 0
	for i < len(b) {
		w := words[rng.IntN(len(words))]
		i += copy(b[i:], w)
		if i < len(b) {
			b[i] = ' '
			i++
		}
	}
}

// scratch is a bump allocator over one big slab that is reset per case. Under
// the race detector fresh 256KiB allocations are very expensive (shadow memory
// reset), so buffers are carved from a reused slab instead. Slices are handed
// out with cap == len unless a capacity is requested.
type scratch struct {
	slab []byte
	off  int
}

func (s *scratch) reset() { s.off = 0 }

func (s *scratch) get(n, capacity int) []byte {
	if capacity < n {
		capacity = n
	}
	if s.off+capacity > len(s.slab) {
		return make([]byte, n, capacity)
	}
	b := s.slab[s.off : s.off+n : s.off+capacity]
	s.off += capacity
	return b
}

func (s *scratch) clone(b []byte) []byte {
	c := s.get(len(b), len(b))
	copy(c, b)
	return c
}

func newScratch() *scratch { return &scratch{slab: make([]byte, 24<<20)} }

func genInput(rng *rand.Rand, sc *scratch, n int, shape string) []byte {
	b := sc.get(n, n)
	clear(b)
	switch shape {
	case "random":
		fillRandom(rng, b)
	case "constant":
		c := byte(rng.IntN(256))
		for i := range b {
			b[i] = c
		}
	case "periodic":
		p := 1 + rng.IntN(70)
		if rng.IntN(4) == 0 {
			p = 1 + rng.IntN(5000)
		}
		pat := make([]byte, p)
		fillRandom(rng, pat)
		for i := range b {
			b[i] = pat[i%p]
		}
	case "text":
		fillText(rng, b)
	case "head-compressible":
		cut := 0
		if n > 0 {
			cut = rng.IntN(n + 1)
		}
		fillText(rng, b[:cut])
		fillRandom(rng, b[cut:])
	case "tail-compressible":
		cut := 0
		if n > 0 {
			cut = rng.IntN(n + 1)
		}
		fillRandom(rng, b[:cut])
		c := byte(rng.IntN(256))
		for i := cut; i < n; i++ {
			b[i] = c
		}
	case "longrange":
		// a random chunk repeated at a long distance (beyond 64KiB when the
		// buffer allows it)
		fillRandom(rng, b)
		if n >= 64 {
			chunk := 16 + rng.IntN(min(4096, n/4))
			dist := chunk + rng.IntN(n-2*chunk+1)
			copy(b[dist:], b[:chunk])
			if n > 70000 {
				copy(b[n-chunk:], b[:chunk])
			}
		}
	case "sparse":
		for k := 0; k < n/50+1 && n > 0; k++ {
			b[rng.IntN(n)] = byte(1 + rng.IntN(255))
		}
	case "lowentropy":
		alpha := 2 + rng.IntN(6)
		for i := range b {
			b[i] = byte('a' + rng.IntN(alpha))
		}
	case "runs":
		i := 0
		for i < n {
			l := 1 + rng.IntN(300)
			c := byte(rng.IntN(256))
			for j := 0; j < l && i < n; j++ {
				b[i] = c
				i++
			}
		}
	}
	return b
}

func lenClass(n int) string {
	switch {
	case n == 0:
		return "0"
	case n < 16:
		return "<16"
	case n < 256:
		return "<256"
	case n < 4096:
		return "<4K"
	case n < 65536:
		return "<64K"
	case n == 65536:
		return "=64K"
	case n < 131072:
		return "<128K"
	default:
		return "<=256K"
	}
}

// ---------------------------------------------------------------- settings

func allSettings() []compression.Setting {
	s := []compression.Setting{
		compression.NoCompression, compression.SnappySetting,
		compression.MinLZFastest, compression.MinLZBalanced,
		compression.ZstdLevel1, compression.ZstdLevel3, compression.ZstdLevel5, compression.ZstdLevel7,
		{Algorithm: compression.Zstd, Level: 2},
		{Algorithm: compression.Zstd, Level: 9},
	}
	if vcommon.Thorough() {
		for _, l := range []uint8{4, 6, 8, 12, 15, 19, 22} {
			s = append(s, compression.Setting{Algorithm: compression.Zstd, Level: l})
		}
	}
	return s
}

// dstFor returns a destination buffer of assorted length/capacity. Compress
// appends to dst[:0], so any content/length is legal.
func dstFor(rng *rand.Rand, sc *scratch, n int) []byte {
	switch rng.IntN(6) {
	case 0:
		return nil
	case 1:
		return sc.get(0, rng.IntN(32))
	case 2:
		d := sc.get(rng.IntN(64), 64+rng.IntN(64))
		for i := range d {
			d[i] = 0xAA
		}
		return d
	case 3:
		return sc.get(0, n)
	case 4:
		return sc.get(0, n+n/4+64)
	default:
		d := sc.get(n/2, n/2)
		for i := range d {
			d[i] = 0x55
		}
		return d
	}
}

// violate records a violation, keeping at most two per (class, match) in a
// process so that one recurring defect cannot exhaust the report's violation
// budget and mask different ones; the remainder is counted.
var (
	violMu   sync.Mutex
	violSeen = map[string]int{}
)

func violate(r *vcommon.Report, class, detail string, replay any, match map[string]any) {
	mj, _ := json.Marshal(match) // map keys are sorted by encoding/json
	k := class + string(mj)
	violMu.Lock()
	violSeen[k]++
	n := violSeen[k]
	violMu.Unlock()
	if n > 2 {
		r.Count("violations_repeated_"+class, 1)
		return
	}
	r.Violate(class, detail, replay, match)
}

// topPebbleFrame returns the function of the innermost pebble (non-harness)
// frame below the panic in a debug.Stack() taken inside a recover handler.
func topPebbleFrame(stack string) string {
	lines := strings.Split(stack, "\n")
	seenPanic := false
	for _, l := range lines {
		if strings.HasPrefix(l, "panic(") {
			seenPanic = true
			continue
		}
		if !seenPanic || strings.HasPrefix(l, "\t") {
			continue
		}
		if strings.HasPrefix(l, "github.com/cockroachdb/pebble/") && !strings.Contains(l, "/internal/verif/") {
			if i := strings.LastIndex(l, "("); i > 0 {
				l = l[:i]
			}
			return strings.TrimPrefix(l, "github.com/cockroachdb/pebble/")
		}
	}
	return "?"
}

type rtResult struct {
	class  string // "" when fine
	detail string
}

// callSafely runs f, converting a Go panic into an error string.
func callSafely(f func()) (panicMsg string, stack string) {
	defer func() {
		if r := recover(); r != nil {
			panicMsg = fmt.Sprint(r)
			stack = string(debug.Stack())
		}
	}()
	f()
	return "", ""
}

// roundTrip checks Decompress(used.Algorithm, out) == src.
func roundTrip(sc *scratch, out []byte, used compression.Setting, src []byte) rtResult {
	if used.Algorithm >= compression.NumAlgorithms {
		return rtResult{"bad-setting", fmt.Sprintf("Compress reported algorithm %v", used.Algorithm)}
	}
	var res rtResult
	pm, st := callSafely(func() {
		d := compression.GetDecompressor(used.Algorithm)
		defer d.Close()
		n, err := d.DecompressedLen(out)
		if err != nil {
			res = rtResult{"roundtrip-error", fmt.Sprintf("DecompressedLen: %v", err)}
			return
		}
		if n != len(src) {
			res = rtResult{"roundtrip-mismatch", fmt.Sprintf("DecompressedLen=%d want %d", n, len(src))}
			return
		}
		mark := sc.off
		defer func() { sc.off = mark }()
		buf := sc.get(n, n)
		for i := 0; i < len(buf); i += 97 {
			buf[i] = 0xCD
		}
		if err := d.DecompressInto(buf, out); err != nil {
			res = rtResult{"roundtrip-error", fmt.Sprintf("DecompressInto: %v", err)}
			return
		}
		if !bytes.Equal(buf, src) {
			i := 0
			for i < len(buf) && buf[i] == src[i] {
				i++
			}
			res = rtResult{"roundtrip-mismatch", fmt.Sprintf("first difference at byte %d of %d", i, len(src))}
		}
	})
	if pm != "" {
		return rtResult{"roundtrip-panic", pm + "\n" + st}
	}
	return res
}

func head(b []byte, n int) []byte {
	if len(b) > n {
		return b[:n]
	}
	return b
}

// ---------------------------------------------------------------- part main

func TestVerifC28(t *testing.T) {
	part := "main"
	if p := os.Getenv("C28_PART"); p != "" {
		part = p // the same test registered a second time under another build variant (asan)
	}
	r := vcommon.NewReport("C28", part)
	defer r.Finish(t)
	r.Rule("case = (input shape, length, seed) run against EVERY plain compression.Setting and one " +
		"AdaptiveCompressor parameterisation (fast,slow,cutoff,sampleEvery,halfLife) fed a sequence of buffers; " +
		"distinct = (setting|adaptive-params-class, shape, length class, chosen algorithm); " +
		"trivial cases (none) are not excluded but every key includes a real compressor output")
	r.Assume("zstd is the cgo DataDog binding (build has cgo); levels beyond the presets are passed straight to the library")
	settings := allSettings()
	for _, s := range settings {
		r.SetAdd("settings", s.String())
	}
	n := vcommon.Scale(700, 20000)
	sc := newScratch()
	r.Cases(n, func(i int, rng *rand.Rand) {
		sc.reset()
		shape := shapes[rng.IntN(len(shapes))]
		ln := genLen(rng)
		// Higher zstd levels on big buffers dominate run time; keep most big
		// inputs for the cheaper settings by halving some lengths.
		src := genInput(rng, sc, ln, shape)
		orig := sc.clone(src)
		r.SetAdd("shapes", shape)
		r.SetAdd("length_classes", lenClass(ln))
		r.Max("max_input_len", int64(ln))
		if ln == 0 {
			r.Count("inputs_len0", 1)
		}
		if ln > 65536 {
			r.Count("inputs_gt64K", 1)
		}

		// ---- plain settings
		for _, s := range settings {
			if s.Algorithm == compression.Zstd && s.Level >= 12 && ln > 32768 && rng.IntN(4) != 0 {
				continue // slow levels: sample the big inputs
			}
			var out []byte
			var used compression.Setting
			mark := sc.off
			pm, st := callSafely(func() {
				c := compression.GetCompressor(s)
				defer c.Close()
				out, used = c.Compress(dstFor(rng, sc, ln), src)
			})
			r.Eval(1)
			r.Count("compress_calls", 1)
			r.Count("bytes_in", int64(ln))
			if pm != "" {
				violate(r, "compress-panic", fmt.Sprintf("setting %s len %d shape %s: %s", s, ln, shape, pm),
					map[string]any{"setting": s.String(), "len": ln, "shape": shape, "case": i, "input_head": head(orig, 64), "stack": st},
					map[string]any{"adaptive": false, "len0": ln == 0, "where": topPebbleFrame(st)})
				continue
			}
			r.Count("bytes_out", int64(len(out)))
			if !bytes.Equal(src, orig) {
				violate(r, "input-modified", fmt.Sprintf("setting %s modified its input (len %d)", s, ln),
					map[string]any{"setting": s.String(), "len": ln, "shape": shape, "case": i}, map[string]any{"setting": s.String()})
				copy(src, orig)
			}
			if used != s {
				// The compressor may legitimately report another setting
				// (minlz → snappy for >8MiB); never reachable at ≤256KiB.
				r.Count("setting_differs_from_requested", 1)
				violate(r, "setting-mismatch", fmt.Sprintf("GetCompressor(%s).Compress reported %s", s, used),
					map[string]any{"setting": s.String(), "used": used.String(), "len": ln}, map[string]any{"setting": s.String()})
			}
			res := roundTrip(sc, out, used, orig)
			sc.off = mark
			if res.class != "" {
				violate(r, res.class, fmt.Sprintf("setting %s (recorded %s) len %d shape %s: %s", s, used, ln, shape, res.detail),
					map[string]any{"setting": s.String(), "used": used.String(), "len": ln, "shape": shape, "case": i,
						"input_head": head(orig, 64), "compressed_head": head(out, 64), "compressed_len": len(out)},
					map[string]any{"adaptive": false, "algorithm": used.Algorithm.String(), "len0": ln == 0})
			} else {
				r.Count("roundtrips_ok", 1)
			}
			if len(out) < ln {
				r.Count("outputs_smaller_than_input", 1)
			}
			r.Distinct("plain", s.String(), shape, lenClass(ln))
		}

		// ---- adaptive compressor: a parameterisation and a stream of buffers
		fast := settings[rng.IntN(len(settings))]
		slow := settings[rng.IntN(len(settings))]
		if rng.IntN(3) == 0 {
			// the shapes block profiles use
			fast = []compression.Setting{compression.MinLZFastest, compression.SnappySetting, compression.NoCompression}[rng.IntN(3)]
			slow = []compression.Setting{compression.ZstdLevel1, compression.ZstdLevel3}[rng.IntN(2)]
		}
		if slow.Algorithm == compression.Zstd && slow.Level >= 12 {
			slow.Level = 5
		}
		if fast.Algorithm == compression.Zstd && fast.Level >= 12 {
			fast.Level = 1
		}
		p := compression.AdaptiveCompressorParams{
			Fast: fast, Slow: slow,
			ReductionCutoff: []float64{0, 0.01, 0.05, 0.15, 0.3, 0.5, 0.9, 1.0, 2.0, -0.5}[rng.IntN(10)],
			SampleEvery:     []int{1, 2, 3, 10, 100, 1 << 20}[rng.IntN(6)],
			SampleHalfLife:  []int64{1, 64, 4096, 256 << 10, 16 << 20}[rng.IntN(5)],
			SamplingSeed:    rng.Uint64(),
		}
		pkey := fmt.Sprintf("%s/%s/c%.2f/e%d/h%d", fast, slow, p.ReductionCutoff, p.SampleEvery, p.SampleHalfLife)
		nbuf := 3 + rng.IntN(12)
		var ac *compression.AdaptiveCompressor
		if pm, st := callSafely(func() { ac = compression.NewAdaptiveCompressor(p) }); pm != "" {
			violate(r, "compress-panic", "NewAdaptiveCompressor: "+pm, map[string]any{"params": pkey, "stack": st}, map[string]any{"adaptive": true})
			return
		}
		var dst []byte
		chosen := map[string]int{}
		for k := 0; k < nbuf; k++ {
			var b []byte
			if k == 0 {
				b = orig
			} else {
				l2 := genLen(rng)
				if l2 > 40000 && rng.IntN(3) != 0 {
					l2 = rng.IntN(40000)
				}
				sh := shape
				if rng.IntN(2) == 0 {
					sh = shapes[rng.IntN(len(shapes))]
				}
				b = genInput(rng, sc, l2, sh)
			}
			bo := sc.clone(b)
			var out []byte
			var used compression.Setting
			reuse := rng.IntN(2) == 0
			pm, st := callSafely(func() {
				d := dst
				if !reuse {
					d = dstFor(rng, sc, len(b))
				}
				out, used = ac.Compress(d, b)
			})
			r.Eval(1)
			r.Count("adaptive_compress_calls", 1)
			if pm != "" {
				violate(r, "compress-panic", fmt.Sprintf("adaptive %s buffer %d len %d: %s", pkey, k, len(b), pm),
					map[string]any{"params": pkey, "seed": p.SamplingSeed, "k": k, "len": len(b), "case": i, "stack": st},
					map[string]any{"adaptive": true, "len0": len(b) == 0, "where": topPebbleFrame(st)})
				break
			}
			if reuse {
				dst = out
			}
			if !bytes.Equal(b, bo) {
				violate(r, "input-modified", fmt.Sprintf("adaptive %s modified its input", pkey), map[string]any{"params": pkey, "case": i}, map[string]any{"adaptive": true})
			}
			if used != fast && used != slow {
				violate(r, "setting-mismatch", fmt.Sprintf("adaptive %s reported setting %s which is neither fast nor slow", pkey, used),
					map[string]any{"params": pkey, "used": used.String(), "case": i}, map[string]any{"adaptive": true})
			}
			res := roundTrip(sc, out, used, bo)
			if res.class != "" {
				violate(r, res.class, fmt.Sprintf("adaptive %s buffer %d (recorded %s) len %d: %s", pkey, k, used, len(b), res.detail),
					map[string]any{"params": pkey, "seed": p.SamplingSeed, "k": k, "used": used.String(), "len": len(b), "case": i,
						"input_head": head(bo, 64), "compressed_head": head(out, 64)},
					map[string]any{"adaptive": true, "algorithm": used.Algorithm.String(), "len0": len(b) == 0})
			} else {
				r.Count("roundtrips_ok", 1)
			}
			which := "fast"
			if used == slow && slow != fast {
				which = "slow"
			} else if slow == fast {
				which = "same"
			}
			chosen[which]++
			r.Count("adaptive_chose_"+which, 1)
			r.Distinct("adaptive", fast.String(), slow.String(), p.ReductionCutoff, p.SampleEvery, which, lenClass(len(b)))
		}
		callSafely(func() { ac.Close() })
		if r.WantSample() {
			r.Sample(map[string]any{"case": i, "shape": shape, "len": ln, "settings_tried": len(settings),
				"adaptive": pkey, "adaptive_buffers": nbuf, "adaptive_choices": chosen})
		}
	})
}

// ---------------------------------------------------------------- part block

type memFile struct{ data []byte }

func (f *memFile) Write(p []byte) error        { f.data = append(f.data, p...); return nil }
func (f *memFile) Finish() error               { return nil }
func (f *memFile) Abort()                      {}
func (f *memFile) StartMetadataPortion() error { return nil }
func (f *memFile) ReadAt(_ context.Context, p []byte, off int64) error {
	if off < 0 || off+int64(len(p)) > int64(len(f.data)) {
		return fmt.Errorf("memFile: read [%d,%d) past end %d", off, off+int64(len(p)), len(f.data))
	}
	copy(p, f.data[off:])
	return nil
}
func (f *memFile) Close() error { return nil }
func (f *memFile) Size() int64  { return int64(len(f.data)) }
func (f *memFile) NewReadHandle(objstorage.ReadBeforeSize) objstorage.ReadHandle {
	return (*memRH)(f)
}

type memRH memFile

func (h *memRH) ReadAt(ctx context.Context, p []byte, off int64) error {
	return (*memFile)(h).ReadAt(ctx, p, off)
}
func (h *memRH) Close() error                                 { return nil }
func (h *memRH) SetupForCompaction()                          {}
func (h *memRH) RecordCacheHit(context.Context, int64, int64) {}

var _ objstorage.Writable = (*memFile)(nil)
var _ objstorage.Readable = (*memFile)(nil)

var builtinProfiles = []*block.CompressionProfile{
	block.NoCompression, block.SnappyCompression, block.ZstdCompression, block.MinLZCompression,
	block.FastestCompression, block.FastCompression, block.BalancedCompression, block.GoodCompression,
}

func randProfile(rng *rand.Rand, settings []compression.Setting) *block.CompressionProfile {
	if rng.IntN(3) == 0 {
		return builtinProfiles[rng.IntN(len(builtinProfiles))]
	}
	pick := func() compression.Setting {
		s := settings[rng.IntN(len(settings))]
		if s.Algorithm == compression.Zstd && s.Level > 9 {
			s.Level = 3
		}
		return s
	}
	cs := func() block.CompressionSetting {
		if rng.IntN(2) == 0 {
			return block.SimpleCompressionSetting(pick())
		}
		return block.AdaptiveCompressionSetting(pick(), []uint8{1, 5, 15, 30, 60, 100}[rng.IntN(6)])
	}
	p := &block.CompressionProfile{
		Name:                fmt.Sprintf("verif-%d", rng.Uint32()),
		DataBlocks:          cs(),
		ValueBlocks:         cs(),
		OtherBlocks:         pick(),
		MinReductionPercent: []uint8{0, 1, 3, 5, 10, 12, 25, 50, 90, 99, 100}[rng.IntN(11)],
	}
	return p
}

func profileString(p *block.CompressionProfile) string {
	f := func(c block.CompressionSetting) string {
		if c.AdaptiveReductionCutoffPercent != 0 {
			return fmt.Sprintf("adaptive(%s,%d)", c.Setting, c.AdaptiveReductionCutoffPercent)
		}
		return c.Setting.String()
	}
	return fmt.Sprintf("%s{data=%s value=%s other=%s minred=%d}", p.Name, f(p.DataBlocks), f(p.ValueBlocks), p.OtherBlocks, p.MinReductionPercent)
}

// allowedAlgos returns the algorithms the profile may use for a kind.
func allowedAlgos(p *block.CompressionProfile, kind blockkind.Kind) map[compression.Algorithm]bool {
	m := map[compression.Algorithm]bool{compression.NoAlgorithm: true}
	add := func(c block.CompressionSetting) {
		m[c.Algorithm] = true
		if c.AdaptiveReductionCutoffPercent != 0 {
			m[p.OtherBlocks.Algorithm] = true
		}
	}
	switch kind {
	case blockkind.SSTableData:
		add(p.DataBlocks)
	case blockkind.SSTableValue, blockkind.BlobValue:
		add(p.ValueBlocks)
	default:
		m[p.OtherBlocks.Algorithm] = true
	}
	return m
}

type wblock struct {
	kind     blockkind.Kind
	data     []byte
	h        block.Handle
	dontComp bool
	shape    string
}

func TestVerifC28Block(t *testing.T) {
	r := vcommon.NewReport("C28", "block")
	defer r.Finish(t)
	r.Rule("case = (CompressionProfile incl. random per-kind overrides/adaptive settings/min-reduction, checksum type, " +
		"sequence of 6-30 logical blocks of all block kinds) written by PhysicalBlockMaker and read back by block.Reader " +
		"(no cache, buffer pool, block cache incl. second read served from cache); distinct = (profile shape, kind, stored indicator, length class, read path)")
	settings := allSettings()
	kinds := []blockkind.Kind{}
	for k := range blockkind.All() {
		kinds = append(kinds, k)
	}
	n := vcommon.Scale(260, 8000)
	ctx := context.Background()
	sc := newScratch()
	fileBuf := make([]byte, 0, 8<<20)
	r.Cases(n, func(i int, rng *rand.Rand) {
		sc.reset()
		prof := randProfile(rng, settings)
		ps := profileString(prof)
		cksum := []block.ChecksumType{block.ChecksumTypeCRC32c, block.ChecksumTypeXXHash64}[rng.IntN(2)]
		r.SetAdd("checksum_types", cksum.String())
		if strings.HasPrefix(prof.Name, "verif-") {
			r.Count("custom_profiles", 1)
		} else {
			r.SetAdd("builtin_profiles", prof.Name)
		}
		r.SetAdd("min_reduction_percent", fmt.Sprint(prof.MinReductionPercent))
		fileBuf = fileBuf[:0]
		f := &memFile{data: fileBuf}
		defer func() { fileBuf = f.data }()
		var blocks []wblock
		nb := 6 + rng.IntN(25)
		big := rng.IntN(4) == 0
		var mk block.PhysicalBlockMaker
		pm, st := callSafely(func() {
			mk.Init(prof, cksum, nil)
			defer mk.Close()
			for k := 0; k < nb; k++ {
				kind := kinds[rng.IntN(len(kinds))]
				if rng.IntN(2) == 0 {
					kind = []blockkind.Kind{blockkind.SSTableData, blockkind.SSTableValue, blockkind.BlobValue}[rng.IntN(3)]
				}
				ln := genLen(rng)
				if !big && ln > 40000 {
					ln = rng.IntN(40000)
				}
				shape := shapes[rng.IntN(len(shapes))]
				data := genInput(rng, sc, ln, shape)
				keep := sc.clone(data)
				flags := block.NoFlags
				if rng.IntN(8) == 0 {
					flags = block.DontCompress
				}
				var pb block.PhysicalBlock
				if pm, st := callSafely(func() { pb = mk.Make(data, kind, flags) }); pm != "" {
					// Recorded per block so that one failing block does not hide
					// the remaining blocks of the case.
					r.Eval(1)
					violate(r, "compress-panic", fmt.Sprintf("profile %s kind %s len %d: %s", ps, kind, ln, pm),
						map[string]any{"profile": ps, "case": i, "k": k, "kind": kind.String(), "len": ln, "stack": st},
						map[string]any{"layer": "block", "len0": ln == 0, "where": topPebbleFrame(st)})
					continue
				}
				off := uint64(len(f.data))
				l, err := block.WriteAndReleasePhysicalBlock(pb.Take(), f)
				if err != nil {
					panic(err)
				}
				if !bytes.Equal(data, keep) {
					violate(r, "input-modified", "PhysicalBlockMaker.Make modified the logical block", map[string]any{"profile": ps, "case": i, "k": k}, nil)
				}
				blocks = append(blocks, wblock{kind: kind, data: keep, h: block.Handle{Offset: off, Length: uint64(l.WithoutTrailer())},
					dontComp: flags == block.DontCompress, shape: shape})
			}
		})
		if pm != "" {
			r.Eval(1)
			violate(r, "compress-panic", fmt.Sprintf("profile %s: %s", ps, pm), map[string]any{"profile": ps, "case": i, "stack": st},
				map[string]any{"layer": "block", "len0": false, "where": topPebbleFrame(st)})
			return
		}
		// trailer checks: indicator allowed, threshold respected
		for k, b := range blocks {
			ind := block.CompressionIndicator(f.data[b.h.Offset+b.h.Length])
			var algo compression.Algorithm
			if pm, _ := callSafely(func() { algo = ind.Algorithm() }); pm != "" {
				violate(r, "bad-indicator", fmt.Sprintf("profile %s block %d: indicator byte %d", ps, k, ind), map[string]any{"profile": ps, "case": i}, map[string]any{"layer": "block"})
				continue
			}
			r.SetAdd("stored_indicators", ind.String())
			r.Count("blocks_stored_"+ind.String(), 1)
			if b.dontComp && ind != block.NoCompressionIndicator {
				violate(r, "dontcompress-ignored", fmt.Sprintf("profile %s block %d stored as %s despite DontCompress", ps, k, ind),
					map[string]any{"profile": ps, "case": i, "k": k}, map[string]any{"layer": "block"})
			}
			if !allowedAlgos(prof, b.kind)[algo] {
				violate(r, "algorithm-not-in-profile", fmt.Sprintf("profile %s kind %s stored with %s", ps, b.kind, ind),
					map[string]any{"profile": ps, "case": i, "k": k, "kind": b.kind.String()}, map[string]any{"layer": "block"})
			}
			if ind != block.NoCompressionIndicator &&
				int64(b.h.Length)*100 > int64(len(b.data))*int64(100-int(prof.MinReductionPercent)) {
				violate(r, "min-reduction-ignored", fmt.Sprintf("profile %s kind %s: %d -> %d bytes stored compressed (%s) although reduction < %d%%",
					ps, b.kind, len(b.data), b.h.Length, ind, prof.MinReductionPercent),
					map[string]any{"profile": ps, "case": i, "k": k}, map[string]any{"layer": "block"})
			}
			if ind == block.NoCompressionIndicator && int(b.h.Length) != len(b.data) {
				violate(r, "roundtrip-mismatch", fmt.Sprintf("uncompressed block stored with length %d, logical %d", b.h.Length, len(b.data)),
					map[string]any{"profile": ps, "case": i, "k": k}, map[string]any{"layer": "block"})
			}
		}
		// read back through three paths
		type path struct {
			name string
			run  func(fn func(rd *block.Reader, env block.ReadEnv))
		}
		paths := []path{
			{"nocache", func(fn func(*block.Reader, block.ReadEnv)) {
				var rd block.Reader
				rd.Init(f, block.ReaderOptions{CacheOpts: sstableinternal.CacheOptions{FileNum: 7}, LoggerAndTracer: base.NoopLoggerAndTracer{}}, cksum)
				fn(&rd, block.NoReadEnv)
			}},
			{"bufferpool", func(fn func(*block.Reader, block.ReadEnv)) {
				var rd block.Reader
				rd.Init(f, block.ReaderOptions{CacheOpts: sstableinternal.CacheOptions{FileNum: 7}, LoggerAndTracer: base.NoopLoggerAndTracer{}}, cksum)
				var bp block.BufferPool
				bp.Init(3, block.ForCompaction)
				defer bp.Release()
				fn(&rd, block.ReadEnv{BufferPool: &bp})
			}},
			{"cache", func(fn func(*block.Reader, block.ReadEnv)) {
				c := cache.New(4 << 20)
				defer c.Unref()
				ch := c.NewHandle()
				defer ch.Close()
				var rd block.Reader
				rd.Init(f, block.ReaderOptions{CacheOpts: sstableinternal.CacheOptions{CacheHandle: ch, FileNum: 7}, LoggerAndTracer: base.NoopLoggerAndTracer{}}, cksum)
				fn(&rd, block.NoReadEnv)
				fn(&rd, block.NoReadEnv) // second pass: cache hits
			}},
		}
		for _, p := range paths {
			p.run(func(rd *block.Reader, env block.ReadEnv) {
				for k, b := range blocks {
					var got []byte
					var err error
					differs := false
					pm, st := callSafely(func() {
						h, e := rd.Read(ctx, env, nil, b.h, b.kind, func(*block.Metadata, []byte) error { return nil })
						if e != nil {
							err = e
							return
						}
						if !bytes.Equal(h.BlockData(), b.data) {
							got = bytes.Clone(h.BlockData())
							differs = true
						}
						h.Release()
					})
					r.Eval(1)
					r.Count("block_reads_"+p.name, 1)
					ind := block.CompressionIndicator(f.data[b.h.Offset+b.h.Length])
					match := map[string]any{"layer": "block", "indicator": fmt.Sprint(byte(ind)), "len0": len(b.data) == 0, "path": p.name}
					rep := map[string]any{"profile": ps, "checksum": cksum.String(), "case": i, "k": k, "kind": b.kind.String(),
						"len": len(b.data), "stored_len": b.h.Length, "indicator": byte(ind), "path": p.name, "shape": b.shape, "input_head": head(b.data, 64)}
					switch {
					case pm != "":
						rep["stack"] = st
						violate(r, "roundtrip-panic", fmt.Sprintf("profile %s kind %s len %d path %s: %s", ps, b.kind, len(b.data), p.name, pm), rep, match)
					case err != nil:
						violate(r, "roundtrip-error", fmt.Sprintf("profile %s kind %s len %d path %s: %v", ps, b.kind, len(b.data), p.name, err), rep, match)
					case differs:
						violate(r, "roundtrip-mismatch", fmt.Sprintf("profile %s kind %s len %d path %s: read-back differs (got %d bytes)", ps, b.kind, len(b.data), p.name, len(got)), rep, match)
					default:
						r.Count("block_roundtrips_ok", 1)
					}
					adaptive := prof.DataBlocks.AdaptiveReductionCutoffPercent != 0 || prof.ValueBlocks.AdaptiveReductionCutoffPercent != 0
					r.Distinct("block", adaptive, prof.MinReductionPercent, b.kind.String(), byte(ind), lenClass(len(b.data)), p.name)
				}
			})
		}
		if r.WantSample() {
			r.Sample(map[string]any{"case": i, "profile": ps, "checksum": cksum.String(), "blocks": len(blocks), "file_bytes": len(f.data)})
		}
	})
}
