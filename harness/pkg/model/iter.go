package model

import (
	"fmt"
	"sort"
)

// KeyTypes mirrors pebble.IterKeyType.
type KeyTypes int

// Key type selections.
const (
	PointsOnly KeyTypes = iota
	RangesOnly
	PointsAndRanges
)

// IterOpts are the options of a model iterator.
type IterOpts struct {
	HasLower, HasUpper bool
	Lower, Upper       string
	KeyTypes           KeyTypes
	MaskSuffix         string // "" = no masking
}

func (o IterOpts) String() string {
	lo, hi := "-", "-"
	if o.HasLower {
		lo = o.Lower
	}
	if o.HasUpper {
		hi = o.Upper
	}
	return fmt.Sprintf("{[%s,%s) kt=%d mask=%q}", lo, hi, o.KeyTypes, o.MaskSuffix)
}

// Pos is what the iterator exposes at a valid position.
type Pos struct {
	Key      string
	HasPoint bool
	Value    string
	HasRange bool
	RStart   string
	REnd     string
	RKeys    []RKV
}

func (p Pos) String() string {
	s := p.Key
	if p.HasPoint {
		s += "=" + trunc(p.Value)
	}
	if p.HasRange {
		s += fmt.Sprintf(" [%s,%s)%v", p.RStart, p.REnd, p.RKeys)
	}
	return s
}

// Validity mirrors pebble.IterValidityState.
type Validity int

// Validity states.
const (
	Exhausted Validity = iota
	Valid
	AtLimit
)

func (v Validity) String() string { return [...]string{"exhausted", "valid", "at-limit"}[v] }

// Iter is the model iterator: a cursor over a materialised position list.
type Iter struct {
	st   *State
	opts IterOpts

	spans []Span // clipped to bounds
	pos   []Pos  // position list (non-prefix mode)

	// prefix mode
	inPrefix bool
	prefix   string
	ppos     []Pos

	// cursor: on==true: at list index idx, or (eph) at ephemeral position ephPos
	// which sorts strictly between idx-1 and idx; on==false: in the gap before
	// index idx (idx==len ⇒ after last).
	positioned bool
	on         bool
	eph        bool
	ephPos     Pos
	idx        int
}

// NewIter creates a model iterator over a frozen state.
func NewIter(st *State, o IterOpts) *Iter {
	it := &Iter{st: st, opts: o}
	it.rebuild()
	return it
}

// Opts returns the iterator's options.
func (it *Iter) Opts() IterOpts { return it.opts }

// State returns the frozen state.
func (it *Iter) State() *State { return it.st }

// SetOpts changes options (SetBounds/SetOptions); the cursor becomes
// unpositioned.
func (it *Iter) SetOpts(o IterOpts) {
	it.opts = o
	it.rebuild()
}

// SetState replaces the frozen state (batch view refresh).
func (it *Iter) SetState(st *State) {
	it.st = st
	it.rebuild()
}

func (it *Iter) rebuild() {
	it.positioned, it.on, it.eph, it.inPrefix = false, false, false, false
	it.spans = nil
	if it.opts.KeyTypes != PointsOnly {
		it.spans = it.st.Spans(it.opts.Lower, it.opts.Upper, it.opts.HasLower, it.opts.HasUpper)
	}
	it.pos = it.build(it.spans, "", false)
}

func (it *Iter) inBounds(k string) bool {
	if it.opts.HasLower && Cmp(k, it.opts.Lower) < 0 {
		return false
	}
	if it.opts.HasUpper && Cmp(k, it.opts.Upper) >= 0 {
		return false
	}
	return true
}

// masked implements the rule of range_keys.go: with masking suffix m, a point
// with suffix x covered by range keys is hidden iff the smallest (in suffix
// order) range-key suffix r with r >= m satisfies r < x.
func (it *Iter) masked(k string) bool {
	if it.opts.MaskSuffix == "" || it.opts.KeyTypes != PointsAndRanges {
		return false
	}
	_, x := SplitKey(k)
	if x == "" {
		return false
	}
	cover := it.st.CoverAt(k)
	for _, rk := range cover { // sorted ascending in suffix order
		if CmpSuffix(rk.Suffix, it.opts.MaskSuffix) >= 0 {
			return CmpSuffix(rk.Suffix, x) < 0
		}
	}
	return false
}

func spanCovering(spans []Span, k string) (Span, bool) {
	i := sort.Search(len(spans), func(i int) bool { return Cmp(spans[i].End, k) > 0 })
	if i < len(spans) && Cmp(spans[i].Start, k) <= 0 {
		return spans[i], true
	}
	return Span{}, false
}

// build materialises the position list from spans (already clipped) and the
// visible points; with prefixOnly only keys with that prefix are kept.
func (it *Iter) build(spans []Span, prefix string, prefixOnly bool) []Pos {
	var out []Pos
	if it.opts.KeyTypes != RangesOnly {
		for _, k := range it.st.SortedKeys() {
			if !it.inBounds(k) || it.masked(k) {
				continue
			}
			if prefixOnly && Prefix(k) != prefix {
				continue
			}
			out = append(out, Pos{Key: k, HasPoint: true, Value: it.st.Points[k]})
		}
	}
	// span start positions
	for _, sp := range spans {
		i := sort.Search(len(out), func(i int) bool { return Cmp(out[i].Key, sp.Start) >= 0 })
		if i < len(out) && out[i].Key == sp.Start {
			continue
		}
		out = append(out, Pos{})
		copy(out[i+1:], out[i:])
		out[i] = Pos{Key: sp.Start}
	}
	for i := range out {
		if sp, ok := spanCovering(spans, out[i].Key); ok {
			out[i].HasRange, out[i].RStart, out[i].REnd, out[i].RKeys = true, sp.Start, sp.End, sp.Keys
		}
	}
	return out
}

func (it *Iter) list() []Pos {
	if it.inPrefix {
		return it.ppos
	}
	return it.pos
}

func (it *Iter) curSpans() []Span {
	if !it.inPrefix {
		return it.spans
	}
	// clip to [prefix, prefix\x00)
	lo, hi := it.prefix, it.prefix+"\x00"
	var out []Span
	for _, sp := range it.spans {
		if Cmp(sp.Start, lo) < 0 {
			sp.Start = lo
		}
		if Cmp(sp.End, hi) > 0 {
			sp.End = hi
		}
		if Cmp(sp.Start, sp.End) < 0 {
			out = append(out, sp)
		}
	}
	return out
}

// Cur returns the current position if the iterator is on one.
func (it *Iter) Cur() (Pos, bool) {
	if !it.positioned || !it.on {
		return Pos{}, false
	}
	if it.eph {
		return it.ephPos, true
	}
	return it.list()[it.idx], true
}

// Positioned reports whether an absolute positioning op has been done since
// creation / the last option change.
func (it *Iter) Positioned() bool { return it.positioned }

// InPrefixMode reports whether the last absolute op was SeekPrefixGE.
func (it *Iter) InPrefixMode() bool { return it.inPrefix }

// lowerIdx returns the index of the first list position with key >= k.
func lowerIdx(l []Pos, k string) int {
	return sort.Search(len(l), func(i int) bool { return Cmp(l[i].Key, k) >= 0 })
}

func (it *Iter) setOn(i int) (Pos, bool) {
	l := it.list()
	it.positioned, it.eph = true, false
	if i < 0 {
		it.on, it.idx = false, 0
		return Pos{}, false
	}
	if i >= len(l) {
		it.on, it.idx = false, len(l)
		return Pos{}, false
	}
	it.on, it.idx = true, i
	return l[i], true
}

// seekGETarget computes the position SeekGE(k) lands on without moving.
// Returns (pos, listIdx, ephemeral, ok): listIdx is the index of the first list
// position >= clamped k.
func (it *Iter) seekGETarget(k string) (Pos, int, bool, bool) {
	if it.opts.HasLower && Cmp(k, it.opts.Lower) < 0 {
		k = it.opts.Lower
	}
	l := it.list()
	if it.opts.HasUpper && Cmp(k, it.opts.Upper) >= 0 {
		return Pos{}, len(l), false, false
	}
	i := lowerIdx(l, k)
	if i < len(l) && l[i].Key == k {
		return l[i], i, false, true
	}
	if it.opts.KeyTypes != PointsOnly {
		if sp, ok := spanCovering(it.curSpans(), k); ok && Cmp(sp.Start, k) < 0 {
			return Pos{Key: k, HasRange: true, RStart: sp.Start, REnd: sp.End, RKeys: sp.Keys}, i, true, true
		}
	}
	if i < len(l) {
		return l[i], i, false, true
	}
	return Pos{}, i, false, false
}

// SeekGE positions at the first position >= k.
func (it *Iter) SeekGE(k string) (Pos, bool) {
	it.inPrefix = false
	p, i, eph, ok := it.seekGETarget(k)
	it.positioned = true
	if !ok {
		return it.setOn(len(it.list()))
	}
	if eph {
		it.on, it.eph, it.ephPos, it.idx = true, true, p, i
		return p, true
	}
	return it.setOn(i)
}

// SeekPrefixGE enters prefix mode.
func (it *Iter) SeekPrefixGE(k string) (Pos, bool) {
	it.inPrefix = true
	it.prefix = Prefix(k)
	it.ppos = it.build(it.curSpans(), it.prefix, true)
	// keep only positions within the prefix (span starts are already clipped)
	p, i, eph, ok := it.seekGETarget(k)
	it.positioned = true
	if !ok {
		return it.setOn(len(it.list()))
	}
	if eph {
		it.on, it.eph, it.ephPos, it.idx = true, true, p, i
		return p, true
	}
	return it.setOn(i)
}

// seekLTTarget returns the index of the largest list position < clamped k (-1 if none).
func (it *Iter) seekLTTarget(k string) int {
	if it.opts.HasUpper && Cmp(k, it.opts.Upper) > 0 {
		k = it.opts.Upper
	}
	l := it.list()
	if it.opts.HasLower && Cmp(k, it.opts.Lower) <= 0 {
		return -1
	}
	return lowerIdx(l, k) - 1
}

// SeekLT positions at the last position < k.
func (it *Iter) SeekLT(k string) (Pos, bool) {
	it.inPrefix = false
	return it.setOn(it.seekLTTarget(k))
}

// First positions at the first position.
func (it *Iter) First() (Pos, bool) { it.inPrefix = false; return it.setOn(0) }

// Last positions at the last position.
func (it *Iter) Last() (Pos, bool) { it.inPrefix = false; return it.setOn(len(it.pos) - 1) }

// nextIdx returns the list index a Next would land on.
func (it *Iter) nextIdx() int {
	if it.on && !it.eph {
		return it.idx + 1
	}
	return it.idx // ephemeral: idx is first list pos > eph key; gap: position after the gap
}

func (it *Iter) prevIdx() int { return it.idx - 1 }

// Next moves forward.
func (it *Iter) Next() (Pos, bool) { return it.setOn(it.nextIdx()) }

// Prev moves backward.
func (it *Iter) Prev() (Pos, bool) { return it.setOn(it.prevIdx()) }

// NextPrefix moves to the first position whose prefix is greater than the
// current key's prefix. Must be on a valid position and not in prefix mode.
func (it *Iter) NextPrefix() (Pos, bool) {
	cur, _ := it.Cur()
	p := Prefix(cur.Key)
	l := it.list()
	i := it.nextIdx()
	for i < len(l) && Prefix(l[i].Key) == p {
		i++
	}
	return it.setOn(i)
}

// PeekNext returns the position Next would land on, without moving.
func (it *Iter) PeekNext() (Pos, bool) {
	l := it.list()
	if i := it.nextIdx(); i >= 0 && i < len(l) {
		return l[i], true
	}
	return Pos{}, false
}

// PeekPrev returns the position Prev would land on, without moving.
func (it *Iter) PeekPrev() (Pos, bool) {
	l := it.list()
	if i := it.prevIdx(); i >= 0 && i < len(l) {
		return l[i], true
	}
	return Pos{}, false
}

// PeekSeekGE returns the position SeekGE(k) would land on, without moving
// (non-prefix mode semantics).
func (it *Iter) PeekSeekGE(k string) (Pos, bool) {
	save := it.inPrefix
	it.inPrefix = false
	p, _, _, ok := it.seekGETarget(k)
	it.inPrefix = save
	return p, ok
}

// PeekSeekLT returns the position SeekLT(k) would land on, without moving.
func (it *Iter) PeekSeekLT(k string) (Pos, bool) {
	save := it.inPrefix
	it.inPrefix = false
	i := it.seekLTTarget(k)
	it.inPrefix = save
	if i >= 0 && i < len(it.pos) {
		return it.pos[i], true
	}
	return Pos{}, false
}

// PauseForward records that a forward *WithLimit op returned IterAtLimit: the
// cursor sits in the gap before the position the op would have reached.
// target is the list index of that position (len(list) if none).
func (it *Iter) PauseForward(seek bool, k string) {
	if seek {
		it.inPrefix = false
		_, i, _, _ := it.seekGETarget(k)
		// An ephemeral target sorts before list index i; pausing before it
		// leaves the cursor in the same gap.
		it.positioned, it.on, it.eph, it.idx = true, false, false, i
		return
	}
	i := it.nextIdx()
	it.positioned, it.on, it.eph, it.idx = true, false, false, clampIdx(i, len(it.list()))
}

// PauseBackward is the reverse analogue.
func (it *Iter) PauseBackward(seek bool, k string) {
	if seek {
		it.inPrefix = false
		i := it.seekLTTarget(k)
		it.positioned, it.on, it.eph, it.idx = true, false, false, i+1
		return
	}
	i := it.prevIdx()
	it.positioned, it.on, it.eph, it.idx = true, false, false, clampIdx(i+1, len(it.list()))
}

func clampIdx(i, n int) int {
	if i < 0 {
		return 0
	}
	if i > n {
		return n
	}
	return i
}

// Scan returns all positions in order (for audits).
func (it *Iter) Scan() []Pos { return append([]Pos(nil), it.pos...) }
