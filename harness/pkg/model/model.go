// Package model is the sequential reference model M of DESIGN.md §3.1: a
// deliberately naive key-value + range-key model written from Pebble's public
// documentation. It shares no code with Pebble's read path; it only uses the
// testkeys comparer for key order.
package model

import (
	"fmt"
	"sort"
	"strings"

	"github.com/cockroachdb/pebble/internal/testkeys"
)

// Cmp compares two user keys with the testkeys comparer.
func Cmp(a, b string) int { return testkeys.Comparer.Compare([]byte(a), []byte(b)) }

// SplitKey returns (prefix, suffix) of a test key.
func SplitKey(k string) (string, string) {
	i := testkeys.Comparer.Split([]byte(k))
	return k[:i], k[i:]
}

// Prefix returns the prefix of k.
func Prefix(k string) string { p, _ := SplitKey(k); return p }

// CmpSuffix compares two suffixes in range-key suffix order.
func CmpSuffix(a, b string) int {
	return testkeys.Comparer.CompareRangeSuffixes([]byte(a), []byte(b))
}

// OpKind enumerates write operations.
type OpKind int

// Write operation kinds.
const (
	OpSet OpKind = iota
	OpDelete
	OpDeleteSized
	OpSingleDelete
	OpDeleteRange
	OpMerge
	OpLogData
	OpRangeKeySet
	OpRangeKeyUnset
	OpRangeKeyDelete
)

var opNames = []string{"Set", "Delete", "DeleteSized", "SingleDelete", "DeleteRange", "Merge", "LogData", "RangeKeySet", "RangeKeyUnset", "RangeKeyDelete"}

func (k OpKind) String() string { return opNames[k] }

// Op is one write operation.
type Op struct {
	Kind   OpKind
	Key    string // point key or range start
	End    string // range end
	Suffix string // range-key suffix
	Value  string
	Size   uint32 // DeleteSized hint
}

func (o Op) String() string {
	switch o.Kind {
	case OpSet, OpMerge:
		return fmt.Sprintf("%s(%s,%s)", o.Kind, o.Key, trunc(o.Value))
	case OpDelete, OpSingleDelete:
		return fmt.Sprintf("%s(%s)", o.Kind, o.Key)
	case OpDeleteSized:
		return fmt.Sprintf("DeleteSized(%s,%d)", o.Key, o.Size)
	case OpDeleteRange, OpRangeKeyDelete:
		return fmt.Sprintf("%s(%s,%s)", o.Kind, o.Key, o.End)
	case OpRangeKeySet:
		return fmt.Sprintf("RangeKeySet(%s,%s,%s,%s)", o.Key, o.End, o.Suffix, trunc(o.Value))
	case OpRangeKeyUnset:
		return fmt.Sprintf("RangeKeyUnset(%s,%s,%s)", o.Key, o.End, o.Suffix)
	case OpLogData:
		return "LogData"
	}
	return "?"
}

func trunc(s string) string {
	if len(s) > 24 {
		return fmt.Sprintf("%s…(%d)", s[:20], len(s))
	}
	return s
}

// State is the model's visible state: point keys and range keys.
type State struct {
	Points map[string]string
	// Range keys: sorted boundary keys B[0] < B[1] < …; RK[i] is the
	// suffix→value map of the interval [B[i], B[i+1]) (possibly empty).
	B  []string
	RK []map[string]string
}

// NewState returns the empty state.
func NewState() *State { return &State{Points: map[string]string{}} }

// Clone returns a deep copy.
func (s *State) Clone() *State {
	c := &State{Points: make(map[string]string, len(s.Points))}
	for k, v := range s.Points {
		c.Points[k] = v
	}
	c.B = append([]string(nil), s.B...)
	c.RK = make([]map[string]string, len(s.RK))
	for i, m := range s.RK {
		c.RK[i] = make(map[string]string, len(m))
		for k, v := range m {
			c.RK[i][k] = v
		}
	}
	return c
}

// addBoundary makes k a boundary and returns its index.
func (s *State) addBoundary(k string) int {
	i := sort.Search(len(s.B), func(i int) bool { return Cmp(s.B[i], k) >= 0 })
	if i < len(s.B) && Cmp(s.B[i], k) == 0 {
		return i
	}
	// insert boundary at i
	s.B = append(s.B, "")
	copy(s.B[i+1:], s.B[i:])
	s.B[i] = k
	switch {
	case len(s.B) == 1:
		// no interval yet
	case i == 0:
		s.RK = append([]map[string]string{{}}, s.RK...)
	case i == len(s.B)-1:
		s.RK = append(s.RK, map[string]string{})
	default:
		// splitting interval i-1 = [B[i-1], oldB[i]) into two
		cp := make(map[string]string, len(s.RK[i-1]))
		for a, b := range s.RK[i-1] {
			cp[a] = b
		}
		s.RK = append(s.RK, nil)
		copy(s.RK[i+1:], s.RK[i:])
		s.RK[i] = cp
	}
	return i
}

func (s *State) rkRange(start, end string, f func(m map[string]string)) {
	if Cmp(start, end) >= 0 {
		return
	}
	s.addBoundary(start)
	s.addBoundary(end)
	i := sort.Search(len(s.B), func(i int) bool { return Cmp(s.B[i], start) >= 0 })
	for ; i+1 < len(s.B) && Cmp(s.B[i], end) < 0; i++ {
		f(s.RK[i])
	}
}

// Apply applies one write op.
func (s *State) Apply(o Op) {
	switch o.Kind {
	case OpSet:
		s.Points[o.Key] = o.Value
	case OpDelete, OpDeleteSized, OpSingleDelete:
		delete(s.Points, o.Key)
	case OpMerge:
		s.Points[o.Key] = s.Points[o.Key] + o.Value
	case OpDeleteRange:
		for k := range s.Points {
			if Cmp(k, o.Key) >= 0 && Cmp(k, o.End) < 0 {
				delete(s.Points, k)
			}
		}
	case OpRangeKeySet:
		s.rkRange(o.Key, o.End, func(m map[string]string) { m[o.Suffix] = o.Value })
	case OpRangeKeyUnset:
		s.rkRange(o.Key, o.End, func(m map[string]string) { delete(m, o.Suffix) })
	case OpRangeKeyDelete:
		s.rkRange(o.Key, o.End, func(m map[string]string) {
			for k := range m {
				delete(m, k)
			}
		})
	case OpLogData:
	}
}

// ApplyBatch applies ops in order.
func (s *State) ApplyBatch(ops []Op) {
	for _, o := range ops {
		s.Apply(o)
	}
}

// ApplyIngestTable applies one ingested table: all entries of a table carry one
// sequence number, so its tombstones affect only older data, not its own keys.
func (s *State) ApplyIngestTable(ops []Op) {
	for _, o := range ops {
		switch o.Kind {
		case OpDelete, OpDeleteSized, OpSingleDelete, OpDeleteRange, OpRangeKeyDelete, OpRangeKeyUnset:
			s.Apply(o)
		}
	}
	for _, o := range ops {
		switch o.Kind {
		case OpSet, OpMerge, OpRangeKeySet:
			s.Apply(o)
		}
	}
}

// Excise removes every point and range key in [start,end).
func (s *State) Excise(start, end string) {
	s.Apply(Op{Kind: OpDeleteRange, Key: start, End: end})
	s.Apply(Op{Kind: OpRangeKeyDelete, Key: start, End: end})
}

// SortedKeys returns the point keys in comparer order.
func (s *State) SortedKeys() []string {
	ks := make([]string, 0, len(s.Points))
	for k := range s.Points {
		ks = append(ks, k)
	}
	sort.Slice(ks, func(i, j int) bool { return Cmp(ks[i], ks[j]) < 0 })
	return ks
}

// RKV is one (suffix, value) pair of a range key.
type RKV struct{ Suffix, Value string }

// Span is a defragmented range-key span.
type Span struct {
	Start, End string
	Keys       []RKV // sorted by suffix order
}

func keysOf(m map[string]string) []RKV {
	out := make([]RKV, 0, len(m))
	for k, v := range m {
		out = append(out, RKV{k, v})
	}
	sort.Slice(out, func(i, j int) bool { return CmpSuffix(out[i].Suffix, out[j].Suffix) < 0 })
	return out
}

func sameKeys(a, b []RKV) bool {
	if len(a) != len(b) {
		return false
	}
	for i := range a {
		if a[i] != b[i] {
			return false
		}
	}
	return true
}

// Spans returns the maximal spans of constant non-empty range-key sets,
// clipped to [lo,hi) (an empty string bound means unbounded).
func (s *State) Spans(lo, hi string, hasLo, hasHi bool) []Span {
	var out []Span
	for i := 0; i+1 < len(s.B); i++ {
		if len(s.RK[i]) == 0 {
			continue
		}
		ks := keysOf(s.RK[i])
		if n := len(out); n > 0 && out[n-1].End == s.B[i] && sameKeys(out[n-1].Keys, ks) {
			out[n-1].End = s.B[i+1]
			continue
		}
		out = append(out, Span{Start: s.B[i], End: s.B[i+1], Keys: ks})
	}
	var clipped []Span
	for _, sp := range out {
		if hasLo && Cmp(sp.Start, lo) < 0 {
			sp.Start = lo
		}
		if hasHi && Cmp(sp.End, hi) > 0 {
			sp.End = hi
		}
		if Cmp(sp.Start, sp.End) < 0 {
			clipped = append(clipped, sp)
		}
	}
	return clipped
}

// CoverAt returns the (unclipped) range-key set covering key k.
func (s *State) CoverAt(k string) []RKV {
	i := sort.Search(len(s.B), func(i int) bool { return Cmp(s.B[i], k) > 0 })
	// interval i-1 = [B[i-1], B[i])
	if i == 0 || i >= len(s.B) {
		return nil
	}
	return keysOf(s.RK[i-1])
}

// String renders the state compactly.
func (s *State) String() string {
	var sb strings.Builder
	for _, k := range s.SortedKeys() {
		fmt.Fprintf(&sb, "%s=%s ", k, trunc(s.Points[k]))
	}
	for _, sp := range s.Spans("", "", false, false) {
		fmt.Fprintf(&sb, "[%s,%s)%v ", sp.Start, sp.End, sp.Keys)
	}
	return sb.String()
}

// Equal reports whether two states have identical visible content.
func (s *State) Equal(o *State) bool {
	if len(s.Points) != len(o.Points) {
		return false
	}
	for k, v := range s.Points {
		if ov, ok := o.Points[k]; !ok || ov != v {
			return false
		}
	}
	a, b := s.Spans("", "", false, false), o.Spans("", "", false, false)
	if len(a) != len(b) {
		return false
	}
	for i := range a {
		if a[i].Start != b[i].Start || a[i].End != b[i].End || !sameKeys(a[i].Keys, b[i].Keys) {
			return false
		}
	}
	return true
}
