// C20: a sync acknowledgement implies the record and all earlier ones are synced.
//
// The real record.LogWriter writes into a harness file (io.Writer + Sync + Close)
// that keeps `data` and `synced` (length of the fsynced prefix) under its own
// mutex, delays calls, and can fail the n-th call (sticky: a failed file never
// syncs again). One producer (the API requires external serialisation) issues
// records; seeded yields are installed at the verifhook sites of log_writer.go.
//
// Oracle.
//
//	syncQueue mode (SyncRecord + per-waiter WaitGroup/error, QueueSemChan): one
//	goroutine per in-flight waiter does wg.Wait() and then reads file.synced.
//	`synced` is monotone, so reading it after the release can only be lenient.
//	  released with nil  =>  synced_at_release >= end of the record's last chunk
//	                                                    [released-before-synced]
//	external-callback mode (ExternalSyncQueueCallback + SyncRecordGeneralized with
//	PendingSyncIndex): the callback runs inside the flush loop (or Close); it
//	reads file.synced, which is exact there.
//	  callback(index, nil)  =>  synced >= end of record `index`   [released-before-synced]
//	both: after Close returns every waiter / every sync-requested index has been
//	released (read race-free through the per-waiter error slot, which pop writes
//	before Close can return)                          [waiter-not-released-by-close];
//	error runs: a waiter whose record does not lie inside the final synced prefix
//	must have received a non-nil error                      [error-not-delivered];
//	the bytes the file received parse (record.Reader) to exactly the produced
//	records, in order (a prefix of them in error runs)        [log-content-mismatch];
//	the end offset returned by SyncRecord* equals the harness layout model
//	                                                          [end-offset-mismatch].
package c20

import (
	"bytes"
	"fmt"
	"io"
	"math/rand/v2"
	"runtime"
	"sync"
	"sync/atomic"
	"testing"
	"time"

	"github.com/cockroachdb/errors"
	"github.com/cockroachdb/pebble/internal/base"
	"github.com/cockroachdb/pebble/internal/verif/vcommon"
	"github.com/cockroachdb/pebble/internal/verifhook"
	"github.com/cockroachdb/pebble/record"
)

const blockSize = 32768

var errInjected = errors.New("verif: injected I/O error")
var errNotReleased = errors.New("verif: waiter not released yet")

// hfile is the harness file.
type hfile struct {
	mu     sync.Mutex
	data   []byte
	synced int
	calls  int // Write + Sync calls so far
	// armed: the next call of this kind ("write", "sync" or "any") fails
	armed  string
	failed bool
	// what the failing call was and the state at that moment
	failKind      string
	syncedAtFail  int
	partialOnFail bool
	// transient: only the armed call fails (e.g. a full disk that gets space
	// again); later calls succeed. The writer must nevertheless never report a
	// record as synced whose bytes (or earlier bytes) did not reach the file.
	transient      bool
	callsAfterFail int
	nwrite, nsync  int
	closed         int
	delay          func(kind string)
}

func (f *hfile) Write(p []byte) (int, error) {
	if f.delay != nil {
		f.delay("write")
	}
	f.mu.Lock()
	defer f.mu.Unlock()
	f.calls++
	f.nwrite++
	if f.failed {
		f.callsAfterFail++
		if !f.transient {
			return 0, errInjected
		}
	}
	if f.armed == "write" || f.armed == "any" {
		f.armed = ""
		f.failed, f.failKind, f.syncedAtFail = true, "write", f.synced
		n := 0
		if f.partialOnFail {
			n = len(p) / 2
			f.data = append(f.data, p[:n]...)
		}
		return n, errInjected
	}
	f.data = append(f.data, p...)
	return len(p), nil
}

func (f *hfile) Sync() error {
	// the delay comes BEFORE the synced mark moves: a waiter released while Sync
	// is still in progress observes the old mark
	if f.delay != nil {
		f.delay("sync")
	}
	f.mu.Lock()
	defer f.mu.Unlock()
	f.calls++
	f.nsync++
	if f.failed {
		f.callsAfterFail++
		if !f.transient {
			return errInjected
		}
	}
	if f.armed == "sync" || f.armed == "any" {
		f.armed = ""
		f.failed, f.failKind, f.syncedAtFail = true, "sync", f.synced
		return errInjected
	}
	f.synced = len(f.data)
	return nil
}

func (f *hfile) Close() error {
	f.mu.Lock()
	f.closed++
	f.mu.Unlock()
	return nil
}

func (f *hfile) arm(kind string) {
	f.mu.Lock()
	f.armed = kind
	f.mu.Unlock()
}

func (f *hfile) syncedLen() int {
	f.mu.Lock()
	defer f.mu.Unlock()
	return f.synced
}

var fileBuf = make([]byte, 0, 24<<20)
var recArena = make([]byte, 0, 24<<20)

func mkRecord(arena *[]byte, run, idx, n int) []byte {
	var b []byte
	if a := *arena; cap(a)-len(a) >= n {
		b = a[len(a) : len(a)+n : len(a)+n]
		*arena = a[:len(a)+n]
	} else {
		b = make([]byte, n)
	}
	x := (uint64(run)<<32|uint64(uint32(idx)))*0x9E3779B97F4A7C15 + 0xD1B54A32D192ED03
	if x == 0 {
		x = 1
	}
	for i := 0; i < n; {
		x ^= x << 13
		x ^= x >> 7
		x ^= x << 17
		v := x
		for k := 0; k < 8 && i < n; k++ {
			b[i] = byte(v)
			v >>= 8
			i++
		}
	}
	return b
}

// layout is the harness model of where records land: returns, for a record of
// n bytes appended at pos, the end of its last chunk and the offset the writer
// reports afterwards (the next block start when fewer than hdr bytes remain).
func layout(pos int64, n int, hdr int) (lastChunkEnd, after int64) {
	for first := true; first || n > 0; first = false {
		room := int(blockSize-pos%blockSize) - hdr
		k := min(n, room)
		pos += int64(hdr + k)
		n -= k
		lastChunkEnd = pos
		if int(blockSize-pos%blockSize) < hdr {
			pos = (pos/blockSize + 1) * blockSize
		}
	}
	return lastChunkEnd, pos
}

type waiter struct {
	idx int
	wg  sync.WaitGroup
	err error
	// written by the observer goroutine after wg.Wait(), read after obs.Wait()
	relErr          error
	syncedAtRelease int
	duringAppend    bool
	laterQueued     bool
	submitted       bool
	forced          bool
}

type cbObs struct {
	index  int64
	err    error
	synced int
}

type runCfg struct {
	Mode        string  `json:"mode"` // syncqueue | external
	WALSync     bool    `json:"walsync_format"`
	N           int     `json:"records"`
	SyncProb    float64 `json:"sync_probability"`
	MinSyncNS   int64   `json:"min_sync_interval_ns"`
	SemCap      int     `json:"queue_sem_cap"`
	FailAtRec   int     `json:"fail_armed_at_record"` // -1: no fault
	FailKind    string  `json:"fail_kind"`
	Window      int     `json:"external_mode_outstanding_sync_window"`
	Partial     bool    `json:"partial_write_on_fail"`
	Transient   bool    `json:"transient_fault"`
	YieldPct    int     `json:"yield_percent"`
	FileDelay   int     `json:"file_delay_percent"`
	CloseLast   bool    `json:"close_with_last_queued_record"`
	BigRecords  bool    `json:"some_multi_block_records"`
}

func TestVerifC20(t *testing.T) {
	r := vcommon.NewReport("C20", "main")
	defer r.Finish(t)
	r.Rule("case = one LogWriter run: mode (syncQueue with QueueSemChan | ExternalSyncQueueCallback), chunk format (recyclable | WAL-sync), N in {300,1000,3000,8000} (thorough also 20000, 100000) records of 1..300 bytes (some runs with 1..5KiB and 33..70KiB records), " +
		"sync probability in {1, 1/2, 1/16}, WALMinSyncInterval in {0, 20us, 1ms}, seeded yields (Gosched / short sleeps) at the three verifhook sites of log_writer.go and inside the harness file's Write/Sync, Close issued right after the last record; " +
		"one run in three arms an I/O error, sticky or transient (only that one call fails) (next Write / next Sync / next call fails, optionally after a partial write) when the producer reaches a seeded record index; in external mode the producer keeps at most W in {2,16,256,unbounded} sync requests outstanding. An evaluation = one released (or never released) sync waiter / one external callback; " +
		"distinct non-trivial = (case, configuration) of a run in which at least one waiter was released while the producer had already queued later records.")
	thorough := vcommon.Thorough()
	n := vcommon.Scale(80, 1200)
	r.Cases(n, func(ci int, rng *rand.Rand) {
		cfg := runCfg{
			Mode:      []string{"syncqueue", "external"}[rng.IntN(2)],
			WALSync:   rng.IntN(2) == 0,
			SyncProb:  []float64{1, 0.5, 1.0 / 16}[rng.IntN(3)],
			MinSyncNS: []int64{0, 0, 20000, 1000000}[rng.IntN(4)],
			SemCap:    []int{4, 32, 256}[rng.IntN(3)],
			YieldPct:  []int{0, 10, 35, 70}[rng.IntN(4)],
			FileDelay: []int{0, 20, 60}[rng.IntN(3)],
			CloseLast: rng.IntN(2) == 0,
		}
		cfg.N = []int{300, 1000, 3000, 8000}[rng.IntN(4)]
		if thorough && rng.IntN(4) == 0 {
			cfg.N = []int{20000, 100000}[rng.IntN(2)]
		}
		cfg.Window = []int{2, 16, 256, 1 << 30}[rng.IntN(4)]
		cfg.FailAtRec = -1
		cfg.BigRecords = rng.IntN(3) == 0
		if cfg.BigRecords && cfg.N > 3000 {
			cfg.N = 3000
		}
		if rng.IntN(3) == 0 {
			cfg.FailAtRec = rng.IntN(cfg.N)
			cfg.FailKind = []string{"write", "sync", "any"}[rng.IntN(3)]
			cfg.Partial = rng.IntN(2) == 0
			cfg.Transient = rng.IntN(2) == 0
		}
		if cfg.MinSyncNS >= 1000000 {
			// every sync round then takes >= 1ms and releases at most `bound`
			// waiters; keep such runs to about a second
			bound := cfg.SemCap
			if cfg.Mode == "external" {
				bound = min(cfg.Window, 4096)
			}
			if lim := int(float64(1200*bound) / cfg.SyncProb); cfg.N > lim {
				cfg.N = lim
			}
		}
		if cfg.FailAtRec >= cfg.N {
			cfg.FailAtRec = cfg.N / 2
		}
		t0 := time.Now()
		runOne(r, ci, rng, cfg)
		if d := time.Since(t0); d > 90*time.Second {
			r.Note("slow run (%.1fs): case %d %+v", d.Seconds(), ci, cfg)
		}
	})
}

func runOne(r *vcommon.Report, ci int, rng *rand.Rand, cfg runCfg) {
	hdr := 11
	if cfg.WALSync {
		hdr = 19
	}
	// seeded yield source shared by the hook and the file (own lock: they run in
	// different goroutines)
	var ymu sync.Mutex
	yrng := rand.New(rand.NewPCG(rng.Uint64(), rng.Uint64()))
	var siteCount [3]atomic.Int64
	yield := func(pct int) {
		ymu.Lock()
		v := yrng.IntN(100)
		k := 1 + yrng.IntN(4)
		sl := time.Duration(5+yrng.IntN(120)) * time.Microsecond
		ymu.Unlock()
		if v >= pct {
			return
		}
		if v%8 == 0 {
			time.Sleep(sl)
			return
		}
		for i := 0; i < k; i++ {
			runtime.Gosched()
		}
	}
	prev := verifhook.Set(func(site string) {
		switch site {
		case "logwriter.flushLoop.afterSnapshot":
			siteCount[0].Add(1)
		case "logwriter.flushPending.afterWrite":
			siteCount[1].Add(1)
		case "logwriter.flushPending.afterSync":
			siteCount[2].Add(1)
		default:
			return
		}
		yield(cfg.YieldPct)
	})
	defer verifhook.Set(prev)

	// Buffers are reused across runs: fresh multi-MB allocations under the race
	// detector cost far more (shadow-memory page faults) than the run itself.
	f := &hfile{partialOnFail: cfg.Partial, transient: cfg.Transient, data: fileBuf[:0]}
	arena := recArena[:0]
	if cfg.FileDelay > 0 {
		f.delay = func(string) { yield(cfg.FileDelay) }
	}

	var cbMu sync.Mutex
	var cbs []cbObs
	var maxCbIdx atomic.Int64
	maxCbIdx.Store(-1)
	cbSignal := make(chan struct{}, 1)
	lwc := record.LogWriterConfig{
		WriteWALSyncOffsets: func() bool { return cfg.WALSync },
	}
	if cfg.MinSyncNS > 0 {
		d := time.Duration(cfg.MinSyncNS)
		lwc.WALMinSyncInterval = func() time.Duration { return d }
	}
	var sem chan struct{}
	if cfg.Mode == "syncqueue" {
		sem = make(chan struct{}, cfg.SemCap)
		lwc.QueueSemChan = sem
	} else {
		lwc.ExternalSyncQueueCallback = func(done record.PendingSyncIndex, err error) {
			s := f.syncedLen()
			cbMu.Lock()
			cbs = append(cbs, cbObs{index: done.Index, err: err, synced: s})
			cbMu.Unlock()
			if done.Index > maxCbIdx.Load() {
				maxCbIdx.Store(done.Index)
			}
			select {
			case cbSignal <- struct{}{}:
			default:
			}
		}
	}
	lw := record.NewLogWriter(f, base.DiskFileNum(uint64(1000+ci)), lwc)

	var recs [][]byte
	var need []int64 // end of last chunk of record i (layout model)
	var syncReq []bool
	var waiters []*waiter
	var obs sync.WaitGroup
	var producerSeq atomic.Int64 // number of records fully submitted
	var inAppend atomic.Bool
	var pos int64
	var reqIdx []int
	covered := 0
	endMismatch := ""
	submitted := 0
	for i := 0; i < cfg.N; i++ {
		var sz int
		switch v := rng.IntN(100); {
		case v < 90 || !cfg.BigRecords:
			sz = 1 + rng.IntN(300)
		case v < 98:
			sz = 1000 + rng.IntN(4000)
		default:
			sz = 33000 + rng.IntN(37000)
		}
		p := mkRecord(&arena, ci, i, sz)
		wantSync := rng.Float64() < cfg.SyncProb
		if i == cfg.FailAtRec {
			f.arm(cfg.FailKind)
		}
		lce, after := layout(pos, sz, hdr)
		var end int64
		var err error
		if cfg.Mode == "syncqueue" {
			if wantSync {
				w := &waiter{idx: i, err: errNotReleased}
				w.wg.Add(1)
				sem <- struct{}{}
				obs.Add(1)
				go func() {
					defer obs.Done()
					w.wg.Wait()
					w.syncedAtRelease = f.syncedLen()
					w.duringAppend = inAppend.Load()
					w.laterQueued = producerSeq.Load() > int64(w.idx)+1
					w.relErr = w.err
				}()
				inAppend.Store(true)
				end, err = lw.SyncRecord(p, &w.wg, &w.err)
				inAppend.Store(false)
				if err != nil {
					// not accepted: the waiter was never queued
					w.forced = true
					w.wg.Done()
					<-sem
				} else {
					w.submitted = true
				}
				waiters = append(waiters, w)
			} else {
				inAppend.Store(true)
				end, err = lw.WriteRecord(p)
				inAppend.Store(false)
			}
		} else {
			ps := record.PendingSyncIndex{Index: record.NoSyncIndex}
			if wantSync {
				ps.Index = int64(i)
				// keep at most Window sync requests outstanding (the failover
				// writer bounds its queue similarly); bounded spin, never a verdict
				for waits := 0; waits < 200; waits++ {
					for covered < len(reqIdx) && int64(reqIdx[covered]) <= maxCbIdx.Load() {
						covered++
					}
					if len(reqIdx)-covered < cfg.Window {
						break
					}
					// pacing only: wait for the next callback (or 50ms)
					select {
					case <-cbSignal:
					case <-time.After(50 * time.Millisecond):
					}
				}
				reqIdx = append(reqIdx, i)
			}
			inAppend.Store(true)
			end, err = lw.SyncRecordGeneralized(p, &ps)
			inAppend.Store(false)
		}
		if err != nil {
			// the writer refuses further records after an I/O error
			r.Count("producer_stopped_by_writer_error", 1)
			break
		}
		recs = append(recs, p)
		need = append(need, lce)
		syncReq = append(syncReq, wantSync)
		submitted++
		producerSeq.Store(int64(submitted))
		if end != after && endMismatch == "" {
			endMismatch = fmt.Sprintf("record %d (%d bytes at %d): SyncRecord returned end offset %d, layout model says %d", i, sz, pos, end, after)
		}
		pos = after
		if i%64 == 0 {
			yield(cfg.YieldPct / 2)
		}
	}
	var cerr error
	lastIdx := int64(record.NoSyncIndex)
	if cfg.Mode == "external" && cfg.CloseLast && submitted > 0 {
		lastIdx = int64(submitted - 1)
		cerr = lw.CloseWithLastQueuedRecord(record.PendingSyncIndex{Index: lastIdx})
	} else {
		cerr = lw.Close()
	}
	// ---- Close has returned ----
	replay := map[string]any{"case": ci, "config": cfg, "records_submitted": submitted, "close_error": fmt.Sprint(cerr)}
	match := map[string]any{"mode": cfg.Mode}
	notReleased := 0
	for _, w := range waiters {
		if !w.submitted {
			continue
		}
		// pop writes the slot before wg.Done and before the flush loop can exit;
		// Close waited for the flush loop, so this read is ordered after it.
		if w.err == errNotReleased {
			notReleased++
			if notReleased == 1 {
				rp := copyMap(replay)
				rp["waiter_record"] = w.idx
				r.Violate("waiter-not-released-by-close", fmt.Sprintf("%s mode: Close returned (%v) but the sync waiter of record %d (of %d) was never released", cfg.Mode, cerr, w.idx, submitted), rp, match)
			}
			w.forced = true
			w.wg.Done() // free the observer goroutine; nobody else will
		}
	}
	if notReleased > 0 {
		r.Count("waiters_never_released", int64(notReleased))
	}
	obs.Wait()

	f.mu.Lock()
	data := f.data
	if cap(data) > cap(fileBuf) {
		fileBuf = data[:0]
	}
	finalSynced := f.synced
	failed, failKind, syncedAtFail := f.failed, f.failKind, f.syncedAtFail
	callsAfterFail := f.callsAfterFail
	nwrite, nsync, closed := f.nwrite, f.nsync, f.closed
	f.mu.Unlock()
	replay["file"] = map[string]any{"len": len(data), "synced": finalSynced, "failed": failed, "fail_kind": failKind, "synced_at_fail": syncedAtFail, "writes": nwrite, "syncs": nsync}

	r.SetAdd("modes", cfg.Mode)
	r.SetAdd("min_sync_interval_ns", fmt.Sprint(cfg.MinSyncNS))
	r.SetAdd("sync_probability", fmt.Sprintf("%.4f", cfg.SyncProb))
	r.Count("runs", 1)
	r.Count("records_submitted", int64(submitted))
	r.Count("file_syncs", int64(nsync))
	r.Count("file_writes", int64(nwrite))
	r.Count("yield_site_flushLoop_afterSnapshot", siteCount[0].Load())
	r.Count("yield_site_flushPending_afterWrite", siteCount[1].Load())
	r.Count("yield_site_flushPending_afterSync", siteCount[2].Load())
	if failed {
		r.Count("error_runs_where_the_failure_fired", 1)
		r.SetAdd("failed_call_kinds", failKind)
		r.Count("file_calls_after_failure", int64(callsAfterFail))
	} else if cfg.FailAtRec >= 0 {
		r.Count("error_runs_where_the_failing_call_was_never_reached", 1)
	}
	if closed != 1 {
		r.Violate("file-close-count", fmt.Sprintf("the file's Close was called %d times", closed), replay, match)
	}
	if endMismatch != "" {
		r.Violate("end-offset-mismatch", endMismatch, replay, match)
	}
	if !failed && cerr != nil {
		r.Violate("close-error-without-fault", fmt.Sprintf("Close returned %v although no fault was injected", cerr), replay, match)
	}

	concurrent := 0
	if cfg.Mode == "syncqueue" {
		for _, w := range waiters {
			if !w.submitted {
				continue
			}
			r.Eval(1)
			if w.forced {
				continue
			}
			if w.duringAppend {
				r.Count("waiters_released_while_an_append_was_in_progress", 1)
			}
			if w.laterQueued {
				concurrent++
			}
			if w.relErr != nil {
				r.Count("waiters_released_with_error", 1)
				if !failed {
					rp := copyMap(replay)
					rp["waiter_record"] = w.idx
					r.Violate("error-without-fault", fmt.Sprintf("waiter of record %d released with %v although no fault was injected", w.idx, w.relErr), rp, match)
				}
				continue
			}
			r.Count("waiters_released_ok", 1)
			if int64(w.syncedAtRelease) < need[w.idx] {
				rp := copyMap(replay)
				rp["waiter_record"], rp["record_last_chunk_end"], rp["synced_at_release"] = w.idx, need[w.idx], w.syncedAtRelease
				cls := "released-before-synced"
				if failed && need[w.idx] > int64(finalSynced) {
					cls = "error-not-delivered"
				}
				r.Violate(cls, fmt.Sprintf("syncqueue mode: waiter of record %d released with nil error while the file's synced prefix was %d bytes; the record's last chunk ends at %d (final synced length %d, fault fired: %v)",
					w.idx, w.syncedAtRelease, need[w.idx], finalSynced, failed), rp, match)
			}
		}
		r.Count("waiters_released_with_later_records_already_queued", int64(concurrent))
	} else {
		// external mode
		cbMu.Lock()
		obsv := cbs
		cbMu.Unlock()
		r.Count("external_callbacks", int64(len(obsv)))
		var prevIdx int64 = -1
		for _, o := range obsv {
			r.Eval(1)
			if o.index < prevIdx {
				r.Count("external_callback_index_went_backwards", 1)
			}
			prevIdx = o.index
			if o.index < 0 || o.index >= int64(submitted) {
				r.Violate("callback-unknown-index", fmt.Sprintf("callback for index %d, %d records submitted", o.index, submitted), replay, match)
				continue
			}
			if o.index < int64(submitted)-1 {
				concurrent++
			}
			if o.err != nil {
				r.Count("callbacks_with_error", 1)
				if !failed {
					r.Violate("error-without-fault", fmt.Sprintf("callback(index %d) got %v although no fault was injected", o.index, o.err), replay, match)
				}
				continue
			}
			r.Count("callbacks_ok", 1)
			if int64(o.synced) < need[o.index] {
				rp := copyMap(replay)
				rp["callback_index"], rp["record_last_chunk_end"], rp["synced_in_callback"] = o.index, need[o.index], o.synced
				cls := "released-before-synced"
				if failed && need[o.index] > int64(finalSynced) {
					cls = "error-not-delivered"
				}
				r.Violate(cls, fmt.Sprintf("external mode: callback(index %d, nil) ran while the file's synced prefix was %d bytes; record %d's last chunk ends at %d (final synced length %d, fault fired: %v)",
					o.index, o.synced, o.index, need[o.index], finalSynced, failed), rp, match)
			}
		}
		r.Count("callbacks_with_later_records_already_queued", int64(concurrent))
		// every sync-requested index must be covered by a callback with index >= it
		maxCb := int64(-1)
		for _, o := range obsv {
			maxCb = max(maxCb, o.index)
		}
		for i := submitted - 1; i >= 0; i-- {
			if syncReq[i] {
				if int64(i) > maxCb {
					rp := copyMap(replay)
					rp["highest_sync_requested_index"], rp["highest_callback_index"] = i, maxCb
					r.Violate("waiter-not-released-by-close", fmt.Sprintf("external mode: Close returned (%v) but no callback covered sync-requested record %d (highest callback index %d)", cerr, i, maxCb), rp, match)
				}
				break
			}
		}
	}
	if concurrent > 0 {
		r.Distinct(ci, fmt.Sprintf("%+v", cfg))
	}

	// content: what the file received parses to the produced records
	rd := record.NewReader(bytes.NewReader(data), base.DiskFileNum(uint64(1000+ci)))
	k := 0
	var rerr error
	var buf bytes.Buffer
	for {
		rr, err := rd.Next()
		if err != nil {
			rerr = err
			break
		}
		buf.Reset()
		if _, err := io.Copy(&buf, rr); err != nil {
			rerr = err
			break
		}
		if k >= len(recs) || !bytes.Equal(buf.Bytes(), recs[k]) {
			r.Violate("log-content-mismatch", fmt.Sprintf("record #%d read back from the file (%d bytes) is not record #%d produced", k, buf.Len(), k), replay, match)
			rerr = nil
			break
		}
		k++
	}
	r.Count("records_read_back", int64(k))
	if !failed && (k != len(recs) || rerr != io.EOF) {
		r.Violate("log-content-mismatch", fmt.Sprintf("no fault injected, but the file reads back %d of %d records and ends with %v", k, len(recs), rerr), replay, match)
	}
	// the synced prefix must contain, completely, every record acknowledged as synced
	if cfg.Mode == "syncqueue" {
		for _, w := range waiters {
			if w.submitted && !w.forced && w.relErr == nil && w.idx >= k {
				rp := copyMap(replay)
				rp["waiter_record"] = w.idx
				r.Violate("acknowledged-record-not-in-file", fmt.Sprintf("record %d was acknowledged as synced but the file only holds %d complete records", w.idx, k), rp, match)
				break
			}
		}
	}
	if r.WantSample() {
		r.Sample(map[string]any{"case": ci, "config": cfg, "waiters": len(waiters), "callbacks": len(cbs), "file_syncs": nsync, "released_with_later_records_queued": concurrent})
	}
}

func copyMap(m map[string]any) map[string]any {
	o := make(map[string]any, len(m)+4)
	for k, v := range m {
		o[k] = v
	}
	return o
}
