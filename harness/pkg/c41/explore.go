package c41

import (
	"fmt"
	"math/rand/v2"
	"sort"
	"strings"
	"sync"
)

// Script: serial setup, then one call list per provider that race.
type Script struct {
	Name  string `json:"name"`
	NProv int    `json:"nprov"`
	Setup []Op   `json:"setup"`
	Racy  [][]Op `json:"racy"`
}

// Execution is everything observed in one run of a script under one schedule.
type Execution struct {
	Script   *Script
	Schedule []int // actor released at each step (controlled mode)
	Log      []Event
	Calls    []*CallRec
	Injected bool
	InjProv  int
	InjOrd   int
	// quiescence
	ReadErrs  map[string]string // "P2/f10" -> error
	OpenRefs  []string          // references still held at quiescence
	FinalList []string
	BlobName  map[string]string
	Mode      string
}

type frame struct {
	enabled []int
	ops     map[int]pend
	sleep   map[int]pend
	chosen  int
	forced  bool
}

func (f *frame) nextCandidate() int {
	for _, a := range f.enabled {
		if a > f.chosen {
			if _, s := f.sleep[a]; !s {
				return a
			}
		}
	}
	return -1
}

// childSleep computes the sleep set of the node reached by taking f.chosen.
func (f *frame) childSleep(por bool) map[int]pend {
	out := map[int]pend{}
	if !por {
		return out
	}
	t := f.ops[f.chosen]
	for a, op := range f.sleep {
		if independent(op, t) {
			out[a] = op
		}
	}
	for _, a := range f.enabled {
		if a >= f.chosen {
			break
		}
		if _, s := f.sleep[a]; s {
			continue
		}
		if independent(f.ops[a], t) {
			out[a] = f.ops[a]
		}
	}
	return out
}

type runStatus int

const (
	stComplete runStatus = iota
	stBlocked            // every enabled actor is in the sleep set (redundant interleaving)
	stInvalidPrefix
	stNondeterministic
	stStuck // harness guard fired
)

// chooser decides which parked actor to release at step i. It returns -1 to
// stop (blocked / invalid).
type chooser func(i int, enabled []int, ops map[int]pend) (int, runStatus)

// execute runs the script once. choose drives the controlled phase; mode
// modeFree runs the racy phase with real concurrency instead.
func execute(s *Script, mode int, injProv, injOrd int, choose chooser) (*Execution, runStatus, error) {
	w, err := newWorld(s.NProv)
	if err != nil {
		return nil, stStuck, err
	}
	for _, op := range s.Setup {
		w.runOp(op)
	}
	ex := &Execution{Script: s, InjProv: injProv, InjOrd: injOrd, ReadErrs: map[string]string{}}
	status := stComplete

	w.phase = "race"
	w.injProv, w.injOrd = injProv, injOrd
	if mode == modeFree {
		ex.Mode = "free"
		w.mode = modeFree
		var wg sync.WaitGroup
		for a := 0; a < s.NProv; a++ {
			wg.Add(1)
			go func(a int) {
				defer wg.Done()
				for _, op := range s.Racy[a] {
					w.runOp(op)
				}
			}(a)
		}
		wg.Wait()
	} else {
		ex.Mode = "controlled"
		w.mode = modeControlled
		running := 0
		actor := func(a int) {
			for _, op := range s.Racy[a] {
				w.runOp(op)
			}
			w.notify <- note{prov: a, done: true}
		}
		// Start the actors one at a time; each runs up to its first storage call.
		for a := 0; a < s.NProv; a++ {
			go actor(a)
			n, ok := w.waitNote()
			if !ok {
				return nil, stStuck, fmt.Errorf("actor %d never reached a storage call", a)
			}
			if !n.done {
				w.parked[n.prov] = true
				running++
			}
		}
		drain := func() error {
			w.mode = modeDrain
			for a := 0; a < s.NProv; a++ {
				if w.parked[a] {
					w.parked[a] = false
					w.gates[a] <- struct{}{}
				}
			}
			for running > 0 {
				n, ok := w.waitNote()
				if !ok {
					return fmt.Errorf("drain: actors did not finish")
				}
				if n.done {
					running--
				}
			}
			return nil
		}
		for step := 0; running > 0; step++ {
			var enabled []int
			ops := map[int]pend{}
			for a := 0; a < s.NProv; a++ {
				if w.parked[a] {
					enabled = append(enabled, a)
					ops[a] = w.pending[a]
				}
			}
			a, st := choose(step, enabled, ops)
			if a < 0 {
				status = st
				if err := drain(); err != nil {
					return nil, stStuck, err
				}
				break
			}
			ex.Schedule = append(ex.Schedule, a)
			w.parked[a] = false
			w.gates[a] <- struct{}{}
			// Exactly one actor runs now; wait until it parks again or finishes.
			n, ok := w.waitNote()
			if !ok {
				return nil, stStuck, fmt.Errorf("released actor %d neither parked nor finished (script %s, schedule %v)", a, s.Name, ex.Schedule)
			}
			if n.prov != a {
				return nil, stStuck, fmt.Errorf("notification from actor %d while only %d was released", n.prov, a)
			}
			if n.done {
				running--
			} else {
				w.parked[a] = true
			}
		}
	}

	// quiescence
	w.mode = modeSerial
	w.phase = "quiesce"
	ex.Injected = w.injected
	if status == stComplete {
		for p := 0; p < s.NProv; p++ {
			var fns []int
			for f := range w.holds[p] {
				fns = append(fns, f)
			}
			sort.Ints(fns)
			for _, f := range fns {
				k := fmt.Sprintf("P%d/f%d", p+1, f)
				ex.OpenRefs = append(ex.OpenRefs, k)
				if err := w.readBack(p, f, w.fileObj[p][f]); err != nil {
					ex.ReadErrs[k] = err.Error()
				}
			}
		}
		fl, _ := w.inner.List("", "")
		sort.Strings(fl)
		ex.FinalList = fl
	}
	w.closeAll()
	ex.Log, ex.Calls, ex.BlobName = w.log, w.calls, w.blobName
	return ex, status, nil
}

// Finding is one oracle alarm.
type Finding struct {
	Class  string
	Detail string
	Match  map[string]any
}

// holderInterval: provider Prov references object Obj (as FileNum) for storage
// events with Begin < idx < End.
type holderInterval struct {
	Prov, FileNum int
	Obj           string
	How           string // created | attached
	Begin, End    int
	Call          int
}

const inf = int(^uint(0) >> 1)

// judge is the conservation oracle over the merged log.
func judge(ex *Execution) (findings []Finding, facts map[string]int64) {
	facts = map[string]int64{}
	// reference intervals
	var ivs []holderInterval
	for _, c := range ex.Calls {
		if (c.Type != "create" && c.Type != "attach") || !c.OK {
			continue
		}
		how := "created"
		if c.Type == "attach" {
			how = "attached"
		}
		iv := holderInterval{Prov: c.Prov, FileNum: c.FileNum, Obj: c.Obj, How: how, Begin: c.LastOp, End: inf, Call: c.ID}
		if c.LastOp < 0 {
			iv.Begin = c.InvokeSeq - 1
		}
		// The reference ends when the provider starts removing it. The call's
		// first storage operation is the latest instant the invocation can be
		// placed at (nothing observable happens between the two), which is the
		// strictest choice for the provider that deletes the blob.
		for _, r := range ex.Calls {
			if r.Type == "remove" && r.Prov == c.Prov && r.FileNum == c.FileNum && r.ID > c.ID {
				if r.FirstOp >= 0 {
					iv.End = r.FirstOp
				} else {
					iv.End = r.InvokeSeq
				}
				break
			}
		}
		ivs = append(ivs, iv)
	}
	blobOf := map[string]string{} // blob name -> object label
	for obj, b := range ex.BlobName {
		blobOf[b] = obj
	}
	deletedAt := map[string]int{} // object label -> idx of the effective delete
	for _, ev := range ex.Log {
		switch ev.Kind {
		case "PUT":
			facts["storage_put"]++
		case "DEL":
			facts["storage_delete"]++
		case "LIST":
			facts["storage_list"]++
		case "SIZE":
			facts["storage_size"]++
		case "READ", "READAT":
			facts["storage_read"]++
		}
		obj, isBlob := blobOf[ev.Key]
		if ev.Kind != "DEL" || !isBlob || ev.Res != "ok" || !ev.Existed {
			continue
		}
		facts["blob_delete_events"]++
		if ev.Phase == "race" {
			facts["blob_deleted_during_race"]++
		}
		if _, dup := deletedAt[obj]; !dup {
			deletedAt[obj] = ev.Idx
		}
		deleter := "remove"
		if c := callOf(ex, ev.Call); c != nil && c.Type == "attach" {
			deleter = "failed-attach-cleanup"
		}
		for _, iv := range ivs {
			if iv.Obj == obj && iv.Begin < ev.Idx && ev.Idx < iv.End {
				findings = append(findings, Finding{
					Class: "blob-deleted-while-referenced",
					Detail: fmt.Sprintf("%s: blob %s deleted at event #%d by P%d (%s) while P%d still holds it as file %d (%s, reference since event #%d)",
						ex.Script.Name, ev.Key, ev.Idx, ev.Prov+1, deleter, iv.Prov+1, iv.FileNum, iv.How, iv.Begin),
					Match: map[string]any{"class": "blob-deleted-while-referenced", "holder": iv.How, "deleter": deleter, "script": ex.Script.Name},
				})
			}
		}
	}
	for _, c := range ex.Calls {
		if c.Type != "attach" || c.Skipped {
			continue
		}
		if c.Phase == "race" {
			if c.OK {
				facts["race_attach_ok"]++
			} else {
				facts["race_attach_failed"]++
			}
		}
		if !c.OK {
			// informational: a failure although the origin kept its reference throughout
			continue
		}
		if d, gone := deletedAt[c.Obj]; gone && d <= c.LastOp {
			findings = append(findings, Finding{
				Class: "attach-succeeded-on-deleted-blob",
				Detail: fmt.Sprintf("%s: P%d AttachRemoteObjects(file %d from %s) returned success at event #%d but the blob was deleted at event #%d",
					ex.Script.Name, c.Prov+1, c.FileNum, c.From, c.LastOp, d),
				Match: map[string]any{"class": "attach-succeeded-on-deleted-blob", "script": ex.Script.Name},
			})
		}
	}
	// quiescence: every live reference must be readable
	keys := make([]string, 0, len(ex.ReadErrs))
	for k := range ex.ReadErrs {
		keys = append(keys, k)
	}
	sort.Strings(keys)
	for _, k := range keys {
		findings = append(findings, Finding{
			Class:  "live-reference-unreadable",
			Detail: fmt.Sprintf("%s: at quiescence %s is a successful, un-removed reference but reading it failed: %s", ex.Script.Name, k, ex.ReadErrs[k]),
			Match:  map[string]any{"class": "live-reference-unreadable", "script": ex.Script.Name},
		})
	}
	facts["quiescent_live_references_read"] = int64(len(ex.OpenRefs))
	if len(ex.OpenRefs) == 0 && !ex.Injected && len(ex.FinalList) > 0 {
		facts["executions_with_leftover_objects"]++
	}
	if len(ex.OpenRefs) == 0 && len(ex.FinalList) == 0 {
		facts["executions_ending_clean"]++
	}
	return findings, facts
}

func callOf(ex *Execution, id int) *CallRec {
	if id < 0 || id >= len(ex.Calls) {
		return nil
	}
	return ex.Calls[id]
}

// interleaved reports whether some call of one provider had a storage call of
// another provider between its first and last storage call.
func interleaved(ex *Execution) bool {
	for _, c := range ex.Calls {
		if c.Phase != "race" || c.FirstOp < 0 {
			continue
		}
		for i := c.FirstOp + 1; i < c.LastOp; i++ {
			if ex.Log[i].Prov != c.Prov {
				return true
			}
		}
	}
	return false
}

// outcome is the schedule-independent summary used to compare enumerations.
func outcome(ex *Execution) string {
	var b strings.Builder
	for _, c := range ex.Calls {
		if c.Phase == "race" {
			fmt.Fprintf(&b, "P%d.%s.f%d=%v;", c.Prov+1, c.Type, c.FileNum, c.OK)
		}
	}
	// calls of different providers are appended in schedule order: sort
	parts := strings.Split(b.String(), ";")
	sort.Strings(parts)
	return strings.Join(parts, ";") + "|" + strings.Join(ex.FinalList, ",") + "|" + strings.Join(ex.OpenRefs, ",")
}

// Enumerator explores the schedules of one script by depth-first search with
// re-execution. por=false: every interleaving of storage calls. por=true:
// sleep sets over the independence relation (at least one interleaving of every
// equivalence class, redundant ones cut).
type Enumerator struct {
	Script  *Script
	POR     bool
	Prefix  []int
	InjProv int
	InjOrd  int
	MaxExec int
	// OnExec is called for every complete execution.
	OnExec func(ex *Execution)

	Complete  int
	Blocked   int
	Truncated bool
	Invalid   bool
	Err       error
}

func sameInts(a, b []int) bool {
	if len(a) != len(b) {
		return false
	}
	for i := range a {
		if a[i] != b[i] {
			return false
		}
	}
	return true
}

// Run explores the subtree of schedules below Prefix.
func (e *Enumerator) Run() {
	var stack []frame
	for {
		depth := 0
		choose := func(i int, enabled []int, ops map[int]pend) (int, runStatus) {
			depth = i + 1
			if i < len(stack) {
				f := &stack[i]
				if !sameInts(f.enabled, enabled) {
					return -1, stNondeterministic
				}
				for _, a := range enabled {
					if f.ops[a] != ops[a] {
						return -1, stNondeterministic
					}
				}
				return f.chosen, stComplete
			}
			f := frame{enabled: append([]int(nil), enabled...), ops: ops}
			if i == 0 {
				f.sleep = map[int]pend{}
			} else {
				f.sleep = stack[i-1].childSleep(e.POR)
			}
			if i < len(e.Prefix) {
				f.forced = true
				f.chosen = e.Prefix[i]
				ok := false
				for _, a := range enabled {
					ok = ok || a == f.chosen
				}
				if !ok {
					return -1, stInvalidPrefix
				}
				if _, s := f.sleep[f.chosen]; s {
					return -1, stInvalidPrefix // cut by the sleep set of an earlier sibling
				}
			} else {
				f.chosen = -1
				if c := f.nextCandidate(); c >= 0 {
					f.chosen = c
				} else {
					return -1, stBlocked
				}
			}
			stack = append(stack, f)
			return f.chosen, stComplete
		}
		ex, st, err := execute(e.Script, modeControlled, e.InjProv, e.InjOrd, choose)
		if err != nil {
			e.Err = err
			return
		}
		switch st {
		case stComplete:
			if depth < len(e.Prefix) && len(stack) < len(e.Prefix) {
				// the execution ended before the prefix did: it belongs to the
				// prefix padded with zeros only
				for _, p := range e.Prefix[len(stack):] {
					if p != 0 {
						e.Invalid = true
						return
					}
				}
			}
			e.Complete++
			if e.OnExec != nil {
				e.OnExec(ex)
			}
		case stBlocked:
			e.Blocked++
		case stInvalidPrefix:
			e.Invalid = true
			return
		case stNondeterministic:
			e.Err = fmt.Errorf("replay of schedule prefix diverged (non-deterministic actor) in script %s", e.Script.Name)
			return
		}
		if e.MaxExec > 0 && e.Complete+e.Blocked >= e.MaxExec {
			e.Truncated = true
			return
		}
		// backtrack
		for len(stack) > 0 {
			f := &stack[len(stack)-1]
			if f.forced {
				return
			}
			if c := f.nextCandidate(); c >= 0 {
				f.chosen = c
				break
			}
			stack = stack[:len(stack)-1]
		}
		if len(stack) == 0 {
			return
		}
	}
}

// randomWalk runs one execution under a seeded random chooser.
func randomWalk(s *Script, rng *rand.Rand, injProv, injOrd int) (*Execution, error) {
	// PCT-flavoured: occasionally keep running the same actor for a while.
	last, stick := -1, 0
	ex, _, err := execute(s, modeControlled, injProv, injOrd, func(i int, enabled []int, ops map[int]pend) (int, runStatus) {
		if stick > 0 {
			for _, a := range enabled {
				if a == last {
					stick--
					return a, stComplete
				}
			}
		}
		a := enabled[rng.IntN(len(enabled))]
		last = a
		if rng.IntN(4) == 0 {
			stick = rng.IntN(4)
		}
		return a, stComplete
	})
	return ex, err
}
