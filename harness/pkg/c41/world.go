// Package c41 checks C41: shared remote objects are deleted only when no
// provider references them.
//
// world.go: the recording remote.Storage wrapper that is also the controlled
// scheduler, and the client-boundary log of provider calls.
package c41

import (
	"context"
	"errors"
	"fmt"
	"io"
	"runtime"
	"sort"
	"strings"
	"sync"
	"time"

	"github.com/cockroachdb/pebble/internal/base"
	"github.com/cockroachdb/pebble/objstorage"
	"github.com/cockroachdb/pebble/objstorage/objstorageprovider"
	"github.com/cockroachdb/pebble/objstorage/remote"
	"github.com/cockroachdb/pebble/vfs"
)

const (
	modeSerial     = iota // setup / quiescence: calls run one after the other, no parking
	modeControlled        // every storage call parks; the chooser releases exactly one actor
	modeDrain             // abandon control: parked actors are released and run to the end
	modeFree              // real goroutine concurrency; storage calls linearised by a mutex
)

// Event is one storage call in the total order.
type Event struct {
	Idx     int      `json:"idx"`
	Prov    int      `json:"prov"`
	Call    int      `json:"call"`
	Kind    string   `json:"kind"` // PUT DEL LIST SIZE READ READAT
	Key     string   `json:"key"`
	Res     string   `json:"res"`               // ok | notexist | err | injected
	Existed bool     `json:"existed,omitempty"` // DEL: the key existed
	List    []string `json:"list,omitempty"`
	Phase   string   `json:"phase"`
}

func (e Event) String() string {
	s := fmt.Sprintf("#%d P%d c%d %s %s -> %s", e.Idx, e.Prov+1, e.Call, e.Kind, e.Key, e.Res)
	if e.Kind == "LIST" {
		s += fmt.Sprintf(" %v", e.List)
	}
	if e.Kind == "DEL" && e.Existed {
		s += " (existed)"
	}
	return s
}

// CallRec is one provider-level call at the client boundary.
type CallRec struct {
	ID        int    `json:"id"`
	Prov      int    `json:"prov"`
	Type      string `json:"type"` // create attach remove read
	Obj       string `json:"obj"`
	FileNum   int    `json:"file_num"`
	From      string `json:"from,omitempty"`
	Phase     string `json:"phase"`
	InvokeSeq int    `json:"invoke_seq"`
	ReturnSeq int    `json:"return_seq"`
	FirstOp   int    `json:"first_op"`
	LastOp    int    `json:"last_op"`
	OK        bool   `json:"ok"`
	Err       string `json:"err,omitempty"`
	Skipped   bool   `json:"skipped,omitempty"`
}

type pend struct {
	Kind, Key string
}

func (p pend) isBlobDelete() bool { return p.Kind == "DEL" && !strings.Contains(p.Key, ".ref.") }
func (p pend) isWrite() bool      { return p.Kind == "PUT" || p.Kind == "DEL" }
func (p pend) touches(key string) bool {
	if p.Kind == "LIST" {
		return strings.HasPrefix(key, p.Key)
	}
	return p.Key == key
}

// independent: the two pending storage calls (of different actors) commute with
// respect to the store AND to the oracle. Deleting a blob is ordered against
// everything because the oracle compares its position with the begin/end of
// reference intervals.
func independent(a, b pend) bool {
	if a.isBlobDelete() || b.isBlobDelete() {
		return false
	}
	if !a.isWrite() && !b.isWrite() {
		return true
	}
	if a.isWrite() && b.touches(a.Key) {
		return false
	}
	if b.isWrite() && a.touches(b.Key) {
		return false
	}
	return true
}

type note struct {
	prov int
	done bool
}

var errInjected = errors.New("verif: injected remote storage error")

type world struct {
	mu    sync.Mutex
	inner remote.Storage
	mode  int
	phase string
	log   []Event
	calls []*CallRec

	nprov    int
	provs    []objstorage.Provider
	curCall  []int
	notify   chan note
	gates    []chan struct{}
	pending  []pend
	parked   []bool
	opCount  []int // storage calls made by each provider in the racy phase
	injProv  int   // -1: none
	injOrd   int
	injected bool

	payload  map[string][]byte // object label -> bytes
	blobName map[string]string // object label -> blob name in the store
	backings map[string]objstorage.RemoteObjectBacking
	backObj  map[string]string // backing name -> object label
	holds    []map[int]bool    // per provider: file numbers it currently knows
	fileObj  []map[int]string  // per provider: file number -> object label
}

// provStorage is the remote.Storage one provider sees.
type provStorage struct {
	w    *world
	prov int
}

var _ remote.Storage = (*provStorage)(nil)

// step performs one storage call under the current scheduling mode.
func (w *world) step(prov int, kind, key string, exec func() (existed bool, list []string, err error)) error {
	switch w.mode {
	case modeControlled:
		w.pending[prov] = pend{kind, key}
		w.notify <- note{prov: prov}
		<-w.gates[prov]
	case modeFree:
		runtime.Gosched()
	}
	w.mu.Lock()
	defer w.mu.Unlock()
	ev := Event{Idx: len(w.log), Prov: prov, Call: w.curCall[prov], Kind: kind, Key: key, Phase: w.phase}
	var err error
	if w.phase == "race" {
		ord := w.opCount[prov]
		w.opCount[prov]++
		if prov == w.injProv && ord == w.injOrd {
			w.injected = true
			ev.Res = "injected"
			err = errInjected
		}
	}
	if err == nil {
		var existed bool
		var list []string
		existed, list, err = exec()
		ev.Existed, ev.List = existed, list
		switch {
		case err == nil:
			ev.Res = "ok"
		case w.inner.IsNotExistError(err):
			ev.Res = "notexist"
		default:
			ev.Res = "err"
		}
	}
	if c := w.callByID(ev.Call); c != nil {
		if c.FirstOp < 0 {
			c.FirstOp = ev.Idx
		}
		c.LastOp = ev.Idx
	}
	w.log = append(w.log, ev)
	return err
}

func (w *world) callByID(id int) *CallRec {
	if id < 0 || id >= len(w.calls) {
		return nil
	}
	return w.calls[id]
}

func (s *provStorage) Close() error { return nil }

func (s *provStorage) IsNotExistError(err error) bool { return s.w.inner.IsNotExistError(err) }

type recReader struct {
	s    *provStorage
	name string
	r    remote.ObjectReader
}

func (r *recReader) ReadAt(ctx context.Context, p []byte, off int64) error {
	return r.s.w.step(r.s.prov, "READAT", r.name, func() (bool, []string, error) {
		return false, nil, r.r.ReadAt(ctx, p, off)
	})
}
func (r *recReader) Close() error { return r.r.Close() }

func (s *provStorage) ReadObject(ctx context.Context, name string) (remote.ObjectReader, int64, error) {
	var rd remote.ObjectReader
	var size int64
	err := s.w.step(s.prov, "READ", name, func() (bool, []string, error) {
		var err error
		rd, size, err = s.w.inner.ReadObject(ctx, name)
		return false, nil, err
	})
	if err != nil {
		return nil, 0, err
	}
	return &recReader{s: s, name: name, r: rd}, size, nil
}

// recWriter: with the in-memory store the object becomes visible when the
// writer is closed, so Close is the storage call (and the scheduling point).
type recWriter struct {
	s      *provStorage
	name   string
	w      io.WriteCloser
	closed bool
}

func (r *recWriter) Write(p []byte) (int, error) { return r.w.Write(p) }
func (r *recWriter) Close() error {
	if r.closed {
		return nil
	}
	r.closed = true
	return r.s.w.step(r.s.prov, "PUT", r.name, func() (bool, []string, error) {
		return false, nil, r.w.Close()
	})
}

func (s *provStorage) CreateObject(name string) (io.WriteCloser, error) {
	iw, err := s.w.inner.CreateObject(name)
	if err != nil {
		return nil, err
	}
	return &recWriter{s: s, name: name, w: iw}, nil
}

func (s *provStorage) List(prefix, delimiter string) ([]string, error) {
	var out []string
	err := s.w.step(s.prov, "LIST", prefix, func() (bool, []string, error) {
		l, err := s.w.inner.List(prefix, delimiter)
		out = l
		c := append([]string(nil), l...)
		sort.Strings(c)
		return false, c, err
	})
	return out, err
}

func (s *provStorage) Delete(name string) error {
	return s.w.step(s.prov, "DEL", name, func() (bool, []string, error) {
		_, serr := s.w.inner.Size(name)
		return serr == nil, nil, s.w.inner.Delete(name)
	})
}

func (s *provStorage) Size(name string) (int64, error) {
	var n int64
	err := s.w.step(s.prov, "SIZE", name, func() (bool, []string, error) {
		var err error
		n, err = s.w.inner.Size(name)
		return false, nil, err
	})
	return n, err
}

type factory struct{ s *provStorage }

func (f factory) CreateStorage(remote.Locator) (remote.Storage, error) { return f.s, nil }

type quietLogger struct{}

func (quietLogger) Infof(string, ...interface{})  {}
func (quietLogger) Errorf(string, ...interface{}) {}
func (quietLogger) Fatalf(f string, a ...interface{}) {
	panic(fmt.Sprintf(f, a...))
}

var _ base.Logger = quietLogger{}

func newWorld(nprov int) (*world, error) {
	w := &world{inner: remote.NewInMem(), nprov: nprov, mode: modeSerial, phase: "setup", injProv: -1,
		payload: map[string][]byte{}, blobName: map[string]string{}, backings: map[string]objstorage.RemoteObjectBacking{},
		backObj: map[string]string{}}
	w.curCall = make([]int, nprov)
	w.pending = make([]pend, nprov)
	w.parked = make([]bool, nprov)
	w.opCount = make([]int, nprov)
	w.gates = make([]chan struct{}, nprov)
	w.notify = make(chan note, nprov)
	for i := 0; i < nprov; i++ {
		w.curCall[i] = -1
		w.gates[i] = make(chan struct{}, 1)
		w.holds = append(w.holds, map[int]bool{})
		w.fileObj = append(w.fileObj, map[int]string{})
		st := objstorageprovider.DefaultSettings(vfs.NewMem(), "")
		st.Logger = quietLogger{}
		st.Remote.StorageFactory = factory{&provStorage{w: w, prov: i}}
		st.Remote.CreateOnShared = remote.CreateOnSharedAll
		st.Remote.CreateOnSharedLocator = remote.MakeLocator("")
		p, err := objstorageprovider.Open(st)
		if err != nil {
			return nil, err
		}
		if err := p.SetCreatorID(objstorage.CreatorID(i + 1)); err != nil {
			return nil, err
		}
		w.provs = append(w.provs, p)
	}
	return w, nil
}

func (w *world) closeAll() {
	for _, p := range w.provs {
		_ = p.Close()
	}
}

// Op is one provider-level call of a script.
type Op struct {
	Type    string `json:"type"` // create | backing | attach | remove
	Prov    int    `json:"prov"`
	Obj     string `json:"obj,omitempty"`  // create: object label
	FileNum int    `json:"file_num"`       // local file number
	From    string `json:"from,omitempty"` // attach: backing name
	Save    string `json:"save,omitempty"` // backing: name to store it under
}

func fileTypeOf(obj string) base.FileType {
	if strings.HasSuffix(obj, "b") {
		return base.FileTypeBlob
	}
	return base.FileTypeTable
}

func payloadFor(obj string) []byte {
	b := make([]byte, 96)
	for i := range b {
		b[i] = byte(i*7 + len(obj)*13 + int(obj[0]))
	}
	return b
}

func (w *world) beginCall(op Op) *CallRec {
	w.mu.Lock()
	defer w.mu.Unlock()
	c := &CallRec{ID: len(w.calls), Prov: op.Prov, Type: op.Type, Obj: op.Obj, FileNum: op.FileNum, From: op.From,
		Phase: w.phase, InvokeSeq: len(w.log), FirstOp: -1, LastOp: -1}
	w.calls = append(w.calls, c)
	w.curCall[op.Prov] = c.ID
	return c
}

func (w *world) endCall(c *CallRec, err error) {
	w.mu.Lock()
	defer w.mu.Unlock()
	c.ReturnSeq = len(w.log)
	c.OK = err == nil
	if err != nil {
		c.Err = err.Error()
	}
	w.curCall[c.Prov] = -1
}

// runOp executes one provider-level call on the real provider.
func (w *world) runOp(op Op) {
	ctx := context.Background()
	p := w.provs[op.Prov]
	fn := base.DiskFileNum(op.FileNum)
	switch op.Type {
	case "create":
		c := w.beginCall(op)
		ft := fileTypeOf(op.Obj)
		data := payloadFor(op.Obj)
		w.payload[op.Obj] = data
		wr, _, err := p.Create(ctx, ft, fn, objstorage.CreateOptions{PreferSharedStorage: true, SharedCleanupMethod: objstorage.SharedRefTracking})
		if err == nil {
			if err = wr.Write(append([]byte(nil), data...)); err == nil {
				err = wr.Finish()
			} else {
				wr.Abort()
			}
		}
		if err == nil {
			w.holds[op.Prov][op.FileNum] = true
			w.fileObj[op.Prov][op.FileNum] = op.Obj
			// the blob name is the first non-marker object this call PUT
			w.mu.Lock()
			for _, ev := range w.log {
				if ev.Call == c.ID && ev.Kind == "PUT" && !strings.Contains(ev.Key, ".ref.") {
					w.blobName[op.Obj] = ev.Key
				}
			}
			w.mu.Unlock()
		}
		w.endCall(c, err)
	case "backing":
		obj := w.fileObj[op.Prov][op.FileNum]
		meta, err := p.Lookup(fileTypeOf(obj), fn)
		if err != nil {
			return
		}
		h, err := p.RemoteObjectBacking(&meta)
		if err != nil {
			return
		}
		b, err := h.Get()
		if err == nil {
			w.backings[op.Save] = append(objstorage.RemoteObjectBacking(nil), b...)
			w.backObj[op.Save] = obj
		}
		// The handle is closed right away: the bytes travel to the other node,
		// and the source is then free to drop the object (an open handle would
		// make Remove a no-op for the reference).
		h.Close()
	case "attach":
		obj := w.backObj[op.From]
		op.Obj = obj
		c := w.beginCall(op)
		b, ok := w.backings[op.From]
		var err error
		if !ok {
			err = errors.New("verif: backing not available")
			c.Skipped = true
		} else {
			_, err = p.AttachRemoteObjects([]objstorage.RemoteObjectToAttach{{FileNum: fn, FileType: fileTypeOf(obj), Backing: b}})
		}
		if err == nil {
			w.holds[op.Prov][op.FileNum] = true
			w.fileObj[op.Prov][op.FileNum] = obj
		}
		w.endCall(c, err)
	case "remove":
		if !w.holds[op.Prov][op.FileNum] {
			// the attach this remove belongs to failed: nothing to remove
			return
		}
		obj := w.fileObj[op.Prov][op.FileNum]
		op.Obj = obj
		c := w.beginCall(op)
		err := p.Remove(fileTypeOf(obj), fn)
		delete(w.holds[op.Prov], op.FileNum)
		w.endCall(c, err)
	}
}

// readBack opens and reads an object through the provider (quiescence check).
func (w *world) readBack(prov, fileNum int, obj string) error {
	op := Op{Type: "read", Prov: prov, FileNum: fileNum, Obj: obj}
	c := w.beginCall(op)
	err := func() error {
		ctx := context.Background()
		r, err := w.provs[prov].OpenForReading(ctx, fileTypeOf(obj), base.DiskFileNum(fileNum), objstorage.OpenOptions{MustExist: true})
		if err != nil {
			return fmt.Errorf("OpenForReading: %w", err)
		}
		defer r.Close()
		want := w.payload[obj]
		if r.Size() != int64(len(want)) {
			return fmt.Errorf("size %d, want %d", r.Size(), len(want))
		}
		buf := make([]byte, len(want))
		if err := r.ReadAt(ctx, buf, 0); err != nil {
			return fmt.Errorf("ReadAt: %w", err)
		}
		if string(buf) != string(want) {
			return errors.New("content differs from what the creator wrote")
		}
		return nil
	}()
	w.endCall(c, err)
	return err
}

// waitNote waits for the next notification of an actor. The timeout is only a
// harness guard (verdict: inconclusive), never part of an oracle.
func (w *world) waitNote() (note, bool) {
	select {
	case n := <-w.notify:
		return n, true
	case <-time.After(60 * time.Second):
		return note{}, false
	}
}
