// C41: shared remote objects are deleted only when no provider references them.
//
// 2-3 real objstorageprovider instances (creator ids 1..3, own MemFS catalogs)
// share one remote.NewInMem store through a recording wrapper that is also a
// controlled scheduler (world.go): every provider-level call (create a shared
// object, AttachRemoteObjects from another provider's RemoteObjectBacking,
// Remove) runs in the goroutine of its provider and parks at every storage
// call; a chooser releases exactly one parked provider at a time, so that the
// interleaving of storage calls is a pure function of the choice sequence.
// Schedules are enumerated (all of them for the 2-provider scripts; sleep-set
// reduced and bounded for the 3-provider scripts) and the merged log of each
// execution is judged by the conservation oracle in explore.go.
package c41

import (
	"fmt"
	"math/rand/v2"
	"sort"
	"strings"
	"testing"

	"github.com/cockroachdb/pebble/internal/verif/vcommon"
)

func op(t string, prov, fn int, arg string) Op {
	o := Op{Type: t, Prov: prov, FileNum: fn}
	switch t {
	case "create":
		o.Obj = arg
	case "backing":
		o.Save = arg
	case "attach":
		o.From = arg
	}
	return o
}

// Common setups. P1 (index 0) creates object "o" as its file 1 and exports
// backing B1; optionally P2 attaches it as file 10 and exports B2; optionally
// P3 attaches from B2 as file 20 and exports B3.
func setup(level int) []Op {
	s := []Op{op("create", 0, 1, "o"), op("backing", 0, 1, "B1")}
	if level >= 2 {
		s = append(s, op("attach", 1, 10, "B1"), op("backing", 1, 10, "B2"))
	}
	if level >= 3 {
		s = append(s, op("attach", 2, 20, "B2"), op("backing", 2, 20, "B3"))
	}
	return s
}

func twoProviderScripts() []*Script {
	return []*Script{
		{Name: "2A-remove-vs-attach", NProv: 2, Setup: setup(1), Racy: [][]Op{
			{op("remove", 0, 1, "")},
			{op("attach", 1, 10, "B1")}}},
		{Name: "2B-remove-vs-attach-remove", NProv: 2, Setup: setup(1), Racy: [][]Op{
			{op("remove", 0, 1, "")},
			{op("attach", 1, 10, "B1"), op("remove", 1, 10, "")}}},
		{Name: "2C-remove-vs-attach-remove-reattach", NProv: 2, Setup: setup(1), Racy: [][]Op{
			{op("remove", 0, 1, "")},
			{op("attach", 1, 10, "B1"), op("remove", 1, 10, ""), op("attach", 1, 11, "B1")}}},
		{Name: "2D-creator-reattaches-vs-last-remove", NProv: 2, Setup: setup(2), Racy: [][]Op{
			{op("remove", 0, 1, ""), op("attach", 0, 5, "B2")},
			{op("remove", 1, 10, "")}}},
		{Name: "2E-both-remove", NProv: 2, Setup: setup(2), Racy: [][]Op{
			{op("remove", 0, 1, "")},
			{op("remove", 1, 10, "")}}},
		{Name: "2F-second-ref-same-provider", NProv: 2, Setup: setup(2), Racy: [][]Op{
			{op("remove", 0, 1, "")},
			{op("attach", 1, 11, "B1"), op("remove", 1, 10, "")}}},
		{Name: "2G-swap", NProv: 2, Setup: setup(2), Racy: [][]Op{
			{op("remove", 0, 1, ""), op("attach", 0, 5, "B2")},
			{op("remove", 1, 10, ""), op("attach", 1, 11, "B1")}}},
		{Name: "2H-two-objects-crossed", NProv: 2,
			Setup: []Op{op("create", 0, 1, "o"), op("backing", 0, 1, "B1"), op("create", 0, 2, "ob"), op("backing", 0, 2, "C1")},
			Racy: [][]Op{
				{op("remove", 0, 1, ""), op("remove", 0, 2, "")},
				{op("attach", 1, 20, "C1"), op("attach", 1, 10, "B1")}}},
	}
}

func threeProviderScripts() []*Script {
	return []*Script{
		{Name: "3A-remove-vs-two-attaches", NProv: 3, Setup: setup(1), Racy: [][]Op{
			{op("remove", 0, 1, "")},
			{op("attach", 1, 10, "B1")},
			{op("attach", 2, 20, "B1")}}},
		{Name: "3B-chain-attach-vs-two-removes", NProv: 3, Setup: setup(2), Racy: [][]Op{
			{op("remove", 0, 1, "")},
			{op("remove", 1, 10, "")},
			{op("attach", 2, 20, "B2")}}},
		{Name: "3C-all-three-remove", NProv: 3, Setup: setup(3), Racy: [][]Op{
			{op("remove", 0, 1, "")},
			{op("remove", 1, 10, "")},
			{op("remove", 2, 20, "")}}},
		{Name: "3D-attach-remove-twice", NProv: 3, Setup: setup(1), Racy: [][]Op{
			{op("remove", 0, 1, "")},
			{op("attach", 1, 10, "B1"), op("remove", 1, 10, "")},
			{op("attach", 2, 20, "B1"), op("remove", 2, 20, "")}}},
		{Name: "3E-attach-from-either-origin", NProv: 3, Setup: setup(2), Racy: [][]Op{
			{op("remove", 0, 1, "")},
			{op("remove", 1, 10, "")},
			{op("attach", 2, 20, "B1"), op("remove", 2, 20, ""), op("attach", 2, 21, "B2")}}},
		{Name: "3F-rotate", NProv: 3, Setup: setup(2), Racy: [][]Op{
			{op("remove", 0, 1, ""), op("attach", 0, 5, "B2")},
			{op("remove", 1, 10, ""), op("attach", 1, 11, "B1")},
			{op("attach", 2, 20, "B2")}}},
	}
}

// job is one unit of work (= one case index).
type job struct {
	Kind    string // enum | porcheck | walk | free | inject
	Script  *Script
	POR     bool
	Prefix  []int
	Count   int // walk/free: executions
	InjProv int
	InjOrd  int
	MaxExec int
}

func (j job) String() string {
	return fmt.Sprintf("%s/%s/por=%v/prefix=%v/inj=%d.%d", j.Kind, j.Script.Name, j.POR, j.Prefix, j.InjProv, j.InjOrd)
}

func prefixes(nprov, depth int) [][]int {
	out := [][]int{{}}
	for d := 0; d < depth; d++ {
		var next [][]int
		for _, p := range out {
			for a := 0; a < nprov; a++ {
				next = append(next, append(append([]int(nil), p...), a))
			}
		}
		out = next
	}
	return out
}

func buildJobs(thorough bool) []job {
	var jobs []job
	two, three := twoProviderScripts(), threeProviderScripts()
	// 1. every interleaving of the 2-provider scripts
	for _, s := range two {
		for _, p := range prefixes(2, 3) {
			jobs = append(jobs, job{Kind: "enum", Script: s, Prefix: p, InjProv: -1})
		}
	}
	// 2. the reduced enumeration must reach exactly the outcomes of the full one
	for _, s := range two {
		if !thorough && s.Name == "2G-swap" {
			continue // 5320 + 5320 schedules in one job; thorough tier only
		}
		jobs = append(jobs, job{Kind: "porcheck", Script: s, InjProv: -1})
	}
	// same cross-check on 3-provider scripts whose full enumeration is affordable
	for _, s := range three {
		if s.Name == "3C-all-three-remove" || (thorough && (s.Name == "3A-remove-vs-two-attaches" || s.Name == "3B-chain-attach-vs-two-removes")) {
			jobs = append(jobs, job{Kind: "porcheck", Script: s, InjProv: -1})
		}
	}
	// 3. real goroutine concurrency (race detector), same oracle
	nfree := 40
	if thorough {
		nfree = 1000
	}
	for _, s := range append(append([]*Script{}, two...), three...) {
		jobs = append(jobs, job{Kind: "free", Script: s, Count: nfree, InjProv: -1})
	}
	// 4. 3-provider scripts
	if !thorough {
		for _, s := range three {
			for k := 0; k < 4; k++ {
				jobs = append(jobs, job{Kind: "walk", Script: s, Count: 150, InjProv: -1})
			}
		}
	} else {
		for _, s := range three {
			for _, p := range prefixes(3, 5) {
				jobs = append(jobs, job{Kind: "enum", Script: s, POR: true, Prefix: p, InjProv: -1, MaxExec: 60000})
			}
			for k := 0; k < 8; k++ {
				jobs = append(jobs, job{Kind: "walk", Script: s, Count: 2000, InjProv: -1})
			}
		}
		// 5. an injected storage error at the k-th storage call of one provider
		for _, s := range two {
			for prov := 0; prov < 2; prov++ {
				for ord := 0; ord < 14; ord++ {
					jobs = append(jobs, job{Kind: "inject", Script: s, POR: true, InjProv: prov, InjOrd: ord})
				}
			}
		}
		for _, s := range three[:3] {
			for prov := 0; prov < 3; prov++ {
				for ord := 0; ord < 6; ord++ {
					jobs = append(jobs, job{Kind: "inject", Script: s, POR: true, InjProv: prov, InjOrd: ord, MaxExec: 20000})
				}
			}
		}
	}
	return jobs
}

type monitor struct {
	r *vcommon.Report
}

func scheduleString(s []int) string {
	var b strings.Builder
	for _, a := range s {
		b.WriteByte(byte('1' + a))
	}
	return b.String()
}

// observe judges one execution and records evidence.
func (m *monitor) observe(j job, ex *Execution) {
	r := m.r
	r.Eval(1)
	findings, facts := judge(ex)
	for k, v := range facts {
		r.Count(k, v)
	}
	r.Count("storage_events", int64(len(ex.Log)))
	r.Count("executions_"+j.Kind, 1)
	if ex.Injected {
		r.Count("executions_with_injected_error", 1)
	}
	nontrivial := false
	if ex.Mode == "controlled" {
		nontrivial = interleaved(ex)
		if nontrivial {
			r.Count("executions_with_interleaved_calls", 1)
			r.Distinct(j.Script.Name, scheduleString(ex.Schedule), j.InjProv, j.InjOrd)
		}
	} else {
		// free mode: the log order is what the Go scheduler produced
		var sig strings.Builder
		for _, ev := range ex.Log {
			if ev.Phase == "race" {
				sig.WriteByte(byte('1' + ev.Prov))
			}
		}
		if interleaved(ex) {
			r.Count("executions_with_interleaved_calls", 1)
			r.Distinct(j.Script.Name, "free", sig.String())
		}
	}
	for _, c := range ex.Calls {
		if c.Phase == "race" && c.Type == "attach" && !c.OK && !c.Skipped {
			r.SetAdd("attach_failure_kinds", classifyErr(c.Err))
		}
	}
	r.SetAdd("scripts_run", j.Script.Name)
	if len(findings) == 0 && r.WantSample() && nontrivial && facts["race_attach_failed"] > 0 && facts["blob_deleted_during_race"] > 0 {
		var lines []string
		for _, ev := range ex.Log {
			lines = append(lines, ev.String())
		}
		r.Sample(map[string]any{"script": j.Script, "schedule": scheduleString(ex.Schedule), "storage_log": lines, "calls": ex.Calls,
			"final_store": ex.FinalList, "live_references": ex.OpenRefs})
	}
	for _, f := range findings {
		var lines []string
		for _, ev := range ex.Log {
			lines = append(lines, ev.String())
		}
		r.Violate(f.Class, f.Detail, map[string]any{
			"job": j.String(), "script": j.Script, "mode": ex.Mode, "schedule": scheduleString(ex.Schedule),
			"inject_provider": ex.InjProv, "inject_ordinal": ex.InjOrd,
			"storage_log": lines, "calls": ex.Calls, "final_store": ex.FinalList, "live_references": ex.OpenRefs,
		}, f.Match)
	}
}

func classifyErr(e string) string {
	switch {
	case strings.Contains(e, "origin marker object"):
		return "origin-marker-missing"
	case strings.Contains(e, "injected"):
		return "injected"
	default:
		if len(e) > 60 {
			e = e[:60]
		}
		return e
	}
}

func TestVerifC41(t *testing.T) {
	r := vcommon.NewReport("C41", "main")
	defer r.Finish(t)
	r.Rule("a case is one job: (script, schedule-prefix) whose whole subtree of storage-call interleavings is enumerated by a controlled scheduler, " +
		"or a batch of seeded random schedules / free-running goroutine executions of a script; an evaluation is one complete execution of real providers " +
		"judged by the conservation oracle; distinct = (script, schedule, injected fault); non-trivial = some provider call had another provider's storage call " +
		"between its first and last storage call")
	r.Assume("remote.NewInMem is the storage semantics (strongly consistent list-after-write; an object appears when its writer is closed; Delete of a missing object succeeds)")
	r.Assume("a provider stops counting as a holder when its Remove call issues its first storage call; it starts counting at the last storage call of a successful AttachRemoteObjects/Create")
	r.Assume("RemoteObjectBacking handles are closed before the race (an open handle makes Remove skip the unref by design)")
	m := &monitor{r: r}
	jobs := buildJobs(vcommon.Thorough())
	allExhaustive := true
	r.Cases(len(jobs), func(i int, rng *rand.Rand) {
		j := jobs[i]
		r.BeginCase(fmt.Sprintf("%d:%s", i, j))
		switch j.Kind {
		case "enum", "inject":
			e := &Enumerator{Script: j.Script, POR: j.POR, Prefix: j.Prefix, InjProv: j.InjProv, InjOrd: j.InjOrd, MaxExec: j.MaxExec}
			sawInjected := false
			e.OnExec = func(ex *Execution) {
				if j.Kind == "inject" && !ex.Injected {
					return // the provider made fewer storage calls: same as the fault-free run
				}
				sawInjected = sawInjected || ex.Injected
				m.observe(j, ex)
			}
			e.Run()
			if e.Err != nil {
				r.Inconclusive("%s: %v", j, e.Err)
				allExhaustive = false
				return
			}
			if e.Invalid && e.Complete == 0 {
				r.Count("prefix_jobs_empty", 1)
				return
			}
			key := "schedules_" + j.Script.Name
			if j.Kind == "inject" {
				key = "schedules_inject_" + j.Script.Name
			}
			r.Count(key, int64(e.Complete))
			r.Count("schedules_cut_by_sleep_sets", int64(e.Blocked))
			if e.Truncated {
				allExhaustive = false
				r.Count("enumerations_truncated", 1)
				r.SetAdd("truncated_scripts", j.Script.Name)
				r.Note("enumeration of %s stopped at the bound of %d schedules", j, j.MaxExec)
			} else {
				r.Count("enumerations_completed", 1)
			}
		case "porcheck":
			full := map[string]int{}
			red := map[string]int{}
			e1 := &Enumerator{Script: j.Script, InjProv: -1, OnExec: func(ex *Execution) { full[outcome(ex)]++ }}
			e1.Run()
			e2 := &Enumerator{Script: j.Script, POR: true, InjProv: -1, OnExec: func(ex *Execution) { red[outcome(ex)]++; m.observe(j, ex) }}
			e2.Run()
			if e1.Err != nil || e2.Err != nil {
				r.Inconclusive("%s: %v %v", j, e1.Err, e2.Err)
				return
			}
			r.Count("porcheck_full_schedules", int64(e1.Complete))
			r.Count("porcheck_reduced_schedules", int64(e2.Complete))
			r.Count("porcheck_outcomes", int64(len(full)))
			var missing []string
			for o := range full {
				if red[o] == 0 {
					missing = append(missing, o)
				}
			}
			for o := range red {
				if full[o] == 0 {
					missing = append(missing, "extra:"+o)
				}
			}
			sort.Strings(missing)
			if len(missing) > 0 {
				// the reduction is part of the harness, not of pebble
				r.Inconclusive("sleep-set reduction loses outcomes on %s: %v", j.Script.Name, missing)
				allExhaustive = false
			}
		case "walk":
			for k := 0; k < j.Count; k++ {
				ex, err := randomWalk(j.Script, rng, -1, -1)
				if err != nil {
					r.Inconclusive("%s: %v", j, err)
					return
				}
				m.observe(j, ex)
			}
		case "free":
			for k := 0; k < j.Count; k++ {
				ex, _, err := execute(j.Script, modeFree, -1, -1, nil)
				if err != nil {
					r.Inconclusive("%s: %v", j, err)
					return
				}
				m.observe(j, ex)
			}
		}
	})
	// exhaustive = every enumeration job ran to completion (2-provider scripts:
	// all interleavings; 3-provider scripts in the thorough tier: all
	// equivalence classes unless the bound was hit, which clears the flag)
	r.Exhaustive(allExhaustive)
}
