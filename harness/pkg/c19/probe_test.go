package c19

import (
	"bytes"
	"encoding/binary"
	"fmt"
	"io"
	"sync"
	"testing"

	"github.com/cockroachdb/pebble/internal/base"
	"github.com/cockroachdb/pebble/record"
)

type pfile struct {
	mu     sync.Mutex
	b      []byte
	synced int
}

func (f *pfile) Write(p []byte) (int, error) {
	f.mu.Lock()
	f.b = append(f.b, p...)
	f.mu.Unlock()
	return len(p), nil
}
func (f *pfile) Sync() error  { f.mu.Lock(); f.synced = len(f.b); f.mu.Unlock(); return nil }
func (f *pfile) Close() error { return nil }

func probeLog(n, size int) ([]byte, [][]byte, []int64) {
	f := &pfile{}
	w := record.NewLogWriter(f, base.DiskFileNum(7), record.LogWriterConfig{WriteWALSyncOffsets: func() bool { return true }})
	var recs [][]byte
	var ends []int64
	for i := 0; i < n; i++ {
		p := bytes.Repeat([]byte{byte('a' + i%26)}, size)
		var wg sync.WaitGroup
		var err error
		wg.Add(1)
		e, _ := w.SyncRecord(p, &wg, &err)
		wg.Wait()
		recs = append(recs, p)
		ends = append(ends, e)
	}
	w.Close()
	return f.b, recs, ends
}

func readAll(b []byte) (int, error) {
	r := record.NewReader(bytes.NewReader(b), base.DiskFileNum(7))
	n := 0
	for {
		rr, err := r.Next()
		if err != nil {
			return n, err
		}
		if _, err = io.ReadAll(rr); err != nil {
			return n, err
		}
		n++
	}
}

func TestProbe(t *testing.T) {
	for _, c := range []struct{ n, size int }{{10, 100}, {100, 1000}, {10, 40000}} {
		b, _, ends := probeLog(c.n, c.size)
		fmt.Printf("log n=%d size=%d len=%d\n", c.n, c.size, len(b))
		// dump headers
		pos := 0
		k := 0
		for pos+19 <= len(b) {
			blockEnd := (pos/32768 + 1) * 32768
			if blockEnd > len(b) {
				blockEnd = len(b)
			}
			ty := b[pos+6]
			if ty == 0 {
				pos = blockEnd
				continue
			}
			ln := int(binary.LittleEndian.Uint16(b[pos+4:]))
			if ty < 9 {
				fmt.Printf("  trailer at %d type %d\n", pos, ty)
				break
			}
			so := binary.LittleEndian.Uint64(b[pos+11:])
			if k < 14 || k%10 == 0 {
				fmt.Printf("  chunk %d at %d type %d len %d synced %d (lag %d)\n", k, pos, ty, ln, so, int64(pos)-int64(so))
			}
			k++
			pos += 19 + ln
			if blockEnd-pos < 19 {
				pos = blockEnd
			}
		}
		_ = ends
		n, err := readAll(b)
		fmt.Printf("  intact: %d records, err=%v\n", n, err)
		for _, off := range []int{19 + 5, 19 + c.size + 19 + 5} {
			d := append([]byte(nil), b...)
			d[off] ^= 0x10
			n, err := readAll(d)
			fmt.Printf("  flip at %d: %d records, err=%v\n", off, n, err)
		}
		// flip in each block's first chunk
		for blk := 0; blk*32768 < len(b)-40; blk++ {
			d := append([]byte(nil), b...)
			d[blk*32768+19+3] ^= 0x10
			n, err := readAll(d)
			fmt.Printf("  flip in block %d (at %d): %d records, err=%v\n", blk, blk*32768+22, n, err)
		}
	}
}
