// C19 (DB level): a damaged newest WAL in a crash clone. See
// harness/inpkg/record/verif_c19_test.go for the reader-level part and the
// oracle; this part applies the same oracle to pebble.Open:
//
//	a store on a crashable MemFS (FormatNewest, i.e. WAL-sync chunks) receives one
//	single-key batch per WAL record, every k-th committed with Sync; a crash
//	clone is taken; the newest WAL of the clone gets one damaged region; Open:
//	(1) if Open succeeds, the keys visible are k0..k(m-1) with their values, m >=
//	    number of batches that end before the damaged chunk, m <= index of the
//	    batch containing it                 [corrupt-record-returned,
//	    intact-record-dropped, damaged-chunk-accepted];
//	(2) if an intact later chunk carries SyncOffset >= end of the damaged chunk,
//	    Open must fail with an error marked pebble.ErrCorruption; a successful
//	    Open is same-block-witness-missed / synced-corruption-hidden exactly as
//	    at reader level (match.level = "db");
//	(3) an Open error that is not marked ErrCorruption is open-error-not-corruption.
package c19

import (
	"bytes"
	"encoding/binary"
	"fmt"
	"math/rand/v2"
	"sort"
	"strconv"
	"strings"
	"testing"

	"github.com/cockroachdb/errors"
	"github.com/cockroachdb/pebble"
	"github.com/cockroachdb/pebble/internal/verif/vcommon"
	"github.com/cockroachdb/pebble/vfs"
)

const blockSize = 32768

// region: a WAL-sync chunk, block padding, or trailer; regions tile the file.
type region struct {
	Off, End int64
	Synced   uint64
	Rec      int
	LastOf   bool
	Pad      bool
	Trailer  bool
}

func (g region) block() int64 { return g.Off / blockSize }

func parseWAL(b []byte, logNum uint32) ([]region, error) {
	var out []region
	n := int64(len(b))
	pos := int64(0)
	rec := 0
	for pos < n {
		blockEnd := min((pos/blockSize+1)*blockSize, n)
		if pos+7 > blockEnd || b[pos+6] == 0 {
			for _, x := range b[pos:blockEnd] {
				if x != 0 {
					return nil, fmt.Errorf("non-zero padding at %d", pos)
				}
			}
			out = append(out, region{Off: pos, End: blockEnd, Pad: true, Rec: -1})
			pos = blockEnd
			continue
		}
		ty := b[pos+6]
		ln := int64(binary.LittleEndian.Uint16(b[pos+4:]))
		if ty == 5 && ln == 0 && pos+11 <= blockEnd && binary.LittleEndian.Uint32(b[pos+7:]) == logNum+1 {
			out = append(out, region{Off: pos, End: pos + 11, Trailer: true, Rec: -1})
			return out, nil
		}
		if ty < 9 || ty > 12 {
			return nil, fmt.Errorf("chunk type %d at %d is not a WAL-sync type", ty, pos)
		}
		g := region{Off: pos, End: pos + 19 + ln, Rec: rec}
		if g.End > blockEnd {
			return nil, fmt.Errorf("chunk at %d crosses the block end", pos)
		}
		if binary.LittleEndian.Uint32(b[pos+7:]) != logNum {
			return nil, fmt.Errorf("chunk at %d has a foreign log number", pos)
		}
		g.Synced = binary.LittleEndian.Uint64(b[pos+11:])
		if ty == 9 || ty == 12 {
			g.LastOf = true
			rec++
		}
		out = append(out, g)
		pos = g.End
	}
	return out, nil
}

func mkValue(ci, idx, n int) []byte {
	b := make([]byte, n)
	x := (uint64(ci)<<32|uint64(uint32(idx)))*0x9E3779B97F4A7C15 + 0xD1B54A32D192ED03
	if x == 0 {
		x = 1
	}
	for i := 0; i < n; {
		x ^= x << 13
		x ^= x >> 7
		x ^= x << 17
		v := x
		for k := 0; k < 8 && i < n; k++ {
			b[i] = byte(v) | 1
			v >>= 8
			i++
		}
	}
	return b
}

type damage struct {
	Kind     string `json:"kind"`
	From, To int64
	Detail   string `json:"detail"`
}

var kinds = []string{"bitflip", "zero-chunk", "zero-page", "garbage", "length-edit", "type-edit", "lognum-edit", "syncoffset-edit"}

func applyDamage(rng *rand.Rand, data []byte, g region, kind string, out []byte) damage {
	copy(out, data)
	blockEnd := min(g.block()*blockSize+blockSize, int64(len(out)))
	d := damage{Kind: kind}
	switch kind {
	case "bitflip":
		o := g.Off + rng.Int64N(g.End-g.Off)
		bit := rng.IntN(8)
		out[o] ^= 1 << bit
		d.From, d.To, d.Detail = o, o+1, fmt.Sprintf("bit %d of byte %d (chunk offset +%d)", bit, o, o-g.Off)
	case "zero-chunk":
		clear(out[g.Off:g.End])
		d.From, d.To = g.Off, g.End
	case "zero-page":
		o := g.Off + rng.Int64N(g.End-g.Off)
		a := o &^ 4095
		b := min(a+4096, int64(len(out)))
		clear(out[a:b])
		d.From, d.To = a, b
	case "garbage":
		a := g.Off + rng.Int64N(g.End-g.Off)
		b := min(a+1+rng.Int64N(200), blockEnd)
		for i := a; i < b; i++ {
			out[i] ^= byte(1 + rng.IntN(255))
		}
		d.From, d.To = a, b
	case "length-edit":
		old := binary.LittleEndian.Uint16(out[g.Off+4:])
		nv := old
		for nv == old {
			nv = []uint16{0, 1, old + 1, old - 1, 0xffff, uint16(rng.IntN(65536)), uint16(rng.IntN(300))}[rng.IntN(7)]
		}
		binary.LittleEndian.PutUint16(out[g.Off+4:], nv)
		d.From, d.To, d.Detail = g.Off+4, g.Off+6, fmt.Sprintf("length %d -> %d", old, nv)
	case "type-edit":
		old := out[g.Off+6]
		nv := old
		for nv == old {
			nv = []byte{0, 1, 4, 5, 8, 9, 10, 11, 12, 13, 255, byte(rng.IntN(256))}[rng.IntN(12)]
		}
		out[g.Off+6] = nv
		d.From, d.To, d.Detail = g.Off+6, g.Off+7, fmt.Sprintf("type %d -> %d", old, nv)
	case "lognum-edit":
		old := binary.LittleEndian.Uint32(out[g.Off+7:])
		nv := []uint32{old + 1, old - 1, old ^ 1, old ^ (1 << rng.IntN(32)), rng.Uint32()}[rng.IntN(5)]
		if nv == old {
			nv = old + 1
		}
		binary.LittleEndian.PutUint32(out[g.Off+7:], nv)
		d.From, d.To, d.Detail = g.Off+7, g.Off+11, fmt.Sprintf("log number %d -> %d", old, nv)
	case "syncoffset-edit":
		old := binary.LittleEndian.Uint64(out[g.Off+11:])
		nv := []uint64{0, old + 1, old ^ (1 << rng.IntN(40)), uint64(len(out)) + 1000, ^uint64(0)}[rng.IntN(5)]
		if nv == old {
			nv = old + 7
		}
		binary.LittleEndian.PutUint64(out[g.Off+11:], nv)
		d.From, d.To, d.Detail = g.Off+11, g.Off+19, fmt.Sprintf("sync offset %d -> %d", old, nv)
	}
	return d
}

type quietLogger struct{}

func (quietLogger) Infof(string, ...interface{})  {}
func (quietLogger) Errorf(string, ...interface{}) {}
func (quietLogger) Fatalf(f string, a ...interface{}) {
	panic(fmt.Sprintf(f, a...))
}

// one small block cache shared by all stores of the process (each Open takes
// its own reference); a fresh cache and a large memtable arena per Open cost
// more than the replay itself under the race detector
var sharedCache = pebble.NewCache(1 << 20)

func options(fs vfs.FS) *pebble.Options {
	return &pebble.Options{
		FS:                          fs,
		FormatMajorVersion:          pebble.FormatNewest,
		MemTableSize:                1 << 20,
		Cache:                       sharedCache,
		DisableAutomaticCompactions: true,
		Logger:                      quietLogger{},
	}
}

func readFile(fs vfs.FS, p string) ([]byte, error) {
	f, err := fs.Open(p)
	if err != nil {
		return nil, err
	}
	defer f.Close()
	st, err := f.Stat()
	if err != nil {
		return nil, err
	}
	b := make([]byte, st.Size())
	if len(b) > 0 {
		if _, err = f.ReadAt(b, 0); err != nil {
			return nil, err
		}
	}
	return b, nil
}

func writeFile(fs vfs.FS, p string, b []byte) error {
	f, err := fs.Create(p, vfs.WriteCategoryUnspecified)
	if err != nil {
		return err
	}
	// MemFS.Write scrambles its input buffer in invariants builds: hand it a copy
	if _, err = f.Write(append([]byte(nil), b...)); err != nil {
		return err
	}
	if err = f.Sync(); err != nil {
		return err
	}
	return f.Close()
}

func newestWAL(fs vfs.FS, dir string) (string, uint64, error) {
	ls, err := fs.List(dir)
	if err != nil {
		return "", 0, err
	}
	best, bestNum := "", uint64(0)
	for _, f := range ls {
		if !strings.HasSuffix(f, ".log") {
			continue
		}
		n, err := strconv.ParseUint(strings.TrimSuffix(f, ".log"), 10, 64)
		if err != nil {
			continue
		}
		if best == "" || n > bestNum {
			best, bestNum = f, n
		}
	}
	if best == "" {
		return "", 0, fmt.Errorf("no WAL in %v", ls)
	}
	return dir + "/" + best, bestNum, nil
}

func TestVerifC19DB(t *testing.T) {
	r := vcommon.NewReport("C19", "db")
	defer r.Finish(t)
	r.Rule("case = one store on a crashable MemFS (FormatNewest => WAL-sync chunks) with single-key batches of 20..1500-byte values filling 1..4 WAL blocks, every k-th batch committed with Sync (k in {1,2,3}), the last one always; " +
		"per case 8 (thorough 24) crash clones (synced data only), each with ONE damaged region in the newest WAL: the damaged chunk is drawn uniformly from all chunks (2/3 of the draws restricted to blocks before the last when there are several), the pattern uniformly from " +
		"{bit flip, zeroed chunk, zeroed 4KiB page, garbage, length/type/log-number/sync-offset field edit}; then pebble.Open. An evaluation = one Open of one damaged clone; distinct non-trivial = (case, damaged chunk offset, pattern) with a witness chunk.")
	n := vcommon.Scale(18, 100)
	perCase := vcommon.Scale(8, 24)
	var capSame, capLater, capOther int
	r.Cases(n, func(ci int, rng *rand.Rand) {
		mem := vfs.NewCrashableMem()
		// A new store starts at FormatMinSupported and ratchets during Open, so its
		// first WAL is still written in the recyclable format; the WAL created by
		// the second Open is in the WAL-sync format.
		d, err := pebble.Open("db", options(mem))
		if err == nil {
			if err = d.Close(); err == nil {
				d, err = pebble.Open("db", options(mem))
			}
		}
		if err != nil {
			r.Violate("harness-error", "cannot open fresh store: "+err.Error(), nil, nil)
			return
		}
		blocks := 1 + rng.IntN(4)
		k := 1 + rng.IntN(3)
		target := (blocks-1)*blockSize + 3000 + rng.IntN(blockSize-6000)
		var vals [][]byte
		total := 0
		for i := 0; total < target; i++ {
			var sz int
			if rng.IntN(3) == 0 {
				sz = 300 + rng.IntN(1200)
			} else {
				sz = 20 + rng.IntN(300)
			}
			v := mkValue(ci, i, sz)
			vals = append(vals, v)
			total += sz + 19 + 12 + 10
			wo := pebble.NoSync
			if i%k == k-1 || total >= target {
				wo = pebble.Sync
			}
			if err := d.Set([]byte(fmt.Sprintf("k%06d", i)), v, wo); err != nil {
				r.Violate("harness-error", "Set: "+err.Error(), nil, nil)
				d.Close()
				return
			}
		}
		base := mem.CrashClone(vfs.CrashCloneCfg{UnsyncedDataPercent: 0})
		walPath, walNum, err := newestWAL(base, "db")
		var data []byte
		if err == nil {
			data, err = readFile(base, walPath)
		}
		var regions []region
		if err == nil {
			regions, err = parseWAL(data, uint32(walNum))
		}
		var recEnd []int64
		var chunks []int
		for i, g := range regions {
			if g.LastOf {
				recEnd = append(recEnd, g.End)
			}
			if !g.Pad && !g.Trailer {
				chunks = append(chunks, i)
			}
		}
		if err == nil && len(recEnd) != len(vals) {
			err = fmt.Errorf("newest WAL %s holds %d records, %d batches were committed", walPath, len(recEnd), len(vals))
		}
		if err != nil {
			r.Violate("harness-parse-error", err.Error(), map[string]any{"case": ci}, nil)
			d.Close()
			return
		}
		r.Count("stores_built", 1)
		r.Count("batches_committed", int64(len(vals)))
		r.SetAdd("wal_blocks", fmt.Sprint((len(data)+blockSize-1)/blockSize))
		spec := map[string]any{"wal": walPath, "wal_len": len(data), "batches": len(vals), "sync_every": k}
		lastBlock := int64(len(data)-1) / blockSize

		// control: the undamaged clone opens and holds every batch
		open := func(fs *vfs.MemFS) (m int, bad string, oerr error) {
			d2, err := pebble.Open("db", options(fs))
			if err != nil {
				return 0, "", err
			}
			defer d2.Close()
			it, err := d2.NewIter(nil)
			if err != nil {
				return 0, "", err
			}
			defer it.Close()
			for it.First(); it.Valid(); it.Next() {
				want := fmt.Sprintf("k%06d", m)
				if string(it.Key()) != want {
					return m, fmt.Sprintf("key #%d is %q, want %q", m, it.Key(), want), nil
				}
				if m >= len(vals) || !bytes.Equal(it.Value(), vals[m]) {
					return m, fmt.Sprintf("value of %q differs from the value committed", want), nil
				}
				m++
			}
			return m, "", it.Error()
		}
		if m, bad, err := open(mem.CrashClone(vfs.CrashCloneCfg{UnsyncedDataPercent: 0})); err != nil || bad != "" || m != len(vals) {
			r.Violate("undamaged-clone-misread", fmt.Sprintf("undamaged crash clone: Open err=%v, %d/%d keys, %s", err, m, len(vals), bad), map[string]any{"case": ci, "store": spec}, nil)
		}
		r.Count("undamaged_clone_opens", 1)

		out := make([]byte, len(data))
		for j := 0; j < perCase; j++ {
			gi := chunks[rng.IntN(len(chunks))]
			if lastBlock > 0 && rng.IntN(3) != 0 {
				for regions[gi].block() == lastBlock {
					gi = chunks[rng.IntN(len(chunks))]
				}
			}
			kind := kinds[rng.IntN(len(kinds))]
			dmg := applyDamage(rng, data, regions[gi], kind, out)
			fdb := int64(-1)
			for o := dmg.From; o < dmg.To; o++ {
				if out[o] != data[o] {
					fdb = o
					break
				}
			}
			if fdb < 0 {
				r.Count("noop_damage_skipped", 1)
				continue
			}
			di := sort.Search(len(regions), func(i int) bool { return regions[i].End > fdb })
			D := regions[di]
			r.BeginCase(fmt.Sprintf("%d/%d/%s@%d", ci, j, kind, D.Off))
			clone := mem.CrashClone(vfs.CrashCloneCfg{UnsyncedDataPercent: 0})
			if err := writeFile(clone, walPath, out); err != nil {
				r.Violate("harness-error", "rewrite WAL: "+err.Error(), nil, nil)
				continue
			}
			m, bad, oerr := open(clone)
			r.Eval(1)
			r.Count("opens_"+kind, 1)
			corrupt := oerr != nil && errors.Is(oerr, pebble.ErrCorruption)
			outcome := "opened"
			if corrupt {
				outcome = "corruption-error"
			} else if oerr != nil {
				outcome = "other-error"
			}
			r.SetAdd("outcome_"+kind, outcome)
			replay := map[string]any{"case": ci, "store": spec, "damage": dmg, "damaged_range": []int64{dmg.From, dmg.To}, "damaged_chunk_offset": D.Off, "damaged_chunk_end": D.End,
				"open_error": fmt.Sprint(oerr), "keys_visible": m}
			if oerr != nil && !corrupt {
				r.Violate("open-error-not-corruption", fmt.Sprintf("%s in chunk at %d: Open failed with an error not marked ErrCorruption: %v", kind, D.Off, oerr), replay, map[string]any{"damage": kind})
				continue
			}
			if D.Pad || D.Trailer {
				r.Count("damage_in_padding_or_trailer", 1)
				continue
			}
			same, later := 0, 0
			var firstW region
			for q := di + 1; q < len(regions); q++ {
				w := regions[q]
				if w.Pad || w.Trailer || w.Off < dmg.To || w.Synced < uint64(D.End) {
					continue
				}
				if same+later == 0 {
					firstW = w
				}
				if w.block() == D.block() {
					same++
				} else {
					later++
				}
			}
			scope := "none"
			if later > 0 {
				scope = "later-block"
			} else if same > 0 {
				scope = "same-block"
			}
			r.Count("damaged_opens_witness_"+scope, 1)
			if scope != "none" {
				r.Distinct(ci, D.Off, kind)
			}
			if corrupt {
				r.Count("corruption_reported_witness_"+scope, 1)
				continue
			}
			// Open succeeded
			if bad != "" {
				r.Violate("corrupt-record-returned", fmt.Sprintf("%s in chunk at %d: store opened and %s", kind, D.Off, bad), replay, map[string]any{"damage": kind, "level": "db"})
				continue
			}
			before := sort.Search(len(recEnd), func(i int) bool { return recEnd[i] > D.Off })
			if m < before {
				r.Violate("intact-record-dropped", fmt.Sprintf("%s in chunk at %d: store opened with %d keys but %d batches end before the damaged chunk", kind, D.Off, m, before), replay, map[string]any{"damage": kind, "level": "db"})
				continue
			}
			if m > D.Rec {
				r.Violate("damaged-chunk-accepted", fmt.Sprintf("%s in chunk at %d (batch %d): store opened with %d keys", kind, D.Off, D.Rec, m), replay, map[string]any{"damage": kind, "level": "db"})
				continue
			}
			r.Count("clean_open_witness_"+scope, 1)
			if scope == "none" {
				continue
			}
			lognum := "same"
			switch binary.LittleEndian.Uint32(out[D.Off+7:]) {
			case uint32(walNum):
			case uint32(walNum) + 1:
				lognum = "next"
			default:
				lognum = "other"
			}
			match := map[string]any{"witness_scope": scope, "level": "db", "damage": kind, "terminal": "opened", "damaged_lognum_field": lognum}
			replay["witnesses_same_block"], replay["witnesses_later_block"] = same, later
			replay["first_witness"] = map[string]any{"offset": firstW.Off, "sync_offset": firstW.Synced, "block": firstW.block()}
			detail := fmt.Sprintf("%s in chunk [%d,%d) of block %d of the newest WAL (batch %d of %d, all acknowledged as synced): pebble.Open succeeded with only %d keys although %d intact later chunk(s) carry SyncOffset >= %d "+
				"(first: chunk at %d in block %d with SyncOffset %d; %d in the same block, %d in later blocks)", kind, D.Off, D.End, D.block(), D.Rec, len(vals), m, same+later, D.End, firstW.Off, firstW.block(), firstW.Synced, same, later)
			if scope == "same-block" {
				r.Count("same_block_witness_missed", 1)
				r.SetAdd("same_block_miss_kinds", kind+"/lognum-"+lognum)
				if capSame < 3 {
					capSame++
					r.Violate("same-block-witness-missed", detail, replay, match)
				}
			} else {
				r.Count("later_block_witness_missed", 1)
				r.SetAdd("later_block_miss_kinds", kind+"/lognum-"+lognum)
				if lognum == "next" {
					if capLater < 3 {
						capLater++
						r.Violate("synced-corruption-hidden", detail, replay, match)
					}
				} else if capOther < 10 {
					capOther++
					r.Violate("synced-corruption-hidden", detail, replay, match)
				}
			}
		}
		if r.WantSample() {
			r.Sample(map[string]any{"case": ci, "store": spec, "chunks": len(chunks)})
		}
		d.Close()
	})
}
