package sstmodel

import (
	"encoding/binary"
	"fmt"
	"math"
	"math/rand/v2"
	"slices"
	"sort"

	"github.com/cockroachdb/pebble/internal/base"
	"github.com/cockroachdb/pebble/internal/keyspan"
	"github.com/cockroachdb/pebble/sstable"
	"github.com/cockroachdb/pebble/sstable/block"
	"github.com/cockroachdb/pebble/sstable/tablefilters/binaryfuse"
	"github.com/cockroachdb/pebble/sstable/tablefilters/bloom"
)

// Point is one point entry as handed to the writer, plus what the writer's
// documented obsolete rule (format.go / evaluatePoint: C1, C2, C3, forceObsolete)
// makes of it.
type Point struct {
	UserKey       []byte
	Trailer       base.InternalKeyTrailer
	Value         []byte
	ForceObsolete bool
	Obsolete      bool // computed by MarkObsolete; meaningful for format >= Pebblev4
}

// Options is a JSON-able description of the writer configuration of a table.
type Options struct {
	KeySpace             string `json:"keyspace"`
	Format               string `json:"format"`
	BlockSize            int    `json:"block_size"`
	IndexBlockSize       int    `json:"index_block_size"`
	BlockRestartInterval int    `json:"restart_interval"`
	BlockSizeThreshold   int    `json:"block_size_threshold"`
	SizeClasses          string `json:"size_classes"`
	Compression          string `json:"compression"`
	Filter               string `json:"filter"`
	DisableValueBlocks   bool   `json:"disable_value_blocks"`
	StrictObsolete       bool   `json:"strict_obsolete"`
	LowestLevel          bool   `json:"writing_to_lowest_level"`
	Checksum             string `json:"checksum"`
	Bundle               int    `json:"prefix_bundle"`
}

// Table is a generated table: the inputs, the writer options, and (after
// Build) the bytes and writer metadata.
type Table struct {
	KS        *KeySpace
	Opts      Options
	WOpts     sstable.WriterOptions
	Format    sstable.TableFormat
	Points    []Point
	RangeDels []keyspan.Span
	RangeKeys []keyspan.Span
	Data      []byte
	Meta      *sstable.WriterMetadata
}

// Shape restricts what the data generator emits so that the documented
// preconditions of a transform hold (C29) or a feature is reachable
// (CopySpan needs tables without value blocks / spans).
type Shape struct {
	MaxEntries      int  // 0: default distribution up to 3000
	UniquePrefixes  bool // at most one point per prefix (synthetic suffix precondition 1)
	MaxTS           uint64
	AllSeqZero      bool // every key has seqnum 0 and user keys are unique (ingested table)
	OnlySets        bool // only SET kinds, never forceObsolete (no obsolete keys at all)
	NoRangeDels     bool
	NoRangeKeys     bool
	NoRangeKeyUnset bool // synthetic suffix precondition
	NoLockKeys      bool
	SmallValues     bool
	MinFormat       sstable.TableFormat
	MaxFormat       sstable.TableFormat // 0: newest
	NoPoints        bool                // table without point keys (range dels / range keys only)
	ForceRangeDels  bool
	NoValueBlocks   bool
	ForceTwoLevel   int // 0 random, 1 force single, 2 force two-level
}

func pick[T any](rng *rand.Rand, xs ...T) T { return xs[rng.IntN(len(xs))] }

var smallSizeClasses = []int{64, 128, 256, 384, 512, 640, 768, 1024, 1280, 1536, 2048, 3072, 4096, 8192, 16384, 32768, 65536}

// GenOptions draws writer options crossing every table format from the
// minimum supported to the newest with block/index sizes, restart intervals,
// compression profiles, filter policies, value blocks, checksum types.
func GenOptions(rng *rand.Rand, ks *KeySpace, sh Shape) (sstable.WriterOptions, Options) {
	var o sstable.WriterOptions
	var d Options
	d.KeySpace = ks.Name
	o.Comparer = ks.Comparer

	minF := sstable.TableFormatMinSupported
	if sh.MinFormat > minF {
		minF = sh.MinFormat
	}
	maxF := sstable.TableFormatMax
	if sh.MaxFormat != 0 && sh.MaxFormat < maxF {
		maxF = sh.MaxFormat
	}
	nf := int(maxF-minF) + 1
	f := minF + sstable.TableFormat(rng.IntN(nf))
	if rng.IntN(3) == 0 && maxF >= sstable.TableFormatPebblev5 { // bias towards the columnar formats
		lo := sstable.TableFormatPebblev5
		if minF > lo {
			lo = minF
		}
		f = lo + sstable.TableFormat(rng.IntN(int(maxF-lo)+1))
	}
	o.TableFormat = f
	d.Format = f.String()

	o.BlockSize = pick(rng, 1, 1, 2, 8, 16, 24, 32, 48, 64, 100, 128, 200, 256, 512, 1024, 2048, 4096, 4096, 8192, 16384, 32768)
	switch sh.ForceTwoLevel {
	case 1:
		o.IndexBlockSize = math.MaxInt32
	case 2:
		o.IndexBlockSize = pick(rng, 1, 1, 8, 16)
	default:
		o.IndexBlockSize = pick(rng, 0, 1, 1, 8, 16, 32, 64, 128, 256, 1024, 4096, 32768, math.MaxInt32, math.MaxInt32)
	}
	o.BlockRestartInterval = pick(rng, 0, 1, 1, 2, 3, 4, 5, 7, 8, 15, 16, 17, 32, 33, 64)
	o.BlockSizeThreshold = pick(rng, 0, 0, 1, 50, 90, 100)
	d.BlockSize, d.IndexBlockSize, d.BlockRestartInterval, d.BlockSizeThreshold = o.BlockSize, o.IndexBlockSize, o.BlockRestartInterval, o.BlockSizeThreshold

	switch rng.IntN(8) {
	case 0:
		o.AllocatorSizeClasses = sstable.JemallocSizeClasses
		o.BlockSize = pick(rng, 16384, 20000, 32768)
		d.BlockSize = o.BlockSize
		d.SizeClasses = "jemalloc"
	case 1:
		o.AllocatorSizeClasses = smallSizeClasses
		o.SizeClassAwareThreshold = pick(rng, 0, 10, 60, 95)
		o.BlockSize = pick(rng, 200, 400, 700, 1000, 2500, 4096)
		d.BlockSize = o.BlockSize
		d.SizeClasses = fmt.Sprintf("small/%d", o.SizeClassAwareThreshold)
	default:
		d.SizeClasses = "none"
	}

	comps := []*block.CompressionProfile{nil, block.NoCompression, block.SnappyCompression, block.ZstdCompression,
		block.MinLZCompression, block.FastestCompression, block.FastCompression, block.BalancedCompression, block.GoodCompression}
	o.Compression = comps[rng.IntN(len(comps))]
	if o.Compression == nil {
		d.Compression = "default"
	} else {
		d.Compression = o.Compression.Name
	}

	switch rng.IntN(10) {
	case 0, 1, 2:
		d.Filter = "none"
	case 3, 4, 5:
		b := uint32(1 + rng.IntN(20))
		o.FilterPolicy = bloom.FilterPolicy(b)
		d.Filter = o.FilterPolicy.Name()
	case 6:
		o.FilterPolicy = bloom.AdaptivePolicy(uint32(2+rng.IntN(19)), uint64(pick(rng, 69, 133, 200, 600, 2000, 100000)))
		d.Filter = o.FilterPolicy.Name()
	default:
		o.FilterPolicy = binaryfuse.FilterPolicy(pick(rng, binaryfuse.SupportedBitsPerFingerprint...))
		d.Filter = o.FilterPolicy.Name()
	}

	o.DisableValueBlocks = sh.NoValueBlocks || rng.IntN(10) < 3
	d.DisableValueBlocks = o.DisableValueBlocks
	if f >= sstable.TableFormatPebblev4 && !sh.OnlySets && rng.IntN(100) < 15 {
		o.IsStrictObsolete = true
	}
	d.StrictObsolete = o.IsStrictObsolete
	if !sh.OnlySets && rng.IntN(4) == 0 {
		o.WritingToLowestLevel = true
	}
	d.LowestLevel = o.WritingToLowestLevel
	o.Checksum = pick(rng, block.ChecksumTypeNone, block.ChecksumTypeCRC32c, block.ChecksumTypeXXHash64)
	d.Checksum = o.Checksum.String()
	d.Bundle = pick(rng, BundleSizes...)
	if f.BlockColumnar() {
		o.KeySchema = ks.Schema(d.Bundle)
	}
	return o, d
}

func randValue(rng *rand.Rand, blockSize int, small bool) []byte {
	var n int
	r := rng.IntN(100)
	switch {
	case r < 15:
		n = 0
	case r < 30:
		n = 1
	case r < 55:
		n = 2 + rng.IntN(7)
	case r < 88 || small:
		n = 9 + rng.IntN(92)
	case r < 97:
		n = 100 + rng.IntN(1900)
	default:
		// multi-block value
		bs := blockSize
		if bs < 64 {
			bs = 64
		}
		if bs > 8192 {
			bs = 8192
		}
		n = bs + rng.IntN(3*bs)
	}
	v := make([]byte, n)
	if rng.IntN(2) == 0 { // compressible
		b := byte(rng.IntN(256))
		for i := range v {
			if i%17 == 0 {
				b = byte(rng.IntN(4))
			}
			v[i] = b
		}
	} else {
		for i := range v {
			v[i] = byte(rng.Uint32())
		}
	}
	return v
}

func randSeq(rng *rand.Rand) base.SeqNum {
	switch rng.IntN(10) {
	case 0:
		return 0
	case 1:
		return base.SeqNum(rng.Uint64N(1 << 40))
	case 2:
		return base.SeqNum(1<<55 - 1 - rng.Uint64N(1000)) // close to the largest non-batch seqnum
	default:
		return base.SeqNum(1 + rng.Uint64N(2000))
	}
}

func randCount(rng *rand.Rand, sh Shape) int {
	max := sh.MaxEntries
	if max == 0 {
		max = 3000
	}
	var n int
	r := rng.IntN(100)
	switch {
	case r < 4:
		n = 0
	case r < 12:
		n = 1 + rng.IntN(5)
	case r < 60:
		n = 6 + rng.IntN(195)
	case r < 93:
		n = 200 + rng.IntN(800)
	default:
		n = 1000 + rng.IntN(2001)
	}
	if n > max {
		n = rng.IntN(max + 1)
	}
	return n
}

// GenTable draws options and contents.
func GenTable(rng *rand.Rand, ks *KeySpace, sh Shape) *Table {
	t := &Table{KS: ks}
	t.WOpts, t.Opts = GenOptions(rng, ks, sh)
	t.Format = t.WOpts.TableFormat
	GenData(rng, t, sh)
	return t
}

// GenData fills t.Points / RangeDels / RangeKeys for the already chosen
// options.
func GenData(rng *rand.Rand, t *Table, sh Shape) {
	ks := t.KS
	cmp := ks.Comparer.Compare
	n := randCount(rng, sh)
	if sh.NoPoints {
		n = 0
	}
	shape := RandPrefixShape(rng)
	maxTS := sh.MaxTS
	if maxTS == 0 {
		maxTS = uint64(pick(rng, 3, 10, 50, 1000, 1000000))
	}
	versionsPerPrefix := pick(rng, 1, 1, 2, 4, 8, 20, 40)
	if sh.UniquePrefixes {
		versionsPerPrefix = 1
	}

	kinds := []base.InternalKeyKind{}
	add := func(k base.InternalKeyKind, w int) {
		for i := 0; i < w; i++ {
			kinds = append(kinds, k)
		}
	}
	add(base.InternalKeyKindSet, 55)
	if !sh.OnlySets {
		add(base.InternalKeyKindSetWithDelete, 10)
		add(base.InternalKeyKindDelete, 10)
		add(base.InternalKeyKindSingleDelete, 5)
		if !t.WOpts.IsStrictObsolete {
			add(base.InternalKeyKindMerge, 8)
		}
		if t.Format >= sstable.TableFormatPebblev4 {
			add(base.InternalKeyKindDeleteSized, 7)
		}
	}

	// Draw user keys.
	type uk struct {
		key []byte
	}
	seenUK := map[string]bool{}
	seenPrefix := map[string]bool{}
	var ukeys [][]byte
	attempts := 0
	for len(ukeys) < n && attempts < 20*n+100 {
		bare := shape.Draw(rng)
		nv := 1
		if versionsPerPrefix > 1 {
			nv = 1 + rng.IntN(versionsPerPrefix)
		}
		if sh.UniquePrefixes {
			if seenPrefix[string(bare)] {
				attempts++
				continue
			}
			seenPrefix[string(bare)] = true
		}
		for j := 0; j < nv && len(ukeys) < n; j++ {
			attempts++
			var k []byte
			r := rng.IntN(100)
			switch {
			case r < 8:
				k = ks.Key(bare, 0) // no suffix
			case r < 10 && ks.crdb && !sh.NoLockKeys && !sh.UniquePrefixes:
				k = ks.LockKey(bare, rng)
			default:
				k = ks.Key(bare, 1+rng.Uint64N(maxTS))
			}
			if seenUK[string(k)] {
				continue
			}
			seenUK[string(k)] = true
			ukeys = append(ukeys, k)
		}
	}

	// Expand into internal keys: some user keys get several versions
	// (snapshot-pinned history) unless the shape forbids it.
	pts := make([]Point, 0, len(ukeys)+len(ukeys)/8)
	for _, k := range ukeys {
		nver := 1
		if !sh.UniquePrefixes && !sh.AllSeqZero && rng.IntN(10) == 0 {
			nver = 2 + rng.IntN(4)
		}
		seqs := map[base.SeqNum]bool{}
		for v := 0; v < nver; v++ {
			s := randSeq(rng)
			if sh.AllSeqZero {
				s = 0
			}
			if seqs[s] {
				continue
			}
			seqs[s] = true
			kind := kinds[rng.IntN(len(kinds))]
			var val []byte
			switch kind {
			case base.InternalKeyKindDelete, base.InternalKeyKindSingleDelete:
			case base.InternalKeyKindDeleteSized:
				if rng.IntN(4) != 0 {
					val = binary.AppendUvarint(nil, rng.Uint64N(1<<uint(1+rng.IntN(40))))
				}
			default:
				val = randValue(rng, t.WOpts.BlockSize, sh.SmallValues)
			}
			pts = append(pts, Point{UserKey: k, Trailer: base.MakeTrailer(s, kind), Value: val})
		}
	}
	sort.SliceStable(pts, func(i, j int) bool {
		return base.InternalCompare(cmp, base.InternalKey{UserKey: pts[i].UserKey, Trailer: pts[i].Trailer},
			base.InternalKey{UserKey: pts[j].UserKey, Trailer: pts[j].Trailer}) < 0
	})
	t.Points = pts

	// Boundaries for spans: user keys drawn from the same shape (bare prefixes,
	// full keys), distinct and sorted.
	genBounds := func(maxSpans int) [][]byte {
		m := map[string]bool{}
		var bs [][]byte
		want := 2 + rng.IntN(2*maxSpans+1)
		for i := 0; i < 4*want && len(bs) < want; i++ {
			var k []byte
			if len(ukeys) > 0 && rng.IntN(3) == 0 {
				k = ukeys[rng.IntN(len(ukeys))]
				if rng.IntN(2) == 0 {
					k = ks.PrefixOf(k)
				}
			} else if rng.IntN(4) == 0 {
				k = ks.Key(shape.Draw(rng), 1+rng.Uint64N(maxTS))
			} else {
				k = ks.Key(shape.Draw(rng), 0)
			}
			if !m[string(k)] {
				m[string(k)] = true
				bs = append(bs, slices.Clone(k))
			}
		}
		slices.SortFunc(bs, cmp)
		return bs
	}
	if !sh.NoRangeDels && (sh.ForceRangeDels || rng.IntN(3) == 0) {
		bs := genBounds(pick(rng, 1, 3, 10, 40))
		for i := 0; i+1 < len(bs); i++ {
			if rng.IntN(3) == 0 && !(sh.ForceRangeDels && len(t.RangeDels) == 0 && i+2 >= len(bs)) {
				continue // gap
			}
			nk := 1 + rng.IntN(3)
			seqs := map[base.SeqNum]bool{}
			var keys []keyspan.Key
			for j := 0; j < nk; j++ {
				s := randSeq(rng)
				if sh.AllSeqZero {
					s = 0
				}
				if seqs[s] {
					continue
				}
				seqs[s] = true
				keys = append(keys, keyspan.Key{Trailer: base.MakeTrailer(s, base.InternalKeyKindRangeDelete)})
			}
			keyspan.SortKeysByTrailer(keys)
			t.RangeDels = append(t.RangeDels, keyspan.Span{Start: bs[i], End: bs[i+1], Keys: keys})
		}
	}
	if !sh.NoRangeKeys && t.Format >= sstable.TableFormatPebblev2 && rng.IntN(3) == 0 {
		bs := genBounds(pick(rng, 1, 3, 10, 40))
		for i := 0; i+1 < len(bs); i++ {
			if rng.IntN(3) == 0 {
				continue
			}
			nk := 1 + rng.IntN(4)
			type id struct {
				s    base.SeqNum
				kind base.InternalKeyKind
				sfx  string
			}
			seen := map[id]bool{}
			var keys []keyspan.Key
			for j := 0; j < nk; j++ {
				s := randSeq(rng)
				if sh.AllSeqZero {
					s = 0
				}
				var k keyspan.Key
				r := rng.IntN(10)
				switch {
				case r < 6 || (sh.NoRangeKeyUnset && r < 9):
					var sfx []byte
					if rng.IntN(5) != 0 {
						sfx = ks.Suffix(1 + rng.Uint64N(maxTS))
					}
					k = keyspan.Key{Trailer: base.MakeTrailer(s, base.InternalKeyKindRangeKeySet), Suffix: sfx, Value: randValue(rng, 64, true)}
				case r < 9:
					var sfx []byte
					if rng.IntN(5) != 0 {
						sfx = ks.Suffix(1 + rng.Uint64N(maxTS))
					}
					k = keyspan.Key{Trailer: base.MakeTrailer(s, base.InternalKeyKindRangeKeyUnset), Suffix: sfx}
				default:
					k = keyspan.Key{Trailer: base.MakeTrailer(s, base.InternalKeyKindRangeKeyDelete)}
				}
				// One suffix may be set or unset at most once per sequence
				// number (Writer.RangeKeySet doc): key identity ignores the kind
				// for SET/UNSET.
				kk := k.Kind()
				if kk == base.InternalKeyKindRangeKeyUnset {
					kk = base.InternalKeyKindRangeKeySet
				}
				i := id{s, kk, string(k.Suffix)}
				if seen[i] {
					continue
				}
				seen[i] = true
				keys = append(keys, k)
			}
			keyspan.SortKeysByTrailerAndSuffix(ks.Comparer.CompareRangeSuffixes, keys)
			t.RangeKeys = append(t.RangeKeys, keyspan.Span{Start: bs[i], End: bs[i+1], Keys: keys})
		}
	}

	// Strict-obsolete tables: S2 is the caller's duty — every point deleted by a
	// RANGEDEL of the same table must be force-obsolete.
	if t.WOpts.IsStrictObsolete {
		for i := range t.Points {
			p := &t.Points[i]
			for _, s := range t.RangeDels {
				if cmp(s.Start, p.UserKey) <= 0 && cmp(p.UserKey, s.End) < 0 && s.Covers(p.Trailer.SeqNum()) {
					p.ForceObsolete = true
				}
			}
		}
	} else if !sh.OnlySets && t.Format >= sstable.TableFormatPebblev4 {
		// Optional for non-strict tables: sometimes mark whole user keys
		// obsolete (as a compaction would for range-deleted keys: the RANGEDEL
		// also deletes every older version, C1 keeps them obsolete).
		if rng.IntN(4) == 0 {
			for i := range t.Points {
				first := i == 0 || cmp(t.Points[i-1].UserKey, t.Points[i].UserKey) != 0
				if first && rng.IntN(8) == 0 {
					t.Points[i].ForceObsolete = true
				}
			}
		}
	}
	MarkObsolete(t)
}

// MarkObsolete applies the documented writer rule (sstable/format.go and the
// comment in evaluatePoint): same user key as previous and (previous obsolete
// or previous not MERGE) [C1,C2]; point deletes when writing to the lowest
// level [C3]; or forceObsolete. The very first point of a table is never
// evaluated for C3 (both writers return before the rule when no point was
// written yet), only forceObsolete applies to it.
func MarkObsolete(t *Table) {
	cmp := t.KS.Comparer.Compare
	for i := range t.Points {
		p := &t.Points[i]
		ob := false
		if i > 0 {
			prev := &t.Points[i-1]
			if cmp(prev.UserKey, p.UserKey) == 0 && (prev.Obsolete || prev.Trailer.Kind() != base.InternalKeyKindMerge) {
				ob = true
			}
			k := p.Trailer.Kind()
			if t.WOpts.WritingToLowestLevel && (k == base.InternalKeyKindDelete || k == base.InternalKeyKindSingleDelete || k == base.InternalKeyKindDeleteSized) {
				ob = true
			}
		}
		p.Obsolete = ob || p.ForceObsolete
	}
}
