package sstmodel

import (
	"context"
	"fmt"
	"slices"

	"github.com/cockroachdb/pebble/internal/base"
	"github.com/cockroachdb/pebble/internal/cache"
	"github.com/cockroachdb/pebble/internal/keyspan"
	"github.com/cockroachdb/pebble/internal/sstableinternal"
	"github.com/cockroachdb/pebble/objstorage"
	"github.com/cockroachdb/pebble/sstable"
	"github.com/cockroachdb/pebble/sstable/block"
	"github.com/cockroachdb/pebble/sstable/tablefilters"
)

// Build writes the table through the real RawWriter into an in-memory object
// (objstorage.MemObj, the same plumbing sstable's own tests use).
func Build(t *Table) (err error) {
	obj := &objstorage.MemObj{}
	w := sstable.NewRawWriter(obj, t.WOpts)
	for i := range t.Points {
		p := &t.Points[i]
		// The writer may retain nothing of key/value after Add returns, and
		// MemObj mangles written buffers in invariant builds; hand it copies so
		// that the model's slices stay pristine.
		k := base.InternalKey{UserKey: slices.Clone(p.UserKey), Trailer: p.Trailer}
		if err := w.Add(k, slices.Clone(p.Value), p.ForceObsolete, base.KVMeta{}); err != nil {
			_ = w.Close()
			return fmt.Errorf("Add(%s): %w", k.Pretty(t.KS.Comparer.FormatKey), err)
		}
	}
	for _, s := range t.RangeDels {
		if err := w.EncodeSpan(s.Clone()); err != nil {
			_ = w.Close()
			return fmt.Errorf("EncodeSpan(rangedel %s): %w", s.String(), err)
		}
	}
	for _, s := range t.RangeKeys {
		if err := w.EncodeSpan(s.Clone()); err != nil {
			_ = w.Close()
			return fmt.Errorf("EncodeSpan(rangekey %s): %w", s.String(), err)
		}
	}
	if err := w.Close(); err != nil {
		return fmt.Errorf("Close: %w", err)
	}
	t.Meta, err = w.Metadata()
	if err != nil {
		return err
	}
	t.Data = slices.Clone(obj.Data())
	return nil
}

// memReadable serves an immutable byte slice.
type memReadable struct{ b []byte }

func (m *memReadable) ReadAt(_ context.Context, p []byte, off int64) error {
	if off < 0 || off+int64(len(p)) > int64(len(m.b)) {
		return fmt.Errorf("read past end: off=%d len=%d size=%d", off, len(p), len(m.b))
	}
	copy(p, m.b[off:])
	return nil
}
func (m *memReadable) Close() error { return nil }
func (m *memReadable) Size() int64  { return int64(len(m.b)) }
func (m *memReadable) NewReadHandle(objstorage.ReadBeforeSize) objstorage.ReadHandle {
	return &memReadHandle{m}
}

type memReadHandle struct{ m *memReadable }

func (h *memReadHandle) ReadAt(ctx context.Context, p []byte, off int64) error {
	return h.m.ReadAt(ctx, p, off)
}
func (h *memReadHandle) Close() error                                 { return nil }
func (h *memReadHandle) SetupForCompaction()                          {}
func (h *memReadHandle) RecordCacheHit(context.Context, int64, int64) {}

// NewReadable returns an objstorage.Readable over data.
func NewReadable(data []byte) objstorage.Readable { return &memReadable{b: data} }

// ReaderEnv holds an optional block cache for readers.
type ReaderEnv struct {
	Cache  *cache.Cache
	Handle *cache.Handle
	next   base.DiskFileNum
}

// NewReaderEnv creates a cache of the given size (0: no cache).
func NewReaderEnv(cacheSize int64) *ReaderEnv {
	e := &ReaderEnv{next: 1}
	if cacheSize > 0 {
		e.Cache = cache.New(cacheSize)
		e.Handle = e.Cache.NewHandle()
	}
	return e
}

// Close releases the cache.
func (e *ReaderEnv) Close() {
	if e.Handle != nil {
		e.Handle.Close()
		e.Cache.Unref()
	}
}

// Open opens a reader over data with every filter decoder and key schema known.
func (e *ReaderEnv) Open(ks *KeySpace, data []byte, useFilters bool) (*sstable.Reader, error) {
	ro := sstable.ReaderOptions{
		Comparer:   ks.Comparer,
		KeySchemas: ks.KeySchemas(),
	}
	if useFilters {
		ro.FilterDecoders = tablefilters.Decoders
	}
	if e != nil && e.Handle != nil {
		ro.ReaderOptions = block.ReaderOptions{CacheOpts: sstableinternal.CacheOptions{CacheHandle: e.Handle, FileNum: e.next}}
		e.next++
	}
	return sstable.NewReader(context.Background(), NewReadable(data), ro)
}

// CloneSpans deep-copies spans.
func CloneSpans(in []keyspan.Span) []keyspan.Span {
	out := make([]keyspan.Span, len(in))
	for i := range in {
		out[i] = in[i].Clone()
	}
	return out
}
