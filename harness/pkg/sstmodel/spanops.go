package sstmodel

import (
	"fmt"
	"math/rand/v2"
	"slices"
	"sort"

	"github.com/cockroachdb/pebble/internal/keyspan"
)

// SpanCfg configures a run of random ops against a fragment iterator.
type SpanCfg struct {
	NOps      int
	IterKind  string
	ExtraKeys [][]byte
}

// RunSpanOps drives a keyspan.FragmentIterator (range-del or range-key
// iterator of a table) with random operations allowed by the documented
// contract (keyspan/iter.go) and compares with the fragmented span list.
// it == nil means the table has no such block: the model must be empty.
func RunSpanOps(rng *rand.Rand, it keyspan.FragmentIterator, ks *KeySpace, model []keyspan.Span, cfg SpanCfg, st *Stats) *Mismatch {
	var hist []string
	logf := func(f string, a ...any) {
		hist = append(hist, fmt.Sprintf(f, a...))
		if len(hist) > 30 {
			hist = hist[len(hist)-30:]
		}
	}
	mk := func(class, op string, want *keyspan.Span, got string) *Mismatch {
		return &Mismatch{Class: class, Op: op, Expected: SpanString(want), Got: got, History: slices.Clone(hist), IterKind: cfg.IterKind}
	}
	if it == nil {
		if len(model) != 0 {
			return mk("span-mismatch", "NewIter", &model[0], "no iterator (block absent)")
		}
		return nil
	}
	cmp := ks.Comparer.Compare
	n := len(model)
	at := func(i int) *keyspan.Span {
		if i < 0 || i >= n {
			return nil
		}
		return &model[i]
	}
	randKey := func() []byte {
		if n > 0 && rng.IntN(10) < 7 {
			s := &model[rng.IntN(n)]
			k := s.Start
			if rng.IntN(2) == 0 {
				k = s.End
			}
			switch rng.IntN(4) {
			case 0:
				return ks.Succ(ks.PrefixOf(k))
			case 1:
				return slices.Clone(ks.PrefixOf(k))
			case 2:
				return append(slices.Clone(ks.PrefixOf(k)), ks.Suffix(1+rng.Uint64N(10))...)
			}
			return slices.Clone(k)
		}
		if len(cfg.ExtraKeys) > 0 {
			return slices.Clone(cfg.ExtraKeys[rng.IntN(len(cfg.ExtraKeys))])
		}
		return ks.Key([]byte{byte('a' + rng.IntN(26))}, uint64(rng.IntN(3)))
	}
	pos := -1
	positioned, canNext, canPrev := false, false, false
	for op := 0; op < cfg.NOps; op++ {
		var got *keyspan.Span
		var err error
		var want *keyspan.Span
		var name string
		fwd := false
		for {
			x := rng.IntN(100)
			if x < 18 {
				k := randKey()
				pos = sort.Search(n, func(i int) bool { return cmp(model[i].End, k) > 0 })
				want = at(pos)
				name = fmt.Sprintf("SeekGE(%q)", k)
				got, err = it.SeekGE(k)
				fwd = true
				st.Ops["span.SeekGE"]++
			} else if x < 36 {
				k := randKey()
				pos = sort.Search(n, func(i int) bool { return cmp(model[i].Start, k) >= 0 }) - 1
				want = at(pos)
				name = fmt.Sprintf("SeekLT(%q)", k)
				got, err = it.SeekLT(k)
				st.Ops["span.SeekLT"]++
			} else if x < 42 {
				pos = 0
				want = at(pos)
				name = "First()"
				got, err = it.First()
				fwd = true
				st.Ops["span.First"]++
			} else if x < 48 {
				pos = n - 1
				want = at(pos)
				name = "Last()"
				got, err = it.Last()
				st.Ops["span.Last"]++
			} else if x < 74 {
				if !positioned || !canNext {
					continue
				}
				if pos < n {
					pos++
				}
				want = at(pos)
				name = "Next()"
				got, err = it.Next()
				fwd = true
				st.Ops["span.Next"]++
			} else {
				if !positioned || !canPrev {
					continue
				}
				if pos >= 0 {
					pos--
				}
				want = at(pos)
				name = "Prev()"
				got, err = it.Prev()
				st.Ops["span.Prev"]++
			}
			break
		}
		positioned = true
		var gc *keyspan.Span
		if got != nil {
			c := got.Clone() // spans are only valid until the next positioning call
			gc = &c
		}
		logf("%s = %s", name, SpanString(gc))
		if err != nil {
			return mk("span-iter-error", name, want, fmt.Sprintf("error %v", err))
		}
		if !SpanEqual(ks, gc, want) {
			return mk("span-mismatch", name, want, SpanString(gc))
		}
		if want != nil {
			st.NonNil++
			canNext, canPrev = true, true
		} else if fwd {
			canNext, canPrev = false, true
		} else {
			canNext, canPrev = true, false
		}
	}
	return nil
}

// ReadAllSpans scans a fragment iterator forward.
func ReadAllSpans(it keyspan.FragmentIterator) ([]keyspan.Span, error) {
	if it == nil {
		return nil, nil
	}
	var out []keyspan.Span
	s, err := it.First()
	for ; s != nil && err == nil; s, err = it.Next() {
		out = append(out, s.Clone())
	}
	return out, err
}
