// Package sstmodel is the shared generator + sorted-list reference model used
// by the C25 (sstable round trip), C26 (filters, end-to-end part) and C29
// (virtual tables / transforms / CopySpan) monitors.
//
// Nothing in here decides a verdict by itself: the property packages call the
// generators, run the real sstable code, and feed what it returned to the
// checkers in this package, which compare it with a model computed by binary
// search over a plain sorted slice.
package sstmodel

import (
	"bytes"
	"encoding/binary"
	"math/rand/v2"
	"strconv"

	"github.com/cockroachdb/pebble/cockroachkvs"
	"github.com/cockroachdb/pebble/internal/base"
	"github.com/cockroachdb/pebble/internal/testkeys"
	"github.com/cockroachdb/pebble/sstable"
	"github.com/cockroachdb/pebble/sstable/colblk"
)

// KeySpace abstracts over the two key encodings exercised: internal/testkeys
// ("prefix@ts", larger ts sorts first, no suffix sorts first) with
// colblk.DefaultKeySchema, and cockroachkvs engine keys with its own schema.
type KeySpace struct {
	Name     string
	Comparer *base.Comparer
	crdb     bool
	schemas  map[int]*colblk.KeySchema // by bundle size (testkeys only)
}

// TestKeys is the internal/testkeys key space.
var TestKeys = &KeySpace{Name: "testkeys", Comparer: testkeys.Comparer, schemas: map[int]*colblk.KeySchema{}}

// Crdb is the cockroachkvs key space.
var Crdb = &KeySpace{Name: "cockroachkvs", Comparer: &cockroachkvs.Comparer, crdb: true}

// BundleSizes are the PrefixBytes bundle sizes used for the default key schema.
var BundleSizes = []int{2, 4, 8, 16, 16, 16, 32, 64}

func init() {
	for _, b := range BundleSizes {
		if _, ok := TestKeys.schemas[b]; !ok {
			s := colblk.DefaultKeySchema(testkeys.Comparer, b)
			TestKeys.schemas[b] = &s
		}
	}
}

// Schema returns the key schema for a bundle size (ignored for cockroachkvs).
func (ks *KeySpace) Schema(bundle int) *colblk.KeySchema {
	if ks.crdb {
		return &cockroachkvs.KeySchema
	}
	if s, ok := ks.schemas[bundle]; ok {
		return s
	}
	return ks.schemas[16]
}

// KeySchemas returns every schema a reader needs to know.
func (ks *KeySpace) KeySchemas() sstable.KeySchemas {
	if ks.crdb {
		return sstable.MakeKeySchemas(&cockroachkvs.KeySchema)
	}
	var l []*colblk.KeySchema
	for _, s := range ks.schemas {
		l = append(l, s)
	}
	return sstable.MakeKeySchemas(l...)
}

// crdbLogical derives the logical part of a cockroach timestamp from ts so that
// distinct ts give distinct (wall, logical) pairs and both encodings (9-byte
// and 13-byte versions) occur.
func crdbLogical(ts uint64) uint32 {
	if ts%3 == 0 {
		return uint32(ts%5) + 1
	}
	return 0
}

// Suffix returns the suffix bytes for version ts (ts==0: no suffix).
func (ks *KeySpace) Suffix(ts uint64) []byte {
	if ts == 0 {
		return nil
	}
	if !ks.crdb {
		return append([]byte{'@'}, strconv.FormatUint(ts, 10)...)
	}
	l := crdbLogical(ts)
	if l == 0 {
		v := make([]byte, 9)
		binary.BigEndian.PutUint64(v, ts)
		v[8] = 9
		return v
	}
	v := make([]byte, 13)
	binary.BigEndian.PutUint64(v, ts)
	binary.BigEndian.PutUint32(v[8:], l)
	v[12] = 13
	return v
}

// Prefix returns the Split-prefix for a bare prefix (cockroach keys carry a
// 0x00 sentinel).
func (ks *KeySpace) Prefix(bare []byte) []byte {
	out := append([]byte(nil), bare...)
	if ks.crdb {
		out = append(out, 0)
	}
	return out
}

// Key returns the user key bare[+sentinel]+suffix(ts).
func (ks *KeySpace) Key(bare []byte, ts uint64) []byte {
	return append(ks.Prefix(bare), ks.Suffix(ts)...)
}

// LockKey returns a cockroach lock-table style key (17-byte untyped version + length byte).
func (ks *KeySpace) LockKey(bare []byte, rng *rand.Rand) []byte {
	k := ks.Prefix(bare)
	for j := 0; j < 17; j++ {
		k = append(k, byte('a'+rng.IntN(4)))
	}
	return append(k, 18)
}

// Split is Comparer.Split.
func (ks *KeySpace) Split(k []byte) int { return ks.Comparer.Split(k) }

// PrefixOf returns k[:Split(k)].
func (ks *KeySpace) PrefixOf(k []byte) []byte { return k[:ks.Comparer.Split(k)] }

// Cmp is Comparer.Compare.
func (ks *KeySpace) Cmp(a, b []byte) int { return ks.Comparer.Compare(a, b) }

// SamePrefix reports whether two user keys have byte-equal Split prefixes.
func (ks *KeySpace) SamePrefix(a, b []byte) bool {
	return bytes.Equal(ks.PrefixOf(a), ks.PrefixOf(b))
}

// Succ is ImmediateSuccessor of a Split-prefix.
func (ks *KeySpace) Succ(prefix []byte) []byte {
	return ks.Comparer.ImmediateSuccessor(nil, prefix)
}

// BareOf strips the sentinel of a Split-prefix.
func (ks *KeySpace) BareOf(prefix []byte) []byte { return ks.bareOf(prefix) }

// bareOf strips the sentinel of a Split-prefix.
func (ks *KeySpace) bareOf(prefix []byte) []byte {
	if ks.crdb && len(prefix) > 0 {
		return prefix[:len(prefix)-1]
	}
	return prefix
}

// PrefixShape controls how bare prefixes are drawn.
type PrefixShape struct {
	Shared   []byte // common leading bytes of every prefix
	Alphabet int    // number of distinct letters
	MinLen   int    // random part, min length
	MaxLen   int    // random part, max length
}

// RandPrefixShape draws a prefix shape: short dense alphabets (many near
// misses), or long shared prefixes (prefix compression paths).
func RandPrefixShape(rng *rand.Rand) PrefixShape {
	var s PrefixShape
	switch rng.IntN(6) {
	case 0: // long shared prefix
		n := 20 + rng.IntN(200)
		s.Shared = make([]byte, n)
		for i := range s.Shared {
			s.Shared[i] = byte('a' + rng.IntN(3))
		}
		s.Alphabet, s.MinLen, s.MaxLen = 3, 1, 4
	case 1: // medium shared prefix
		n := 3 + rng.IntN(12)
		s.Shared = make([]byte, n)
		for i := range s.Shared {
			s.Shared[i] = byte('a' + rng.IntN(26))
		}
		s.Alphabet, s.MinLen, s.MaxLen = 4, 1, 5
	case 2: // tiny alphabet, variable length: keys that are prefixes of each other
		s.Alphabet, s.MinLen, s.MaxLen = 2, 1, 9
	case 3:
		s.Alphabet, s.MinLen, s.MaxLen = 26, 1, 3
	case 4:
		s.Alphabet, s.MinLen, s.MaxLen = 5, 2, 6
	default:
		s.Alphabet, s.MinLen, s.MaxLen = 3, 1, 6
	}
	return s
}

// Draw returns one bare prefix.
func (s PrefixShape) Draw(rng *rand.Rand) []byte {
	n := s.MinLen + rng.IntN(s.MaxLen-s.MinLen+1)
	out := make([]byte, 0, len(s.Shared)+n)
	out = append(out, s.Shared...)
	for i := 0; i < n; i++ {
		out = append(out, byte('a'+rng.IntN(s.Alphabet)))
	}
	return out
}
