package sstmodel

import (
	"bytes"
	"fmt"
	"sort"

	"github.com/cockroachdb/pebble/internal/base"
	"github.com/cockroachdb/pebble/internal/keyspan"
	"github.com/cockroachdb/pebble/sstable"
)

// Entry is one visible point of the sorted-list model.
type Entry struct {
	UserKey []byte
	Trailer base.InternalKeyTrailer
	Value   []byte
}

func (e Entry) String() string {
	v := e.Value
	if len(v) > 12 {
		return fmt.Sprintf("%q#%d,%s=(%d bytes)%x…", e.UserKey, e.Trailer.SeqNum(), e.Trailer.Kind(), len(v), v[:12])
	}
	return fmt.Sprintf("%q#%d,%s=%x", e.UserKey, e.Trailer.SeqNum(), e.Trailer.Kind(), v)
}

// Transform describes the iterator-time transforms applied to the model.
type Transform struct {
	SyntheticPrefix []byte
	SyntheticSuffix []byte
	SyntheticSeqNum base.SeqNum
	HideObsolete    bool
}

// VBounds are virtual-table bounds in terms of (already transformed) user keys.
type VBounds struct {
	Set            bool
	Lower          []byte
	Upper          []byte
	UpperExclusive bool
}

// Contains reports whether user key k lies inside the virtual bounds.
func (v VBounds) Contains(cmp base.Compare, k []byte) bool {
	if !v.Set {
		return true
	}
	if cmp(k, v.Lower) < 0 {
		return false
	}
	c := cmp(k, v.Upper)
	return c < 0 || (c == 0 && !v.UpperExclusive)
}

// PointModel is the sorted list of visible points plus the prefix set of the
// physical table.
type PointModel struct {
	KS      *KeySpace
	Entries []Entry
}

// TransformKey applies synthetic suffix (replace the suffix of every point
// key) and synthetic prefix (prepend) to a physical user key.
func TransformKey(ks *KeySpace, tr Transform, k []byte) []byte {
	out := make([]byte, 0, len(tr.SyntheticPrefix)+len(k)+len(tr.SyntheticSuffix))
	out = append(out, tr.SyntheticPrefix...)
	if len(tr.SyntheticSuffix) > 0 {
		out = append(out, k[:ks.Split(k)]...)
		out = append(out, tr.SyntheticSuffix...)
	} else {
		out = append(out, k...)
	}
	return out
}

// NewPointModel computes transform(physical entries) ∩ virtual bounds.
func NewPointModel(t *Table, tr Transform, vb VBounds) *PointModel {
	m := &PointModel{KS: t.KS}
	cmp := t.KS.Comparer.Compare
	hide := tr.HideObsolete && t.Format >= sstable.TableFormatPebblev4
	for i := range t.Points {
		p := &t.Points[i]
		if hide && p.Obsolete {
			continue
		}
		k := TransformKey(t.KS, tr, p.UserKey)
		if !vb.Contains(cmp, k) {
			continue
		}
		tl := p.Trailer
		if tr.SyntheticSeqNum != 0 {
			tl = base.MakeTrailer(tr.SyntheticSeqNum, tl.Kind())
		}
		m.Entries = append(m.Entries, Entry{UserKey: k, Trailer: tl, Value: p.Value})
	}
	return m
}

// SeekGEIdx returns the index of the first entry with user key >= k.
func (m *PointModel) SeekGEIdx(k []byte) int {
	cmp := m.KS.Comparer.Compare
	return sort.Search(len(m.Entries), func(i int) bool { return cmp(m.Entries[i].UserKey, k) >= 0 })
}

// SeekLTIdx returns the index of the last entry with user key < k (or -1).
func (m *PointModel) SeekLTIdx(k []byte) int { return m.SeekGEIdx(k) - 1 }

// TransformSpans applies the fragment transforms and the virtual-bounds
// truncation to a span list.
func TransformSpans(ks *KeySpace, spans []keyspan.Span, tr Transform, vb VBounds) []keyspan.Span {
	cmp := ks.Comparer.Compare
	var out []keyspan.Span
	for _, s := range spans {
		c := s.Clone()
		if len(tr.SyntheticPrefix) > 0 {
			c.Start = append(append([]byte(nil), tr.SyntheticPrefix...), c.Start...)
			c.End = append(append([]byte(nil), tr.SyntheticPrefix...), c.End...)
		}
		for j := range c.Keys {
			if tr.SyntheticSeqNum != 0 {
				c.Keys[j].Trailer = base.MakeTrailer(tr.SyntheticSeqNum, c.Keys[j].Kind())
			}
			if len(tr.SyntheticSuffix) > 0 && c.Keys[j].Kind() == base.InternalKeyKindRangeKeySet && len(c.Keys[j].Suffix) > 0 {
				c.Keys[j].Suffix = append([]byte(nil), tr.SyntheticSuffix...)
			}
		}
		if vb.Set {
			if cmp(c.Start, vb.Lower) < 0 {
				c.Start = append([]byte(nil), vb.Lower...)
			}
			// Spans have exclusive ends; an inclusive virtual upper bound is
			// only legal when no span contains it, so clipping at Upper is
			// right in both cases.
			if cmp(c.End, vb.Upper) > 0 {
				c.End = append([]byte(nil), vb.Upper...)
			}
			if cmp(c.Start, c.End) >= 0 {
				continue
			}
		}
		out = append(out, c)
	}
	return out
}

// canonKeys renders span keys in an order-insensitive canonical form: the
// row-oriented format re-groups keys of equal sequence number by kind, so key
// order inside a span is not part of the contract (writer.go,
// encodeFragmentedRangeKeySpan).
func canonKeys(ks *KeySpace, keys []keyspan.Key) []string {
	out := make([]string, len(keys))
	for i, k := range keys {
		out[i] = fmt.Sprintf("#%d,%s,%x=%x", k.SeqNum(), k.Kind(), k.Suffix, k.Value)
	}
	sort.Strings(out)
	return out
}

// SpanEqual compares a span returned by an iterator with a model span.
func SpanEqual(ks *KeySpace, got *keyspan.Span, want *keyspan.Span) bool {
	if (got == nil) != (want == nil) {
		return false
	}
	if got == nil {
		return true
	}
	if !bytes.Equal(got.Start, want.Start) || !bytes.Equal(got.End, want.End) || len(got.Keys) != len(want.Keys) {
		return false
	}
	a, b := canonKeys(ks, got.Keys), canonKeys(ks, want.Keys)
	for i := range a {
		if a[i] != b[i] {
			return false
		}
	}
	return true
}

// SpanString renders a span (nil-safe).
func SpanString(s *keyspan.Span) string {
	if s == nil {
		return "<nil>"
	}
	return fmt.Sprintf("%q-%q:%d keys %s", s.Start, s.End, len(s.Keys), s.String())
}
