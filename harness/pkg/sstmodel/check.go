package sstmodel

import (
	"bytes"
	"context"
	"fmt"
	"math/rand/v2"
	"runtime/debug"
	"slices"

	"github.com/cockroachdb/pebble/internal/base"
	"github.com/cockroachdb/pebble/internal/keyspan"
	"github.com/cockroachdb/pebble/sstable"
	"github.com/cockroachdb/pebble/sstable/blockiter"
	"github.com/cockroachdb/pebble/sstable/virtual"
)

// MakeTransforms converts a model Transform into the sstable types.
func MakeTransforms(tr Transform) (sstable.IterTransforms, sstable.FragmentIterTransforms) {
	ps := blockiter.MakeSyntheticPrefixAndSuffix(tr.SyntheticPrefix, tr.SyntheticSuffix)
	it := sstable.IterTransforms{
		SyntheticSeqNum:          sstable.SyntheticSeqNum(tr.SyntheticSeqNum),
		HideObsoletePoints:       tr.HideObsolete,
		SyntheticPrefixAndSuffix: ps,
	}
	ft := sstable.FragmentIterTransforms{
		SyntheticSeqNum:          sstable.SyntheticSeqNum(tr.SyntheticSeqNum),
		SyntheticPrefixAndSuffix: ps,
	}
	return it, ft
}

// ScanPoints reads every point through First/Next (forward) or Last/Prev.
func ScanPoints(it sstable.Iterator, forward bool) ([]Entry, error) {
	var out []Entry
	var kv *base.InternalKV
	if forward {
		kv = it.First()
	} else {
		kv = it.Last()
	}
	for kv != nil {
		v, _, err := kv.Value(nil)
		if err != nil {
			return out, err
		}
		out = append(out, Entry{UserKey: slices.Clone(kv.K.UserKey), Trailer: kv.K.Trailer, Value: slices.Clone(v)})
		if forward {
			kv = it.Next()
		} else {
			kv = it.Prev()
		}
	}
	if !forward {
		slices.Reverse(out)
	}
	return out, it.Error()
}

// DiffEntries returns a description of the first difference, or "".
func DiffEntries(got, want []Entry) string {
	n := min(len(got), len(want))
	for i := 0; i < n; i++ {
		if !bytes.Equal(got[i].UserKey, want[i].UserKey) || got[i].Trailer != want[i].Trailer || !bytes.Equal(got[i].Value, want[i].Value) {
			return fmt.Sprintf("entry %d: got %s, want %s", i, got[i], want[i])
		}
	}
	if len(got) != len(want) {
		if len(got) > n {
			return fmt.Sprintf("%d entries, want %d; first extra: %s", len(got), len(want), got[n])
		}
		return fmt.Sprintf("%d entries, want %d; first missing: %s", len(got), len(want), want[n])
	}
	return ""
}

// DiffSpans returns a description of the first difference, or "".
func DiffSpans(ks *KeySpace, got, want []keyspan.Span) string {
	n := min(len(got), len(want))
	for i := 0; i < n; i++ {
		if !SpanEqual(ks, &got[i], &want[i]) {
			return fmt.Sprintf("span %d: got %s, want %s", i, SpanString(&got[i]), SpanString(&want[i]))
		}
	}
	if len(got) != len(want) {
		return fmt.Sprintf("%d spans, want %d", len(got), len(want))
	}
	return ""
}

// IterSpec is how one point iterator over a reader is set up.
type IterSpec struct {
	Transform    Transform
	VB           VBounds
	VLowerKey    base.InternalKey // as recorded in VirtualReaderParams
	VUpperKey    base.InternalKey
	Lower, Upper []byte
	UseFilter    bool
	Compaction   bool
}

// NewPointIter creates a point iterator the way pebble's file cache does
// (TryAddBlockPropertyFilterForHideObsoletePoints + IntersectsTable when
// obsolete points are to be hidden). A nil iterator with nil error means the
// table-level obsolete property excludes the whole table.
func NewPointIter(r *sstable.Reader, spec IterSpec, largestSeq base.SeqNum) (sstable.Iterator, error) {
	itr, _ := MakeTransforms(spec.Transform)
	env := sstable.NoReadEnv
	if spec.VB.Set {
		env.Virtual = VirtualParams(spec)
	}
	var filterer *sstable.BlockPropertiesFilterer
	if spec.Transform.HideObsolete {
		hide, filters := r.TryAddBlockPropertyFilterForHideObsoletePoints(base.SeqNumMax, largestSeq, nil)
		itr.HideObsoletePoints = hide
		if hide {
			var err error
			filterer, err = sstable.IntersectsTable(filters, nil, r.UserProperties, spec.Transform.SyntheticSuffix)
			if err != nil {
				return nil, err
			}
			if filterer == nil {
				return nil, nil
			}
		}
	}
	if spec.Compaction {
		// NewCompactionIter takes no bounds and no filterer.
		return r.NewCompactionIter(context.Background(), itr, env, sstable.MakeTrivialReaderProvider(r), sstable.AssertNoBlobHandles)
	}
	lim := sstable.NeverUseFilterBlock
	if spec.UseFilter {
		lim = sstable.AlwaysUseFilterBlock
	}
	return r.NewPointIter(context.Background(), sstable.IterOptions{
		Lower: spec.Lower, Upper: spec.Upper,
		Transforms:           itr,
		Filterer:             filterer,
		FilterBlockSizeLimit: lim,
		Env:                  env,
		ReaderProvider:       sstable.MakeTrivialReaderProvider(r),
		BlobContext:          sstable.AssertNoBlobHandles,
	})
}

// RandIterBounds draws initial iterator bounds from model keys (nil, nil most
// of the time for small models).
func RandIterBounds(rng *rand.Rand, m *PointModel, vb VBounds) (lo, up []byte) {
	n := len(m.Entries)
	if n == 0 || rng.IntN(2) == 0 {
		return nil, nil
	}
	ks := m.KS
	a := slices.Clone(m.Entries[rng.IntN(n)].UserKey)
	b := slices.Clone(m.Entries[rng.IntN(n)].UserKey)
	if rng.IntN(2) == 0 {
		a = slices.Clone(ks.PrefixOf(a))
	}
	if rng.IntN(2) == 0 {
		b = ks.Succ(ks.PrefixOf(b))
	}
	c := ks.Cmp(a, b)
	if c > 0 {
		a, b = b, a
	}
	if c == 0 {
		if rng.IntN(2) == 0 {
			return a, nil
		}
		return nil, b
	}
	switch rng.IntN(4) {
	case 0:
		lo = a
	case 1:
		up = b
	default:
		lo, up = a, b
	}
	if vb.Set {
		if up != nil && ks.Cmp(up, vb.Lower) <= 0 {
			up = nil
		}
		if lo != nil {
			c := ks.Cmp(lo, vb.Upper)
			if c > 0 || (c == 0 && vb.UpperExclusive) {
				lo = nil
			}
		}
	}
	return lo, up
}

// VirtualParams builds the VirtualReaderParams recorded for a virtual table.
func VirtualParams(spec IterSpec) *virtual.VirtualReaderParams {
	return &virtual.VirtualReaderParams{Lower: spec.VLowerKey, Upper: spec.VUpperKey, FileNum: 7}
}

// Guard runs fn and converts a panic into (message, stack): a panic inside the
// code under test on legal input is a finding, but it must not mask the
// remaining cases of the shard.
func Guard(fn func()) (msg string, stack string) {
	defer func() {
		if r := recover(); r != nil {
			msg = fmt.Sprint(r)
			if len(msg) > 600 {
				msg = msg[:600]
			}
			stack = string(debug.Stack())
			if len(stack) > 6000 {
				stack = stack[:6000]
			}
		}
	}()
	fn()
	return "", ""
}
