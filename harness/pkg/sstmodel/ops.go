package sstmodel

import (
	"bytes"
	"fmt"
	"math/rand/v2"
	"slices"

	"github.com/cockroachdb/pebble/internal/base"
	"github.com/cockroachdb/pebble/sstable"
)

// Mismatch is a disagreement between the real iterator and the model.
type Mismatch struct {
	Class    string   `json:"class"`
	Op       string   `json:"op"`
	Expected string   `json:"expected"`
	Got      string   `json:"got"`
	History  []string `json:"history"` // the ops that led here (most recent last)
	IterKind string   `json:"iter_kind"`
}

func (m *Mismatch) String() string {
	return fmt.Sprintf("%s: %s: expected %s, got %s", m.IterKind, m.Op, m.Expected, m.Got)
}

// Stats counts what an op run really exercised.
type Stats struct {
	Ops                   map[string]int64
	NonNil                int64
	PrefixMismatchLenient int64 // SeekPrefixGE/Next returned a key of another prefix (allowed by the doc)
	TSUN                  int64
	SetBounds             int64
	MonotonicBounds       int64
	DirSwitchAfterNil     int64
	ValueBytes            int64
}

// NewStats allocates Stats.
func NewStats() *Stats { return &Stats{Ops: map[string]int64{}} }

// PointCfg configures one run of random ops against a point iterator.
type PointCfg struct {
	NOps         int
	Lower, Upper []byte   // bounds the iterator was created with
	VB           VBounds  // virtual bounds (model is already restricted to them)
	ExtraKeys    [][]byte // additional seek-key candidates (e.g. physical keys outside the virtual bounds)
	NoSetBounds  bool
	IterKind     string
}

type pointRunner struct {
	rng   *rand.Rand
	it    sstable.Iterator
	m     *PointModel
	ks    *KeySpace
	cfg   PointCfg
	st    *Stats
	hist  []string
	lower []byte
	upper []byte
	keep  [][]byte // bound slices must stay valid until the next SetBounds returns

	pos           int
	positioned    bool
	canNext       bool
	canPrev       bool
	canNextPrefix bool
	prefixMode    bool
	prefix        []byte
	lastNil       bool
	lastDir       int

	tsunKind int // 0 none, 1 SeekGE, 2 SeekPrefixGE
	tsunKey  []byte
	tsunCur  *Entry // entry the iterator is on (nil: exhausted by the seek itself)
	tsunOK   bool
	// firstAfterSeek: no Next since the last Seek[Prefix]GE.
	firstAfterSeek bool
}

func (r *pointRunner) log(s string) {
	r.hist = append(r.hist, s)
	if len(r.hist) > 40 {
		r.hist = r.hist[len(r.hist)-40:]
	}
}

func kvString(kv *base.InternalKV, val []byte, verr error) string {
	if kv == nil {
		return "<nil>"
	}
	if verr != nil {
		return fmt.Sprintf("%q#%d,%s value-error=%v", kv.K.UserKey, kv.K.SeqNum(), kv.K.Kind(), verr)
	}
	return Entry{UserKey: kv.K.UserKey, Trailer: kv.K.Trailer, Value: val}.String()
}

func entString(e *Entry) string {
	if e == nil {
		return "<nil>"
	}
	return e.String()
}

// fwd returns the model entry at pos subject to the upper bound (forward ops
// check only the upper bound).
func (r *pointRunner) fwd(pos int) *Entry {
	if pos < 0 || pos >= len(r.m.Entries) {
		return nil
	}
	e := &r.m.Entries[pos]
	if r.upper != nil && r.ks.Cmp(e.UserKey, r.upper) >= 0 {
		return nil
	}
	return e
}

// bwd returns the model entry at pos subject to the lower bound.
func (r *pointRunner) bwd(pos int) *Entry {
	if pos < 0 || pos >= len(r.m.Entries) {
		return nil
	}
	e := &r.m.Entries[pos]
	if r.lower != nil && r.ks.Cmp(e.UserKey, r.lower) < 0 {
		return nil
	}
	return e
}

func (r *pointRunner) mismatch(class, op string, want *Entry, got string) *Mismatch {
	return &Mismatch{Class: class, Op: op, Expected: entString(want), Got: got, History: slices.Clone(r.hist), IterKind: r.cfg.IterKind}
}

// check compares kv with want (exact match required).
func (r *pointRunner) check(op string, kv *base.InternalKV, want *Entry) *Mismatch {
	var val []byte
	var verr error
	if kv != nil {
		val, _, verr = kv.Value(nil)
	}
	gs := kvString(kv, val, verr)
	r.log(fmt.Sprintf("%s = %s", op, gs))
	if err := r.it.Error(); err != nil {
		return r.mismatch("iter-error", op, want, fmt.Sprintf("%s; Error()=%v", gs, err))
	}
	if (kv == nil) != (want == nil) {
		return r.mismatch("iter-mismatch", op, want, gs)
	}
	if kv == nil {
		return nil
	}
	r.st.NonNil++
	if verr != nil {
		return r.mismatch("value-error", op, want, gs)
	}
	if !bytes.Equal(kv.K.UserKey, want.UserKey) || kv.K.Trailer != want.Trailer {
		return r.mismatch("iter-mismatch", op, want, gs)
	}
	if !bytes.Equal(val, want.Value) || kv.V.Len() != len(want.Value) {
		return r.mismatch("value-mismatch", op, want, fmt.Sprintf("%s (V.Len=%d)", gs, kv.V.Len()))
	}
	r.st.ValueBytes += int64(len(val))
	return nil
}

// mutateKey derives a seek key near an existing user key.
func (r *pointRunner) mutateKey(k []byte) []byte {
	ks, rng := r.ks, r.rng
	// Keys produced by a synthetic prefix carry it in front; mutate only the
	// part after it so the result is still a well-formed key.
	p := ks.PrefixOf(k)
	switch rng.IntN(9) {
	case 0:
		return slices.Clone(p)
	case 1:
		return ks.Succ(p)
	case 2, 3:
		return append(slices.Clone(p), ks.Suffix(1+rng.Uint64N(12))...)
	case 4:
		return append(slices.Clone(p), ks.Suffix(1+rng.Uint64N(1<<20))...)
	default:
		bare := slices.Clone(ks.bareOf(p))
		switch rng.IntN(4) {
		case 0:
			bare = append(bare, byte('a'+rng.IntN(3)))
		case 1:
			if len(bare) > 1 {
				bare = bare[:len(bare)-1]
			}
		case 2:
			if len(bare) > 0 && bare[len(bare)-1] > 'a' {
				bare[len(bare)-1]--
			}
		default:
			if len(bare) > 0 && bare[len(bare)-1] < 'z' {
				bare[len(bare)-1]++
			}
		}
		if rng.IntN(2) == 0 {
			return ks.Key(bare, 0)
		}
		return ks.Key(bare, 1+rng.Uint64N(12))
	}
}

// randKey draws an unconstrained seek key.
func (r *pointRunner) randKey() []byte {
	rng := r.rng
	n := len(r.m.Entries)
	x := rng.IntN(100)
	switch {
	case x < 45 && n > 0:
		// existing key, biased to the neighbourhood of the cursor half the time
		i := rng.IntN(n)
		if rng.IntN(2) == 0 && r.pos >= 0 && r.pos < n {
			i = r.pos + rng.IntN(21) - 10
			if i < 0 {
				i = 0
			}
			if i >= n {
				i = n - 1
			}
		}
		return slices.Clone(r.m.Entries[i].UserKey)
	case x < 85 && n > 0:
		return r.mutateKey(r.m.Entries[rng.IntN(n)].UserKey)
	case x < 93 && len(r.cfg.ExtraKeys) > 0:
		k := r.cfg.ExtraKeys[rng.IntN(len(r.cfg.ExtraKeys))]
		if rng.IntN(2) == 0 {
			return r.mutateKey(k)
		}
		return slices.Clone(k)
	default:
		if len(r.cfg.ExtraKeys) > 0 {
			return r.mutateKey(r.cfg.ExtraKeys[rng.IntN(len(r.cfg.ExtraKeys))])
		}
		if n > 0 {
			return r.mutateKey(r.m.Entries[rng.IntN(n)].UserKey)
		}
		return r.ks.Key([]byte("m"), uint64(rng.IntN(3)))
	}
}

// clampKey forces k into [lower, upper] as the InternalIterator contract
// requires of callers.
func (r *pointRunner) clampKey(k []byte) []byte {
	if r.lower != nil && r.ks.Cmp(k, r.lower) < 0 {
		return slices.Clone(r.lower)
	}
	if r.upper != nil && r.ks.Cmp(k, r.upper) > 0 {
		return slices.Clone(r.upper)
	}
	return k
}

func (r *pointRunner) resetTSUN() { r.tsunKind, r.tsunOK, r.tsunKey, r.tsunCur = 0, false, nil, nil }

// tsunAllowed reports whether TrySeekUsingNext may be passed for a seek of
// the given kind to key k: same-type seek sequence, only Next calls since, k
// not less than the previous seek key, and the iterator not beyond the first
// key an honest seek would find.
func (r *pointRunner) tsunAllowed(kind int, k []byte) bool {
	if !r.tsunOK || r.tsunKind != kind || r.ks.Cmp(k, r.tsunKey) < 0 {
		return false
	}
	if r.tsunCur == nil {
		return true
	}
	return r.ks.Cmp(r.tsunCur.UserKey, k) < 0 || r.firstAfterSeek
}

// boundsOverlapVirtual: ConstrainBounds assumes the iterator bounds overlap
// the virtual bounds.
func (r *pointRunner) boundsOK(lo, up []byte) bool {
	if lo != nil && up != nil && r.ks.Cmp(lo, up) >= 0 {
		return false
	}
	vb := r.cfg.VB
	if !vb.Set {
		return true
	}
	if up != nil && r.ks.Cmp(up, vb.Lower) <= 0 {
		return false
	}
	if lo != nil {
		c := r.ks.Cmp(lo, vb.Upper)
		if c > 0 || (c == 0 && vb.UpperExclusive) {
			return false
		}
	}
	return true
}

func (r *pointRunner) doSetBounds() {
	rng := r.rng
	var lo, up []byte
	mono := false
	switch rng.IntN(6) {
	case 0:
		// no bounds
	case 1, 2:
		// monotonically forward: new lower = old upper
		if r.upper != nil {
			lo = slices.Clone(r.upper)
			if rng.IntN(3) != 0 {
				up = r.randKey()
			}
			mono = true
		}
	case 3:
		// monotonically backward: new upper = old lower
		if r.lower != nil {
			up = slices.Clone(r.lower)
			if rng.IntN(3) != 0 {
				lo = r.randKey()
			}
			mono = true
		}
	default:
		if rng.IntN(4) != 0 {
			lo = r.randKey()
		}
		if rng.IntN(4) != 0 {
			up = r.randKey()
		}
	}
	if lo != nil && up != nil && r.ks.Cmp(lo, up) > 0 && !mono {
		lo, up = up, lo
	}
	if !r.boundsOK(lo, up) {
		lo, up = nil, nil
		mono = false
	}
	r.keep = append(r.keep, lo, up)
	r.it.SetBounds(lo, up)
	r.lower, r.upper = lo, up
	r.st.SetBounds++
	if mono {
		r.st.MonotonicBounds++
	}
	r.log(fmt.Sprintf("SetBounds(%q, %q)", lo, up))
	r.positioned, r.canNext, r.canPrev, r.canNextPrefix, r.prefixMode = false, false, false, false, false
	r.resetTSUN()
}

// RunPointOps drives it with cfg.NOps random operations that respect the
// documented InternalIterator contract and compares every result with the
// model. It returns the first mismatch, or nil.
func RunPointOps(rng *rand.Rand, it sstable.Iterator, m *PointModel, cfg PointCfg, st *Stats) *Mismatch {
	r := &pointRunner{rng: rng, it: it, m: m, ks: m.KS, cfg: cfg, st: st, lower: cfg.Lower, upper: cfg.Upper, pos: -1}
	r.log(fmt.Sprintf("NewIter(lower=%q, upper=%q) over %d model entries", cfg.Lower, cfg.Upper, len(m.Entries)))
	for n := 0; n < cfg.NOps; n++ {
		if mm := r.step(); mm != nil {
			return mm
		}
	}
	return nil
}

func (r *pointRunner) step() *Mismatch {
	rng := r.rng
	ks := r.ks
	vb := r.cfg.VB
	for {
		op := rng.IntN(100)
		switch {
		case op < 14: // SeekGE
			k := r.clampKey(r.randKey())
			if r.tsunOK && r.tsunKind == 1 && rng.IntN(2) == 0 {
				// make TrySeekUsingNext reachable: seek a little ahead
				if r.tsunCur != nil && r.pos+1 < len(r.m.Entries) {
					k = r.clampKey(slices.Clone(r.m.Entries[min(len(r.m.Entries)-1, r.pos+1+rng.IntN(6))].UserKey))
				}
			}
			flags := base.SeekGEFlagsNone
			if r.tsunAllowed(1, k) && rng.IntN(3) != 0 {
				flags = flags.EnableTrySeekUsingNext()
				r.st.TSUN++
			}
			eff := k
			if vb.Set && ks.Cmp(eff, vb.Lower) < 0 {
				eff = vb.Lower
			}
			r.pos = r.m.SeekGEIdx(eff)
			want := r.fwd(r.pos)
			kv := r.it.SeekGE(k, flags)
			r.st.Ops["SeekGE"]++
			if mm := r.check(fmt.Sprintf("SeekGE(%q,%s)", k, flags), kv, want); mm != nil {
				return mm
			}
			r.afterForwardAbs(want)
			// Reversing after a seek beyond the virtual upper bound is outside
			// what callers (which only seek inside the file bounds) do.
			if vb.Set {
				c := ks.Cmp(k, vb.Upper)
				if c > 0 || (c == 0 && vb.UpperExclusive) {
					r.canPrev = false
				}
			}
			if flags.TrySeekUsingNext() && want == nil {
				// The seek may have been elided ("already exhausted"): the
				// position relative to k is not defined for a reverse step.
				r.canPrev = false
			}
			r.tsunKind, r.tsunKey, r.tsunCur, r.tsunOK, r.firstAfterSeek = 1, k, want, true, true
			return nil

		case op < 26: // SeekPrefixGE
			k := r.clampKey(r.randKey())
			if r.tsunOK && r.tsunKind == 2 && rng.IntN(2) == 0 {
				if r.tsunCur != nil && r.pos+1 < len(r.m.Entries) {
					k = r.clampKey(slices.Clone(r.m.Entries[min(len(r.m.Entries)-1, r.pos+1+rng.IntN(6))].UserKey))
				}
			}
			flags := base.SeekGEFlagsNone
			if r.tsunAllowed(2, k) && rng.IntN(3) != 0 {
				flags = flags.EnableTrySeekUsingNext()
				r.st.TSUN++
			}
			prefix := slices.Clone(ks.PrefixOf(k))
			r.keep = append(r.keep, prefix) // must stay stable until the next absolute positioning
			eff := k
			if vb.Set && ks.Cmp(eff, vb.Lower) < 0 {
				eff = vb.Lower
			}
			r.pos = r.m.SeekGEIdx(eff)
			cand := r.fwd(r.pos)
			kv := r.it.SeekPrefixGE(prefix, k, flags)
			r.st.Ops["SeekPrefixGE"]++
			opn := fmt.Sprintf("SeekPrefixGE(%q,%q,%s)", prefix, k, flags)
			matches := cand != nil && bytes.Equal(ks.PrefixOf(cand.UserKey), prefix)
			r.positioned, r.prefixMode, r.prefix = true, true, prefix
			r.canPrev, r.canNextPrefix = false, false
			if matches {
				if mm := r.check(opn, kv, cand); mm != nil {
					return mm
				}
				r.canNext = true
				r.lastNil = false
			} else {
				// No key >= k with this prefix inside the bounds: nil, or
				// (interface doc: "the iterator may return keys not matching
				// the prefix") the first key >= k.
				if kv != nil {
					r.st.PrefixMismatchLenient++
					if mm := r.check(opn, kv, cand); mm != nil {
						return mm
					}
				} else if mm := r.check(opn, kv, nil); mm != nil {
					return mm
				}
				r.canNext = false
				r.lastNil = true
				cand = nil
			}
			r.lastDir = +1
			r.tsunKind, r.tsunKey, r.tsunCur, r.tsunOK, r.firstAfterSeek = 2, k, cand, true, true
			if !matches {
				// position is the first key >= k (or unpositioned after a filter
				// miss); a later TrySeekUsingNext seek is still legal.
				r.tsunCur = nil
			}
			return nil

		case op < 38: // SeekLT
			k := r.clampKey(r.randKey())
			eff := k
			if vb.Set {
				c := ks.Cmp(eff, vb.Upper)
				if c > 0 {
					// past the virtual table: Last of the virtual table
					r.pos = len(r.m.Entries) - 1
					eff = nil
				}
			}
			if eff != nil {
				r.pos = r.m.SeekLTIdx(eff)
			}
			want := r.bwd(r.pos)
			kv := r.it.SeekLT(k, base.SeekLTFlagsNone)
			r.st.Ops["SeekLT"]++
			if mm := r.check(fmt.Sprintf("SeekLT(%q)", k), kv, want); mm != nil {
				return mm
			}
			r.afterBackwardAbs(want)
			if vb.Set && ks.Cmp(k, vb.Lower) < 0 {
				r.canNext = false
			}
			r.resetTSUN()
			return nil

		case op < 42: // First
			if r.lower != nil {
				continue // callers must use SeekGE(lower)
			}
			r.pos = 0
			want := r.fwd(r.pos)
			kv := r.it.First()
			r.st.Ops["First"]++
			if mm := r.check("First()", kv, want); mm != nil {
				return mm
			}
			r.afterForwardAbs(want)
			r.resetTSUN()
			return nil

		case op < 46: // Last
			if r.upper != nil {
				continue // callers must use SeekLT(upper)
			}
			r.pos = len(r.m.Entries) - 1
			want := r.bwd(r.pos)
			kv := r.it.Last()
			r.st.Ops["Last"]++
			if mm := r.check("Last()", kv, want); mm != nil {
				return mm
			}
			r.afterBackwardAbs(want)
			r.resetTSUN()
			return nil

		case op < 66: // Next
			if !r.positioned || !r.canNext {
				continue
			}
			if r.lastNil {
				r.st.DirSwitchAfterNil++
			}
			r.pos++
			if r.pos > len(r.m.Entries) {
				r.pos = len(r.m.Entries)
			}
			want := r.fwd(r.pos)
			kv := r.it.Next()
			r.st.Ops["Next"]++
			r.firstAfterSeek = false
			if r.prefixMode {
				matches := want != nil && bytes.Equal(ks.PrefixOf(want.UserKey), r.prefix)
				if matches {
					if mm := r.check("Next()[prefix]", kv, want); mm != nil {
						return mm
					}
					r.tsunCur = want
				} else {
					if kv != nil {
						r.st.PrefixMismatchLenient++
						if mm := r.check("Next()[prefix]", kv, want); mm != nil {
							return mm
						}
					} else if mm := r.check("Next()[prefix]", kv, nil); mm != nil {
						return mm
					}
					r.canNext = false
					r.lastNil = true
					r.tsunOK = false
				}
				return nil
			}
			if mm := r.check("Next()", kv, want); mm != nil {
				return mm
			}
			r.lastDir = +1
			if want != nil {
				r.canNext, r.canPrev, r.canNextPrefix, r.lastNil = true, true, true, false
				r.tsunCur = want
			} else {
				r.canNext, r.canPrev, r.canNextPrefix, r.lastNil = false, true, false, true
				r.tsunOK = false
			}
			return nil

		case op < 82: // Prev
			if !r.positioned || !r.canPrev || r.prefixMode {
				continue
			}
			if r.lastNil {
				r.st.DirSwitchAfterNil++
			}
			r.pos--
			if r.pos < -1 {
				r.pos = -1
			}
			want := r.bwd(r.pos)
			kv := r.it.Prev()
			r.st.Ops["Prev"]++
			if mm := r.check("Prev()", kv, want); mm != nil {
				return mm
			}
			r.lastDir = -1
			r.resetTSUN()
			if want != nil {
				r.canNext, r.canPrev, r.canNextPrefix, r.lastNil = true, true, false, false
			} else {
				r.canNext, r.canPrev, r.canNextPrefix, r.lastNil = true, false, false, true
			}
			return nil

		case op < 92: // NextPrefix
			if !r.positioned || !r.canNextPrefix || r.prefixMode {
				continue
			}
			// With an upper bound that carries a suffix NextPrefix may jump
			// past keys that are above the bound but below succKey; the
			// top-level iterator refuses that combination, so do we.
			if r.upper != nil && ks.Split(r.upper) != len(r.upper) {
				continue
			}
			if r.pos < 0 || r.pos >= len(r.m.Entries) {
				continue
			}
			cur := r.m.Entries[r.pos].UserKey
			succ := ks.Succ(ks.PrefixOf(cur))
			p := r.pos + 1
			for p < len(r.m.Entries) && ks.Cmp(r.m.Entries[p].UserKey, succ) < 0 {
				p++
			}
			r.pos = p
			want := r.fwd(r.pos)
			kv := r.it.NextPrefix(succ)
			r.st.Ops["NextPrefix"]++
			if mm := r.check(fmt.Sprintf("NextPrefix(%q)", succ), kv, want); mm != nil {
				return mm
			}
			r.lastDir = +1
			r.resetTSUN()
			if want != nil {
				r.canNext, r.canPrev, r.canNextPrefix, r.lastNil = true, true, true, false
			} else {
				// Only absolute positioning after an exhausted NextPrefix.
				r.canNext, r.canPrev, r.canNextPrefix, r.lastNil = false, false, false, true
			}
			return nil

		default: // SetBounds
			if r.cfg.NoSetBounds {
				continue
			}
			r.doSetBounds()
			return nil
		}
	}
}

func (r *pointRunner) afterForwardAbs(want *Entry) {
	r.positioned, r.prefixMode, r.lastDir = true, false, +1
	if want != nil {
		r.canNext, r.canPrev, r.canNextPrefix, r.lastNil = true, true, true, false
	} else {
		r.canNext, r.canPrev, r.canNextPrefix, r.lastNil = false, true, false, true
	}
}

func (r *pointRunner) afterBackwardAbs(want *Entry) {
	r.positioned, r.prefixMode, r.lastDir = true, false, -1
	if want != nil {
		r.canNext, r.canPrev, r.canNextPrefix, r.lastNil = true, true, false, false
	} else {
		r.canNext, r.canPrev, r.canNextPrefix, r.lastNil = true, false, false, true
	}
}
