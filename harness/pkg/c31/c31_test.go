// C31: batch encoding round-trips and rejects malformed input safely.
//
// Parts in this package (public API only):
//
//	main: (1) generated op sequences -> Batch.Repr() -> batchrepr.ReadHeader /
//	      batchrepr.Reader, NewBatch+SetRepr, Batch.Apply into another batch,
//	      Batch.Reader(): kinds, keys, values and count must equal an
//	      independently hand-encoded expectation.
//	      (2) arbitrary bytes (random, mutated valid reprs, every truncation of
//	      short batches) through batchrepr.Reader, SetRepr(+iteration), Batch.Apply
//	      and DB.Apply on a real store: an error or success, never a panic/fatal.
//	wal:  the byte string wrapped as a valid record of the newest WAL of a
//	      pristine store, then pebble.Open: an error or success, never a panic.
//
// The flushable-batch-vs-memtable differential is white box and lives in
// harness/inpkg/verif_c31_test.go.
package c31

import (
	"bytes"
	"encoding/binary"
	"encoding/hex"
	"fmt"
	"math/rand/v2"
	"os"
	"os/exec"
	"regexp"
	"runtime"
	"sort"
	"strings"
	"testing"

	"github.com/cockroachdb/pebble"
	"github.com/cockroachdb/pebble/batchrepr"
	"github.com/cockroachdb/pebble/internal/arenaskl"
	"github.com/cockroachdb/pebble/internal/base"
	"github.com/cockroachdb/pebble/internal/verif/vcommon"
	"github.com/cockroachdb/pebble/record"
	"github.com/cockroachdb/pebble/vfs"
)

// ---------------------------------------------------------------------------
// plumbing

type fatalPanic struct{ msg string }

func (f fatalPanic) Error() string { return "FATAL: " + f.msg }

// qlogger is silent; Fatalf (which would os.Exit) is turned into a panic that
// the caller recovers and classifies.
type qlogger struct{}

func (qlogger) Infof(string, ...interface{})  {}
func (qlogger) Errorf(string, ...interface{}) {}
func (qlogger) Fatalf(f string, a ...interface{}) {
	panic(fatalPanic{fmt.Sprintf(f, a...)})
}

var digitsRE = regexp.MustCompile(`0x[0-9a-fA-F]+|[0-9]+`)

// panicPrefix returns a stable message prefix: numbers replaced by N, cut at 70.
func panicPrefix(r any) string {
	var s string
	switch v := r.(type) {
	case fatalPanic:
		s = "FATAL: " + v.msg
	case error:
		s = v.Error()
	default:
		s = fmt.Sprint(v)
	}
	s = digitsRE.ReplaceAllString(s, "N")
	if len(s) > 70 {
		s = s[:70]
	}
	return s
}

// guard runs f and reports a recovered panic.
func guard(f func() error) (err error, pmsg string, panicked bool, stack string) {
	defer func() {
		if r := recover(); r != nil {
			panicked = true
			pmsg = panicPrefix(r)
			buf := make([]byte, 6<<10)
			stack = string(buf[:runtime.Stack(buf, false)])
		}
	}()
	return f(), "", false, ""
}

// keepAlive retains stores that could not be closed cleanly, so that the
// invariants-build memtable finalizer never sees them.
var keepAlive []any

var sharedCache = pebble.NewCache(4 << 20)

func dbOptions(fs vfs.FS) *pebble.Options {
	return &pebble.Options{
		FS:                 fs,
		Logger:             qlogger{},
		Cache:              sharedCache,
		MemTableSize:       memTableSize(),
		FormatMajorVersion: pebble.FormatNewest,
		// nothing is read back: let L0 grow instead of compacting or stalling
		DisableAutomaticCompactions: true,
		L0StopWritesThreshold:       1 << 30,
		MemTableStopWritesThreshold: 16,
	}
}

type store struct {
	d  *pebble.DB
	fs *vfs.MemFS
}

const tinyMemTable = 4 << 10

func openStore(t testing.TB) *store { return openStoreSized(t, 0) }

func openStoreSized(t testing.TB, memTable uint64) *store {
	fs := vfs.NewMem()
	o := dbOptions(fs)
	if memTable != 0 {
		o.MemTableSize = memTable
	}
	d, err := pebble.Open("db", o)
	if err != nil {
		t.Fatalf("verif: cannot open scratch store: %v", err)
	}
	return &store{d: d, fs: fs}
}

// discard tries to close a store whose commit pipeline may be broken.
func (s *store) discard() {
	keepAlive = append(keepAlive, s.d, s.fs)
	_, _, _, _ = guard(func() error { return s.d.Close() })
}

// ---------------------------------------------------------------------------
// op model and the independent expectation

type op struct {
	Kind   string `json:"kind"`
	K      []byte `json:"k"`
	V      []byte `json:"v,omitempty"`
	Suffix []byte `json:"suffix,omitempty"`
	Size   uint32 `json:"size,omitempty"`
}

type entry struct {
	Kind base.InternalKeyKind
	Key  []byte
	Val  []byte
}

func (e entry) String() string {
	return fmt.Sprintf("%s(%x,%x)", e.Kind, clip(e.Key), clip(e.Val))
}

func clip(b []byte) []byte {
	if len(b) > 24 {
		return b[:24]
	}
	return b
}

func uvarint(dst []byte, v uint64) []byte {
	var buf [binary.MaxVarintLen64]byte
	n := binary.PutUvarint(buf[:], v)
	return append(dst, buf[:n]...)
}

func varstr(dst, s []byte) []byte {
	dst = uvarint(dst, uint64(len(s)))
	return append(dst, s...)
}

// expect hand-encodes what the batch must contain for o (format documented in
// batch.go "Batch" comment and internal/rangekey package doc).
func expect(o op) entry {
	switch o.Kind {
	case "set":
		return entry{base.InternalKeyKindSet, o.K, o.V}
	case "merge":
		return entry{base.InternalKeyKindMerge, o.K, o.V}
	case "del":
		return entry{base.InternalKeyKindDelete, o.K, nil}
	case "singledel":
		return entry{base.InternalKeyKindSingleDelete, o.K, nil}
	case "delsized":
		return entry{base.InternalKeyKindDeleteSized, o.K, uvarint(nil, uint64(o.Size)+uint64(len(o.K)))}
	case "delrange":
		return entry{base.InternalKeyKindRangeDelete, o.K, o.V}
	case "logdata":
		return entry{base.InternalKeyKindLogData, o.K, nil}
	case "rkset":
		v := varstr(nil, o.V) // end key
		v = varstr(v, o.Suffix)
		v = varstr(v, rkValue(o))
		return entry{base.InternalKeyKindRangeKeySet, o.K, v}
	case "rkunset":
		v := varstr(nil, o.V)
		v = varstr(v, o.Suffix)
		return entry{base.InternalKeyKindRangeKeyUnset, o.K, v}
	case "rkdel":
		return entry{base.InternalKeyKindRangeKeyDelete, o.K, o.V}
	}
	panic("unknown op " + o.Kind)
}

// rkValue: the value of a RangeKeySet is derived from Size so that op stays a
// flat struct: Size bytes of a pattern.
func rkValue(o op) []byte {
	v := make([]byte, int(o.Size%97))
	for i := range v {
		v[i] = byte(i*7) ^ byte(o.Size)
	}
	return v
}

func counts(o op) bool { return o.Kind != "logdata" }

func applyOp(b *pebble.Batch, o op) error {
	switch o.Kind {
	case "set":
		return b.Set(o.K, o.V, nil)
	case "merge":
		return b.Merge(o.K, o.V, nil)
	case "del":
		return b.Delete(o.K, nil)
	case "singledel":
		return b.SingleDelete(o.K, nil)
	case "delsized":
		return b.DeleteSized(o.K, o.Size, nil)
	case "delrange":
		return b.DeleteRange(o.K, o.V, nil)
	case "logdata":
		return b.LogData(o.K, nil)
	case "rkset":
		return b.RangeKeySet(o.K, o.V, o.Suffix, rkValue(o), nil)
	case "rkunset":
		return b.RangeKeyUnset(o.K, o.V, o.Suffix, nil)
	case "rkdel":
		return b.RangeKeyDelete(o.K, o.V, nil)
	}
	panic("unknown op " + o.Kind)
}

var opKinds = []struct {
	k string
	w int
}{{"set", 25}, {"merge", 10}, {"del", 10}, {"delsized", 8}, {"singledel", 8}, {"delrange", 8},
	{"logdata", 8}, {"rkset", 8}, {"rkunset", 7}, {"rkdel", 8}}

func pickKind(rng *rand.Rand) string {
	x := rng.IntN(100)
	for _, k := range opKinds {
		if x < k.w {
			return k.k
		}
		x -= k.w
	}
	return "set"
}

// randBytes: lengths biased to the varint / DecodeStr boundaries.
func randBytes(rng *rand.Rand, big bool) []byte {
	var n int
	switch x := rng.IntN(100); {
	case x < 10:
		n = 0
	case x < 60:
		n = 1 + rng.IntN(8)
	case x < 82:
		n = 9 + rng.IntN(40)
	case x < 94 || !big:
		n = []int{115, 126, 127, 128, 129, 130, 255, 256}[rng.IntN(8)]
	case x < 99:
		n = []int{16383, 16384, 16385, 300, 1000, 5000}[rng.IntN(6)]
	default:
		n = 60000 + rng.IntN(20000)
	}
	b := make([]byte, n)
	switch rng.IntN(4) {
	case 0: // small alphabet: many duplicates / shared prefixes
		for i := range b {
			b[i] = "ab\x00\xff"[rng.IntN(4)]
		}
	default:
		for i := range b {
			b[i] = byte(rng.Uint32())
		}
	}
	return b
}

func genOps(rng *rand.Rand, n int, big, dbSafe bool) []op {
	ops := make([]op, 0, n)
	for i := 0; i < n; i++ {
		o := op{Kind: pickKind(rng), K: randBytes(rng, big)}
		if dbSafe && len(o.K) == 0 && o.Kind != "logdata" {
			// An empty first point key trips an invariants-only assertion of the
			// sstable writer at flush time (colblk_writer.go evaluatePoint compares
			// with an empty "previous key"); unrelated to batch encoding.
			o.K = []byte{byte(rng.IntN(3))}
		}
		switch o.Kind {
		case "set", "merge":
			o.V = randBytes(rng, big)
		case "delsized":
			o.Size = []uint32{0, 1, 127, 128, 1 << 20, 0xffffffff, rng.Uint32()}[rng.IntN(7)]
		case "delrange", "rkset", "rkunset", "rkdel":
			o.V = randBytes(rng, big)
			if dbSafe {
				// a store requires start < end
				switch c := bytes.Compare(o.K, o.V); {
				case c == 0:
					o.V = append(append([]byte(nil), o.K...), 0)
				case c > 0:
					o.K, o.V = o.V, o.K
				}
			}
			if o.Kind == "rkset" || o.Kind == "rkunset" {
				if !dbSafe {
					o.Suffix = randBytes(rng, false)
				}
				o.Size = rng.Uint32()
			}
		}
		ops = append(ops, o)
	}
	return ops
}

func readAll(r batchrepr.Reader) (es []entry, err error) {
	for {
		kind, k, v, ok, err := r.Next()
		if !ok {
			return es, err
		}
		es = append(es, entry{kind, k, v})
	}
}

func diffEntries(got, want []entry) string {
	if len(got) != len(want) {
		return fmt.Sprintf("entry count %d, want %d", len(got), len(want))
	}
	for i := range got {
		if got[i].Kind != want[i].Kind || !bytes.Equal(got[i].Key, want[i].Key) || !bytes.Equal(got[i].Val, want[i].Val) {
			return fmt.Sprintf("entry %d: got %s want %s (key len %d/%d, value len %d/%d)", i, got[i], want[i],
				len(got[i].Key), len(want[i].Key), len(got[i].Val), len(want[i].Val))
		}
	}
	return ""
}

func opsReplay(ops []op) any {
	if len(ops) > 64 {
		return map[string]any{"nops": len(ops), "first64": ops[:64]}
	}
	return ops
}

func nOps(rng *rand.Rand) int {
	switch x := rng.IntN(100); {
	case x < 4:
		return 0
	case x < 60:
		return 1 + rng.IntN(12)
	case x < 85:
		return 13 + rng.IntN(100)
	case x < 96:
		return 113 + rng.IntN(900)
	default:
		return 1000 + rng.IntN(4001) // up to 5000
	}
}

// ---------------------------------------------------------------------------
// part main

type state struct {
	t        *testing.T
	r        *vcommon.Report
	st       *store
	seen     map[string]int
	killed   map[string]int
	reopened int
	tiny     *store // 4 KB memtable: small batches take the flushable-batch path
}

func (s *state) newBatch(kind int) *pebble.Batch {
	switch kind % 3 {
	case 0:
		return s.st.d.NewBatch()
	case 1:
		return s.st.d.NewIndexedBatch()
	default:
		return new(pebble.Batch)
	}
}

var builderNames = []string{"db.NewBatch", "db.NewIndexedBatch", "zero-value Batch"}

func TestVerifC31(t *testing.T) {
	r := vcommon.NewReport("C31", "main")
	defer r.Finish(t)
	r.Rule("round-trip case = op sequence (10 op kinds, 0..5000 ops, key/value lengths biased to 0 and the 1/2/3-byte varint boundaries) built by one of 3 batch constructors; " +
		"distinct by (builder, op-kind multiset hash, #ops, repr length). malformed case = byte string (random / mutated valid repr / truncation) " +
		"driven through 5 decoding APIs; distinct by content hash; counted non-trivial only if at least one API ran to a verdict (error or success)")
	r.Assume("inputs that decode completely but describe semantically invalid spans (range start >= end, undecodable range-key value) or empty user keys are not committed to a store: " +
		"the same state is reachable through the typed API (DeleteRange(b,a)) and is a caller error, not a decoding question; empty keys trip an unrelated invariants-only sstable-writer assertion at flush")
	s := &state{t: t, r: r, st: openStore(t), seen: map[string]int{}, killed: map[string]int{}}
	defer func() {
		s.st.discard()
		if s.tiny != nil {
			s.tiny.discard()
		}
	}()

	nRT := vcommon.Scale(240, 6400)
	nMal := vcommon.Scale(100, 2400)
	r.Cases(nRT+nMal, func(i int, rng *rand.Rand) {
		defer func() {
			// a panic escaping a case (pebble code on a VALID batch, or a harness bug)
			// must not silently drop the remaining cases
			if rec := recover(); rec != nil {
				buf := make([]byte, 8<<10)
				buf = buf[:runtime.Stack(buf, false)]
				r.Violate("case-panic", fmt.Sprintf("case %d panicked: %s", i, panicPrefix(rec)), map[string]any{"stack": string(buf)}, map[string]any{"api": "case", "panic": panicPrefix(rec)})
			}
		}()
		if i < nRT {
			s.roundTrip(i, rng)
		} else {
			s.malformed(i, rng)
		}
	})
	r.Count("stores_reopened_after_panic", int64(s.reopened))
}

func (s *state) roundTrip(i int, rng *rand.Rand) {
	r := s.r
	n := nOps(rng)
	big := n <= 120 && rng.IntN(3) == 0
	dbSafe := rng.IntN(3) == 0
	ops := genOps(rng, n, big, dbSafe)
	builder := rng.IntN(3)
	b := s.newBatch(builder)
	var want []entry
	var wantCount uint32
	kindsSeen := map[string]int{}
	for _, o := range ops {
		if err := applyOp(b, o); err != nil {
			r.Violate("op-error", fmt.Sprintf("%s returned %v", o.Kind, err), opsReplay(ops), map[string]any{"api": o.Kind})
			return
		}
		want = append(want, expect(o))
		if counts(o) {
			wantCount++
		}
		kindsSeen[o.Kind]++
	}
	r.Eval(1)
	r.Count("roundtrip_batches", 1)
	r.Count("roundtrip_ops", int64(n))
	r.Max("max_ops_in_batch", int64(n))
	for k := range kindsSeen {
		r.SetAdd("op_kinds", k)
	}
	r.SetAdd("builders", builderNames[builder])
	fail := func(api, detail string) {
		r.Violate("roundtrip-mismatch", api+": "+detail, map[string]any{"builder": builderNames[builder], "ops": opsReplay(ops)},
			map[string]any{"api": api})
	}

	repr := append([]byte(nil), b.Repr()...)
	r.Max("max_repr_len", int64(len(repr)))
	// (a) header + batchrepr.Reader
	h, ok := batchrepr.ReadHeader(repr)
	if !ok || h.Count != wantCount || h.SeqNum != 0 {
		fail("batchrepr.ReadHeader", fmt.Sprintf("ok=%v header=%s want count=%d seqnum=0", ok, h, wantCount))
	}
	got, err := readAll(batchrepr.Read(repr))
	if err != nil {
		fail("batchrepr.Reader", "error on a valid repr: "+err.Error())
	} else if d := diffEntries(got, want); d != "" {
		fail("batchrepr.Reader", d)
	}
	if batchrepr.IsEmpty(repr) != (len(want) == 0) {
		fail("batchrepr.IsEmpty", fmt.Sprintf("IsEmpty=%v with %d entries", batchrepr.IsEmpty(repr), len(want)))
	}
	// (b) Batch.Reader / Count / Len / Empty
	got, err = readAll(b.Reader())
	if err != nil {
		fail("Batch.Reader", "error: "+err.Error())
	} else if d := diffEntries(got, want); d != "" {
		fail("Batch.Reader", d)
	}
	if b.Count() != wantCount {
		fail("Batch.Count", fmt.Sprintf("%d want %d", b.Count(), wantCount))
	}
	if b.Len() != len(repr) || b.Empty() != (len(want) == 0) {
		fail("Batch.Len/Empty", fmt.Sprintf("Len=%d repr=%d Empty=%v entries=%d", b.Len(), len(repr), b.Empty(), len(want)))
	}
	// (c) SetRepr on a store batch (validating) and on a zero-value batch
	for _, kind := range []int{0, 2} {
		b2 := s.newBatch(kind)
		api := "SetRepr(" + builderNames[kind] + ")"
		if err := b2.SetRepr(append([]byte(nil), repr...)); err != nil {
			fail(api, "error on a valid repr: "+err.Error())
		} else {
			got, err := readAll(b2.Reader())
			if err != nil {
				fail(api+"+Reader", err.Error())
			} else if d := diffEntries(got, want); d != "" {
				fail(api+"+Reader", d)
			}
			if b2.Count() != wantCount {
				fail(api+"+Count", fmt.Sprintf("%d want %d", b2.Count(), wantCount))
			}
			if !bytes.Equal(b2.Repr(), repr) {
				fail(api+"+Repr", "bytes differ from the source repr")
			}
			// a valid repr whose spans are well formed commits to a store
			if kind == 0 && dbSafe && len(repr) < 1<<20 {
				if err, p, pan, _ := guard(func() error { return s.st.d.Apply(b2, pebble.NoSync) }); pan {
					s.decodePanic("DB.Apply(valid repr)", p, repr, "")
					s.reopen()
				} else if err != nil {
					fail("DB.Apply(valid repr)", err.Error())
				} else {
					r.Count("valid_reprs_committed", 1)
				}
			}
		}
		_ = b2.Close()
	}
	// (d) Batch.Apply into another batch that already holds a few ops, twice
	dstKind := rng.IntN(3)
	dst := s.newBatch(dstKind)
	pre := genOps(rng, rng.IntN(4), false, dbSafe)
	var wantDst []entry
	var wantDstCount uint32
	for _, o := range pre {
		if err := applyOp(dst, o); err != nil {
			fail("prefix op "+o.Kind, err.Error())
		}
		wantDst = append(wantDst, expect(o))
		if counts(o) {
			wantDstCount++
		}
	}
	api := "Batch.Apply(into " + builderNames[dstKind] + ")"
	reps := 1 + rng.IntN(2)
	if len(repr) > 1<<20 {
		reps = 1
	}
	for k := 0; k < reps; k++ {
		if err := dst.Apply(b, nil); err != nil {
			fail(api, "error: "+err.Error())
		}
		wantDst = append(wantDst, want...)
		wantDstCount += wantCount
	}
	got, err = readAll(dst.Reader())
	if err != nil {
		fail(api+"+Reader", err.Error())
	} else if d := diffEntries(got, wantDst); d != "" {
		fail(api+"+Reader", d)
	}
	if dst.Count() != wantDstCount {
		fail(api+"+Count", fmt.Sprintf("%d want %d", dst.Count(), wantDstCount))
	}
	if h, ok := batchrepr.ReadHeader(dst.Repr()); !ok || h.Count != wantDstCount {
		fail(api+"+Repr header", fmt.Sprintf("ok=%v %s want count %d", ok, h, wantDstCount))
	}
	r.SetAdd("apply_targets", builderNames[dstKind])
	_ = dst.Close()
	_ = b.Close()

	if n > 0 {
		var ks []string
		for k, c := range kindsSeen {
			ks = append(ks, fmt.Sprintf("%s%d", k, c))
		}
		sort.Strings(ks)
		r.Distinct("rt", builder, strings.Join(ks, ","), n, len(repr))
	}
	if n > 0 && n <= 6 && r.WantSample() {
		r.Sample(map[string]any{"type": "round-trip", "builder": builderNames[builder], "ops": ops, "repr_hex": hex.EncodeToString(repr), "count": wantCount})
	}
}

func (s *state) reopen() {
	s.st.discard()
	s.st = openStore(s.t)
	s.reopened++
}

// decodePanic records a panic/fatal raised by a decoding API.
func (s *state) decodePanic(api, pmsg string, input []byte, stack string) {
	if strings.Contains(stack, "internal/base.AssertionFailedf") {
		// base.AssertionFailedf panics only in invariants builds (this one); a
		// production build returns the same error to the caller.
		s.r.Count("assertion_error_(panics_only_under_invariants):"+api, 1)
		return
	}
	key := api + "|" + pmsg
	s.seen[key]++
	s.r.Count("decode_panics_total", 1)
	s.r.SetAdd("decode_panics", key)
	if s.seen[key] > 2 {
		return // same class already recorded twice by this process
	}
	in := input
	trunc := false
	if len(in) > 4096 {
		in, trunc = in[:4096], true
	}
	s.r.Violate("decode-panic", fmt.Sprintf("%s panicked on a %d-byte input: %s", api, len(input), pmsg),
		map[string]any{"api": api, "panic": pmsg, "input_hex": hex.EncodeToString(in), "input_truncated": trunc, "stack": stack},
		map[string]any{"api": api, "panic": pmsg})
}

// verdict of the harness's own structural analysis of a byte string.
type analysis struct {
	decodes    bool   // batchrepr.Reader decodes it completely
	spansOK    bool   // every range op has start < end; no empty user key
	rkValueBad bool   // some RangeKeySet/Unset value is not a well-formed tuple list
	memSize    uint64 // sum of memtable entry sizes (decides the flushable-batch path)
}

// committable: either it does not decode (the store must reject it) or it
// decodes and everything it describes is well formed.
func (a analysis) committable() bool { return !a.decodes || (a.spansOK && !a.rkValueBad) }

// parseRangeKeyValue is the harness's own bounds-checked parser of the
// RangeKeySet / RangeKeyUnset value format (internal/rangekey package doc).
func parseRangeKeyValue(kind base.InternalKeyKind, v []byte) (end []byte, ok bool) {
	str := func() ([]byte, bool) {
		l, n := binary.Uvarint(v)
		if n <= 0 || l > uint64(len(v)-n) {
			return nil, false
		}
		out := v[n : n+int(l)]
		v = v[n+int(l):]
		return out, true
	}
	if end, ok = str(); !ok || len(v) == 0 {
		return nil, false
	}
	for len(v) > 0 {
		if _, ok := str(); !ok {
			return nil, false
		}
		if kind == base.InternalKeyKindRangeKeySet {
			if _, ok := str(); !ok {
				return nil, false
			}
		}
	}
	return end, true
}

func analyse(data []byte) (a analysis) {
	if len(data) < batchrepr.HeaderLen {
		return a
	}
	es, err := readAll(batchrepr.Read(data))
	if err != nil {
		return a
	}
	a.decodes, a.spansOK = true, true
	for _, e := range es {
		if e.Kind != base.InternalKeyKindLogData {
			a.memSize += arenaskl.MaxNodeSize(uint32(len(e.Key)), uint32(len(e.Val)))
			if len(e.Key) == 0 {
				// see genOps: empty keys reach an invariants-only sstable writer
				// assertion at flush time; not a decoding question.
				a.spansOK = false
			}
		}
		switch e.Kind {
		case base.InternalKeyKindRangeDelete, base.InternalKeyKindRangeKeyDelete:
			if bytes.Compare(e.Key, e.Val) >= 0 {
				a.spansOK = false
			}
		case base.InternalKeyKindRangeKeySet, base.InternalKeyKindRangeKeyUnset:
			end, ok := parseRangeKeyValue(e.Kind, e.Val)
			if !ok {
				a.rkValueBad = true
			} else if bytes.Compare(e.Key, end) >= 0 {
				a.spansOK = false
			}
		}
	}
	return a
}

// hugeCountAllocation reports whether replaying / committing data would size an
// allocation from a header count above 2^24 (ingest-first batches and large
// batches do that).
func hugeCountAllocation(data []byte, an analysis) bool {
	h, ok := batchrepr.ReadHeader(data)
	if !ok || h.Count <= 1<<24 || len(data) <= batchrepr.HeaderLen {
		return false
	}
	switch base.InternalKeyKind(data[batchrepr.HeaderLen]) {
	case base.InternalKeyKindIngestSST, base.InternalKeyKindIngestSSTWithBlobs, base.InternalKeyKindExcise:
		return true
	}
	return an.memSize >= tinyMemTable/4
}

// killClass names the structural reason (computed by the harness, not by
// pebble) for which DB.Apply is known to die on the unchanged tree.
func killClass(data []byte, decodes bool) string {
	if !decodes {
		return ""
	}
	h, _ := batchrepr.ReadHeader(data)
	es, _ := readAll(batchrepr.Read(data))
	var n uint32
	for _, e := range es {
		switch e.Kind {
		case base.InternalKeyKindIngestSST, base.InternalKeyKindIngestSSTWithBlobs, base.InternalKeyKindExcise:
			return "ingest-or-excise-kind"
		case base.InternalKeyKindLogData:
		default:
			n++
		}
	}
	if n != h.Count {
		return "count-field-mismatch"
	}
	return ""
}

// smallValidRepr builds a short valid batch and returns its repr plus the
// offsets of (kind byte, key-length varint, value-length varint) per entry.
func smallValidRepr(rng *rand.Rand, maxOps int, long bool) (repr []byte, kindOffs, lenOffs []int) {
	n := 1 + rng.IntN(maxOps)
	ops := genOps(rng, n, false, true)
	b := new(pebble.Batch)
	for i := range ops {
		if !long {
			// keep it short so that every truncation offset is affordable
			if len(ops[i].K) > 6 {
				ops[i].K = ops[i].K[:6]
			}
			if len(ops[i].V) > 6 {
				ops[i].V = ops[i].V[:6]
			}
			switch ops[i].Kind {
			case "delrange", "rkset", "rkunset", "rkdel":
				if bytes.Compare(ops[i].K, ops[i].V) >= 0 {
					ops[i].V = append(append([]byte(nil), ops[i].K...), 0)
				}
			}
		}
		_ = applyOp(b, ops[i])
	}
	repr = append([]byte(nil), b.Repr()...)
	// walk the encoding to find structural offsets
	off := batchrepr.HeaderLen
	for off < len(repr) {
		kindOffs = append(kindOffs, off)
		kind := base.InternalKeyKind(repr[off])
		off++
		lenOffs = append(lenOffs, off)
		l, m := binary.Uvarint(repr[off:])
		off += m + int(l)
		switch kind {
		case base.InternalKeyKindDelete, base.InternalKeyKindSingleDelete, base.InternalKeyKindLogData:
		default:
			lenOffs = append(lenOffs, off)
			l, m := binary.Uvarint(repr[off:])
			off += m + int(l)
		}
	}
	return repr, kindOffs, lenOffs
}

var hostileVarints = [][]byte{
	{0x00}, {0x01}, {0x7f}, {0x80}, {0x80, 0x00}, {0x80, 0x01}, {0xff}, {0xff, 0x7f}, {0xff, 0xff, 0x03},
	{0xff, 0xff, 0xff, 0x7f}, {0xff, 0xff, 0xff, 0xff, 0x0f}, {0xff, 0xff, 0xff, 0xff, 0xff}, {0x80, 0x80, 0x80, 0x80, 0x10},
	{0xff, 0xff, 0xff, 0xff, 0xff, 0xff, 0xff, 0xff, 0xff, 0x01},
}

func splice(b []byte, off, del int, ins []byte) []byte {
	if off > len(b) {
		off = len(b)
	}
	if off+del > len(b) {
		del = len(b) - off
	}
	out := make([]byte, 0, len(b)-del+len(ins))
	out = append(out, b[:off]...)
	out = append(out, ins...)
	return append(out, b[off+del:]...)
}

// genMalformed returns the inputs of one malformed case and a label.
func genMalformed(rng *rand.Rand) (label string, inputs [][]byte) {
	switch x := rng.IntN(100); {
	case x < 8: // pure random, short (<= 128 bytes: safe DecodeStr path)
		for k := 0; k < 24; k++ {
			b := make([]byte, rng.IntN(64))
			for i := range b {
				b[i] = byte(rng.Uint32())
			}
			inputs = append(inputs, b)
		}
		return "random-short", inputs
	case x < 18: // valid header + random body biased to plausible kind bytes
		for k := 0; k < 24; k++ {
			n := rng.IntN(40)
			if rng.IntN(3) == 0 {
				n = 120 + rng.IntN(200) // beyond 128: unsafe varint path
			}
			b := make([]byte, batchrepr.HeaderLen+n)
			binary.LittleEndian.PutUint32(b[8:], uint32(rng.IntN(4)))
			for i := batchrepr.HeaderLen; i < len(b); i++ {
				switch rng.IntN(3) {
				case 0:
					b[i] = byte(rng.IntN(int(base.InternalKeyKindMax) + 2))
				case 1:
					b[i] = byte(rng.IntN(6))
				default:
					b[i] = byte(rng.Uint32())
				}
			}
			inputs = append(inputs, b)
		}
		return "header+random-body", inputs
	case x < 38: // every truncation of a short valid batch
		repr, _, _ := smallValidRepr(rng, 4, false)
		for t := 0; t <= len(repr); t++ {
			inputs = append(inputs, append([]byte(nil), repr[:t]...))
		}
		return "truncation-every-offset", inputs
	case x < 50: // count field
		repr, kinds, _ := smallValidRepr(rng, 5, rng.IntN(4) == 0)
		n := uint32(len(kinds))
		for _, c := range []uint32{0, 1, n - 1, n + 1, n + 2, 1 << 16, 0x7fffffff, 0xffffffff, rng.Uint32()} {
			m := append([]byte(nil), repr...)
			binary.LittleEndian.PutUint32(m[8:], c)
			inputs = append(inputs, m)
		}
		return "count-field", inputs
	case x < 68: // varint lengths
		repr, _, lens := smallValidRepr(rng, 5, rng.IntN(3) == 0)
		for _, off := range lens {
			_, m := binary.Uvarint(repr[off:])
			for _, hv := range hostileVarints {
				inputs = append(inputs, splice(repr, off, m, hv))
			}
			if len(inputs) > 90 {
				break
			}
		}
		return "varint-length", inputs
	case x < 84: // kind byte: every value 0..Max+2, and a few high ones
		repr, kinds, _ := smallValidRepr(rng, 4, rng.IntN(4) == 0)
		off := kinds[rng.IntN(len(kinds))]
		for k := 0; k <= int(base.InternalKeyKindMax)+2; k++ {
			m := append([]byte(nil), repr...)
			m[off] = byte(k)
			inputs = append(inputs, m)
		}
		for _, k := range []byte{0x40, 0x7f, 0x80, 0xbf, 0xff} {
			m := append([]byte(nil), repr...)
			m[off] = k
			inputs = append(inputs, m)
		}
		return "kind-byte", inputs
	case x < 92: // byte flips, insertions, deletions
		repr, _, _ := smallValidRepr(rng, 6, rng.IntN(3) == 0)
		for k := 0; k < 30; k++ {
			m := append([]byte(nil), repr...)
			for e := 1 + rng.IntN(3); e > 0 && len(m) > 0; e-- {
				off := rng.IntN(len(m))
				switch rng.IntN(3) {
				case 0:
					m[off] ^= 1 << rng.IntN(8)
				case 1:
					m = splice(m, off, 0, []byte{byte(rng.Uint32())})
				default:
					m = splice(m, off, 1, nil)
				}
			}
			inputs = append(inputs, m)
		}
		return "flip-insert-delete", inputs
	case x < 97: // inner varints of a range-key value, outer framing intact; padded to be a "large" batch for a 4 KB memtable
		b := new(pebble.Batch)
		nrk := 1 + rng.IntN(3)
		for k := 0; k < nrk; k++ {
			start := []byte{'a' + byte(k), byte(rng.IntN(256))}
			end := []byte{'a' + byte(k), 0xff, byte(rng.IntN(256))}
			suffix := []byte("@" + fmt.Sprint(rng.IntN(100)))
			if rng.IntN(2) == 0 {
				_ = b.RangeKeySet(start, end, suffix, []byte("value"), nil)
			} else {
				_ = b.RangeKeyUnset(start, end, suffix, nil)
			}
		}
		for k := 0; k < 14; k++ {
			_ = b.Set([]byte(fmt.Sprintf("pad%03d", k)), make([]byte, 200), nil)
		}
		repr := append([]byte(nil), b.Repr()...)
		off := batchrepr.HeaderLen
		for k := 0; k < nrk; k++ {
			kind := base.InternalKeyKind(repr[off])
			off++
			l, m := binary.Uvarint(repr[off:])
			off += m + int(l)
			vl, m := binary.Uvarint(repr[off:])
			off += m
			endLenOff := off
			el, m2 := binary.Uvarint(repr[off:])
			sufLenOff := off + m2 + int(el)
			sl := int(repr[sufLenOff])
			valLenOff := sufLenOff + 1 + sl
			offs := []int{endLenOff, sufLenOff}
			if kind == base.InternalKeyKindRangeKeySet {
				offs = append(offs, valLenOff)
			}
			for _, o := range offs {
				for _, nb := range []byte{repr[o] + 1, repr[o] + 7, 0x7f, 0x80, 0xff} {
					mm := append([]byte(nil), repr...)
					mm[o] = nb
					inputs = append(inputs, mm)
				}
			}
			off += int(vl)
		}
		return "rangekey-value-inner-varint", inputs
	default: // a long valid batch truncated / with hostile varints deep inside (> 128 bytes remaining)
		repr, _, lens := smallValidRepr(rng, 12, true)
		for k := 0; k < 20; k++ {
			switch rng.IntN(2) {
			case 0:
				inputs = append(inputs, append([]byte(nil), repr[:rng.IntN(len(repr)+1)]...))
			default:
				off := lens[rng.IntN(len(lens))]
				_, m := binary.Uvarint(repr[off:])
				inputs = append(inputs, splice(repr, off, m, hostileVarints[rng.IntN(len(hostileVarints))]))
			}
		}
		return "long-batch-mutations", inputs
	}
}

func (s *state) malformed(i int, rng *rand.Rand) {
	r := s.r
	label, inputs := genMalformed(rng)
	r.SetAdd("malformed_generators", label)
	for j, data := range inputs {
		r.BeginCase(fmt.Sprintf("%d/%d", i, j))
		s.drive(data, j, label)
	}
}

// drive pushes one byte string through every decoding API.
func (s *state) drive(data []byte, j int, label string) {
	r := s.r
	clone := func() []byte { return append([]byte(nil), data...) }
	verdicts := 0
	outcome := func(api string, err error) {
		verdicts++
		if err != nil {
			r.Count("verdict_error:"+api, 1)
		} else {
			r.Count("verdict_ok:"+api, 1)
		}
	}

	// 1. batchrepr.ReadHeader + Reader: contract is (ok, err) results.
	var readerErr error
	var nEntries int
	if _, p, pan, st := guard(func() error {
		in := clone()
		if _, ok := batchrepr.ReadHeader(in); !ok {
			readerErr = batchrepr.ErrInvalidBatch
			return nil
		}
		es, err := readAll(batchrepr.Read(in))
		readerErr, nEntries = err, len(es)
		return nil
	}); pan {
		s.decodePanic("batchrepr.Reader", p, data, st)
	} else {
		outcome("batchrepr.Reader", readerErr)
	}

	// 2. zero-value Batch: SetRepr checks only the header; Reader and Count
	// must still be safe.
	var zerr error
	if _, p, pan, st := guard(func() error {
		b := new(pebble.Batch)
		if zerr = b.SetRepr(clone()); zerr != nil {
			return nil
		}
		_ = b.Count()
		_, zerr = readAll(b.Reader())
		return nil
	}); pan {
		s.decodePanic("SetRepr(zero-value Batch)+Reader", p, data, st)
	} else {
		outcome("SetRepr(zero-value Batch)+Reader", zerr)
		if (zerr == nil) != (readerErr == nil) {
			r.Violate("decode-disagreement", fmt.Sprintf("batchrepr.Reader err=%v but SetRepr+Batch.Reader err=%v", readerErr, zerr),
				map[string]any{"input_hex": hex.EncodeToString(data)}, map[string]any{"api": "SetRepr+Reader"})
		}
	}

	// 3. store batch: SetRepr decodes every entry (refreshMemTableSize).
	var serr error
	var sb *pebble.Batch
	if _, p, pan, st := guard(func() error {
		sb = s.st.d.NewBatch()
		serr = sb.SetRepr(clone())
		return nil
	}); pan {
		s.decodePanic("SetRepr(db.NewBatch)", p, data, st)
		sb = nil
	} else {
		outcome("SetRepr(db.NewBatch)", serr)
		if serr == nil && readerErr != nil {
			r.Violate("decode-disagreement", fmt.Sprintf("SetRepr on a store batch accepted a repr that batchrepr.Reader rejects (%v)", readerErr),
				map[string]any{"input_hex": hex.EncodeToString(data)}, map[string]any{"api": "SetRepr(db.NewBatch)"})
		}
	}

	// 4. Batch.Apply of an unvalidated source: always into an indexed batch
	// (most logic: offsets into the skiplists), and alternately into a plain
	// store batch / a zero-value batch.
	for _, kind := range []int{1, 2 * (j % 2)} {
		api := "Batch.Apply(into " + builderNames[kind] + ")"
		var aerr error
		if _, p, pan, st := guard(func() error {
			src := new(pebble.Batch)
			if err := src.SetRepr(clone()); err != nil {
				aerr = err
				return nil
			}
			dst := s.newBatch(kind)
			if j%2 == 0 {
				_ = dst.Set([]byte("pre"), []byte("x"), nil)
			}
			aerr = dst.Apply(src, nil)
			if aerr == nil {
				// whatever was accepted must be iterable without a panic
				_, _ = readAll(dst.Reader())
				_ = dst.Count()
			}
			_ = dst.Close()
			return nil
		}); pan {
			s.decodePanic(api, p, data, st)
		} else {
			outcome(api, aerr)
		}
	}

	// 5. DB.Apply: a batch built by SetRepr (store batch, or zero-value batch
	// which DB.Apply validates itself).
	an := analyse(data)
	decodes, committable := an.decodes, an.committable()
	// Budget: a panic/fatal inside DB.Apply wrecks the commit pipeline and costs a
	// store reopen. Two classes are known to do that on the unchanged tree (a
	// count field that disagrees with the entries; ingest/excise kinds). They
	// are recorded the first few times this process meets them, then skipped.
	cls := killClass(data, decodes)
	if hugeCountAllocation(data, an) && an.memSize >= 64<<10 {
		// would become a flushable batch sized by a hostile count; see hugeCountAllocation
		r.Count("huge_count_inputs_not_executed", 1)
	} else if !committable {
		r.Count("db_apply_skipped_semantically_invalid_spans", 1)
	} else if cls != "" && s.killed[cls] >= 3 {
		r.Count("db_apply_skipped_after_3_panics:"+cls, 1)
	} else {
		var b *pebble.Batch
		api := "DB.Apply(SetRepr(db.NewBatch))"
		if j%2 == 0 && sb != nil && serr == nil {
			b = sb
		} else {
			api = "DB.Apply(SetRepr(zero-value Batch))"
			b = new(pebble.Batch)
			if err := b.SetRepr(clone()); err != nil {
				b = nil
			}
		}
		if b != nil {
			var derr error
			if _, p, pan, st := guard(func() error { derr = s.st.d.Apply(b, pebble.NoSync); return nil }); pan {
				s.decodePanic(api, p, data, st)
				if cls != "" {
					s.killed[cls]++
				}
				s.reopen()
				sb = nil
			} else {
				outcome(api, derr)
				if derr == nil && !decodes {
					r.Violate("decode-disagreement", "DB.Apply accepted a repr that batchrepr.Reader rejects",
						map[string]any{"input_hex": hex.EncodeToString(data)}, map[string]any{"api": api})
				}
			}
		}
	}
	if sb != nil {
		_, _, _, _ = guard(func() error { return sb.Close() })
	}

	// 6. Large-batch path: a batch at or above the store's large-batch threshold
	// is turned into a flushable batch by DB.Apply, which fragments (= decodes)
	// its range keys and is therefore expected to reject a malformed range-key
	// value with an error. A store with a 4 KB memtable makes ~2 KB batches large.
	if an.decodes && an.spansOK && an.rkValueBad && cls == "" && an.memSize >= tinyMemTable && s.killed["rangekey-value"] >= 3 {
		r.Count("db_apply_skipped_after_3_panics:rangekey-value", 1)
	} else if an.decodes && an.spansOK && an.rkValueBad && cls == "" && an.memSize >= tinyMemTable {
		if s.tiny == nil {
			s.tiny = openStoreSized(s.t, tinyMemTable)
		}
		api := "DB.Apply(large batch -> newFlushableBatch)"
		var derr error
		_, p, pan, st := guard(func() error {
			b := s.tiny.d.NewBatch()
			if err := b.SetRepr(clone()); err != nil {
				derr = err
				return nil
			}
			derr = s.tiny.d.Apply(b, pebble.NoSync)
			return nil
		})
		if pan {
			s.decodePanic(api, p, data, st)
			s.killed["rangekey-value"]++
		} else {
			outcome(api, derr)
		}
		if pan || derr == nil {
			// poisoned or wrecked: never reuse
			s.tiny.discard()
			s.tiny = nil
			s.reopened++
		}
	}

	r.Eval(1)
	r.Count("malformed_inputs", 1)
	if nEntries > 0 {
		r.Count("malformed_inputs_with_decodable_prefix", 1)
	}
	if verdicts > 0 {
		r.Distinct("mal", hex.EncodeToString(data))
	}
	if readerErr != nil && len(data) > batchrepr.HeaderLen && len(data) < 40 && r.WantSample() {
		r.Sample(map[string]any{"type": "malformed", "generator": label, "input_hex": hex.EncodeToString(data), "reader_error": readerErr.Error()})
	}
}

// ---------------------------------------------------------------------------
// part wal

type walTemplate struct {
	fs     *vfs.MemFS
	nextFN uint64
	seq    uint64
}

func makeTemplate(t testing.TB) *walTemplate {
	fs := vfs.NewMem()
	d, err := pebble.Open("db", dbOptions(fs))
	if err != nil {
		t.Fatal(err)
	}
	for k := 0; k < 20; k++ {
		if err := d.Set([]byte(fmt.Sprintf("key%02d", k)), []byte("v"), pebble.NoSync); err != nil {
			t.Fatal(err)
		}
	}
	if err := d.Flush(); err != nil {
		t.Fatal(err)
	}
	if err := d.Set([]byte("tail"), []byte("v"), pebble.Sync); err != nil {
		t.Fatal(err)
	}
	if err := d.Close(); err != nil {
		t.Fatal(err)
	}
	ls, err := fs.List("db")
	if err != nil {
		t.Fatal(err)
	}
	var maxFN uint64
	for _, name := range ls {
		if _, fn, ok := base.ParseFilename(fs, name); ok && uint64(fn) > maxFN {
			maxFN = uint64(fn)
		}
	}
	return &walTemplate{fs: fs, nextFN: maxFN + 1, seq: 1000}
}

// fabricate clones the pristine store and appends records as a new, newest WAL.
func (w *walTemplate) fabricate(records [][]byte) (*vfs.MemFS, error) {
	fs := vfs.NewMem()
	if _, err := vfs.Clone(w.fs, fs, "db", "db"); err != nil {
		return nil, err
	}
	name := fs.PathJoin("db", fmt.Sprintf("%06d.log", w.nextFN))
	f, err := fs.Create(name, vfs.WriteCategoryUnspecified)
	if err != nil {
		return nil, err
	}
	lw := record.NewLogWriter(f, base.DiskFileNum(w.nextFN), record.LogWriterConfig{
		WriteWALSyncOffsets: func() bool { return false },
	})
	for _, rec := range records {
		if _, err := lw.WriteRecord(rec); err != nil {
			return nil, err
		}
	}
	if err := lw.Close(); err != nil {
		return nil, err
	}
	return fs, nil
}

// ingestFirst reports whether the record's first entry has an ingest / excise
// kind: replay then builds an ingestedFlushable, and a later background flush
// may panic in its own goroutine (not recoverable), so such records are replayed
// in a child process.
func ingestFirst(data []byte) bool {
	if len(data) <= batchrepr.HeaderLen {
		return false
	}
	switch base.InternalKeyKind(data[batchrepr.HeaderLen]) {
	case base.InternalKeyKindIngestSST, base.InternalKeyKindIngestSSTWithBlobs, base.InternalKeyKindExcise:
		return true
	}
	return false
}

var childPanicRE = regexp.MustCompile(`(?m)^(fatal error: .*|panic: .*)$`)

// walChild replays recs in a child process (this binary, TestVerifC31WALChild).
func walChild(recs [][]byte) (msg string, died bool, err error) {
	dir, err := os.MkdirTemp(vcommon.OutDir(), "c31walchild")
	if err != nil {
		return "", false, err
	}
	defer os.RemoveAll(dir)
	var hx []string
	for _, r := range recs {
		hx = append(hx, hex.EncodeToString(r))
	}
	cmd := exec.Command(os.Args[0], "-test.run", "^TestVerifC31WALChild$", "-test.count", "1")
	cmd.Env = append(os.Environ(), "VERIF_C31_WAL_CHILD="+strings.Join(hx, ","), "VERIF_OUT="+dir, "GORACE=")
	out, runErr := cmd.CombinedOutput()
	if runErr == nil {
		return "", false, nil
	}
	if _, ok := runErr.(*exec.ExitError); !ok {
		return "", false, runErr
	}
	m := childPanicRE.Find(out)
	if m == nil {
		return "", false, fmt.Errorf("child failed without a panic line: %.300s", out)
	}
	msg = strings.TrimPrefix(string(m), "panic: ")
	if i := strings.Index(msg, " [recovered"); i >= 0 {
		msg = msg[:i]
	}
	return panicPrefix(msg), true, nil
}

// TestVerifC31WALChild is the child side of walChild; it does nothing unless
// VERIF_C31_WAL_CHILD is set. A panic (in Open or in a background flush before
// Close returns) kills it, which is what the parent observes.
func TestVerifC31WALChild(t *testing.T) {
	env := os.Getenv("VERIF_C31_WAL_CHILD")
	if env == "" {
		t.Skip("child helper")
	}
	var recs [][]byte
	for _, h := range strings.Split(env, ",") {
		b, err := hex.DecodeString(h)
		if err != nil {
			t.Skip("bad input")
		}
		recs = append(recs, b)
	}
	fs, err := makeTemplate(t).fabricate(recs)
	if err != nil {
		t.Skip("cannot fabricate")
	}
	d, err := pebble.Open("db", dbOptions(fs))
	if err == nil {
		_ = d.Flush()
		_ = d.Close()
	}
}

func TestVerifC31WAL(t *testing.T) {
	r := vcommon.NewReport("C31", "wal")
	defer r.Finish(t)
	r.Rule("case = byte string (same generators as part main) written as a checksummed record of a new newest WAL of a pristine store (optionally after a valid batch record), " +
		"then pebble.Open + Close; distinct by content hash; non-trivial if the record reached batch decoding (>= 12 bytes)")
	r.Assume("records that decode completely but describe semantically invalid spans (start >= end, undecodable range-key value) or empty user keys are skipped: reachable through the typed API, caller error / unrelated flush-time assertion")
	tmpl := makeTemplate(t)
	seen := map[string]int{}
	n := vcommon.Scale(20, 500)
	r.Cases(n, func(i int, rng *rand.Rand) {
		label, inputs := genMalformed(rng)
		r.SetAdd("malformed_generators", label)
		// bound the opens per case
		if len(inputs) > 6 {
			rng.Shuffle(len(inputs), func(a, b int) { inputs[a], inputs[b] = inputs[b], inputs[a] })
			inputs = inputs[:6]
		}
		for j, data := range inputs {
			r.BeginCase(fmt.Sprintf("%d/%d", i, j))
			// 3 of 4: give the record a plausible sequence number so that replay
			// reaches memtable application rather than stopping at the seqnum check.
			if len(data) >= batchrepr.HeaderLen && rng.IntN(4) != 0 {
				binary.LittleEndian.PutUint64(data[:8], tmpl.seq+100)
			}
			an := analyse(data)
			decodes, committable := an.decodes, an.committable()
			if hugeCountAllocation(data, an) {
				// replay sizes allocations from the header count (replayIngestedFlushable,
				// newFlushableBatch): up to 64 GiB, fatal "out of memory" or gigabytes of
				// race-shadow memory on a shared machine. Not executed, only counted.
				r.Count("huge_count_inputs_not_executed", 1)
				continue
			}
			if !committable {
				r.Count("wal_skipped_semantically_invalid_spans", 1)
				continue
			}
			var recs [][]byte
			var lastSeq uint64
			if rng.IntN(2) == 0 {
				lastSeq = tmpl.seq
				vb := new(pebble.Batch)
				_ = vb.Set([]byte("wal-valid"), []byte("v"), nil)
				rep := append([]byte(nil), vb.Repr()...)
				binary.LittleEndian.PutUint64(rep[:8], tmpl.seq)
				recs = append(recs, rep)
			}
			recs = append(recs, data)
			fs, err := tmpl.fabricate(recs)
			if err != nil {
				r.Inconclusive("cannot fabricate WAL: %v", err)
				continue
			}
			if ingestFirst(data) {
				msg, died, err := walChild(recs)
				r.Eval(1)
				r.Count("opens_in_child_process(ingest-first record)", 1)
				switch {
				case err != nil:
					r.Inconclusive("child process for an ingest-first WAL record could not be run: %v", err)
				case died:
					key := "Open(WAL replay)|" + msg
					seen[key]++
					r.Count("decode_panics_total", 1)
					r.SetAdd("decode_panics", key)
					if seen[key] <= 2 {
						r.Violate("decode-panic", fmt.Sprintf("replaying a WAL whose last record is a %d-byte string with an ingest/excise first entry killed the process: %s", len(data), msg),
							map[string]any{"api": "Open(WAL replay)", "panic": msg, "record_hex": hex.EncodeToString(data), "records": len(recs), "child": true},
							map[string]any{"api": "Open(WAL replay)", "panic": msg})
					}
				default:
					r.Count("child_open_returned(error or ok)", 1)
				}
				r.Distinct("wal", hex.EncodeToString(data), len(recs))
				continue
			}
			var d *pebble.DB
			var oerr error
			_, p, pan, st := guard(func() error {
				d, oerr = pebble.Open("db", dbOptions(fs))
				return nil
			})
			r.Eval(1)
			r.Count("opens", 1)
			if pan && strings.Contains(st, "internal/base.AssertionFailedf") {
				r.Count("assertion_error_(panics_only_under_invariants):Open", 1)
			} else if pan {
				key := "Open(WAL replay)|" + p
				seen[key]++
				r.Count("decode_panics_total", 1)
				r.SetAdd("decode_panics", key)
				keepAlive = append(keepAlive, fs)
				if seen[key] <= 2 {
					r.Violate("decode-panic", fmt.Sprintf("pebble.Open panicked replaying a WAL whose last record is a %d-byte string: %s", len(data), p),
						map[string]any{"api": "Open(WAL replay)", "panic": p, "record_hex": hex.EncodeToString(data), "records": len(recs), "stack": st},
						map[string]any{"api": "Open(WAL replay)", "panic": p})
				}
			} else if oerr != nil {
				r.Count("open_returned_error", 1)
			} else {
				r.Count("open_succeeded", 1)
				// The WAL reader never hands records with count 0 (LogData only) or a
				// non-increasing sequence number to replay (wal/reader.go).
				h, _ := batchrepr.ReadHeader(data)
				skipped := len(data) >= batchrepr.HeaderLen && (h.Count == 0 || uint64(h.SeqNum) <= lastSeq)
				if skipped {
					r.Count("record_skipped_by_wal_reader(count0/old seqnum)", 1)
				}
				if !decodes && len(data) >= batchrepr.HeaderLen && !skipped {
					r.Count("open_succeeded_on_undecodable_record", 1)
					r.Violate("replay-accepted-garbage", "Open succeeded although the newest WAL holds an intact record that does not decode as a batch",
						map[string]any{"record_hex": hex.EncodeToString(data)}, map[string]any{"api": "Open(WAL replay)"})
				}
				if _, p, pan, st := guard(func() error { return d.Close() }); pan {
					keepAlive = append(keepAlive, d, fs)
					key := "Close after replay|" + p
					seen[key]++
					r.SetAdd("decode_panics", key)
					if seen[key] <= 2 {
						r.Violate("decode-panic", "Close after WAL replay panicked: "+p,
							map[string]any{"api": "Close after replay", "panic": p, "record_hex": hex.EncodeToString(data), "stack": st},
							map[string]any{"api": "Close after replay", "panic": p})
					}
				}
			}
			if len(data) >= batchrepr.HeaderLen {
				r.Distinct("wal", hex.EncodeToString(data), len(recs))
			}
			if pan == false && oerr != nil && len(data) < 40 && r.WantSample() {
				r.Sample(map[string]any{"type": "wal", "generator": label, "record_hex": hex.EncodeToString(data), "open_error": oerr.Error()})
			}
		}
	})
	_ = os.Stdout
}

func memTableSize() uint64 {
	if s := os.Getenv("VERIF_C31_MEMTABLE"); s != "" {
		var v uint64
		fmt.Sscan(s, &v)
		return v
	}
	return 256 << 10
}
