// C21, black-box part: a real store opened with Options.WALFailover and
// sub-millisecond failover thresholds on a crashable MemFS. A harness FS stalls
// the primary (sometimes the secondary) WAL directory at seeded moments so that
// the real failoverMonitor switches back and forth while one client commits
// batches (Sync / NoSync). Crash clones (0 / 50 / 100 % survival of unsynced
// data) are taken by the client between commits and by a concurrent "crasher"
// goroutine while commits are in flight.
//
// Every batch j carries Merge("acc", token_j) and Set(key_j, value_j). After a
// clone is reopened (no stalls), the value of "acc" is the list of tokens in
// replay order, so the DB content shows which batches the logical WALs yielded,
// how often and in which order.
//
// Oracle per clone (C10 crash oracle specialised to this history):
//
//	Open succeeds                                                [clone-open-failed]
//	tokens of "acc" are strictly increasing                      [duplicate] [reorder]
//	every token was issued before the clone was taken            [phantom]
//	tokens form a prefix 0..m-1 of the issued batches            [not-a-prefix]
//	m-1 >= the largest batch whose Commit(Sync) had returned nil
//	  when the clone was taken (read BEFORE cloning)             [acked-synced-lost]
//	key_j is present with value_j exactly for j < m              [key-mismatch]
//
// Real time (monitor ticks, stall lengths) only decides how many switches
// happen, never a verdict; stalls always expire by timer.
package c21

import (
	"bytes"
	"encoding/binary"
	"fmt"
	"math/rand/v2"
	"os"
	"path/filepath"
	"runtime"
	"strings"
	"sync"
	"sync/atomic"
	"testing"
	"time"

	"github.com/cockroachdb/pebble"
	"github.com/cockroachdb/pebble/internal/verif/vcommon"
	"github.com/cockroachdb/pebble/vfs"
	"github.com/cockroachdb/pebble/wal"
)

const (
	storeDir = "db"
	priDir   = "db-wal"
	secDir   = "db-wal2"
	watchdog = 150 * time.Second
)

// ---------------------------------------------------------------------------
// Stalling FS.

type stallCtl struct {
	mu      sync.Mutex
	stalled [2]bool
	ch      [2]chan struct{}
	off     bool
	waits   [2]atomic.Int64
	stalls  [2]int
}

func dirOf(name string) int {
	name = strings.TrimLeft(name, "/")
	switch {
	case strings.HasPrefix(name, secDir):
		return 1
	case strings.HasPrefix(name, priDir):
		return 0
	}
	return -1
}

func (c *stallCtl) wait(dir int) {
	if dir < 0 {
		return
	}
	c.mu.Lock()
	if !c.stalled[dir] || c.off {
		c.mu.Unlock()
		return
	}
	ch := c.ch[dir]
	c.mu.Unlock()
	c.waits[dir].Add(1)
	<-ch
}

// stall blocks file operations of dir for d (a timer ends it: nothing can stay
// blocked, whatever the rest of the system does).
func (c *stallCtl) stall(dir int, d time.Duration) {
	c.mu.Lock()
	defer c.mu.Unlock()
	if c.off || c.stalled[dir] {
		return
	}
	c.stalled[dir] = true
	c.stalls[dir]++
	ch := make(chan struct{})
	c.ch[dir] = ch
	time.AfterFunc(d, func() {
		c.mu.Lock()
		defer c.mu.Unlock()
		if c.ch[dir] == ch && c.stalled[dir] {
			c.stalled[dir] = false
			close(ch)
		}
	})
}

func (c *stallCtl) shutdown() {
	c.mu.Lock()
	defer c.mu.Unlock()
	c.off = true
	for d := range c.stalled {
		if c.stalled[d] {
			c.stalled[d] = false
			close(c.ch[d])
		}
	}
}

type stallFS struct {
	vfs.FS
	ctl *stallCtl
}

func (fs *stallFS) wrap(f vfs.File, err error, dir int) (vfs.File, error) {
	if err != nil || dir < 0 {
		return f, err
	}
	return &stallFile{File: f, ctl: fs.ctl, dir: dir}, nil
}

func (fs *stallFS) Create(name string, cat vfs.DiskWriteCategory) (vfs.File, error) {
	d := dirOf(name)
	fs.ctl.wait(d)
	f, err := fs.FS.Create(name, cat)
	return fs.wrap(f, err, d)
}

func (fs *stallFS) ReuseForWrite(oldname, newname string, cat vfs.DiskWriteCategory) (vfs.File, error) {
	d := dirOf(newname)
	fs.ctl.wait(d)
	f, err := fs.FS.ReuseForWrite(oldname, newname, cat)
	return fs.wrap(f, err, d)
}

func (fs *stallFS) OpenDir(name string) (vfs.File, error) {
	f, err := fs.FS.OpenDir(name)
	return fs.wrap(f, err, dirOf(name))
}

type stallFile struct {
	vfs.File
	ctl *stallCtl
	dir int
}

func (f *stallFile) Write(p []byte) (int, error) { f.ctl.wait(f.dir); return f.File.Write(p) }
func (f *stallFile) Sync() error                 { f.ctl.wait(f.dir); return f.File.Sync() }
func (f *stallFile) SyncData() error             { f.ctl.wait(f.dir); return f.File.SyncData() }
func (f *stallFile) SyncTo(n int64) (bool, error) {
	f.ctl.wait(f.dir)
	return f.File.SyncTo(n)
}
func (f *stallFile) Close() error { f.ctl.wait(f.dir); return f.File.Close() }

// ---------------------------------------------------------------------------

type dbLogger struct {
	fatal atomic.Pointer[string]
}

func (l *dbLogger) Infof(string, ...interface{})  {}
func (l *dbLogger) Errorf(string, ...interface{}) {}
func (l *dbLogger) Fatalf(f string, a ...interface{}) {
	s := fmt.Sprintf(f, a...)
	l.fatal.CompareAndSwap(nil, &s)
	select {} // the store is abandoned; see DESIGN.md §1 item 5
}

var sharedCache = pebble.NewCache(1 << 20)

type params struct {
	Batches        int     `json:"batches"`
	SyncProb       float64 `json:"sync_prob"`
	MemTableKB     int     `json:"memtable_kb"`
	FMV            uint64  `json:"format_major_version"`
	UnhealthyUs    int     `json:"unhealthy_threshold_us"`
	StallProb      float64 `json:"stall_prob"`
	SecStallProb   float64 `json:"secondary_stall_prob"`
	CloneProb      float64 `json:"clone_prob"`
	Crasher        bool    `json:"concurrent_crasher"`
	ValueMax       int     `json:"value_max"`
	FlushProb      float64 `json:"flush_prob"`
	MinSyncUs      int     `json:"wal_min_sync_interval_us"`
	BytesPerSyncKB int     `json:"wal_bytes_per_sync_kb"`
}

func failoverOpts(p params, fs vfs.FS) *pebble.WALFailoverOptions {
	th := time.Duration(p.UnhealthyUs) * time.Microsecond
	return &pebble.WALFailoverOptions{
		Secondary: wal.Dir{FS: fs, Dirname: secDir},
		FailoverOptions: wal.FailoverOptions{
			PrimaryDirProbeInterval:            time.Millisecond,
			HealthyProbeLatencyThreshold:       700 * time.Microsecond,
			HealthyInterval:                    3 * time.Millisecond,
			UnhealthySamplingInterval:          100 * time.Microsecond,
			UnhealthyOperationLatencyThreshold: func() (time.Duration, bool) { return th, true },
			ElevatedWriteStallThresholdLag:     time.Millisecond,
		},
	}
}

func makeOptions(p params, fs vfs.FS, lg pebble.Logger, live bool) *pebble.Options {
	o := &pebble.Options{
		FS:                          fs,
		WALDir:                      priDir,
		FormatMajorVersion:          pebble.FormatMajorVersion(p.FMV),
		MemTableSize:                uint64(p.MemTableKB) << 10,
		MemTableStopWritesThreshold: 4,
		Cache:                       sharedCache,
		DisableAutomaticCompactions: true,
		Logger:                      lg,
		WALFailover:                 failoverOpts(p, fs),
	}
	if live {
		if p.MinSyncUs > 0 {
			d := time.Duration(p.MinSyncUs) * time.Microsecond
			o.WALMinSyncInterval = func() time.Duration { return d }
		}
		o.WALBytesPerSync = p.BytesPerSyncKB << 10
	}
	return o
}

func token(j int) []byte {
	var b [6]byte
	b[0] = 'T'
	binary.BigEndian.PutUint32(b[1:5], uint32(j))
	b[5] = '.'
	return b[:]
}

func keyOf(j int) []byte { return []byte(fmt.Sprintf("k%08d", j)) }

func valueOf(caseID, j, n int) []byte {
	v := make([]byte, 16+n)
	binary.BigEndian.PutUint64(v[0:8], uint64(caseID))
	binary.BigEndian.PutUint64(v[8:16], uint64(j))
	x := uint64(caseID)*1000003 + uint64(j)*7919 + 1
	for i := 16; i < len(v); i++ {
		x = x*6364136223846793005 + 1442695040888963407
		v[i] = byte(x >> 56)
	}
	return v
}

type run struct {
	r      *vcommon.Report
	caseID int
	p      params
	rng    *rand.Rand
	mem    *vfs.MemFS
	ctl    *stallCtl

	issued   atomic.Int64 // batches whose Commit has started (incremented BEFORE Commit)
	ackedMax atomic.Int64 // largest j whose Commit(Sync) returned nil (stored AFTER it returned); -1: none
	valLen   []int        // value length of batch j (written before issued is advanced)
	vmu      sync.Mutex

	cloneMu sync.Mutex // serialises clones + audits of the client and the crasher
	audits  atomic.Int64
	clones  int
	maxM    int
}

func (s *run) valueLen(j int) int {
	s.vmu.Lock()
	defer s.vmu.Unlock()
	return s.valLen[j]
}

// cloneAndAudit takes a crash clone and checks the reopened store.
func (s *run) cloneAndAudit(pct int, who string) {
	s.cloneMu.Lock()
	defer s.cloneMu.Unlock()
	acked := int(s.ackedMax.Load()) // before the clone
	cfg := vfs.CrashCloneCfg{UnsyncedDataPercent: pct}
	if pct > 0 {
		cfg.RNG = rand.New(rand.NewPCG(uint64(s.caseID), uint64(s.clones)+77))
	}
	c := s.mem.CrashClone(cfg)
	issued := int(s.issued.Load()) // after the clone
	s.clones++
	s.audits.Add(1)
	defer s.audits.Add(1)
	s.r.Count("clones_audited", 1)
	s.r.Count(fmt.Sprintf("clones_audited_pct%d", pct), 1)
	s.r.Count("clones_by_"+who, 1)

	ctx := map[string]any{"case": s.caseID, "params": s.p, "clone_no": s.clones, "survival_pct": pct, "acked_max": acked, "issued": issued, "by": who}
	viol := func(class, detail string, m map[string]any) {
		mm := map[string]any{"part": "db"}
		for k, v := range m {
			mm[k] = v
		}
		c2 := map[string]any{"detail": detail}
		for k, v := range ctx {
			c2[k] = v
		}
		s.r.Violate(class, detail, c2, mm)
	}
	lg := &dbLogger{}
	type openRes struct {
		d   *pebble.DB
		err error
	}
	och := make(chan openRes, 1)
	go func() {
		d, err := pebble.Open(storeDir, makeOptions(s.p, c, lg, false))
		och <- openRes{d, err}
	}()
	var d *pebble.DB
	tm := time.NewTimer(watchdog)
	defer tm.Stop()
	tick := time.NewTicker(20 * time.Millisecond)
	defer tick.Stop()
wait:
	for {
		select {
		case res := <-och:
			if res.err != nil {
				viol("clone-open-failed", fmt.Sprintf("Open of crash clone %d (%d%% survival) failed: %v", s.clones, pct, res.err), map[string]any{"err": res.err.Error()})
				return
			}
			d = res.d
			break wait
		case <-tick.C:
			if f := lg.fatal.Load(); f != nil {
				viol("clone-open-failed", fmt.Sprintf("Open of crash clone %d (%d%% survival) hit Fatalf: %s", s.clones, pct, *f), map[string]any{"err": "fatal"})
				return
			}
		case <-tm.C:
			s.r.Inconclusive("case %d: Open of clone %d did not return within %s", s.caseID, s.clones, watchdog)
			return
		}
	}
	defer d.Close()

	acc, closer, err := d.Get([]byte("acc"))
	var toks []int
	if err == nil {
		if len(acc)%6 != 0 {
			viol("phantom", fmt.Sprintf("accumulator has %d bytes, not a multiple of the token size", len(acc)), map[string]any{"kind": "acc-length"})
		}
		for i := 0; i+6 <= len(acc); i += 6 {
			if acc[i] != 'T' || acc[i+5] != '.' {
				viol("phantom", fmt.Sprintf("accumulator token %d is malformed: %q", i/6, acc[i:i+6]), map[string]any{"kind": "acc-token"})
				break
			}
			toks = append(toks, int(binary.BigEndian.Uint32(acc[i+1:i+5])))
		}
		closer.Close()
	} else if err != pebble.ErrNotFound {
		viol("clone-read-failed", "Get(acc): "+err.Error(), nil)
		return
	}
	bad := false
	for i, tk := range toks {
		switch {
		case i > 0 && tk == toks[i-1]:
			viol("duplicate", fmt.Sprintf("batch %d was replayed twice (accumulator position %d)", tk, i), nil)
			bad = true
		case i > 0 && tk < toks[i-1]:
			viol("reorder", fmt.Sprintf("batch %d replayed after batch %d (accumulator position %d)", tk, toks[i-1], i), nil)
			bad = true
		case tk >= issued:
			viol("phantom", fmt.Sprintf("batch %d is in the recovered store but only %d batches had been issued", tk, issued), map[string]any{"kind": "not-issued"})
			bad = true
		case tk != i && !bad:
			viol("not-a-prefix", fmt.Sprintf("recovered batches are not a prefix: position %d holds batch %d (recovered %d batches, acked %d, issued %d)", i, tk, len(toks), acked, issued), nil)
			bad = true
		}
		if bad {
			break
		}
	}
	m := len(toks)
	if !bad && m-1 < acked {
		viol("acked-synced-lost", fmt.Sprintf("Commit(Sync) of batch %d had returned before the crash but the recovered store holds only batches 0..%d", acked, m-1), nil)
		bad = true
	}
	if m > s.maxM {
		s.maxM = m
	}
	s.r.Count("batches_recovered_total", int64(m))
	if m-1 > acked {
		s.r.Count("clones_with_unacked_batches_recovered", 1)
	}
	// keys
	if !bad {
		it, err := d.NewIter(&pebble.IterOptions{LowerBound: []byte("k"), UpperBound: []byte("l")})
		if err != nil {
			viol("clone-read-failed", "NewIter: "+err.Error(), nil)
			return
		}
		j := 0
		for ok := it.First(); ok; ok = it.Next() {
			if j >= m || !bytes.Equal(it.Key(), keyOf(j)) {
				viol("key-mismatch", fmt.Sprintf("recovered %d batches but iteration position %d holds key %q", m, j, it.Key()), nil)
				bad = true
				break
			}
			if want := valueOf(s.caseID, j, s.valueLen(j)); !bytes.Equal(it.Value(), want) {
				viol("key-mismatch", fmt.Sprintf("value of %q differs from what batch %d wrote (%d vs %d bytes)", it.Key(), j, len(it.Value()), len(want)), nil)
				bad = true
				break
			}
			j++
		}
		if err := it.Close(); err != nil {
			viol("clone-read-failed", "iterator: "+err.Error(), nil)
		}
		if !bad && j != m {
			viol("key-mismatch", fmt.Sprintf("recovered %d batches in the accumulator but only %d keys", m, j), nil)
		}
	}
}

func (s *run) exec() {
	r := s.r
	s.mem = vfs.NewCrashableMem()
	s.ctl = &stallCtl{}
	s.ackedMax.Store(-1)
	fs := &stallFS{FS: s.mem, ctl: s.ctl}
	lg := &dbLogger{}
	d, err := pebble.Open(storeDir, makeOptions(s.p, fs, lg, true))
	if err != nil {
		r.Inconclusive("case %d: initial Open failed: %v", s.caseID, err)
		return
	}
	s.valLen = make([]int, s.p.Batches)

	stopCrasher := make(chan struct{})
	crasherDone := make(chan struct{})
	if s.p.Crasher {
		crng := rand.New(rand.NewPCG(uint64(s.caseID), 4242))
		go func() {
			defer close(crasherDone)
			for {
				select {
				case <-stopCrasher:
					return
				case <-time.After(time.Duration(300+crng.IntN(4000)) * time.Microsecond):
				}
				s.cloneAndAudit([]int{0, 50, 100}[crng.IntN(3)], "crasher")
			}
		}()
	} else {
		close(crasherDone)
	}

	clientDone := make(chan struct{})
	var clientErr error
	go func() {
		defer close(clientDone)
		for j := 0; j < s.p.Batches; j++ {
			if s.rng.Float64() < s.p.StallProb {
				dir := 0
				if s.rng.Float64() < s.p.SecStallProb {
					dir = 1
				}
				s.ctl.stall(dir, time.Duration(500+s.rng.IntN(6000))*time.Microsecond)
			}
			n := s.rng.IntN(s.p.ValueMax + 1)
			s.vmu.Lock()
			s.valLen[j] = n
			s.vmu.Unlock()
			b := d.NewBatch()
			_ = b.Merge([]byte("acc"), token(j), nil)
			_ = b.Set(keyOf(j), valueOf(s.caseID, j, n), nil)
			doSync := s.rng.Float64() < s.p.SyncProb
			wo := pebble.NoSync
			if doSync {
				wo = pebble.Sync
			}
			s.issued.Store(int64(j + 1))
			if err := b.Commit(wo); err != nil {
				clientErr = err
				return
			}
			if doSync {
				s.ackedMax.Store(int64(j))
			}
			_ = b.Close()
			if s.rng.Float64() < s.p.FlushProb {
				if _, err := d.AsyncFlush(); err != nil {
					clientErr = err
					return
				}
			}
			if s.rng.Float64() < s.p.CloneProb {
				s.cloneAndAudit([]int{0, 0, 50, 100}[s.rng.IntN(4)], "client")
			}
		}
	}()
	// Watchdog on progress (a batch issued or a clone audited), not on the total
	// duration: the machine may be heavily loaded.
	tick := time.NewTicker(50 * time.Millisecond)
	defer tick.Stop()
	abandoned := false
	lastProgress := time.Now()
	lastSeen := int64(-1)
wait:
	for {
		select {
		case <-clientDone:
			break wait
		case <-tick.C:
			if f := lg.fatal.Load(); f != nil {
				// Nothing but stalls is injected: a fatal error is unexpected.
				r.Violate("db-fatal", "the store called Fatalf under stalls only: "+*f, map[string]any{"case": s.caseID, "params": s.p}, map[string]any{"part": "db"})
				abandoned = true
				break wait
			}
			if cur := s.issued.Load() + s.audits.Load()<<32; cur != lastSeen {
				lastSeen, lastProgress = cur, time.Now()
			} else if time.Since(lastProgress) > watchdog {
				buf := make([]byte, 1<<20)
				buf = buf[:runtime.Stack(buf, true)]
				p := filepath.Join(vcommon.OutDir(), fmt.Sprintf("C21.db.case%d.stacks.txt", s.caseID))
				_ = os.WriteFile(p, buf, 0o644)
				r.Inconclusive("case %d: no progress for %s (issued %d of %d batches); goroutine stacks in %s", s.caseID, watchdog, s.issued.Load(), s.p.Batches, p)
				abandoned = true
				break wait
			}
		}
	}
	close(stopCrasher)
	s.ctl.shutdown()
	if abandoned {
		return
	}
	if clientErr != nil {
		r.Inconclusive("case %d: client error: %v", s.caseID, clientErr)
	}
	<-crasherDone
	// final crash before Close, then a clean Close and a last look
	s.cloneAndAudit(0, "client")
	met := d.Metrics()
	r.Count("dir_switches_by_failover_monitor", met.WAL.Failover.DirSwitchCount)
	if met.WAL.Failover.SecondaryWriteDuration > 0 {
		r.Count("runs_that_wrote_to_secondary", 1)
	}
	secLogs := 0
	if ls, err := s.mem.List(secDir); err == nil {
		for _, n := range ls {
			if strings.HasSuffix(n, ".log") {
				secLogs++
			}
		}
	}
	r.Count("secondary_log_files_at_end", int64(secLogs))
	cdone := make(chan error, 1)
	go func() { cdone <- d.Close() }()
	select {
	case err := <-cdone:
		if err != nil {
			r.Note("case %d: Close: %v", s.caseID, err)
		}
	case <-time.After(watchdog):
		r.Inconclusive("case %d: Close did not return within %s", s.caseID, watchdog)
		return
	}
	s.ackedMax.Store(int64(s.p.Batches - 1)) // a clean Close makes everything durable
	if clientErr == nil {
		s.cloneAndAudit(0, "client")
	}
	r.Count("batches_committed", s.issued.Load())
	r.Count("ops_stalled_primary", s.ctl.waits[0].Load())
	r.Count("ops_stalled_secondary", s.ctl.waits[1].Load())
	r.Count("stalls_primary", int64(s.ctl.stalls[0]))
	r.Count("stalls_secondary", int64(s.ctl.stalls[1]))
	if met.WAL.Failover.DirSwitchCount > 0 {
		r.Distinct(s.caseID, met.WAL.Failover.DirSwitchCount, s.clones, s.maxM)
	}
	if r.WantSample() {
		r.Sample(map[string]any{"case": s.caseID, "params": s.p, "dir_switches": met.WAL.Failover.DirSwitchCount,
			"clones": s.clones, "secondary_logs_at_end": secLogs, "stalled_ops_primary": s.ctl.waits[0].Load()})
	}
}

func TestVerifC21DB(t *testing.T) {
	r := vcommon.NewReport("C21", "db")
	defer r.Finish(t)
	r.Rule("one case = one store with WALFailover (sub-ms thresholds) on a crashable MemFS; one client commits batches (Merge into an accumulator + Set of a unique key) " +
		"while the primary / secondary WAL directory is stalled at seeded moments and crash clones are taken by the client and by a concurrent crasher; " +
		"non-trivial = the real failoverMonitor switched directories at least once; distinct key = case + switch count + clones + recovered batches")
	r.Assume("crash model = vfs.MemFS.CrashClone; monitor timing is real time and only affects how many switches happen")
	n := vcommon.Scale(3, 96)
	r.Cases(n, func(i int, rng *rand.Rand) {
		fmvs := []uint64{uint64(pebble.FormatNewest), uint64(pebble.FormatNewest), uint64(pebble.FormatWALSyncChunks) - 1}
		p := params{
			Batches:      100 + rng.IntN(180),
			SyncProb:     []float64{1, 0.5, 0.5, 0.1}[rng.IntN(4)],
			MemTableKB:   []int{64, 128, 256}[rng.IntN(3)],
			FMV:          fmvs[rng.IntN(len(fmvs))],
			UnhealthyUs:  []int{200, 500, 1000}[rng.IntN(3)],
			StallProb:    []float64{0.03, 0.06, 0.12}[rng.IntN(3)],
			SecStallProb: []float64{0, 0.2, 0.4}[rng.IntN(3)],
			CloneProb:    0.06,
			Crasher:      rng.IntN(2) == 0,
			ValueMax:     []int{40, 400, 3000}[rng.IntN(3)],
			FlushProb:    []float64{0, 0.01, 0.03}[rng.IntN(3)],
			MinSyncUs:    []int{0, 0, 100}[rng.IntN(3)],
		}
		s := &run{r: r, caseID: i, p: p, rng: rng}
		s.exec()
		r.Eval(1)
	})
}
