// C26: table filters never produce false negatives.
//
// Part "main": direct membership oracle. A filter is built through the public
// TableFilterPolicy / TableFilterWriter API from a generated key set and every
// added key is probed through the TableFilterDecoder of the family the writer
// reported. Part "tables": end-to-end — tables written with a filter policy,
// read with AlwaysUseFilterBlock; SeekPrefixGE for every key of the table must
// find it.
package c26

import (
	"bytes"
	"encoding/binary"
	"fmt"
	"math/rand/v2"
	"os"
	"slices"
	"strconv"
	"testing"

	"github.com/cockroachdb/pebble/internal/base"
	"github.com/cockroachdb/pebble/internal/verif/sstmodel"
	"github.com/cockroachdb/pebble/internal/verif/vcommon"
	"github.com/cockroachdb/pebble/sstable/tablefilters"
	"github.com/cockroachdb/pebble/sstable/tablefilters/binaryfuse"
	"github.com/cockroachdb/pebble/sstable/tablefilters/bloom"
)

// bloomHash is a copy of the (unexported) hash used by the bloom filter. It is
// used only to construct adversarial inputs (many keys in one cache line),
// never to decide a verdict.
func bloomHash(b []byte) uint32 {
	const (
		seed = 0xbc9f1d34
		m    = 0xc6a4a793
	)
	h := uint32(seed) ^ (uint32(len(b)) * m)
	for ; len(b) >= 4; b = b[4:] {
		h += uint32(b[0]) | uint32(b[1])<<8 | uint32(b[2])<<16 | uint32(b[3])<<24
		h *= m
		h ^= h >> 16
	}
	switch len(b) {
	case 3:
		h += uint32(int8(b[2])) << 16
		fallthrough
	case 2:
		h += uint32(int8(b[1])) << 8
		fallthrough
	case 1:
		h += uint32(int8(b[0]))
		h *= m
		h ^= h >> 24
	}
	return h
}

type policySpec struct {
	name   string
	family string
	policy base.TableFilterPolicy
	bits   int // bloom bits per key (0 otherwise)
}

// fuseTenths is how many tenths of the cases use a binary fuse policy. Under
// the race detector building one costs ~2 s (the library's pooled 100k-entry
// builder is dropped/reallocated by race-mode sync.Pool), so the race part uses
// fewer of them than the volume part.
var fuseTenths = 4

func randPolicy(rng *rand.Rand) policySpec {
	x := rng.IntN(6)
	if rng.IntN(10) < fuseTenths {
		x = 9
	}
	switch os.Getenv("VERIF_C26_FAMILY") { // debugging aid only
	case "bloom":
		x = x % 6
	case "binaryfuse":
		x = 9
	}
	switch x {
	case 0, 1, 2, 3:
		b := 1 + rng.IntN(20)
		p := bloom.FilterPolicy(uint32(b))
		return policySpec{name: p.Name(), family: "bloom", policy: p, bits: b}
	case 4, 5:
		b := 1 + rng.IntN(20)
		max := []uint64{1, 5, 6, 68, 69, 70, 133, 197, 200, 325, 1000, 5000, 1 << 20}[rng.IntN(13)]
		p := bloom.AdaptivePolicy(uint32(b), max)
		return policySpec{name: p.Name(), family: "adaptive_bloom", policy: p, bits: b}
	default:
		fp := binaryfuse.SupportedBitsPerFingerprint[rng.IntN(len(binaryfuse.SupportedBitsPerFingerprint))]
		p := binaryfuse.FilterPolicy(fp)
		return policySpec{name: p.Name(), family: "binaryfuse", policy: p}
	}
}

// sizes of special interest: 0,1,2,..., around the hash-collector block
// boundaries (8192 for binary fuse, 16384 for bloom) and around multiples of a
// cache line's worth of bits.
func randSize(rng *rand.Rand, bits int) int {
	switch rng.IntN(12) {
	case 0:
		return rng.IntN(4) // 0,1,2,3
	case 1:
		return 4 + rng.IntN(30)
	case 2:
		if bits > 0 {
			// n*bits close to a multiple of 512 (one more / one fewer cache line)
			lines := 1 + rng.IntN(40)
			n := lines*512/bits + rng.IntN(5) - 2
			if n < 0 {
				n = 0
			}
			return n
		}
		return 30 + rng.IntN(100)
	case 3:
		return []int{8191, 8192, 8193, 16383, 16384, 16385}[rng.IntN(6)]
	case 4:
		return 4000 + rng.IntN(1001)
	default:
		return rng.IntN(5001)
	}
}

func genKeys(rng *rand.Rand, n int, spec policySpec) (keys [][]byte, shape string) {
	keys = make([][]byte, 0, n)
	switch rng.IntN(9) {
	case 0:
		shape = "random-bytes"
		for i := 0; i < n; i++ {
			k := make([]byte, rng.IntN(41))
			for j := range k {
				k[j] = byte(rng.Uint32())
			}
			keys = append(keys, k)
		}
	case 1:
		shape = "sequential-decimal"
		base := rng.IntN(1 << 20)
		for i := 0; i < n; i++ {
			keys = append(keys, []byte(strconv.Itoa(base+i)))
		}
	case 2:
		shape = "sequential-be64"
		b0 := rng.Uint64()
		for i := 0; i < n; i++ {
			keys = append(keys, binary.BigEndian.AppendUint64(nil, b0+uint64(i)))
		}
	case 3:
		shape = "one-bit-apart"
		l := 1 + rng.IntN(64)
		b := make([]byte, l)
		for j := range b {
			b[j] = byte(rng.Uint32())
		}
		keys = append(keys, slices.Clone(b))
		for i := 1; i < n; i++ {
			k := slices.Clone(b)
			bit := (i - 1) % (8 * l)
			k[bit/8] ^= 1 << (bit % 8)
			if i-1 >= 8*l { // second round: flip a second bit too
				bit2 := rng.IntN(8 * l)
				k[bit2/8] ^= 1 << (bit2 % 8)
			}
			keys = append(keys, k)
		}
	case 4:
		shape = "short-lengths-0-7"
		for i := 0; i < n; i++ {
			k := make([]byte, rng.IntN(8))
			for j := range k {
				k[j] = byte(rng.IntN(4)) * 85 // includes bytes >= 0x80 (sign extension in the hash tail)
			}
			keys = append(keys, k)
		}
	case 5:
		shape = "long-shared-prefix"
		p := make([]byte, 100+rng.IntN(900))
		for j := range p {
			p[j] = byte('a' + rng.IntN(2))
		}
		for i := 0; i < n; i++ {
			keys = append(keys, append(slices.Clone(p), []byte(strconv.Itoa(rng.IntN(4*n+4)))...))
		}
	case 6:
		shape = "same-cache-line"
		n = min(n, 600) // candidate search is n*nLines hash evaluations
		// Bloom: every key hashes to the same cache line of the filter that
		// will be built (nLines = ceil(n*bits/512)|1).
		bits := spec.bits
		if bits == 0 {
			bits = 10
		}
		nLines := uint32((uint64(n)*uint64(bits)+511)/512) | 1
		target := rng.Uint32N(nLines)
		var ctr uint64
		for len(keys) < n && ctr < uint64(n)*uint64(nLines)*40+1000 {
			k := binary.LittleEndian.AppendUint64([]byte("k"), ctr^0x9e3779b97f4a7c15)
			ctr++
			if bloomHash(k)%nLines == target {
				keys = append(keys, k)
			}
		}
	case 7:
		shape = "testkeys-prefixes"
		ps := sstmodel.RandPrefixShape(rng)
		for i := 0; i < n; i++ {
			keys = append(keys, ps.Draw(rng))
		}
	default:
		shape = "equal-low-hash-bits"
		n = min(n, 300) // candidate search is n*512 hash evaluations
		// keys whose bloom hash agrees on the low 9 bits (same bit position
		// inside a line for the first probe)
		target := rng.Uint32N(512)
		var ctr uint64
		for len(keys) < n && ctr < uint64(n)*512*4+1000 {
			k := []byte(strconv.FormatUint(ctr, 36))
			ctr++
			if bloomHash(k)&511 == target {
				keys = append(keys, k)
			}
		}
	}
	// special members and duplicates
	if n > 0 && rng.IntN(3) == 0 {
		keys[rng.IntN(len(keys))] = []byte{} // the empty key
		shape += "+empty"
	}
	switch rng.IntN(4) {
	case 0:
		// consecutive duplicates (what a table writer produces: one AddKey per
		// point, prefixes repeat)
		if len(keys) > 1 {
			slices.SortFunc(keys, bytes.Compare)
			for i := 1; i < len(keys); i++ {
				if rng.IntN(3) == 0 {
					keys[i] = keys[i-1]
				}
			}
			shape += "+sorted-dups"
		}
	case 1:
		// non-consecutive duplicates
		if len(keys) > 2 {
			for i := 0; i < len(keys)/4+1; i++ {
				keys[rng.IntN(len(keys))] = keys[rng.IntN(len(keys))]
			}
			shape += "+scattered-dups"
		}
	case 2:
		slices.SortFunc(keys, bytes.Compare)
		shape += "+sorted"
	}
	return keys, shape
}

func decoderFor(family base.TableFilterFamily) base.TableFilterDecoder {
	for _, d := range tablefilters.Decoders {
		if d.Family() == family {
			return d
		}
	}
	return nil
}

func sizeBucket(n int) string {
	switch {
	case n == 0:
		return "0"
	case n <= 3:
		return "1-3"
	case n <= 64:
		return "4-64"
	case n <= 1000:
		return "65-1000"
	case n <= 5000:
		return "1001-5000"
	default:
		return ">5000"
	}
}

func runFilterCase(r *vcommon.Report, i int, rng *rand.Rand) {
	spec := randPolicy(rng)
	w := spec.policy.NewWriter()
	rounds := 1
	if rng.IntN(3) == 0 {
		rounds = 2 + rng.IntN(2) // the writer is reusable after Finish
	}
	for round := 0; round < rounds; round++ {
		n := randSize(rng, spec.bits)
		keys, shape := genKeys(rng, n, spec)
		r.BeginCase(fmt.Sprintf("%d/%d policy=%s n=%d shape=%s", i, round, spec.name, len(keys), shape))
		for _, k := range keys {
			// AddKey must not retain or modify the key: give it a private copy
			// and scribble over it afterwards.
			c := slices.Clone(k)
			w.AddKey(c)
			for j := range c {
				c[j] = 0xAA
			}
		}
		data, family, ok := w.Finish()
		r.Eval(1)
		r.SetAdd("policies", spec.family)
		r.SetAdd("key_shapes", shape)
		r.SetAdd("set_sizes", sizeBucket(len(keys)))
		if round > 0 {
			r.Count("filters_from_reused_writer", 1)
		}
		if !ok {
			r.Count("no_filter_produced", 1)
			r.SetAdd("no_filter_for", fmt.Sprintf("%s/n=%s", spec.family, sizeBucket(len(keys))))
			// Documented reasons: no keys, adaptive policy size limit, binary
			// fuse construction failure. A plain bloom policy with keys must
			// produce a filter.
			if spec.family == "bloom" && len(keys) > 0 {
				r.Violate("no-filter", fmt.Sprintf("%s returned ok=false for %d keys", spec.name, len(keys)),
					map[string]any{"case": i, "round": round, "policy": spec.name, "n": len(keys), "shape": shape}, map[string]any{"policy_family": spec.family})
			}
			continue
		}
		dec := decoderFor(family)
		if dec == nil {
			r.Violate("unknown-family", fmt.Sprintf("writer reported family %q with no decoder in tablefilters.Decoders", family),
				map[string]any{"case": i, "policy": spec.name}, map[string]any{"policy_family": spec.family})
			continue
		}
		// exact-size private copy: out-of-bounds reads become visible to the
		// race/checkptr instrumentation
		data = slices.Clone(data)
		r.Count("filters_built", 1)
		r.Count("filter_bytes", int64(len(data)))
		r.Count("keys_added", int64(len(keys)))
		miss := 0
		for _, k := range keys {
			if !dec.MayContain(data, k) {
				miss++
				if miss == 1 {
					r.Violate("false-negative",
						fmt.Sprintf("%s: MayContain(%q)=false for an added key (n=%d, shape=%s, filter %d bytes, round %d)", spec.name, k, len(keys), shape, len(data), round),
						map[string]any{"case": i, "round": round, "policy": spec.name, "key_hex": fmt.Sprintf("%x", k), "n": len(keys), "shape": shape,
							"filter_len": len(data), "replay_hint": fmt.Sprintf("VERIF_SEED=%d VERIF_ONLY_CASE=%d", vcommon.Seed(), i)},
						map[string]any{"policy_family": spec.family, "policy": spec.name})
				}
			}
		}
		r.Count("probes_of_added_keys", int64(len(keys)))
		r.Count("false_negatives", int64(miss))
		// Evidence that the filter is not trivially "always true": probe keys
		// that were not added.
		present := map[string]bool{}
		for _, k := range keys {
			present[string(k)] = true
		}
		fp, np := 0, 0
		for j := 0; j < 200; j++ {
			k := binary.LittleEndian.AppendUint64([]byte("absent/"), rng.Uint64())
			if present[string(k)] {
				continue
			}
			np++
			if dec.MayContain(data, k) {
				fp++
			}
		}
		r.Count("probes_of_absent_keys", int64(np))
		r.Count("absent_reported_present", int64(fp))
		if len(keys) >= 2 {
			r.Distinct(spec.name, len(keys), shape)
		}
		if r.WantSample() && len(keys) > 10 {
			r.Sample(map[string]any{"case": i, "policy": spec.name, "keys": len(keys), "shape": shape, "filter_bytes": len(data),
				"absent_probes": np, "absent_reported_present": fp, "first_key_hex": fmt.Sprintf("%x", keys[0])})
		}
	}
}

const filterRule = "each case = one filter built through TableFilterPolicy.NewWriter/AddKey/Finish for a generated key set (policy: bloom(1..20), adaptive_bloom with tight max sizes, " +
	"binaryfuse(4,8,10,12,16); sizes 0..5000 plus hash-block boundaries 8192/16384 and cache-line multiples; shapes: random, sequential, one-bit-apart, lengths 0-7, " +
	"long shared prefix, all keys in one bloom cache line, equal low hash bits; empty key, consecutive and scattered duplicates; writer reuse) and every added key probed " +
	"with the decoder of the reported family; distinct = (policy, size, shape), sets of < 2 keys are trivial"

func runFilterPart(t *testing.T, part string, n int) {
	if part == "main" {
		fuseTenths = 1
	}
	r := vcommon.NewReport("C26", part)
	defer r.Finish(t)
	r.Rule(filterRule)
	r.Cases(n, func(i int, rng *rand.Rand) {
		if msg, stack := sstmodel.Guard(func() { runFilterCase(r, i, rng) }); msg != "" {
			r.Violate("panic", "panic while building/probing a filter: "+msg,
				map[string]any{"case": i, "panic": msg, "stack": stack}, map[string]any{"message": msg})
			// A recovered panic leaks open iterators; in invariants builds their pool
			// finalizers exit the process at the next GC. Persist the report now.
			r.Finish(t)
		}
	})
}

// TestVerifC26 runs under the race build (race detector + checkptr on the
// unsafe cache-line / bit-packing accesses); the binary fuse builder's large
// pooled buffers make it slow there, so the volume part below repeats the same
// monitor under the invariants build.
func TestVerifC26(t *testing.T) { runFilterPart(t, "main", vcommon.Scale(150, 6000)) }

// TestVerifC26Bulk is the same monitor at volume (invariants build).
func TestVerifC26Bulk(t *testing.T) { runFilterPart(t, "bulk", vcommon.Scale(2000, 100000)) }

// ---- end to end through tables ----

func runTableCase(r *vcommon.Report, i int, rng *rand.Rand) {
	ks := sstmodel.TestKeys
	if rng.IntN(4) == 0 {
		ks = sstmodel.Crdb
	}
	var t *sstmodel.Table
	for {
		t = sstmodel.GenTable(rng, ks, sstmodel.Shape{MaxEntries: 800, SmallValues: true, NoRangeDels: true, NoRangeKeys: true})
		if t.Opts.Filter != "none" {
			break
		}
	}
	r.Eval(1)
	if err := sstmodel.Build(t); err != nil {
		r.Violate("write-error", err.Error(), map[string]any{"case": i, "options": t.Opts}, nil)
		return
	}
	env := sstmodel.NewReaderEnv(int64(rng.IntN(2)) * (4 << 20))
	defer env.Close()
	rd, err := env.Open(ks, t.Data, true)
	if err != nil {
		r.Violate("open-error", err.Error(), map[string]any{"case": i, "options": t.Opts}, nil)
		return
	}
	defer rd.Close()
	hasFilter := t.Meta.Properties.FilterSize > 0
	r.SetAdd("table_filter_policies", t.Opts.Filter)
	r.SetAdd("table_formats", t.Opts.Format)
	if hasFilter {
		r.Count("tables_with_filter_block", 1)
	} else {
		r.Count("tables_without_filter_block", 1)
	}
	model := sstmodel.NewPointModel(t, sstmodel.Transform{}, sstmodel.VBounds{})
	it, err := sstmodel.NewPointIter(rd, sstmodel.IterSpec{UseFilter: true}, 0)
	if err != nil {
		r.Violate("iter-error", err.Error(), map[string]any{"case": i, "options": t.Opts}, nil)
		return
	}
	defer it.Close()
	// Every key of the table, in random order: SeekPrefixGE(prefix(key), key)
	// must land exactly on the first entry with that user key.
	order := rng.Perm(len(model.Entries))
	if len(order) > 400 {
		order = order[:400]
	}
	for _, idx := range order {
		e := model.Entries[idx]
		first := model.SeekGEIdx(e.UserKey)
		want := model.Entries[first]
		prefix := slices.Clone(ks.PrefixOf(e.UserKey))
		var kv *base.InternalKV
		if rng.IntN(2) == 0 {
			kv = it.SeekPrefixGE(prefix, slices.Clone(e.UserKey), base.SeekGEFlagsNone)
		} else {
			// seek with the bare prefix: must find the first key of the prefix
			kv = it.SeekPrefixGE(prefix, slices.Clone(prefix), base.SeekGEFlagsNone)
			want = model.Entries[model.SeekGEIdx(prefix)]
		}
		r.Count("table_prefix_seeks", 1)
		if kv == nil || !bytes.Equal(kv.K.UserKey, want.UserKey) || kv.K.Trailer != want.Trailer {
			got := "<nil>"
			if kv != nil {
				got = kv.K.String()
			}
			r.Violate("seek-missed-existing-key",
				fmt.Sprintf("SeekPrefixGE(%q) with filter %s on %s: expected %s, got %s (err=%v)", e.UserKey, t.Opts.Filter, t.Opts.Format, want, got, it.Error()),
				map[string]any{"case": i, "options": t.Opts, "key": fmt.Sprintf("%q", e.UserKey), "points": len(t.Points),
					"replay_hint": fmt.Sprintf("VERIF_SEED=%d VERIF_ONLY_CASE=%d", vcommon.Seed(), i)},
				map[string]any{"filter": t.Opts.Filter, "format": t.Opts.Format})
			return
		}
	}
	// Absent prefixes: the filter may or may not exclude them; either way the
	// result must not be a key of that prefix (there is none).
	excluded := 0
	for j := 0; j < 50 && len(model.Entries) > 0; j++ {
		p := ks.PrefixOf(model.Entries[rng.IntN(len(model.Entries))].UserKey)
		bare := append(slices.Clone(ks.BareOf(p)), 'q', 'q', byte('a'+rng.IntN(26)))
		k := ks.Key(bare, 0)
		if idx := model.SeekGEIdx(k); idx < len(model.Entries) && ks.SamePrefix(model.Entries[idx].UserKey, k) {
			continue
		}
		kv := it.SeekPrefixGE(slices.Clone(ks.PrefixOf(k)), k, base.SeekGEFlagsNone)
		if kv == nil {
			excluded++
		} else if ks.SamePrefix(kv.K.UserKey, k) {
			r.Violate("phantom-key", fmt.Sprintf("SeekPrefixGE(%q) returned %s though no key has that prefix", k, kv.K.String()),
				map[string]any{"case": i, "options": t.Opts}, nil)
			return
		}
	}
	r.Count("absent_prefix_seeks_returning_nil", int64(excluded))
	if len(model.Entries) > 1 && hasFilter {
		r.Distinct(t.Opts.Filter, t.Opts.Format, len(model.Entries))
	}
}

func TestVerifC26Tables(t *testing.T) {
	r := vcommon.NewReport("C26", "tables")
	defer r.Finish(t)
	r.Rule("each case = one random table with a filter policy (bloom / adaptive bloom / binary fuse, all table formats) read with AlwaysUseFilterBlock; " +
		"SeekPrefixGE for (up to 400) existing keys and bare prefixes must return the first matching entry; distinct = (policy, format, entries), tables without a filter block are trivial")
	n := vcommon.Scale(36, 900)
	r.Cases(n, func(i int, rng *rand.Rand) {
		if msg, stack := sstmodel.Guard(func() { runTableCase(r, i, rng) }); msg != "" {
			r.Violate("panic", "panic: "+msg, map[string]any{"case": i, "panic": msg, "stack": stack}, map[string]any{"message": msg})
			r.Finish(t) // persist now: leaked iterators may end the process at the next GC (invariants finalizers)
		}
	})
}
