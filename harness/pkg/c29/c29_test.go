// C29: virtual tables, synthetic prefix / suffix / seqnum transforms,
// hide-obsolete and CopySpan present the right keys.
//
// Oracle: the transform is applied to the C25 sorted-list model and the result
// is filtered by the virtual bounds (inclusive / exclusive upper bound as
// recorded); the same contract-respecting random iterator operations as C25 are
// compared against it. CopySpan: the output must contain every input entry of
// the span and be a contiguous run of input entries (extra adjacent keys are
// allowed at block granularity).
package c29

import (
	"bytes"
	"context"
	"errors"
	"fmt"
	"math/rand/v2"
	"slices"
	"testing"

	"github.com/cockroachdb/pebble/internal/base"
	"github.com/cockroachdb/pebble/internal/keyspan"
	"github.com/cockroachdb/pebble/internal/verif/sstmodel"
	"github.com/cockroachdb/pebble/internal/verif/vcommon"
	"github.com/cockroachdb/pebble/objstorage"
	"github.com/cockroachdb/pebble/sstable"
	"github.com/cockroachdb/pebble/sstable/block"
)

type caseDesc struct {
	Case      int              `json:"case"`
	Kind      string           `json:"kind"`
	Options   sstmodel.Options `json:"options"`
	Points    int              `json:"points"`
	RangeDels int              `json:"rangedels"`
	RangeKeys int              `json:"rangekeys"`
	Prefix    string           `json:"synthetic_prefix,omitempty"`
	Suffix    string           `json:"synthetic_suffix,omitempty"`
	SeqNum    uint64           `json:"synthetic_seqnum,omitempty"`
	Hide      bool             `json:"hide_obsolete,omitempty"`
	VLower    string           `json:"virtual_lower,omitempty"`
	VUpper    string           `json:"virtual_upper,omitempty"`
	VUpperExc bool             `json:"virtual_upper_exclusive,omitempty"`
	Visible   int              `json:"model_entries"`
	Hint      string           `json:"replay_hint"`
}

// lastDesc is the description of the case being run (for panic reports).
var lastDesc *caseDesc

// panicMatch gives a recovered panic structural fields a known-finding entry
// can match on.
func panicMatch(msg string) map[string]any {
	m := map[string]any{"message": msg}
	if d := lastDesc; d != nil {
		m["kind"] = d.Kind
		m["format"] = d.Options.Format
		m["keyspace"] = d.Options.KeySpace
		m["points"] = d.Points
		m["synthetic_prefix"] = d.Prefix != ""
		m["columnar"] = d.Options.Format >= "(Pebble,v5)"
	}
	return m
}

func violate(r *vcommon.Report, d *caseDesc, class, detail string, mm *sstmodel.Mismatch) {
	kind := ""
	if mm != nil {
		kind = mm.IterKind
	}
	r.Violate(class, d.Kind+": "+detail, map[string]any{"desc": d, "mismatch": mm},
		map[string]any{"kind": d.Kind, "format": d.Options.Format, "iter_kind": kind, "keyspace": d.Options.KeySpace})
}

func addStats(r *vcommon.Report, st *sstmodel.Stats) {
	for k, v := range st.Ops {
		r.Count("op."+k, v)
	}
	r.Count("results_non_nil", st.NonNil)
	r.Count("prefix_mismatch_key_returned", st.PrefixMismatchLenient)
	r.Count("try_seek_using_next", st.TSUN)
	r.Count("set_bounds", st.SetBounds)
	r.Count("direction_switch_after_exhaustion", st.DirSwitchAfterNil)
}

// randSynthPrefix draws a synthetic prefix valid for the key space: arbitrary
// letters (testkeys prefixes must not contain '@').
func randSynthPrefix(rng *rand.Rand) []byte {
	n := 1 + rng.IntN(6)
	if rng.IntN(6) == 0 {
		n = 20 + rng.IntN(60)
	}
	p := make([]byte, n)
	for i := range p {
		p[i] = byte('a' + rng.IntN(26))
	}
	return p
}

// spanContains reports whether any span contains user key k.
func spanContains(ks *sstmodel.KeySpace, spans []keyspan.Span, k []byte) bool {
	for i := range spans {
		if ks.Cmp(spans[i].Start, k) <= 0 && ks.Cmp(k, spans[i].End) < 0 {
			return true
		}
	}
	return false
}

// pickVirtualBounds chooses virtual bounds over the transformed key space:
// at / between keys, empty results, single keys, span boundaries. It asserts
// the documented preconditions: Lower is not an exclusive sentinel, Lower <=
// Upper, and an inclusive Upper is not inside any range-del / range-key span
// (keyspan.Truncate).
func pickVirtualBounds(rng *rand.Rand, ks *sstmodel.KeySpace, full *sstmodel.PointModel, rdels, rkeys []keyspan.Span) (vb sstmodel.VBounds, lo, up base.InternalKey, shape string) {
	var cands [][]byte
	for i := range full.Entries {
		cands = append(cands, full.Entries[i].UserKey)
	}
	nPoint := len(cands)
	for _, s := range rdels {
		cands = append(cands, s.Start, s.End)
	}
	for _, s := range rkeys {
		cands = append(cands, s.Start, s.End)
	}
	if len(cands) == 0 {
		cands = append(cands, ks.Key([]byte("m"), 0))
	}
	draw := func() ([]byte, string) {
		var k []byte
		var what string
		if nPoint > 0 && rng.IntN(10) < 7 {
			k = cands[rng.IntN(nPoint)]
			what = "key"
		} else {
			k = cands[rng.IntN(len(cands))]
			what = "span-boundary"
			if nPoint == len(cands) {
				what = "key"
			}
		}
		switch rng.IntN(6) {
		case 0:
			return slices.Clone(ks.PrefixOf(k)), what + "-prefix"
		case 1:
			return ks.Succ(ks.PrefixOf(k)), "between"
		case 2:
			return append(slices.Clone(ks.PrefixOf(k)), ks.Suffix(1+rng.Uint64N(20))...), "between"
		}
		return slices.Clone(k), what
	}
	a, sa := draw()
	b, sb := draw()
	switch rng.IntN(8) {
	case 0:
		b, sb = slices.Clone(a), "single"
	case 1:
		// narrow window around one key
		b, sb = ks.Succ(ks.PrefixOf(a)), "one-prefix"
	}
	if ks.Cmp(a, b) > 0 {
		a, b = b, a
		sa, sb = sb, sa
	}
	exclusive := rng.IntN(2) == 0
	if ks.Cmp(a, b) == 0 {
		exclusive = false // [k, k) would be empty and is never recorded
	}
	if !exclusive && (spanContains(ks, rdels, b) || spanContains(ks, rkeys, b)) {
		exclusive = true
		if ks.Cmp(a, b) == 0 {
			// cannot express: widen to the next prefix
			b = ks.Succ(ks.PrefixOf(b))
		}
	}
	vb = sstmodel.VBounds{Set: true, Lower: a, Upper: b, UpperExclusive: exclusive}
	lo = base.MakeInternalKey(a, base.SeqNumMax, base.InternalKeyKindSet)
	if exclusive {
		up = base.MakeRangeDeleteSentinelKey(b)
	} else {
		up = base.MakeInternalKey(b, 0, base.InternalKeyKindSet)
	}
	// preconditions
	if lo.IsExclusiveSentinel() || ks.Cmp(a, b) > 0 || (ks.Cmp(a, b) == 0 && exclusive) {
		panic("generator: invalid virtual bounds")
	}
	if !exclusive && (spanContains(ks, rdels, b) || spanContains(ks, rkeys, b)) {
		panic("generator: inclusive virtual upper bound inside a span")
	}
	return vb, lo, up, sa + ".." + sb
}

func runTransformCase(r *vcommon.Report, i int, rng *rand.Rand) {
	ks := sstmodel.TestKeys
	if rng.IntN(10) < 3 {
		ks = sstmodel.Crdb
	}
	var sh sstmodel.Shape
	var tr sstmodel.Transform
	kind := ""
	const suffixTS = 5000 // synthetic suffix version; tables for it only hold versions <= 1000
	switch rng.IntN(10) {
	case 0, 1:
		kind = "virtual"
	case 2, 3:
		kind = "prefix"
		tr.SyntheticPrefix = randSynthPrefix(rng)
	case 4, 5:
		kind = "suffix"
		sh = sstmodel.Shape{UniquePrefixes: true, MaxTS: 1000, NoRangeDels: true, NoRangeKeyUnset: true, OnlySets: true, NoLockKeys: true}
		tr.SyntheticSuffix = ks.Suffix(suffixTS)
		if rng.IntN(2) == 0 {
			kind = "prefix+suffix"
			tr.SyntheticPrefix = randSynthPrefix(rng)
		}
	case 6:
		kind = "seqnum"
		sh = sstmodel.Shape{AllSeqZero: true}
		tr.SyntheticSeqNum = base.SeqNum(1 + rng.Uint64N(1<<40))
		if rng.IntN(3) == 0 {
			kind = "prefix+seqnum"
			tr.SyntheticPrefix = randSynthPrefix(rng)
		}
	default:
		kind = "hide-obsolete"
		sh = sstmodel.Shape{MinFormat: sstable.TableFormatPebblev4}
		tr.HideObsolete = true
	}
	if kind != "hide-obsolete" && rng.IntN(3) == 0 {
		tr.HideObsolete = true // what pebble does for every read above the file's seqnums
	}
	if i%25 == 7 { // chosen by case index so that the other cases keep their random streams
		// Dedicated sub-family: a row-format table WITHOUT point keys (the row
		// writer still emits one empty data block) read with a long synthetic
		// prefix, mostly with the cockroach comparer (which, unlike bytes
		// comparison, cannot digest a fabricated key). Regression guard for the
		// empty-block SeekLT defect found by this monitor.
		kind = "prefix/no-points-rowblk"
		if rng.IntN(4) != 0 {
			ks = sstmodel.Crdb
		}
		sh = sstmodel.Shape{NoPoints: true, ForceRangeDels: true, MaxFormat: sstable.TableFormatPebblev4}
		tr = sstmodel.Transform{SyntheticPrefix: make([]byte, 8+rng.IntN(60)), HideObsolete: rng.IntN(2) == 0}
		for k := range tr.SyntheticPrefix {
			tr.SyntheticPrefix[k] = byte('a' + rng.IntN(26))
		}
	}
	if sh.MaxEntries == 0 {
		sh.MaxEntries = 1500
	}
	t := sstmodel.GenTable(rng, ks, sh)
	if kind == "hide-obsolete" && t.WOpts.IsStrictObsolete && rng.IntN(2) == 0 {
		// foreign table: strict-obsolete, obsolete points hidden, sequence numbers overridden
		kind = "hide-obsolete+seqnum"
		tr.SyntheticSeqNum = base.SeqNum(1 + rng.Uint64N(1<<40))
	}
	if len(t.Points) == 0 && len(tr.SyntheticSuffix) > 0 && tr.HideObsolete {
		// A table without point keys carries the table-level property "all
		// points obsolete" (vacuously), which the obsolete-key filter rejects
		// with an assertion when a synthetic suffix is configured. pebble never
		// opens a point iterator on such a table (levelIter skips files with
		// !HasPointKeys), so this combination is outside the contract.
		tr.HideObsolete = false
		r.Count("pointless_suffix_tables_read_without_obsolete_filter", 1)
	}
	d := &caseDesc{Case: i, Kind: kind, Options: t.Opts, Points: len(t.Points), RangeDels: len(t.RangeDels), RangeKeys: len(t.RangeKeys),
		Prefix: string(tr.SyntheticPrefix), Suffix: fmt.Sprintf("%x", tr.SyntheticSuffix), SeqNum: uint64(tr.SyntheticSeqNum), Hide: tr.HideObsolete,
		Hint: fmt.Sprintf("VERIF_SEED=%d VERIF_ONLY_CASE=%d", vcommon.Seed(), i)}
	lastDesc = d
	r.Eval(1)

	// Assert the documented preconditions of the transforms on the generated
	// table (blockiter/transforms.go).
	if len(tr.SyntheticSuffix) > 0 {
		seen := map[string]bool{}
		for k := range t.Points {
			p := &t.Points[k]
			pre := string(ks.PrefixOf(p.UserKey))
			if seen[pre] {
				panic("generator: synthetic suffix with two keys sharing a prefix")
			}
			seen[pre] = true
			if ks.Split(p.UserKey) != len(p.UserKey) {
				repl := append(slices.Clone(ks.PrefixOf(p.UserKey)), tr.SyntheticSuffix...)
				if ks.Cmp(repl, p.UserKey) >= 0 {
					panic("generator: synthetic suffix does not sort before an original suffix")
				}
			}
			if p.Obsolete {
				panic("generator: obsolete key in a table read with a synthetic suffix")
			}
		}
		if len(t.RangeDels) > 0 {
			panic("generator: range dels with synthetic suffix")
		}
		for _, s := range t.RangeKeys {
			for _, k := range s.Keys {
				if k.Kind() == base.InternalKeyKindRangeKeyUnset {
					panic("generator: RangeKeyUnset with synthetic suffix")
				}
				if k.Kind() == base.InternalKeyKindRangeKeySet && len(k.Suffix) > 0 && ks.Comparer.CompareRangeSuffixes(tr.SyntheticSuffix, k.Suffix) >= 0 {
					panic("generator: synthetic suffix does not sort before a RangeKeySet suffix")
				}
			}
		}
	}
	switch kind {
	case "seqnum", "prefix+seqnum":
		for k := range t.Points {
			if t.Points[k].Trailer.SeqNum() != 0 {
				panic("generator: synthetic seqnum on an 'ingested' table with non-zero sequence numbers")
			}
			if k > 0 && ks.Cmp(t.Points[k-1].UserKey, t.Points[k].UserKey) == 0 {
				panic("generator: synthetic seqnum on a table with two versions of a user key")
			}
		}
	case "hide-obsolete+seqnum":
		if !t.WOpts.IsStrictObsolete || !tr.HideObsolete {
			panic("generator: foreign-table transform on a non-strict table")
		}
	}

	if err := sstmodel.Build(t); err != nil {
		violate(r, d, "write-error", err.Error(), nil)
		return
	}
	env := sstmodel.NewReaderEnv(int64(rng.IntN(3)) * (2 << 20))
	defer env.Close()
	rd, err := env.Open(ks, t.Data, rng.IntN(5) != 0)
	if err != nil {
		violate(r, d, "open-error", err.Error(), nil)
		return
	}
	defer rd.Close()

	// transformed, unbounded model: seek-key pool and virtual bound candidates
	full := sstmodel.NewPointModel(t, tr, sstmodel.VBounds{})
	fullDels := sstmodel.TransformSpans(ks, t.RangeDels, tr, sstmodel.VBounds{})
	fullKeys := sstmodel.TransformSpans(ks, t.RangeKeys, tr, sstmodel.VBounds{})

	var vb sstmodel.VBounds
	spec := sstmodel.IterSpec{Transform: tr}
	if kind == "virtual" || rng.IntN(10) < 7 {
		var shape string
		vb, spec.VLowerKey, spec.VUpperKey, shape = pickVirtualBounds(rng, ks, full, fullDels, fullKeys)
		spec.VB = vb
		d.VLower, d.VUpper, d.VUpperExc = fmt.Sprintf("%q", vb.Lower), fmt.Sprintf("%q", vb.Upper), vb.UpperExclusive
		r.SetAdd("virtual_bound_shapes", shape)
		if vb.UpperExclusive {
			r.Count("virtual_upper_exclusive", 1)
		} else {
			r.Count("virtual_upper_inclusive", 1)
		}
	}
	model := sstmodel.NewPointModel(t, tr, vb)
	d.Visible = len(model.Entries)
	mDels := sstmodel.TransformSpans(ks, t.RangeDels, tr, vb)
	mKeys := sstmodel.TransformSpans(ks, t.RangeKeys, tr, vb)
	r.SetAdd("kinds", kind)
	r.SetAdd("formats", t.Opts.Format)
	r.SetAdd("keyspace", t.Opts.KeySpace)
	r.Count("cases."+kind, 1)
	if vb.Set {
		r.Count("virtual_cases", 1)
		switch {
		case len(model.Entries) == 0:
			r.Count("virtual_empty_result", 1)
		case len(model.Entries) == 1:
			r.Count("virtual_single_key", 1)
		}
		r.Count("entries_outside_virtual_bounds", int64(len(full.Entries)-len(model.Entries)))
	}
	hidden := 0
	if tr.HideObsolete && t.Format >= sstable.TableFormatPebblev4 {
		for k := range t.Points {
			if t.Points[k].Obsolete {
				hidden++
			}
		}
		r.Count("obsolete_points_hidden", int64(hidden))
	}

	var extra [][]byte
	for k := 0; k < 60 && len(full.Entries) > 0; k++ {
		extra = append(extra, full.Entries[rng.IntN(len(full.Entries))].UserKey)
	}
	if len(tr.SyntheticPrefix) > 0 {
		// keys that lack the synthetic prefix altogether
		for k := 0; k < 5 && len(t.Points) > 0; k++ {
			extra = append(extra, t.Points[rng.IntN(len(t.Points))].UserKey)
		}
	}
	var largest base.SeqNum
	if t.Meta != nil {
		largest = t.Meta.SeqNums.High
	}
	st := sstmodel.NewStats()
	defer addStats(r, st)

	// full scans
	for pass := 0; pass < 3; pass++ {
		sp := spec
		sp.UseFilter = true
		sp.Compaction = pass == 2
		it, err := sstmodel.NewPointIter(rd, sp, largest)
		name := []string{"forward scan", "backward scan", "compaction-iter scan"}[pass]
		if err != nil {
			violate(r, d, "iter-error", name+": "+err.Error(), nil)
			return
		}
		if it == nil {
			// whole table excluded by the obsolete-key table property
			r.Count("tables_excluded_by_obsolete_property", 1)
			if len(model.Entries) != 0 {
				violate(r, d, "transform-mismatch", fmt.Sprintf("table excluded as fully obsolete but %d entries are visible in the model, first %s", len(model.Entries), model.Entries[0]), nil)
				return
			}
			continue
		}
		got, err := sstmodel.ScanPoints(it, pass != 1)
		cerr := it.Close()
		if err != nil || cerr != nil {
			violate(r, d, "iter-error", fmt.Sprintf("%s: err=%v close=%v", name, err, cerr), nil)
			return
		}
		if diff := sstmodel.DiffEntries(got, model.Entries); diff != "" {
			violate(r, d, "transform-mismatch", name+": "+diff, nil)
			return
		}
	}

	// random ops
	nIters := 1 + rng.IntN(3)
	for j := 0; j < nIters; j++ {
		sp := spec
		sp.Lower, sp.Upper = sstmodel.RandIterBounds(rng, model, vb)
		sp.UseFilter = rng.IntN(3) != 0
		it, err := sstmodel.NewPointIter(rd, sp, largest)
		if err != nil {
			violate(r, d, "iter-error", err.Error(), nil)
			return
		}
		if it == nil {
			continue
		}
		cfg := sstmodel.PointCfg{NOps: 20 + rng.IntN(131), Lower: sp.Lower, Upper: sp.Upper, VB: vb, ExtraKeys: extra, IterKind: "point/" + kind}
		mm := sstmodel.RunPointOps(rng, it, model, cfg, st)
		cerr := it.Close()
		if mm != nil {
			violate(r, d, mm.Class, mm.String(), mm)
			return
		}
		if cerr != nil {
			violate(r, d, "iter-error", "Close: "+cerr.Error(), nil)
			return
		}
		r.Count("point_iters", 1)
	}

	// fragment iterators
	_, ftr := sstmodel.MakeTransforms(tr)
	fenv := sstable.NoReadEnv
	if vb.Set {
		fenv.Virtual = sstmodel.VirtualParams(spec)
	}
	for pass := 0; pass < 2; pass++ {
		var fit keyspan.FragmentIterator
		var want []keyspan.Span
		fk := "rangedel/" + kind
		if pass == 0 {
			fit, err = rd.NewRawRangeDelIter(context.Background(), ftr, fenv)
			want = mDels
		} else {
			fk = "rangekey/" + kind
			fit, err = rd.NewRawRangeKeyIter(context.Background(), ftr, fenv)
			want = mKeys
		}
		if err != nil {
			violate(r, d, "span-iter-error", fk+": "+err.Error(), nil)
			return
		}
		if fit == nil {
			if len(want) != 0 {
				violate(r, d, "span-mismatch", fk+": no iterator but model has spans", nil)
				return
			}
			continue
		}
		mm := sstmodel.RunSpanOps(rng, fit, ks, want, sstmodel.SpanCfg{NOps: 15 + rng.IntN(60), IterKind: fk, ExtraKeys: extra}, st)
		if mm == nil {
			all, err := sstmodel.ReadAllSpans(fit)
			if err != nil {
				mm = &sstmodel.Mismatch{Class: "span-iter-error", Op: "scan", Got: err.Error(), IterKind: fk}
			} else if diff := sstmodel.DiffSpans(ks, all, want); diff != "" {
				mm = &sstmodel.Mismatch{Class: "span-mismatch", Op: "scan", Got: diff, IterKind: fk}
			}
		}
		fit.Close()
		if mm != nil {
			violate(r, d, mm.Class, mm.String(), mm)
			return
		}
		r.Count("span_iters", 1)
		if len(want) > 0 && (vb.Set || len(tr.SyntheticPrefix) > 0 || len(tr.SyntheticSuffix) > 0 || tr.SyntheticSeqNum != 0) {
			r.Count("span_iters_transformed_nonempty", 1)
		}
	}

	if len(t.Points)+len(t.RangeDels)+len(t.RangeKeys) > 0 {
		r.Distinct(kind, t.Opts.Format, t.Opts.KeySpace, t.Opts.BlockSize, t.Opts.IndexBlockSize, len(t.Points), d.VLower, d.VUpper, d.VUpperExc, d.Prefix, d.Hide)
	}
	if r.WantSample() && len(model.Entries) > 3 && vb.Set {
		r.Sample(d)
	}
}

func TestVerifC29(t *testing.T) {
	r := vcommon.NewReport("C29", "main")
	defer r.Finish(t)
	r.Rule("each case = (table, virtual bounds, transform) triple: a random C25 table shaped to satisfy the transform's documented preconditions " +
		"(synthetic suffix: unique prefixes, new suffix sorts before every original one, no range dels, no RangeKeyUnset, no obsolete keys; synthetic seqnum: all-zero seqnums " +
		"or strict-obsolete foreign table; hide-obsolete: format >= Pebblev4), virtual bounds at/between keys and span boundaries with inclusive or exclusive upper bound, " +
		"read through point (incl. compaction) iterators and range-del/range-key iterators with random contract-respecting ops; distinct = (kind, options, bounds, transform), empty tables are trivial")
	r.Assume("virtual tables: a reverse step after SeekGE beyond the virtual upper bound, and a forward step after SeekLT below the virtual lower bound, are not issued (callers only seek inside the file bounds)")
	r.Assume("hide-obsolete model = the writer's documented obsolete rule (format.go, evaluatePoint C1-C3 + forceObsolete)")
	r.Assume("a point iterator with the obsolete-key block property filter and a synthetic suffix is never opened on a table without point keys (levelIter skips files with !HasPointKeys); there IntersectsTable fails the assertion 'block with synthetic suffix is obsolete'")
	n := vcommon.Scale(300, 40000)
	r.Cases(n, func(i int, rng *rand.Rand) {
		if msg, stack := sstmodel.Guard(func() { runTransformCase(r, i, rng) }); msg != "" {
			r.Violate("panic", "panic: "+msg, map[string]any{"case": i, "panic": msg, "stack": stack, "desc": lastDesc,
				"replay_hint": fmt.Sprintf("VERIF_SEED=%d VERIF_ONLY_CASE=%d", vcommon.Seed(), i)}, panicMatch(msg))
			// A recovered panic leaks open iterators; in invariants builds their pool
			// finalizers exit the process at the next GC. Persist the report now.
			r.Finish(t)
		}
	})
}

// ---- CopySpan ----

func findEntry(all []sstmodel.Entry, e sstmodel.Entry) int {
	for i := range all {
		if all[i].Trailer == e.Trailer && bytes.Equal(all[i].UserKey, e.UserKey) {
			return i
		}
	}
	return -1
}

func runCopyCase(r *vcommon.Report, i int, rng *rand.Rand) {
	ks := sstmodel.TestKeys
	if rng.IntN(10) < 3 {
		ks = sstmodel.Crdb
	}
	sh := sstmodel.Shape{MaxEntries: 1500, NoRangeDels: true, NoRangeKeys: true, NoValueBlocks: true}
	fallback := rng.IntN(6) == 0
	if fallback {
		sh = sstmodel.Shape{MaxEntries: 600} // value blocks / spans possible: whole-file copy
	}
	if rng.IntN(2) == 0 {
		sh.MinFormat = sstable.TableFormatPebblev5
	}
	t := sstmodel.GenTable(rng, ks, sh)
	// small blocks so that spans fall at block boundaries and inside blocks
	if !fallback && rng.IntN(3) != 0 {
		t.WOpts.BlockSize = []int{1, 16, 32, 64, 128, 256}[rng.IntN(6)]
		t.Opts.BlockSize = t.WOpts.BlockSize
	}
	d := &caseDesc{Case: i, Kind: "copyspan", Options: t.Opts, Points: len(t.Points), RangeDels: len(t.RangeDels), RangeKeys: len(t.RangeKeys),
		Hint: fmt.Sprintf("VERIF_SEED=%d VERIF_ONLY_CASE=%d", vcommon.Seed(), i)}
	lastDesc = d
	r.Eval(1)
	if err := sstmodel.Build(t); err != nil {
		violate(r, d, "write-error", err.Error(), nil)
		return
	}
	env := sstmodel.NewReaderEnv(4 << 20) // CopySpan consults the block cache
	defer env.Close()
	rd, err := env.Open(ks, t.Data, true)
	if err != nil {
		violate(r, d, "open-error", err.Error(), nil)
		return
	}
	defer rd.Close()
	in := sstmodel.NewPointModel(t, sstmodel.Transform{}, sstmodel.VBounds{})

	// Warm part of the cache so that both the cached-block and the raw-copy
	// paths run.
	if rng.IntN(2) == 0 && len(in.Entries) > 0 {
		it, err := sstmodel.NewPointIter(rd, sstmodel.IterSpec{}, 0)
		if err == nil {
			kv := it.SeekGE(in.Entries[rng.IntN(len(in.Entries))].UserKey, base.SeekGEFlagsNone)
			for n := rng.IntN(200); kv != nil && n > 0; n-- {
				kv = it.Next()
			}
			it.Close()
			r.Count("copies_with_warm_cache", 1)
		}
	}

	// span
	pickKey := func() []byte {
		if len(in.Entries) == 0 {
			return ks.Key([]byte{byte('a' + rng.IntN(26))}, 0)
		}
		k := in.Entries[rng.IntN(len(in.Entries))].UserKey
		switch rng.IntN(5) {
		case 0:
			return slices.Clone(ks.PrefixOf(k))
		case 1:
			return ks.Succ(ks.PrefixOf(k))
		case 2:
			return append(slices.Clone(ks.PrefixOf(k)), ks.Suffix(1+rng.Uint64N(30))...)
		}
		return slices.Clone(k)
	}
	a, b := pickKey(), pickKey()
	switch rng.IntN(10) {
	case 0:
		if len(in.Entries) > 0 { // whole table
			a = slices.Clone(in.Entries[0].UserKey)
			b = ks.Succ(ks.PrefixOf(in.Entries[len(in.Entries)-1].UserKey))
		}
	case 1:
		if len(in.Entries) > 0 { // start beyond every key: ErrEmptySpan territory
			a = ks.Succ(ks.PrefixOf(in.Entries[len(in.Entries)-1].UserKey))
			b = append(slices.Clone(a), 'z')
			if ks == sstmodel.Crdb {
				b = ks.Succ(a)
			}
		}
	}
	if c := ks.Cmp(a, b); c > 0 {
		a, b = b, a
	} else if c == 0 {
		b = ks.Succ(ks.PrefixOf(b))
		if ks.Cmp(a, b) >= 0 {
			return
		}
	}
	d.VLower, d.VUpper, d.VUpperExc = fmt.Sprintf("%q", a), fmt.Sprintf("%q", b), true
	start := base.MakeInternalKey(a, base.SeqNumMax, base.InternalKeyKindMaxForSSTable)
	end := base.MakeRangeDeleteSentinelKey(b)

	var want []sstmodel.Entry
	for _, e := range in.Entries {
		if ks.Cmp(e.UserKey, a) >= 0 && ks.Cmp(e.UserKey, b) < 0 {
			want = append(want, e)
		}
	}
	d.Visible = len(want)

	out := &objstorage.MemObj{}
	// The caller's WriterOptions normally come from the same DB options that
	// wrote the input (same checksum type). CopySpan takes arbitrary
	// WriterOptions though, and it forces only the table format to the
	// input's; a quarter of the cases therefore leave Checksum at its default.
	wo := sstable.WriterOptions{Comparer: ks.Comparer, KeySchema: t.WOpts.KeySchema, TableFormat: t.WOpts.TableFormat,
		BlockSize: []int{0, 32, 4096}[rng.IntN(3)], Compression: t.WOpts.Compression, Checksum: t.WOpts.Checksum}
	if rng.IntN(4) == 0 {
		wo.Checksum = block.ChecksumTypeNone // = default (crc32c)
	}
	inSum, outSum := t.Opts.Checksum, wo.Checksum.String()
	if inSum == "none" {
		inSum = "crc32c"
	}
	if outSum == "none" {
		outSum = "crc32c"
	}
	checksumDiffers := inSum != outSum
	if checksumDiffers {
		r.Count("copies_with_other_checksum_type_in_writer_options", 1)
	}
	size, err := sstable.CopySpan(context.Background(), sstmodel.NewReadable(t.Data), rd, rng.IntN(7), out, wo, start, end)
	r.SetAdd("formats", t.Opts.Format)
	r.SetAdd("keyspace", t.Opts.KeySpace)
	if errors.Is(err, sstable.ErrEmptySpan) {
		r.Count("copy_empty_span_errors", 1)
		if len(want) > 0 {
			violate(r, d, "copyspan-missing", fmt.Sprintf("ErrEmptySpan although %d input entries lie in [%q,%q), first %s", len(want), a, b, want[0]), nil)
		}
		return
	}
	if err != nil {
		violate(r, d, "copyspan-error", err.Error(), nil)
		return
	}
	data := slices.Clone(out.Data())
	if uint64(len(data)) != size {
		violate(r, d, "copyspan-size", fmt.Sprintf("CopySpan reported %d bytes, object has %d", size, len(data)), nil)
		return
	}
	unsupported := sstable.AttributeValueBlocks | sstable.AttributeRangeKeySets | sstable.AttributeRangeKeyUnsets | sstable.AttributeRangeKeyDels | sstable.AttributeRangeDels
	if rd.Attributes.Intersects(unsupported) {
		r.Count("copies_whole_file_fallback", 1)
		if !bytes.Equal(data, t.Data) {
			violate(r, d, "copyspan-foreign", "whole-file fallback copy differs from the input bytes", nil)
		}
		if len(t.Points) > 0 {
			r.Distinct("fallback", t.Opts.Format, len(t.Points))
		}
		return
	}
	r.Count("copies_block_level", 1)
	rd2, err := env.Open(ks, data, true)
	if err != nil {
		violate(r, d, "copyspan-unreadable", "output does not open: "+err.Error(), nil)
		return
	}
	defer rd2.Close()
	it, err := sstmodel.NewPointIter(rd2, sstmodel.IterSpec{UseFilter: true}, 0)
	if err != nil {
		violate(r, d, "copyspan-unreadable", err.Error(), nil)
		return
	}
	got, err := sstmodel.ScanPoints(it, true)
	cerr := it.Close()
	if err != nil || cerr != nil {
		if checksumDiffers && !rd.Attributes.Intersects(unsupported) {
			// Separate class: the input's raw blocks (with trailers of the
			// input's checksum type) were copied into a file whose footer
			// records WriterOptions.Checksum.
			r.Violate("copyspan-checksum-type", fmt.Sprintf("CopySpan of a %s table with WriterOptions.Checksum=%s returned nil but the output cannot be read: %v", inSum, outSum, err),
				map[string]any{"desc": d, "input_checksum": inSum, "writer_checksum": outSum, "error": fmt.Sprint(err)},
				map[string]any{"input_checksum": inSum, "writer_checksum": outSum})
			return
		}
		violate(r, d, "copyspan-unreadable", fmt.Sprintf("scan of output: err=%v close=%v", err, cerr), nil)
		return
	}
	// only input entries, as one contiguous run
	if len(got) > 0 {
		at := findEntry(in.Entries, got[0])
		if at < 0 {
			violate(r, d, "copyspan-foreign", fmt.Sprintf("output entry %s is not an input entry", got[0]), nil)
			return
		}
		if at+len(got) > len(in.Entries) {
			violate(r, d, "copyspan-foreign", fmt.Sprintf("output has %d entries from input index %d, input has %d", len(got), at, len(in.Entries)), nil)
			return
		}
		if diff := sstmodel.DiffEntries(got, in.Entries[at:at+len(got)]); diff != "" {
			violate(r, d, "copyspan-foreign", "output is not a contiguous run of input entries: "+diff, nil)
			return
		}
	}
	// every input entry of the span
	if len(want) > 0 {
		at := findEntry(got, want[0])
		if at < 0 || at+len(want) > len(got) {
			violate(r, d, "copyspan-missing", fmt.Sprintf("input entry %s of span [%q,%q) is missing from the output (%d output entries)", want[0], a, b, len(got)), nil)
			return
		}
		if diff := sstmodel.DiffEntries(got[at:at+len(want)], want); diff != "" {
			violate(r, d, "copyspan-missing", "span entries differ in output: "+diff, nil)
			return
		}
	}
	r.Count("copy_extra_adjacent_entries", int64(len(got)-len(want)))
	r.Count("copy_span_entries", int64(len(want)))
	if len(got) < len(in.Entries) {
		r.Count("copies_strict_subset", 1)
	}
	// the output is a table in its own right: random ops (filters included)
	om := &sstmodel.PointModel{KS: ks, Entries: got}
	st := sstmodel.NewStats()
	it2, err := sstmodel.NewPointIter(rd2, sstmodel.IterSpec{UseFilter: true}, 0)
	if err == nil {
		mm := sstmodel.RunPointOps(rng, it2, om, sstmodel.PointCfg{NOps: 60 + rng.IntN(100), IterKind: "point/copyspan-output"}, st)
		it2.Close()
		if mm != nil {
			violate(r, d, "copyspan-output-"+mm.Class, mm.String(), mm)
			return
		}
	}
	addStats(r, st)
	if len(in.Entries) > 1 {
		r.Distinct("copy", t.Opts.Format, t.Opts.KeySpace, t.Opts.BlockSize, len(t.Points), d.VLower, d.VUpper)
	}
	if r.WantSample() && len(want) > 2 && len(got) < len(in.Entries) {
		r.Sample(map[string]any{"desc": d, "input_entries": len(in.Entries), "span_entries": len(want), "output_entries": len(got), "output_bytes": len(data)})
	}
}

func TestVerifC29Copy(t *testing.T) {
	r := vcommon.NewReport("C29", "copy")
	defer r.Finish(t)
	r.Rule("each case = one random table (row and columnar formats, single/two-level index, small blocks) and a span [start,end) at/between keys, at block boundaries and inside blocks, " +
		"including whole-table and beyond-the-end spans, with a partially warm block cache; CopySpan output is scanned and must contain every span entry and be a contiguous run of input entries; " +
		"tables with value blocks / range keys / range dels must be copied byte-for-byte; distinct = (format, options, span), tables with < 2 entries are trivial")
	n := vcommon.Scale(200, 16000)
	r.Cases(n, func(i int, rng *rand.Rand) {
		if msg, stack := sstmodel.Guard(func() { runCopyCase(r, i, rng) }); msg != "" {
			r.Violate("panic", "panic: "+msg, map[string]any{"case": i, "panic": msg, "stack": stack, "desc": lastDesc,
				"replay_hint": fmt.Sprintf("VERIF_SEED=%d VERIF_ONLY_CASE=%d", vcommon.Seed(), i)}, panicMatch(msg))
			// A recovered panic leaks open iterators; in invariants builds their pool
			// finalizers exit the process at the next GC. Persist the report now.
			r.Finish(t)
		}
	})
}
