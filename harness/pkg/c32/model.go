// Package c32 holds the runtime monitor for property C32: fragmenting,
// truncating, merging across levels and defragmenting spans preserves, at
// every user key, exactly the multiset of keys of the spans covering it.
//
// model.go is the reference side. The central notion is the coverage
// function: coverage(spans, k) = multiset of (seqnum, kind, suffix, value) of
// every span of the set that contains user key k. All span bounds come from a
// small alphabet of boundary keys; coverage is evaluated at every boundary key
// and at a probe key strictly between each pair of adjacent boundary keys,
// which is complete because coverage is piecewise constant between bounds.
// Nothing in this file calls pebble's keyspan code.
package c32

import (
	"fmt"
	"sort"
	"strings"

	"github.com/cockroachdb/pebble/internal/base"
)

const (
	kRangeD  = base.InternalKeyKindRangeDelete
	kRKSet   = base.InternalKeyKindRangeKeySet
	kRKUnset = base.InternalKeyKindRangeKeyUnset
	kRKDel   = base.InternalKeyKindRangeKeyDelete
)

type skey struct {
	Seq  uint64
	Kind base.InternalKeyKind
	Suf  string
	Val  string
}

func (k skey) trailer() uint64 { return k.Seq<<8 | uint64(k.Kind) }
func (k skey) id() string      { return fmt.Sprintf("#%d,%s(%s=%s)", k.Seq, k.Kind, k.Suf, k.Val) }

// span is [S,E). Keys sorted by (trailer desc, suffix, value).
type span struct {
	S, E string
	Keys []skey
}

func (s span) contains(k string) bool { return s.S <= k && k < s.E }

func (s span) String() string {
	var b strings.Builder
	fmt.Fprintf(&b, "[%s,%s):{", s.S, s.E)
	for i, k := range s.Keys {
		if i > 0 {
			b.WriteByte(' ')
		}
		b.WriteString(k.id())
	}
	b.WriteByte('}')
	return b.String()
}

func dumpSpans(ss []span) []string {
	out := make([]string, 0, len(ss))
	for _, s := range ss {
		out = append(out, s.String())
	}
	return out
}

func sortKeys(k []skey) {
	sort.SliceStable(k, func(i, j int) bool {
		if a, b := k[i].trailer(), k[j].trailer(); a != b {
			return a > b
		}
		if k[i].Suf != k[j].Suf {
			return k[i].Suf < k[j].Suf
		}
		return k[i].Val < k[j].Val
	})
}

func idsOf(keys []skey) []string {
	out := make([]string, 0, len(keys))
	for _, k := range keys {
		out = append(out, k.id())
	}
	sort.Strings(out)
	return out
}

// coverage is the multiset (sorted ids) of the keys of every span containing k.
func coverage(spans []span, k string) []string {
	var out []string
	for i := range spans {
		if spans[i].contains(k) {
			for _, key := range spans[i].Keys {
				out = append(out, key.id())
			}
		}
	}
	sort.Strings(out)
	return out
}

// coverageKeys is coverage returning the keys themselves, sorted.
func coverageKeys(spans []span, k string) []skey {
	n := 0
	for i := range spans {
		if spans[i].contains(k) {
			n += len(spans[i].Keys)
		}
	}
	if n == 0 {
		return nil
	}
	out := make([]skey, 0, n)
	for i := range spans {
		if spans[i].contains(k) {
			out = append(out, spans[i].Keys...)
		}
	}
	sortKeys(out)
	return out
}

func covered(spans []span, k string) bool {
	for i := range spans {
		if spans[i].contains(k) {
			return true
		}
	}
	return false
}

func eqStrings(a, b []string) bool {
	if len(a) != len(b) {
		return false
	}
	for i := range a {
		if a[i] != b[i] {
			return false
		}
	}
	return true
}

func eqKeys(a, b []skey) bool {
	if len(a) != len(b) {
		return false
	}
	for i := range a {
		if a[i] != b[i] {
			return false
		}
	}
	return true
}

// boundsOf returns the sorted distinct bounds of the spans plus extra.
func boundsOf(spans []span, extra []string) []string {
	bm := map[string]bool{}
	for _, s := range spans {
		bm[s.S] = true
		bm[s.E] = true
	}
	for _, e := range extra {
		bm[e] = true
	}
	bs := make([]string, 0, len(bm))
	for b := range bm {
		bs = append(bs, b)
	}
	sort.Strings(bs)
	return bs
}

// modelFragment is the reference fragmentation: split at every bound (and
// extra point); the keys of a fragment are the coverage at its start key; gaps
// produce nothing.
func modelFragment(raw []span, extra []string) []span {
	bs := boundsOf(raw, extra)
	var out []span
	for i := 0; i+1 < len(bs); i++ {
		if !covered(raw, bs[i]) {
			continue
		}
		out = append(out, span{S: bs[i], E: bs[i+1], Keys: coverageKeys(raw, bs[i])})
	}
	return out
}

// clip intersects every span with [lo,hi).
func clip(f []span, lo, hi string) []span {
	var out []span
	for _, s := range f {
		c := s
		if c.S < lo {
			c.S = lo
		}
		if c.E > hi {
			c.E = hi
		}
		if c.S < c.E {
			out = append(out, c)
		}
	}
	return out
}

// transform models a keyspan.Transformer that only filters keys.
type transform struct {
	Kind     string // "noop", "visible", "dropkind"
	Snapshot uint64
	Drop     base.InternalKeyKind
}

func (t transform) keep(k skey) bool {
	switch t.Kind {
	case "visible":
		return k.Seq < t.Snapshot
	case "dropkind":
		return k.Kind != t.Drop
	}
	return true
}

func (t transform) String() string {
	switch t.Kind {
	case "visible":
		return fmt.Sprintf("visible(<%d)", t.Snapshot)
	case "dropkind":
		return "drop(" + t.Drop.String() + ")"
	}
	return "noop"
}

// modelMerge is what a merging iterator over the levels must surface: one span
// per pair of adjacent bounds (of any level) that at least one level's span
// covers, carrying the transformed coverage of the union of the levels.
func modelMerge(levels [][]span, t transform) []span {
	var all []span
	for _, l := range levels {
		all = append(all, l...)
	}
	bs := boundsOf(all, nil)
	var out []span
	for i := 0; i+1 < len(bs); i++ {
		if !covered(all, bs[i]) {
			continue
		}
		var keys []skey
		for _, k := range coverageKeys(all, bs[i]) {
			if t.keep(k) {
				keys = append(keys, k)
			}
		}
		out = append(out, span{S: bs[i], E: bs[i+1], Keys: keys})
	}
	return out
}

// modelDefragment merges maximal runs of abutting, non-empty spans. In
// "internal" mode two spans join only if their key lists are identical (the
// result keeps that list); in "always" mode any two abutting non-empty spans
// join and the result carries the union of the keys.
func modelDefragment(g []span, mode string) []span {
	var out []span
	for _, s := range g {
		if n := len(out); n > 0 && len(s.Keys) > 0 && len(out[n-1].Keys) > 0 && out[n-1].E == s.S {
			if mode == "always" {
				out[n-1].E = s.E
				out[n-1].Keys = append(append([]skey(nil), out[n-1].Keys...), s.Keys...)
				continue
			}
			// internal: compare with the keys of the run's first fragment
			if eqKeys(out[n-1].Keys, s.Keys) {
				out[n-1].E = s.E
				continue
			}
		}
		out = append(out, span{S: s.S, E: s.E, Keys: append([]skey(nil), s.Keys...)})
	}
	for i := range out {
		sortKeys(out[i].Keys)
	}
	return out
}

// ---- cursor model of a FragmentIterator over a fixed list of spans ---------

type opKind int

const (
	opFirst opKind = iota
	opLast
	opNext
	opPrev
	opSeekGE
	opSeekLT
)

type op struct {
	K   opKind
	Key string
}

func (o op) String() string {
	switch o.K {
	case opFirst:
		return "First"
	case opLast:
		return "Last"
	case opNext:
		return "Next"
	case opPrev:
		return "Prev"
	case opSeekGE:
		return "SeekGE(" + o.Key + ")"
	}
	return "SeekLT(" + o.Key + ")"
}

// cursor is the documented FragmentIterator behaviour over list e: a position
// in [-1, len(e)]; -1 = exhausted backward, len(e) = exhausted forward.
type cursor struct {
	e     []span
	pos   int
	fresh bool
}

// allowed follows the interface contract: the first op must be absolute; Next
// must not follow a forward op that returned nothing, Prev not a backward one.
func (c *cursor) allowed(o op) bool {
	switch o.K {
	case opNext:
		return !c.fresh && c.pos < len(c.e)
	case opPrev:
		return !c.fresh && c.pos > -1
	}
	return true
}

func (c *cursor) apply(o op) *span {
	c.fresh = false
	n := len(c.e)
	switch o.K {
	case opFirst:
		c.pos = 0
	case opLast:
		c.pos = n - 1
	case opNext:
		c.pos++
	case opPrev:
		c.pos--
	case opSeekGE:
		c.pos = n
		for i := range c.e {
			if c.e[i].E > o.Key {
				c.pos = i
				break
			}
		}
	case opSeekLT:
		c.pos = -1
		for i := n - 1; i >= 0; i-- {
			if c.e[i].S < o.Key {
				c.pos = i
				break
			}
		}
	}
	if c.pos >= 0 && c.pos < n {
		return &c.e[c.pos]
	}
	return nil
}
