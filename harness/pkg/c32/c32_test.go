// C32: span fragmentation preserves coverage exactly.
//
// Each case generates a set of overlapping spans and drives, with the real
// code, (1) keyspan.Fragmenter (with optional Truncate calls), (2)
// keyspan.Truncate over the fragments, (3) keyspanimpl.MergingIter over 1-5
// levels with and without a filtering Transformer, (4) keyspan.
// DefragmentingIter in both equality modes and (5) the compaction stack
// Defragment(Merge(levels)). The oracle is the coverage function of model.go:
// at every boundary key and between every pair of adjacent boundary keys the
// multiset of keys must be exactly that of the input spans covering the point;
// iterators are compared op by op (all positioning ops, both directions,
// direction switches) against a cursor over the list the coverage function
// dictates.
package c32

import (
	"fmt"
	"math/rand/v2"
	"runtime/debug"
	"sort"
	"testing"

	"github.com/cockroachdb/pebble/internal/base"
	"github.com/cockroachdb/pebble/internal/keyspan"
	"github.com/cockroachdb/pebble/internal/keyspan/keyspanimpl"
	"github.com/cockroachdb/pebble/internal/testkeys"
	"github.com/cockroachdb/pebble/internal/verif/vcommon"
)

var comparer = testkeys.Comparer

// The monitor allocates many short-lived small objects; a laxer GC target
// keeps the collector from dominating the run on a shared machine.
func init() { debug.SetGCPercent(400) }

var letters = []string{"a", "b", "c", "d", "e", "f", "g", "h"}

// probesFor: every boundary letter, a key between it and the next letter, and
// one key below / above everything.
func probesFor(ls []string) []string {
	ps := []string{"A"}
	for _, l := range ls {
		ps = append(ps, l, l+"0")
	}
	return append(ps, "z")
}

func toKey(k skey) keyspan.Key {
	key := keyspan.Key{Trailer: base.MakeTrailer(base.SeqNum(k.Seq), k.Kind)}
	if k.Kind == kRKSet || k.Kind == kRKUnset {
		key.Suffix = []byte(k.Suf)
	}
	if k.Kind == kRKSet {
		key.Value = []byte(k.Val)
	}
	return key
}

func toSpan(s span) keyspan.Span {
	ks := keyspan.Span{Start: []byte(s.S), End: []byte(s.E)}
	if len(s.Keys) > 0 {
		ks.Keys = make([]keyspan.Key, 0, len(s.Keys))
	}
	for _, k := range s.Keys {
		ks.Keys = append(ks.Keys, toKey(k))
	}
	return ks
}

func toSpans(in []span) []keyspan.Span {
	out := make([]keyspan.Span, 0, len(in))
	for _, s := range in {
		out = append(out, toSpan(s))
	}
	return out
}

func fromSpan(s *keyspan.Span) span {
	o := span{S: string(s.Start), E: string(s.End)}
	if len(s.Keys) > 0 {
		o.Keys = make([]skey, 0, len(s.Keys))
	}
	for _, k := range s.Keys {
		o.Keys = append(o.Keys, skey{Seq: uint64(k.SeqNum()), Kind: k.Kind(), Suf: string(k.Suffix), Val: string(k.Value)})
	}
	return o
}

func trailerDesc(s span) bool {
	for i := 1; i < len(s.Keys); i++ {
		if s.Keys[i-1].trailer() < s.Keys[i].trailer() {
			return false
		}
	}
	return true
}

type monitor struct {
	r *vcommon.Report
}

func (m *monitor) violate(class, detail string, replay map[string]any) {
	m.r.Violate(class, detail, replay, map[string]any{"class": class})
}

// ---- (1) Fragmenter ---------------------------------------------------------

// runFragmenter feeds spans (already in start-key order) with the given
// truncate calls. Returns the emitted fragments.
func runFragmenter(sorted []span, truncBefore map[int]string) (out []span, panicked string) {
	defer func() {
		if p := recover(); p != nil {
			panicked = fmt.Sprint(p)
		}
	}()
	f := keyspan.Fragmenter{
		Cmp:    comparer.Compare,
		Format: comparer.FormatKey,
		Emit:   func(s keyspan.Span) { out = append(out, fromSpan(&s)) },
	}
	for i, s := range sorted {
		if t, ok := truncBefore[i]; ok {
			f.Truncate([]byte(t))
		}
		f.Add(toSpan(s))
	}
	if t, ok := truncBefore[len(sorted)]; ok {
		f.Truncate([]byte(t))
	}
	f.Finish()
	return out, ""
}

func (m *monitor) checkFragmenter(sorted []span, truncBefore map[int]string, probes []string) bool {
	frags, p := runFragmenter(sorted, truncBefore)
	mkrep := func() map[string]any {
		return map[string]any{"op": "Fragmenter", "input_in_add_order": dumpSpans(sorted), "truncate_before_add": truncBefore, "fragments": dumpSpans(frags)}
	}
	m.r.Count("fragmenter_runs", 1)
	m.r.Count("fragments_emitted", int64(len(frags)))
	if p != "" {
		rep := mkrep()
		rep["panic"] = p
		m.violate("panic", "keyspan.Fragmenter panicked on spans added in start-key order: "+p, rep)
		return false
	}
	ok := true
	for i, f := range frags {
		if !(f.S < f.E) {
			m.violate("fragment-malformed", fmt.Sprintf("fragment %s has start >= end", f), mkrep())
			ok = false
		}
		if len(f.Keys) == 0 {
			m.violate("fragment-malformed", fmt.Sprintf("fragment %s has no keys", f), mkrep())
			ok = false
		}
		if !trailerDesc(f) {
			m.violate("fragment-keys-unsorted", fmt.Sprintf("fragment %s keys not in trailer-descending order", f), mkrep())
			ok = false
		}
		if i > 0 && frags[i-1].E > f.S {
			m.violate("fragments-overlap", fmt.Sprintf("fragments unsorted or overlapping: %s then %s", frags[i-1], f), mkrep())
			ok = false
		}
	}
	for _, k := range probes {
		m.r.Count("coverage_points_compared", 1)
		if !eqKeys(coverageKeys(sorted, k), coverageKeys(frags, k)) {
			want, got := coverage(sorted, k), coverage(frags, k)
			rep := mkrep()
			rep["key"], rep["want"], rep["got"] = k, want, got
			m.violate("fragmenter-coverage", fmt.Sprintf("at user key %q the fragments carry %v, the input spans covering it carry %v", k, got, want), rep)
			return false
		}
	}
	return ok
}

// ---- generic op-by-op iterator check -----------------------------------------

type iterCheck struct {
	class   string
	what    string
	ordered bool // keys must come back trailer-descending
	ctx     func() map[string]any
}

// sameSpan compares bounds and the multiset of keys; ordered additionally
// requires the keys to come back in trailer-descending order.
func sameSpan(got *keyspan.Span, g *span, want *span, ordered bool) bool {
	if (got == nil) != (want == nil) {
		return false
	}
	if got == nil {
		return true
	}
	if g.S != want.S || g.E != want.E || len(g.Keys) != len(want.Keys) {
		return false
	}
	if ordered && (!trailerDesc(*g) || got.KeysOrder != keyspan.ByTrailerDesc) {
		return false
	}
	gk := append([]skey(nil), g.Keys...)
	sortKeys(gk)
	return eqKeys(gk, want.Keys)
}

func doOp(it keyspan.FragmentIterator, o op) (*keyspan.Span, error) {
	switch o.K {
	case opFirst:
		return it.First()
	case opLast:
		return it.Last()
	case opNext:
		return it.Next()
	case opPrev:
		return it.Prev()
	case opSeekGE:
		return it.SeekGE([]byte(o.Key))
	}
	return it.SeekLT([]byte(o.Key))
}

type histEnt struct {
	o   op
	nil bool
	g   span
}

func fmtHist(h []histEnt) []string {
	out := make([]string, 0, len(h))
	for _, e := range h {
		if e.nil {
			out = append(out, e.o.String()+" -> <nil>")
		} else {
			out = append(out, e.o.String()+" -> "+e.g.String())
		}
	}
	return out
}

// runOps applies ops (skipping ops the interface contract forbids at that
// point) and compares every result with the cursor model over expected
// (whose keys are sorted by sortKeys).
func (m *monitor) runOps(it keyspan.FragmentIterator, expected []span, ops []op, ic iterCheck) (ok bool) {
	cur := cursor{e: expected, fresh: true}
	hist := make([]histEnt, 0, len(ops))
	rep := func() map[string]any {
		r := map[string]any{"op": ic.what, "expected_spans": dumpSpans(expected), "history": fmtHist(hist)}
		if ic.ctx != nil {
			for k, v := range ic.ctx() {
				r[k] = v
			}
		}
		return r
	}
	defer func() {
		if p := recover(); p != nil {
			r := rep()
			r["panic"] = fmt.Sprint(p)
			m.violate("panic", fmt.Sprintf("%s panicked: %v", ic.what, p), r)
			ok = false
		}
	}()
	n := int64(0)
	defer func() { m.r.Count("iterator_ops_compared", n) }()
	for _, o := range ops {
		if !cur.allowed(o) {
			continue
		}
		want := cur.apply(o)
		got, err := doOp(it, o)
		n++
		he := histEnt{o: o, nil: got == nil}
		if got != nil {
			he.g = fromSpan(got)
		}
		hist = append(hist, he)
		if err != nil {
			r := rep()
			r["error"] = err.Error()
			m.violate("unexpected-error", fmt.Sprintf("%s: %s returned error %v", ic.what, o, err), r)
			return false
		}
		if !sameSpan(got, &he.g, want, ic.ordered) {
			ws, gs := "<nil>", "<nil>"
			if want != nil {
				ws = want.String()
			}
			if got != nil {
				gs = he.g.String()
			}
			r := rep()
			r["failed_op"], r["want"], r["got"] = o.String(), ws, gs
			m.violate(ic.class, fmt.Sprintf("%s: %s returned %s, the coverage function dictates %s", ic.what, o, gs, ws), r)
			return false
		}
	}
	return true
}

func genOps(rng *rand.Rand, n int, probes []string) []op {
	ops := make([]op, 0, n)
	for i := 0; i < n; i++ {
		x := rng.IntN(100)
		switch {
		case i == 0 && x < 50:
			ops = append(ops, op{K: pick(rng, opFirst, opLast)})
		case i == 0:
			ops = append(ops, op{K: pick(rng, opSeekGE, opSeekLT), Key: pick(rng, probes...)})
		case x < 35:
			ops = append(ops, op{K: opNext})
		case x < 70:
			ops = append(ops, op{K: opPrev})
		case x < 76:
			ops = append(ops, op{K: opFirst})
		case x < 82:
			ops = append(ops, op{K: opLast})
		case x < 91:
			ops = append(ops, op{K: opSeekGE, Key: pick(rng, probes...)})
		default:
			ops = append(ops, op{K: opSeekLT, Key: pick(rng, probes...)})
		}
	}
	return ops
}

func pick[T any](rng *rand.Rand, xs ...T) T { return xs[rng.IntN(len(xs))] }

func newChild(frags []span, invalidating bool) keyspan.FragmentIterator {
	var it keyspan.FragmentIterator = keyspan.NewIter(comparer.Compare, toSpans(frags))
	if invalidating {
		it = keyspan.NewInvalidatingIter(it)
	}
	return it
}

// ---- (2) Truncate -------------------------------------------------------------

func (m *monitor) checkTruncate(frags []span, lo, hi string, incl bool, ops []op, invalidating bool) bool {
	bounds := base.UserKeyBoundsEndExclusiveIf([]byte(lo), []byte(hi), !incl)
	it := keyspan.Truncate(comparer.Compare, newChild(frags, invalidating), bounds)
	defer it.Close()
	m.r.Count("truncate_iterators", 1)
	return m.runOps(it, clip(frags, lo, hi), ops, iterCheck{
		class: "truncate-coverage", what: "keyspan.Truncate", ordered: true,
		ctx: func() map[string]any { return map[string]any{"fragments": dumpSpans(frags), "bounds": bounds.String()} },
	})
}

// ---- (3) MergingIter ------------------------------------------------------------

func toTransformer(t transform) keyspan.Transformer {
	switch t.Kind {
	case "visible":
		return keyspan.VisibleTransform(base.SeqNum(t.Snapshot))
	case "dropkind":
		return keyspan.TransformerFunc(func(_ base.CompareRangeSuffixes, s keyspan.Span, dst *keyspan.Span) error {
			dst.Start, dst.End = s.Start, s.End
			keys := dst.Keys[:0]
			for _, k := range s.Keys {
				if k.Kind() != t.Drop {
					keys = append(keys, k)
				}
			}
			dst.Keys = keys
			return nil
		})
	}
	return keyspan.NoopTransform
}

func newMerging(levels [][]span, t transform, invalidating bool, addLevel int) *keyspanimpl.MergingIter {
	var iters []keyspan.FragmentIterator
	for _, l := range levels {
		iters = append(iters, newChild(l, invalidating))
	}
	mi := &keyspanimpl.MergingIter{}
	if addLevel > 0 && addLevel < len(iters) {
		mi.Init(comparer, toTransformer(t), new(keyspanimpl.MergingBuffers), iters[:addLevel]...)
		for _, it := range iters[addLevel:] {
			mi.AddLevel(it)
		}
	} else {
		mi.Init(comparer, toTransformer(t), new(keyspanimpl.MergingBuffers), iters...)
	}
	return mi
}

func dumpLevels(levels [][]span) [][]string {
	var out [][]string
	for _, l := range levels {
		out = append(out, dumpSpans(l))
	}
	return out
}

func (m *monitor) checkMerging(levels [][]span, t transform, ops []op, invalidating bool, addLevel int) bool {
	mi := newMerging(levels, t, invalidating, addLevel)
	defer mi.Close()
	m.r.Count("merging_iterators", 1)
	return m.runOps(mi, modelMerge(levels, t), ops, iterCheck{
		class: "merging-coverage", what: "keyspanimpl.MergingIter", ordered: true,
		ctx: func() map[string]any { return map[string]any{"levels": dumpLevels(levels), "transform": t.String()} },
	})
}

// ---- (4) DefragmentingIter -------------------------------------------------------

var alwaysEqual = keyspan.DefragmentMethodFunc(func(_ base.CompareRangeSuffixes, _, _ *keyspan.Span) bool { return true })

// unionReducer keeps every key of every constituent fragment. The keys of next
// alias the child iterator's memory, which is only valid until its next
// positioning call, so they are cloned.
func unionReducer(cur, next []keyspan.Key) []keyspan.Key {
	for _, k := range next {
		cur = append(cur, k.Clone())
	}
	keyspan.SortKeysByTrailer(cur)
	return cur
}

func newDefrag(child keyspan.FragmentIterator, mode string) *keyspan.DefragmentingIter {
	di := &keyspan.DefragmentingIter{}
	if mode == "always" {
		di.Init(comparer, child, alwaysEqual, unionReducer, new(keyspan.DefragmentingBuffers))
	} else {
		di.Init(comparer, child, keyspan.DefragmentInternal, keyspan.StaticDefragmentReducer, new(keyspan.DefragmentingBuffers))
	}
	return di
}

func (m *monitor) checkDefrag(g []span, mode string, ops []op, invalidating bool) bool {
	di := newDefrag(newChild(g, invalidating), mode)
	defer di.Close()
	m.r.Count("defragmenting_iterators", 1)
	exp := modelDefragment(g, mode)
	if len(exp) < len(g) {
		m.r.Count("defragment_inputs_with_joinable_fragments", 1)
	}
	return m.runOps(di, exp, ops, iterCheck{
		class: "defragment-coverage", what: "keyspan.DefragmentingIter(" + mode + ")", ordered: true,
		ctx: func() map[string]any { return map[string]any{"fragments": dumpSpans(g), "mode": mode} },
	})
}

// ---- (5) Defragment(Merge(levels)), the compaction's range-key stack -----------------

func (m *monitor) checkStack(levels [][]span, t transform, ops []op, invalidating bool) bool {
	// DefragmentInternal compares key lists position by position and the
	// merging iterator does not define the order of keys with equal trailers,
	// so maximality is only asserted when trailers are distinct.
	for _, s := range modelMerge(levels, t) {
		for i := 1; i < len(s.Keys); i++ {
			if s.Keys[i-1].trailer() == s.Keys[i].trailer() {
				m.r.Count("defragment_over_merging_skipped_equal_trailers", 1)
				return true
			}
		}
	}
	mi := newMerging(levels, t, invalidating, 0)
	di := newDefrag(mi, "internal")
	defer di.Close()
	m.r.Count("defragment_over_merging_iterators", 1)
	return m.runOps(di, modelDefragment(modelMerge(levels, t), "internal"), ops, iterCheck{
		class: "stack-coverage", what: "DefragmentingIter(internal) over MergingIter", ordered: true,
		ctx: func() map[string]any { return map[string]any{"levels": dumpLevels(levels), "transform": t.String()} },
	})
}

// ---- generator -------------------------------------------------------------------

func genSpans(rng *rand.Rand) (spans []span, bounds []string) {
	nb := 2 + rng.IntN(7) // 2..8 boundary keys
	idx := rng.Perm(len(letters))[:nb]
	sort.Ints(idx)
	for _, i := range idx {
		bounds = append(bounds, letters[i])
	}
	n := 1 + rng.IntN(12)
	rangeDels := rng.IntN(2) == 0
	maxSeq := uint64(2 + rng.IntN(9))
	for i := 0; i < n; i++ {
		i0 := rng.IntN(nb - 1)
		i1 := i0 + 1 + rng.IntN(nb-1-i0)
		if rng.IntN(3) == 0 && i0+1 < nb {
			i1 = i0 + 1 // favour narrow spans so that gaps and abutting spans occur
		}
		s := span{S: bounds[i0], E: bounds[i1]}
		nk := 1 + rng.IntN(4)
		for j := 0; j < nk; j++ {
			k := skey{Seq: 1 + rng.Uint64N(maxSeq)}
			if rangeDels {
				k.Kind = kRangeD
			} else {
				switch rng.IntN(5) {
				case 0:
					k.Kind = kRKDel
				case 1:
					k.Kind, k.Suf = kRKUnset, pick(rng, "@1", "@2", "@3")
				default:
					k.Kind, k.Suf, k.Val = kRKSet, pick(rng, "@1", "@2", "@3"), pick(rng, "x", "y", "z")
				}
			}
			s.Keys = append(s.Keys, k)
		}
		sortKeys(s.Keys)
		spans = append(spans, s)
	}
	return spans, bounds
}

func sortedByStart(rng *rand.Rand, spans []span) []span {
	out := append([]span(nil), spans...)
	if rng != nil {
		rng.Shuffle(len(out), func(i, j int) { out[i], out[j] = out[j], out[i] })
	}
	sort.SliceStable(out, func(i, j int) bool { return out[i].S < out[j].S })
	return out
}

func genTransform(rng *rand.Rand) transform {
	switch rng.IntN(4) {
	case 0:
		return transform{Kind: "visible", Snapshot: 1 + rng.Uint64N(11)}
	case 1:
		return transform{Kind: "dropkind", Drop: pick(rng, kRangeD, kRKSet, kRKUnset, kRKDel)}
	}
	return transform{Kind: "noop"}
}

// withEmptySpans inserts key-less spans into some gaps of a fragment list (a
// child iterator may surface such spans).
func withEmptySpans(rng *rand.Rand, g []span, bounds []string) []span {
	var out []span
	prevEnd := ""
	for i := 0; i <= len(g); i++ {
		next := "zz"
		if i < len(g) {
			next = g[i].S
		}
		// candidate gap [prevEnd,next)
		var inside []string
		for _, b := range bounds {
			if b >= prevEnd && b <= next {
				inside = append(inside, b)
			}
		}
		if len(inside) >= 2 && rng.IntN(2) == 0 {
			out = append(out, span{S: inside[0], E: inside[len(inside)-1]})
		}
		if i < len(g) {
			out = append(out, g[i])
			prevEnd = g[i].E
		}
	}
	return out
}

func TestVerifC32(t *testing.T) {
	r := vcommon.NewReport("C32", "main")
	defer r.Finish(t)
	r.Rule("random set of 1-12 spans over 2-8 boundary keys, 1-4 keys each (seqnum, kind, suffix, value; range deletions or range keys; repeated trailers allowed); " +
		"each case drives Fragmenter(+Truncate calls), keyspan.Truncate, MergingIter over 1-5 levels (noop / visibility / kind-dropping transformer), " +
		"DefragmentingIter (internal and always-equal) and Defragment over Merge with 8-40 positioning ops; distinct = distinct span set; non-trivial = at least two spans overlap or abut")
	r.Assume("spans are handed to keyspan.Fragmenter in start-key order and iterators are driven within the FragmentIterator contract (first op absolute; no Next after a forward op returned nothing, no Prev after a backward one)")
	r.Assume("transformers only remove keys; the always-equal defragmentation mode is paired with a reducer that keeps the union of the keys")
	m := &monitor{r: r}
	n := vcommon.Scale(40000, 1500000)
	r.Cases(n, func(i int, rng *rand.Rand) {
		spans, bounds := genSpans(rng)
		probes := probesFor(bounds)
		r.Eval(1)

		// (1) fragmenter, with random Truncate calls at legal positions
		sorted := sortedByStart(rng, spans)
		trunc := map[int]string{}
		if rng.IntN(3) == 0 {
			for j := 1; j <= len(sorted); j++ {
				if rng.IntN(4) != 0 {
					continue
				}
				// a key above the previous start and not above the next start keeps the adds legal
				lo := sorted[j-1].S
				var cands []string
				for _, b := range bounds {
					if b > lo && (j == len(sorted) || b <= sorted[j].S) {
						cands = append(cands, b)
					}
				}
				if len(cands) > 0 {
					trunc[j] = pick(rng, cands...)
					r.Count("fragmenter_truncate_calls", 1)
				}
			}
		}
		m.checkFragmenter(sorted, trunc, probes)

		frags := modelFragment(spans, nil)
		inval := rng.IntN(2) == 0

		// (2) Truncate
		{
			all := append([]string{"A"}, append(append([]string(nil), bounds...), "z")...)
			i0 := rng.IntN(len(all) - 1)
			i1 := i0 + 1 + rng.IntN(len(all)-1-i0)
			lo, hi := all[i0], all[i1]
			incl := rng.IntN(4) == 0 && !covered(frags, hi)
			m.checkTruncate(frags, lo, hi, incl, genOps(rng, 8+rng.IntN(16), probes), inval)
		}

		// (3) MergingIter over 1-5 levels
		nl := 1 + rng.IntN(5)
		raw := make([][]span, nl)
		for _, s := range spans {
			l := rng.IntN(nl)
			raw[l] = append(raw[l], s)
		}
		levels := make([][]span, nl)
		for l := range raw {
			levels[l] = modelFragment(raw[l], nil)
		}
		tf := genTransform(rng)
		m.checkMerging(levels, tf, genOps(rng, 10+rng.IntN(30), probes), inval, rng.IntN(nl+1))
		r.SetAdd("merging_levels", fmt.Sprint(nl))
		r.SetAdd("transformers", tf.Kind)

		// (4) DefragmentingIter over deliberately over-fragmented input
		var extra []string
		for _, b := range bounds {
			if rng.IntN(2) == 0 {
				extra = append(extra, b)
			}
		}
		g := modelFragment(spans, extra)
		if rng.IntN(8) == 0 {
			g = withEmptySpans(rng, g, bounds)
			r.Count("defragment_inputs_with_empty_spans", 1)
		}
		mode := pick(rng, "internal", "always")
		m.checkDefrag(g, mode, genOps(rng, 10+rng.IntN(30), probes), inval)

		// (5) the compaction stack; levels additionally split at random points so that joinable fragments exist
		if rng.IntN(2) == 0 {
			lv := make([][]span, nl)
			// distinct trailers (see checkStack): renumber the keys
			next := uint64(1)
			uraw := make([][]span, nl)
			for l := range raw {
				for _, s := range raw[l] {
					c := span{S: s.S, E: s.E}
					for _, k := range s.Keys {
						k.Seq = next
						next++
						c.Keys = append(c.Keys, k)
					}
					sortKeys(c.Keys)
					uraw[l] = append(uraw[l], c)
				}
			}
			raw := uraw
			for l := range raw {
				var ex []string
				for _, b := range bounds {
					if rng.IntN(3) == 0 {
						ex = append(ex, b)
					}
				}
				lv[l] = modelFragment(raw[l], ex)
			}
			m.checkStack(lv, genTransform(rng), genOps(rng, 10+rng.IntN(20), probes), inval)
		}

		nontrivial := false
		for a := range spans {
			for b := a + 1; b < len(spans); b++ {
				if spans[a].S <= spans[b].E && spans[b].S <= spans[a].E {
					nontrivial = true
				}
			}
		}
		if nontrivial {
			r.Distinct(dumpSpans(spans))
			r.Count("input_spans", int64(len(spans)))
			if r.WantSample() && len(spans) >= 3 && len(spans) <= 5 {
				got, _ := runFragmenter(sorted, trunc)
				r.Sample(map[string]any{"spans_in_add_order": dumpSpans(sorted), "fragmenter_truncate_before_add": trunc, "fragments": dumpSpans(got),
					"merging_levels": dumpLevels(levels), "merged": dumpSpans(modelMerge(levels, tf)), "transform": tf.String()})
			}
		}
	})
}

// ---- exhaustive enumeration over a small space --------------------------------------

var exhLetters = []string{"a", "b", "c", "d"}

func exhIntervals() [][2]string {
	var out [][2]string
	for i := 0; i < len(exhLetters); i++ {
		for j := i + 1; j < len(exhLetters); j++ {
			out = append(out, [2]string{exhLetters[i], exhLetters[j]})
		}
	}
	return out
}

// allOpSeqs: every sequence of exactly n ops whose first op is absolute.
func allOpSeqs(n int, probes []string) [][]op {
	abs := []op{{K: opFirst}, {K: opLast}}
	for _, p := range probes {
		abs = append(abs, op{K: opSeekGE, Key: p}, op{K: opSeekLT, Key: p})
	}
	all := append([]op{{K: opNext}, {K: opPrev}}, abs...)
	seqs := [][]op{}
	for _, a := range abs {
		seqs = append(seqs, []op{a})
	}
	for l := 1; l < n; l++ {
		var next [][]op
		for _, s := range seqs {
			for _, o := range all {
				next = append(next, append(append([]op(nil), s...), o))
			}
		}
		seqs = next
	}
	return seqs
}

// setPartitions of {0..n-1} as level assignments (restricted growth strings).
func setPartitions(n int) [][]int {
	var out [][]int
	var rec func(i, mx int, cur []int)
	rec = func(i, mx int, cur []int) {
		if i == n {
			out = append(out, append([]int(nil), cur...))
			return
		}
		for v := 0; v <= mx+1; v++ {
			nm := mx
			if v > mx {
				nm = v
			}
			rec(i+1, nm, append(cur, v))
		}
	}
	rec(0, -1, nil)
	return out
}

func subsets(xs []string) [][]string {
	var out [][]string
	for mask := 0; mask < 1<<len(xs); mask++ {
		var s []string
		for b := range xs {
			if mask&(1<<b) != 0 {
				s = append(s, xs[b])
			}
		}
		out = append(out, s)
	}
	return out
}

func TestVerifC32Exh(t *testing.T) {
	r := vcommon.NewReport("C32", "exh")
	defer r.Finish(t)
	maxSpans := 2
	if vcommon.Thorough() {
		maxSpans = 3
	}
	ivs := exhIntervals()
	probes := probesFor(exhLetters)
	// every ordered tuple of 1..maxSpans intervals; span i carries one key.
	// Two key variants: distinct seqnums (i+1) and one shared trailer.
	var tuples [][]int
	var rec func(cur []int)
	rec = func(cur []int) {
		if len(cur) > 0 {
			tuples = append(tuples, append([]int(nil), cur...))
		}
		if len(cur) == maxSpans {
			return
		}
		for i := range ivs {
			rec(append(cur, i))
		}
	}
	rec(nil)
	r.Rule(fmt.Sprintf("exhaustive: every tuple of 1..%d spans over the 4 boundary keys a<b<c<d (6 intervals), keys with distinct seqnums and with one shared trailer; for each: "+
		"Fragmenter with every admissible single Truncate call and both tie orders; keyspan.Truncate with every bounds pair; MergingIter for every assignment of the spans to levels, "+
		"noop and visibility transformer; DefragmentingIter (both modes) for every extra fragmentation; each iterator driven with every op sequence of length 3 (first op absolute; ops = "+
		"First, Last, Next, Prev, SeekGE/SeekLT at every boundary key, between keys and outside); distinct = (tuple, key variant); non-trivial = at least 2 spans", maxSpans))
	r.Assume("same contract assumptions as part main")
	m := &monitor{r: r}
	seqLen := 2
	if vcommon.Thorough() {
		seqLen = 3
	}
	seqs := allOpSeqs(seqLen, probes)
	runAll := func(mk func() keyspan.FragmentIterator, expected []span, ic iterCheck) {
		it := mk()
		defer it.Close()
		for _, s := range seqs {
			if !m.runOps(it, expected, s, ic) {
				return
			}
			r.Count("exh_op_sequences", 1)
		}
	}
	r.Cases(len(tuples)*2, func(ci int, _ *rand.Rand) {
		tuple, variant := tuples[ci/2], ci%2
		var spans []span
		for i, iv := range tuple {
			k := skey{Seq: uint64(i + 1), Kind: kRKSet, Suf: "@1", Val: fmt.Sprint("v", i)}
			if variant == 1 {
				k.Seq = 5
			}
			spans = append(spans, span{S: ivs[iv][0], E: ivs[iv][1], Keys: []skey{k}})
		}
		r.Eval(1)
		if len(spans) >= 2 {
			r.Distinct(ci)
		}
		// (1) fragmenter: both tie orders x {no truncate, one truncate at every admissible place}
		for _, rev := range []bool{false, true} {
			in := append([]span(nil), spans...)
			if rev {
				for i, j := 0, len(in)-1; i < j; i, j = i+1, j-1 {
					in[i], in[j] = in[j], in[i]
				}
			}
			sorted := sortedByStart(nil, in)
			m.checkFragmenter(sorted, nil, probes)
			for j := 1; j <= len(sorted); j++ {
				for _, b := range exhLetters {
					if b > sorted[j-1].S && (j == len(sorted) || b <= sorted[j].S) {
						m.checkFragmenter(sorted, map[int]string{j: b}, probes)
					}
				}
			}
		}
		frags := modelFragment(spans, nil)
		// (2) truncate: every bounds pair
		all := append([]string{"A"}, append(append([]string(nil), exhLetters...), "z")...)
		for i0 := range all {
			for i1 := i0 + 1; i1 < len(all); i1++ {
				lo, hi := all[i0], all[i1]
				for _, incl := range []bool{false, true} {
					if incl && covered(frags, hi) {
						continue
					}
					bounds := base.UserKeyBoundsEndExclusiveIf([]byte(lo), []byte(hi), !incl)
					runAll(func() keyspan.FragmentIterator {
						return keyspan.Truncate(comparer.Compare, newChild(frags, true), bounds)
					}, clip(frags, lo, hi), iterCheck{class: "truncate-coverage", what: "keyspan.Truncate", ordered: true,
						ctx: func() map[string]any { return map[string]any{"fragments": dumpSpans(frags), "bounds": bounds.String()} }})
				}
			}
		}
		// (3) merging: every assignment of spans to levels
		for _, part := range setPartitions(len(spans)) {
			nl := 0
			for _, v := range part {
				if v+1 > nl {
					nl = v + 1
				}
			}
			raw := make([][]span, nl)
			for i, v := range part {
				raw[v] = append(raw[v], spans[i])
			}
			levels := make([][]span, nl)
			for l := range raw {
				levels[l] = modelFragment(raw[l], nil)
			}
			for _, tf := range []transform{{Kind: "noop"}, {Kind: "visible", Snapshot: 2}} {
				runAll(func() keyspan.FragmentIterator { return newMerging(levels, tf, true, 0) }, modelMerge(levels, tf),
					iterCheck{class: "merging-coverage", what: "keyspanimpl.MergingIter", ordered: true,
						ctx: func() map[string]any { return map[string]any{"levels": dumpLevels(levels), "transform": tf.String()} }})
			}
		}
		// (4) defragment: every extra fragmentation, both modes
		for _, extra := range subsets([]string{"b", "c"}) {
			g := modelFragment(spans, extra)
			for _, mode := range []string{"internal", "always"} {
				runAll(func() keyspan.FragmentIterator { return newDefrag(newChild(g, true), mode) }, modelDefragment(g, mode),
					iterCheck{class: "defragment-coverage", what: "keyspan.DefragmentingIter(" + mode + ")", ordered: true,
						ctx: func() map[string]any { return map[string]any{"fragments": dumpSpans(g), "mode": mode} }})
			}
		}
		r.Count("exh_span_sets_enumerated", 1)
	})
	r.Max("max_exh_spans_per_set", int64(maxSpans))
	r.Max("max_exh_span_sets_in_space", int64(len(tuples)*2))
	r.Max("max_exh_op_sequences_per_iterator", int64(len(seqs)))
	if si, _ := vcommon.Shard(); si == 0 {
		r.Note("part exh enumerates completely %d span sets (tuples of <=%d spans over 4 boundary keys x 2 key variants) and, per iterator configuration, all %d op sequences of length %d "+
			"(complete iff counter exh_span_sets_enumerated == %d)", len(tuples)*2, maxSpans, len(seqs), seqLen, len(tuples)*2)
	}
}
