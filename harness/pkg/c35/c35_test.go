// C35: the shipped comparers satisfy the base.Comparer contract, and the
// CockroachDB columnar key schema seeks / materialises keys consistently with
// its comparer.
//
// The checker below is independent of base.CheckComparer (which is also run):
// every clause of the contract text in internal/base/comparer.go is evaluated
// on generated VALID keys, and Compare is additionally compared with a reference
// ordering written from the encodings' documentation.
package c35

import (
	"bytes"
	"encoding/binary"
	"encoding/hex"
	"fmt"
	"math/rand/v2"
	"runtime"
	"slices"
	"sort"
	"strconv"
	"testing"

	"github.com/cockroachdb/crlib/crbytes"
	"github.com/cockroachdb/pebble/cockroachkvs"
	"github.com/cockroachdb/pebble/internal/base"
	"github.com/cockroachdb/pebble/internal/testkeys"
	"github.com/cockroachdb/pebble/internal/verif/vcommon"
	"github.com/cockroachdb/pebble/sstable/block"
	"github.com/cockroachdb/pebble/sstable/blockiter"
	"github.com/cockroachdb/pebble/sstable/colblk"
)

// key is a generated valid key with its known decomposition.
type key struct {
	b      []byte
	plen   int    // length of the prefix
	canon  bool   // the suffix is in the form the encoders produce (no redundant bytes)
	sclass string // suffix class, for coverage
}

func (k key) prefix() []byte { return k.b[:k.plen] }
func (k key) suffix() []byte { return k.b[k.plen:] }

// encoding describes one comparer and its valid keys.
type encoding struct {
	name string
	c    *base.Comparer
	// genPrefixes returns a pool of valid prefixes for a round.
	genPrefixes func(rng *rand.Rand, n int) [][]byte
	// genSuffixes returns a pool of valid suffixes (the empty suffix included).
	genSuffixes func(rng *rand.Rand, n int) []sfx
	// ref is an ordering written from the documentation of the encoding,
	// independent of the comparer's code.
	ref func(a, b key) int
	// nearPrefixes returns adversarial candidate prefixes around p for the
	// ImmediateSuccessor minimality clause.
	nearPrefixes func(p []byte) [][]byte
}

type sfx struct {
	b     []byte
	canon bool
	class string
}

func sign(x int) int {
	switch {
	case x < 0:
		return -1
	case x > 0:
		return 1
	}
	return 0
}

// ---------------------------------------------------------------------------
// default comparer: arbitrary bytes, no suffixes

func bytesFrom(rng *rand.Rand, alphabet []byte, n int) []byte {
	b := make([]byte, n)
	for i := range b {
		if len(alphabet) > 0 && rng.IntN(5) != 0 {
			b[i] = alphabet[rng.IntN(len(alphabet))]
		} else {
			b[i] = byte(rng.Uint32())
		}
	}
	return b
}

var hostileAlphabet = []byte{0x00, 0x00, 0x01, 'a', 'b', 0xfe, 0xff, 0xff}

func defaultEncoding() encoding {
	return encoding{
		name: "default",
		c:    base.DefaultComparer,
		genPrefixes: func(rng *rand.Rand, n int) [][]byte {
			out := make([][]byte, 0, n)
			for len(out) < n {
				l := 1 + rng.IntN(10)
				if rng.IntN(8) == 0 {
					l = 8 + rng.IntN(12) // beyond the 8-byte abbreviated key
				}
				p := bytesFrom(rng, hostileAlphabet, l)
				out = append(out, p)
				// neighbours: extensions, truncations, last byte +-1
				if rng.IntN(2) == 0 && len(out) < n {
					q := append(slices.Clone(p), byte(rng.IntN(2))*0xff)
					out = append(out, q)
				}
				if rng.IntN(3) == 0 && len(out) < n && len(p) > 1 {
					out = append(out, slices.Clone(p[:len(p)-1]))
				}
				if rng.IntN(3) == 0 && len(out) < n {
					q := slices.Clone(p)
					q[len(q)-1]++
					out = append(out, q)
				}
			}
			return out
		},
		genSuffixes: func(rng *rand.Rand, n int) []sfx { return []sfx{{nil, true, "none"}} },
		ref:         func(a, b key) int { return bytes.Compare(a.b, b.b) },
		nearPrefixes: func(p []byte) [][]byte {
			return [][]byte{append(slices.Clone(p), 0), append(slices.Clone(p), 0, 0), append(slices.Clone(p), 1)}
		},
	}
}

// ---------------------------------------------------------------------------
// testkeys: [a-z]+ optionally followed by @<int> and optionally _synthetic

func testkeysEncoding() encoding {
	tsOf := func(s []byte) (uint64, bool, bool) { // value, has suffix, synthetic
		if len(s) == 0 {
			return 0, false, false
		}
		syn := bytes.HasSuffix(s, []byte("_synthetic"))
		s = bytes.TrimSuffix(s, []byte("_synthetic"))
		v, err := strconv.ParseUint(string(s[1:]), 10, 64)
		if err != nil {
			panic(err)
		}
		return v, true, syn
	}
	return encoding{
		name: "testkeys",
		c:    testkeys.Comparer,
		genPrefixes: func(rng *rand.Rand, n int) [][]byte {
			alpha := []byte("abyz")
			if rng.IntN(3) == 0 {
				alpha = []byte("abcdefghijklmnopqrstuvwxyz")
			}
			out := make([][]byte, 0, n)
			for len(out) < n {
				l := 1 + rng.IntN(5)
				if rng.IntN(8) == 0 {
					l = 8 + rng.IntN(4)
				}
				p := make([]byte, l)
				for i := range p {
					p[i] = alpha[rng.IntN(len(alpha))]
				}
				out = append(out, p)
				if rng.IntN(2) == 0 && len(out) < n {
					out = append(out, append(slices.Clone(p), alpha[rng.IntN(len(alpha))]))
				}
			}
			return out
		},
		genSuffixes: func(rng *rand.Rand, n int) []sfx {
			out := []sfx{{nil, true, "empty"}}
			vals := []uint64{0, 1, 2, 9, 10, 11, 99, 100, 1<<63 - 1, uint64(rng.IntN(1000)), rng.Uint64() >> 1}
			for len(out) < n {
				v := vals[rng.IntN(len(vals))]
				s := []byte("@" + strconv.FormatUint(v, 10))
				if rng.IntN(4) == 0 {
					out = append(out, sfx{append(s, "_synthetic"...), false, "synthetic"})
				} else {
					out = append(out, sfx{s, true, "timestamp"})
				}
			}
			return out
		},
		// documented in the package comment: prefixes bytewise, then the
		// suffix-less key first, then larger integers first; "_synthetic" is
		// ignored for key comparison.
		ref: func(a, b key) int {
			if c := bytes.Compare(a.prefix(), b.prefix()); c != 0 {
				return c
			}
			av, ah, _ := tsOf(a.suffix())
			bv, bh, _ := tsOf(b.suffix())
			switch {
			case !ah && !bh:
				return 0
			case !ah:
				return -1
			case !bh:
				return 1
			}
			switch {
			case av > bv:
				return -1
			case av < bv:
				return 1
			}
			return 0
		},
		nearPrefixes: func(p []byte) [][]byte {
			return [][]byte{append(slices.Clone(p), 'a'), append(slices.Clone(p), 'a', 'a')}
		},
	}
}

// ---------------------------------------------------------------------------
// cockroach engine keys: roachKey 0x00 [version len(version)+1]

func crdbSuffix(wall uint64, logical uint32, form int, rng *rand.Rand) sfx {
	var v []byte
	v = binary.BigEndian.AppendUint64(v, wall)
	switch form {
	case 0: // wall only (requires logical == 0)
		return sfx{append(v, 9), true, "mvcc-wall"}
	case 1: // wall + logical
		v = binary.BigEndian.AppendUint32(v, logical)
		return sfx{append(v, 13), logical != 0, map[bool]string{true: "mvcc-wall-logical", false: "mvcc-wall-zero-logical"}[logical != 0]}
	default: // wall + logical + synthetic byte (legacy)
		v = binary.BigEndian.AppendUint32(v, logical)
		v = append(v, byte(rng.IntN(2)))
		return sfx{append(v, 14), false, map[bool]string{true: "mvcc-synthetic", false: "mvcc-synthetic-zero-logical"}[logical != 0]}
	}
}

func crdbEncoding() encoding {
	type ver struct {
		empty bool
		norm  []byte // version bytes used for ordering
	}
	// documented in cockroachkvs.go (normalizeVersionForCompare): the synthetic
	// byte and a zero logical component do not affect ordering or equality.
	norm := func(s []byte) ver {
		if len(s) == 0 {
			return ver{empty: true}
		}
		v := s[:len(s)-1]
		switch len(v) {
		case 13:
			v = v[:12]
			fallthrough
		case 12:
			if binary.BigEndian.Uint32(v[8:]) == 0 {
				v = v[:8]
			}
		}
		return ver{norm: v}
	}
	return encoding{
		name: "cockroach",
		c:    &cockroachkvs.Comparer,
		genPrefixes: func(rng *rand.Rand, n int) [][]byte {
			out := make([][]byte, 0, n)
			for len(out) < n {
				l := rng.IntN(7)
				if rng.IntN(8) == 0 {
					l = 7 + rng.IntN(6)
				}
				rk := bytesFrom(rng, hostileAlphabet, l)
				out = append(out, append(slices.Clone(rk), 0))
				if rng.IntN(2) == 0 && len(out) < n {
					// roach key extended by 0x00 / 0xff: the sentinel byte of the shorter
					// key then lines up with a key byte of the longer one
					out = append(out, append(append(slices.Clone(rk), byte(rng.IntN(2))*0xff), 0))
				}
				if rng.IntN(3) == 0 && len(out) < n && len(rk) > 0 {
					q := slices.Clone(rk)
					q[len(q)-1]++
					out = append(out, append(q, 0))
				}
			}
			return out
		},
		genSuffixes: func(rng *rand.Rand, n int) []sfx {
			out := []sfx{{nil, true, "empty"}}
			walls := []uint64{1, 2, 3, 255, 256, 1 << 32, 1<<63 - 1, 1 << 63, ^uint64(0), 1 + rng.Uint64N(1<<40)}
			logicals := []uint32{1, 2, 255, 1 << 31, ^uint32(0), 1 + rng.Uint32N(1000)}
			for len(out) < n {
				w := walls[rng.IntN(len(walls))]
				switch x := rng.IntN(100); {
				case x < 25:
					out = append(out, crdbSuffix(w, 0, 0, rng))
				case x < 45:
					out = append(out, crdbSuffix(w, logicals[rng.IntN(len(logicals))], 1, rng))
				case x < 55:
					out = append(out, crdbSuffix(w, 0, 1, rng)) // explicit zero logical
				case x < 65:
					out = append(out, crdbSuffix(w, logicals[rng.IntN(len(logicals))], 2, rng))
				case x < 72:
					out = append(out, crdbSuffix(w, 0, 2, rng)) // synthetic byte + zero logical
				case x < 76:
					// wall time zero with a logical component is a valid hlc timestamp
					s := crdbSuffix(0, logicals[rng.IntN(len(logicals))], 1+rng.IntN(2), rng)
					s.class += "(wall=0)"
					out = append(out, s)
				default:
					// lock table: 17 bytes (strength, txn uuid), trailing length byte 18
					v := bytesFrom(rng, []byte{0, 1, 2, 0xff}, 17)
					if rng.IntN(4) == 0 {
						// shares its first 8/12 bytes with an MVCC version
						copy(v, binary.BigEndian.AppendUint64(nil, w))
					}
					out = append(out, sfx{append(v, 18), true, "lock-table"})
				}
			}
			return out
		},
		ref: func(a, b key) int {
			// prefixes (roach key + sentinel) bytewise
			if c := bytes.Compare(a.prefix(), b.prefix()); c != 0 {
				return c
			}
			av, bv := norm(a.suffix()), norm(b.suffix())
			switch {
			case av.empty && bv.empty:
				return 0
			case av.empty:
				return -1
			case bv.empty:
				return 1
			}
			// larger versions sort first
			return bytes.Compare(bv.norm, av.norm)
		},
		nearPrefixes: func(p []byte) [][]byte {
			rk := p[:len(p)-1]
			return [][]byte{
				append(slices.Clone(rk), 0, 0),    // roach key rk+0x00
				append(slices.Clone(rk), 0, 0, 0), // roach key rk+0x00 0x00
				append(slices.Clone(rk), 1, 0),    // roach key rk+0x01
			}
		},
	}
}

// ---------------------------------------------------------------------------
// the contract checker

type checker struct {
	r   *vcommon.Report
	e   encoding
	rng *rand.Rand
	nv  map[string]int
}

func (ck *checker) violate(clause, detail string, keys ...[]byte) {
	ck.r.Count("clause_failures:"+ck.e.name+":"+clause, 1)
	ck.nv[clause]++
	if ck.nv[clause] > 2 {
		return
	}
	var hx []string
	for _, k := range keys {
		hx = append(hx, hex.EncodeToString(k))
	}
	ck.r.Violate("contract-"+clause, fmt.Sprintf("[%s] %s", ck.e.name, detail),
		map[string]any{"comparer": ck.e.name, "clause": clause, "keys_hex": hx},
		map[string]any{"comparer": ck.e.name, "clause": clause})
}

func (ck *checker) round(nKeys int) (sample []key, prefixes [][]byte, suffixes []sfx) {
	e, c, rng, r := ck.e, ck.e.c, ck.rng, ck.r
	nP := 12 + rng.IntN(30)
	if e.name == "default" {
		nP = nKeys // no suffixes: the sample is the prefix pool
	}
	prefixes = e.genPrefixes(rng, nP)
	suffixes = e.genSuffixes(rng, 6+rng.IntN(30))
	// sample: prefix x suffix, with clusters of equal prefixes
	for len(sample) < nKeys {
		p := prefixes[rng.IntN(len(prefixes))]
		if e.name == "default" {
			p = prefixes[len(sample)]
		}
		reps := 1 + rng.IntN(4)
		if e.name == "default" {
			reps = 1
		}
		for j := 0; j < reps && len(sample) < nKeys; j++ {
			s := suffixes[rng.IntN(len(suffixes))]
			sample = append(sample, key{b: slices.Concat(p, s.b), plen: len(p), canon: s.canon, sclass: s.class})
		}
	}
	n := len(sample)
	for _, k := range sample {
		r.SetAdd("suffix_classes:"+e.name, k.sclass)
	}

	// ValidateKey accepts generated keys; Split finds the generated prefix and is idempotent.
	for _, k := range sample {
		if err := c.ValidateKey.Validate(k.b); err != nil {
			ck.violate("validatekey", fmt.Sprintf("ValidateKey(%x) = %v on a generated valid key", k.b, err), k.b)
		}
		if sp := c.Split(k.b); sp != k.plen {
			ck.violate("split", fmt.Sprintf("Split(%x) = %d, generated prefix length %d", k.b, sp, k.plen), k.b)
		} else if sp2 := c.Split(k.b[:sp]); sp2 != sp {
			ck.violate("split-idempotent", fmt.Sprintf("Split(prefix(%x)) = %d, want %d", k.b, sp2, sp), k.b)
		}
		r.Count("evals:split", 1)
	}
	// removing leading bytes from a prefix yields a valid prefix
	for _, p := range prefixes {
		for i := 1; i < len(p); i++ {
			q := p[i:]
			if err := c.ValidateKey.Validate(q); err != nil {
				ck.violate("prefix-tail-valid", fmt.Sprintf("tail %x of prefix %x is rejected: %v", q, p, err), p)
			} else if c.Split(q) != len(q) {
				ck.violate("prefix-tail-valid", fmt.Sprintf("tail %x of prefix %x is not a prefix (Split=%d)", q, p, c.Split(q)), p)
			}
		}
	}

	// compare matrix
	m := make([][]int8, n)
	for i := range m {
		m[i] = make([]int8, n)
		for j := range m[i] {
			m[i][j] = int8(sign(c.Compare(sample[i].b, sample[j].b)))
		}
	}
	r.Count("evals:compare", int64(n*n))
	for i := 0; i < n; i++ {
		a := sample[i]
		if m[i][i] != 0 {
			ck.violate("compare-reflexive", fmt.Sprintf("Compare(%x, itself) = %d", a.b, m[i][i]), a.b)
		}
		if len(a.suffix()) > 0 {
			// Split clause 1: a bare prefix sorts before all keys with that prefix
			if c.Compare(a.prefix(), a.b) >= 0 {
				ck.violate("prefix-first", fmt.Sprintf("Compare(prefix, %x) >= 0", a.b), a.b)
			}
		}
		for j := 0; j < n; j++ {
			b := sample[j]
			if m[i][j] != -m[j][i] {
				ck.violate("compare-antisymmetry", fmt.Sprintf("Compare(%x,%x)=%d but Compare(b,a)=%d", a.b, b.b, m[i][j], m[j][i]), a.b, b.b)
			}
			if eq := c.Equal(a.b, b.b); eq != (m[i][j] == 0) {
				ck.violate("equal-vs-compare", fmt.Sprintf("Equal(%x,%x)=%v but Compare=%d", a.b, b.b, eq, m[i][j]), a.b, b.b)
			}
			// Compare == bytes.Compare(prefixes) then ComparePointSuffixes
			want := sign(bytes.Compare(a.prefix(), b.prefix()))
			if want == 0 {
				want = sign(c.ComparePointSuffixes(a.suffix(), b.suffix()))
				// CompareRangeSuffixes may be stricter but never contradicts
				if rs := sign(c.CompareRangeSuffixes(a.suffix(), b.suffix())); m[i][j] != 0 && rs != int(m[i][j]) {
					ck.violate("rangesuffix-vs-compare", fmt.Sprintf("Compare(%x,%x)=%d but CompareRangeSuffixes=%d", a.b, b.b, m[i][j], rs), a.b, b.b)
				}
				r.Count("evals:same-prefix-pairs", 1)
			}
			if want != int(m[i][j]) {
				ck.violate("compare-prefix-then-suffix", fmt.Sprintf("Compare(%x,%x)=%d, prefix-then-ComparePointSuffixes gives %d", a.b, b.b, m[i][j], want), a.b, b.b)
			}
			// Split clause 2
			pc := sign(c.Compare(a.prefix(), b.prefix()))
			if m[i][j] <= 0 && pc > 0 || pc < 0 && m[i][j] >= 0 {
				ck.violate("prefix-orders-first", fmt.Sprintf("Compare(%x,%x)=%d but Compare(prefixes)=%d", a.b, b.b, m[i][j], pc), a.b, b.b)
			}
			// reference ordering from the documentation
			if rf := sign(e.ref(a, b)); rf != int(m[i][j]) {
				ck.violate("compare-vs-reference", fmt.Sprintf("Compare(%x,%x)=%d, documented ordering gives %d", a.b, b.b, m[i][j], rf), a.b, b.b)
			}
			// AbbreviatedKey
			ka, kb := c.AbbreviatedKey(a.b), c.AbbreviatedKey(b.b)
			if ka < kb && m[i][j] >= 0 || ka > kb && m[i][j] <= 0 {
				ck.violate("abbreviatedkey", fmt.Sprintf("abbr(%x)=%#x abbr(%x)=%#x but Compare=%d", a.b, ka, b.b, kb, m[i][j]), a.b, b.b)
			}
		}
	}
	r.Count("evals:pair-clauses", int64(n*n))
	// transitivity on all ordered triples
	bad := 0
	for i := 0; i < n && bad == 0; i++ {
		mi := m[i]
		for j := 0; j < n && bad == 0; j++ {
			ij := mi[j]
			if ij > 0 {
				continue
			}
			mj := m[j]
			for k := 0; k < n; k++ {
				jk := mj[k]
				if jk > 0 {
					continue
				}
				// a<=b and b<=c  =>  a<=c, strict if either is strict
				ik := mi[k]
				if ik > 0 || (ik == 0 && (ij < 0 || jk < 0)) {
					ck.violate("compare-transitivity", fmt.Sprintf("a=%x b=%x c=%x: cmp(a,b)=%d cmp(b,c)=%d cmp(a,c)=%d", sample[i].b, sample[j].b, sample[k].b, ij, jk, ik),
						sample[i].b, sample[j].b, sample[k].b)
					bad++
					break
				}
			}
		}
	}
	r.Count("evals:triples", int64(n)*int64(n)*int64(n))

	// suffix comparators: total orders on the suffix pool; empty suffix first
	for _, cs := range []struct {
		name string
		f    func(a, b []byte) int
	}{{"ComparePointSuffixes", c.ComparePointSuffixes}, {"CompareRangeSuffixes", c.CompareRangeSuffixes}} {
		ns := len(suffixes)
		sm := make([][]int8, ns)
		for i := range sm {
			sm[i] = make([]int8, ns)
			for j := range sm[i] {
				sm[i][j] = int8(sign(cs.f(suffixes[i].b, suffixes[j].b)))
			}
		}
		for i := 0; i < ns; i++ {
			for j := 0; j < ns; j++ {
				if sm[i][j] != -sm[j][i] {
					ck.violate("suffix-antisymmetry", fmt.Sprintf("%s(%x,%x)=%d but reversed=%d", cs.name, suffixes[i].b, suffixes[j].b, sm[i][j], sm[j][i]), suffixes[i].b, suffixes[j].b)
				}
				if len(suffixes[i].b) == 0 && len(suffixes[j].b) > 0 && sm[i][j] != -1 {
					ck.violate("empty-suffix-first", fmt.Sprintf("%s(empty,%x)=%d", cs.name, suffixes[j].b, sm[i][j]), suffixes[j].b)
				}
				for k := 0; k < ns; k++ {
					if sm[i][j] <= 0 && sm[j][k] <= 0 && (sm[i][k] > 0 || (sm[i][k] == 0 && (sm[i][j] < 0 || sm[j][k] < 0))) {
						ck.violate("suffix-transitivity", fmt.Sprintf("%s not transitive on %x %x %x", cs.name, suffixes[i].b, suffixes[j].b, suffixes[k].b),
							suffixes[i].b, suffixes[j].b, suffixes[k].b)
					}
				}
			}
		}
		r.Count("evals:suffix-triples", int64(ns*ns*ns))
	}

	// Separator on all strictly ordered pairs; Successor on all keys
	junk := []byte("dst-prefix")
	for i := 0; i < n; i++ {
		a := sample[i]
		for j := 0; j < n; j++ {
			if m[i][j] >= 0 || len(a.b) == 0 || len(sample[j].b) == 0 {
				continue
			}
			b := sample[j]
			var dst []byte
			if (i+j)%3 == 0 {
				dst = slices.Clone(junk)
			}
			out := c.Separator(dst, slices.Clone(a.b), slices.Clone(b.b))
			if !bytes.HasPrefix(out, dst) {
				ck.violate("separator-dst", fmt.Sprintf("Separator(dst,%x,%x) did not append to dst", a.b, b.b), a.b, b.b)
				continue
			}
			s := out[len(dst):]
			if err := c.ValidateKey.Validate(s); err != nil {
				ck.violate("separator-valid", fmt.Sprintf("Separator(%x,%x)=%x is not a valid key: %v", a.b, b.b, s, err), a.b, b.b)
				continue
			}
			if c.Compare(a.b, s) > 0 || c.Compare(s, b.b) >= 0 {
				ck.violate("separator-range", fmt.Sprintf("Separator(%x,%x)=%x is outside [a,b)", a.b, b.b, s), a.b, b.b)
			}
			r.Count("evals:separator", 1)
		}
		var dst []byte
		if i%3 == 0 {
			dst = slices.Clone(junk)
		}
		out := c.Successor(dst, slices.Clone(a.b))
		if !bytes.HasPrefix(out, dst) {
			ck.violate("successor-dst", fmt.Sprintf("Successor(dst,%x) did not append to dst", a.b), a.b)
		} else if s := out[len(dst):]; c.ValidateKey.Validate(s) != nil {
			ck.violate("successor-valid", fmt.Sprintf("Successor(%x)=%x is not a valid key", a.b, s), a.b)
		} else if c.Compare(a.b, s) > 0 {
			ck.violate("successor-range", fmt.Sprintf("Successor(%x)=%x < a", a.b, s), a.b)
		}
		r.Count("evals:successor", 1)
	}
	if s := c.Successor(nil, nil); c.ValidateKey.Validate(s) != nil {
		ck.violate("successor-valid", fmt.Sprintf("Successor(empty)=%x is not a valid key", s))
	}

	// ImmediateSuccessor on prefixes: a prefix, strictly greater, nothing representable in between
	cands := slices.Clone(prefixes)
	for _, p := range prefixes {
		cands = append(cands, e.nearPrefixes(p)...)
	}
	for pi, p := range prefixes {
		var dst []byte
		if pi%3 == 0 {
			dst = slices.Clone(junk)
		}
		out := c.ImmediateSuccessor(dst, slices.Clone(p))
		if !bytes.HasPrefix(out, dst) {
			ck.violate("immediatesuccessor-dst", fmt.Sprintf("ImmediateSuccessor(dst,%x) did not append to dst", p), p)
			continue
		}
		s := out[len(dst):]
		if err := c.ValidateKey.Validate(s); err != nil {
			ck.violate("immediatesuccessor-valid", fmt.Sprintf("ImmediateSuccessor(%x)=%x invalid: %v", p, s, err), p)
			continue
		}
		if c.Split(s) != len(s) {
			ck.violate("immediatesuccessor-prefix", fmt.Sprintf("ImmediateSuccessor(%x)=%x is not a prefix key", p, s), p)
			continue
		}
		if c.Compare(p, s) >= 0 {
			ck.violate("immediatesuccessor-greater", fmt.Sprintf("ImmediateSuccessor(%x)=%x is not greater", p, s), p)
		}
		for _, q := range cands {
			if c.Compare(p, q) < 0 && c.Compare(q, s) < 0 {
				ck.violate("immediatesuccessor-minimal", fmt.Sprintf("prefix %x lies strictly between %x and its ImmediateSuccessor %x", q, p, s), p, q)
				break
			}
		}
		r.Count("evals:immediatesuccessor", 1)
	}
	return sample, prefixes, suffixes
}

// ---------------------------------------------------------------------------
// cockroach columnar key schema

func (ck *checker) keySchema(sample []key, prefixes [][]byte, suffixes []sfx) {
	c, r, rng := ck.e.c, ck.r, ck.rng
	// choose the block's rows: a subset of the sample, optionally restricted to
	// one suffix family (an all-MVCC block takes the seeker's fast path)
	family := rng.IntN(4) // 0 all, 1 mvcc only, 2 lock only, 3 mvcc + empty
	keep := func(k key) bool {
		n := len(k.suffix())
		switch family {
		case 1:
			return n == 9 || n == 13 || n == 14
		case 2:
			return n == 18
		case 3:
			return n != 18
		}
		return true
	}
	var rows []key
	for _, k := range sample {
		// The columnar writer asserts a non-empty roach key (PrefixBytesBuilder.Put,
		// invariants builds): keys of the empty roach key are probes only.
		if k.plen > 1 && keep(k) && rng.IntN(4) != 0 {
			rows = append(rows, k)
		}
	}
	sort.SliceStable(rows, func(i, j int) bool { return c.Compare(rows[i].b, rows[j].b) < 0 })
	rows = slices.CompactFunc(rows, func(a, b key) bool { return c.Equal(a.b, b.b) })
	if len(rows) < 2 {
		return
	}
	r.SetAdd("block_families", []string{"mixed", "mvcc-only", "lock-only", "mvcc+empty"}[family])
	var enc colblk.DataBlockEncoder
	enc.Init(&cockroachkvs.KeySchema, colblk.NoTieringColumns())
	maxLen := 0
	for i, k := range rows {
		ik := base.MakeInternalKey(k.b, 1, base.InternalKeyKindSet)
		enc.Add(ik, k.b, block.InPlaceValuePrefix(false), enc.KeyWriter.ComparePrev(k.b), false, base.KVMeta{})
		maxLen = max(maxLen, len(k.b))
		// the writer's own view of the last two rows (all its builders retain)
		for _, j := range []int{i, i - 1} {
			if j < 0 {
				continue
			}
			if got := enc.KeyWriter.MaterializeKey(nil, j); !c.Equal(got, rows[j].b) {
				ck.violate("keywriter-materialize", fmt.Sprintf("KeyWriter.MaterializeKey(row %d)=%x, wrote %x", j, got, rows[j].b), rows[j].b)
			}
		}
	}
	blk, _ := enc.Finish(len(rows), enc.Size())
	blk = crbytes.CopyAligned(blk)
	// The decoder and the seeker keep unsafe pointers into blk, invisible to the
	// garbage collector (production pins the buffer through the block cache).
	defer runtime.KeepAlive(blk)
	var dec colblk.DataBlockDecoder
	bd := dec.Init(&cockroachkvs.KeySchema, blk)
	var meta colblk.KeySeekerMetadata
	cockroachkvs.KeySchema.InitKeySeekerMetadata(&meta, &dec, bd)
	ks := cockroachkvs.KeySchema.KeySeeker(&meta)
	r.Count("blocks_built", 1)
	r.Count("block_rows", int64(len(rows)))

	// MaterializeUserKey: sequential (SetNext path) then random access (SetAt path)
	var ki colblk.PrefixBytesIter
	ki.Init(maxLen, blockiter.SyntheticPrefix(nil))
	check := func(prev, row int) {
		got := ks.MaterializeUserKey(&ki, prev, row)
		want := rows[row]
		switch {
		case !c.Equal(got, want.b) || c.Compare(got, want.b) != 0:
			ck.violate("materialize", fmt.Sprintf("MaterializeUserKey(row %d)=%x, wrote %x", row, got, want.b), want.b)
		case len(got) > len(want.b):
			ck.violate("materialize-longer", fmt.Sprintf("MaterializeUserKey(row %d)=%x is longer than the written key %x", row, got, want.b), want.b)
		case want.canon && !bytes.Equal(got, want.b):
			ck.violate("materialize-bytes", fmt.Sprintf("MaterializeUserKey(row %d)=%x differs from the canonical written key %x", row, got, want.b), want.b)
		case c.ValidateKey.Validate(got) != nil:
			ck.violate("materialize-valid", fmt.Sprintf("MaterializeUserKey(row %d)=%x is not a valid key", row, got), want.b)
		}
		r.Count("evals:materialize", 1)
	}
	for i := range rows {
		check(i-1, i)
	}
	prev := -1
	for k := 0; k < len(rows); k++ {
		row := rng.IntN(len(rows))
		check(prev, row)
		prev = row
	}
	// synthetic suffix replacement: exactly prefix + suffix
	for k := 0; k < 3; k++ {
		syn := suffixes[rng.IntN(len(suffixes))].b
		if len(syn) == 0 {
			continue
		}
		var ki2 colblk.PrefixBytesIter
		ki2.Init(maxLen+len(syn), blockiter.SyntheticPrefix(nil))
		prev := -1
		for i := range rows {
			row := i
			if k == 2 {
				row = rng.IntN(len(rows))
			}
			got := ks.MaterializeUserKeyWithSyntheticSuffix(&ki2, syn, prev, row)
			if want := slices.Concat(rows[row].prefix(), syn); !bytes.Equal(got, want) {
				ck.violate("materialize-synthetic-suffix", fmt.Sprintf("row %d with synthetic suffix %x = %x, want %x", row, syn, got, want), rows[row].b, syn)
			}
			prev = row
			r.Count("evals:materialize-synthetic", 1)
		}
		// IsLowerBound with the synthetic suffix: every row becomes prefix+syn
		low := slices.Concat(rows[0].prefix(), syn)
		for _, probe := range sample {
			if got, want := ks.IsLowerBound(probe.b, syn), c.Compare(low, probe.b) >= 0; got != want {
				ck.violate("islowerbound-synthetic", fmt.Sprintf("IsLowerBound(%x, syn=%x)=%v, first row %x => want %v", probe.b, syn, got, low, want), probe.b, rows[0].b, syn)
			}
			r.Count("evals:islowerbound", 1)
		}
	}
	// SeekGE == binary search with Compare; IsLowerBound == Compare with the first row
	probes := slices.Clone(sample)
	for _, p := range prefixes {
		probes = append(probes, key{b: p, plen: len(p)})
	}
	for _, probe := range probes {
		want := sort.Search(len(rows), func(i int) bool { return c.Compare(rows[i].b, probe.b) >= 0 })
		wantEq := want < len(rows) && bytes.Equal(rows[want].prefix(), probe.prefix())
		got, gotEq := ks.SeekGE(probe.b, 0, 0)
		if got != want || gotEq != wantEq {
			near := rows[min(want, len(rows)-1)].b
			ck.violate("seekge", fmt.Sprintf("SeekGE(%x) = (row %d, equalPrefix %v); binary search with Compare gives (row %d, %v) in a %d-row block", probe.b, got, gotEq, want, wantEq, len(rows)),
				probe.b, near)
		}
		r.Count("evals:seekge", 1)
		if got, want := ks.IsLowerBound(probe.b, nil), c.Compare(rows[0].b, probe.b) >= 0; got != want {
			ck.violate("islowerbound", fmt.Sprintf("IsLowerBound(%x)=%v but first row is %x (want %v)", probe.b, got, rows[0].b, want), probe.b, rows[0].b)
		}
		r.Count("evals:islowerbound", 1)
	}
}

// ---------------------------------------------------------------------------

func TestVerifC35(t *testing.T) {
	r := vcommon.NewReport("C35", "main")
	defer r.Finish(t)
	r.Rule("case = (comparer, round): a pool of 12-40 valid prefixes (with neighbours: extensions by 0x00/0xff, truncations, last byte +1) and 6-35 valid suffixes of every class the encoding accepts, " +
		"a 200-key sample of prefix x suffix with clusters of equal prefixes; all pairs and all ordered triples are evaluated; for cockroach keys a columnar data block is built from a sorted subset. " +
		"distinct by (comparer, hash of the sample); non-trivial if the sample has at least 100 distinct byte strings")
	r.Assume("data blocks are built from keys with a non-empty roach key (the columnar prefix column asserts non-empty keys); the empty roach key is still used for comparer clauses and as a seek probe")
	r.Assume("valid cockroach keys: roach key of any bytes + 0x00 sentinel + version of length 0, 8, 12, 13 (MVCC) or 17 (lock table) + length byte; an MVCC version with wall time 0 and logical 0 is not generated (the zero timestamp is encoded as no version)")
	encs := []encoding{defaultEncoding(), testkeysEncoding(), crdbEncoding()}
	rounds := vcommon.Scale(30, 2000)
	nKeys := 200
	r.Cases(rounds*len(encs), func(i int, rng *rand.Rand) {
		e := encs[i%len(encs)]
		ck := &checker{r: r, e: e, rng: rng, nv: map[string]int{}}
		defer func() {
			// a panic out of comparer / key-schema code on valid keys is a violation,
			// and must not hide the remaining cases
			if rec := recover(); rec != nil {
				msg := fmt.Sprint(rec)
				if len(msg) > 300 {
					msg = msg[:300]
				}
				buf := make([]byte, 8<<10)
				buf = buf[:runtime.Stack(buf, false)]
				r.Eval(1)
				r.Violate("contract-panic", fmt.Sprintf("[%s] panic on generated valid keys: %s", e.name, msg),
					map[string]any{"comparer": e.name, "case": i, "stack": string(buf)}, map[string]any{"comparer": e.name, "clause": "panic"})
			}
		}()
		sample, prefixes, suffixes := ck.round(nKeys)
		// base.CheckComparer too (it mutates / sorts its arguments: pass copies)
		var ps, ss [][]byte
		for _, p := range prefixes[:min(len(prefixes), 8)] {
			ps = append(ps, slices.Clone(p))
		}
		for _, s := range suffixes[:min(len(suffixes), 10)] {
			if len(s.b) > 0 {
				ss = append(ss, slices.Clone(s.b))
			}
		}
		if err := base.CheckComparer(e.c, ps, ss); err != nil {
			ck.violate("checkcomparer", "base.CheckComparer: "+err.Error())
		}
		r.Count("evals:checkcomparer", 1)
		if e.name == "cockroach" {
			for k := 0; k < 4; k++ {
				ck.keySchema(sample, prefixes, suffixes)
			}
		}
		r.Eval(1)
		r.SetAdd("comparers", e.name)
		distinct := map[string]struct{}{}
		for _, k := range sample {
			distinct[string(k.b)] = struct{}{}
		}
		if len(distinct) >= 100 {
			h := ""
			for _, k := range sample[:8] {
				h += hex.EncodeToString(k.b) + "/"
			}
			r.Distinct(e.name, h, len(distinct))
		}
		if r.WantSample() && i < 6 {
			var ks []string
			for _, k := range sample[:6] {
				ks = append(ks, fmt.Sprintf("%x|%x (%s)", k.prefix(), k.suffix(), k.sclass))
			}
			r.Sample(map[string]any{"comparer": e.name, "round": i / len(encs), "keys_in_sample": len(sample), "distinct_keys": len(distinct), "first_keys": ks})
		}
	})
}
