// C24: atomic marker moves are all-or-nothing and durable.
//
// The real vfs/atomicfs.Marker runs on a crashable MemFS behind an errorfs
// wrapper whose injector is (a) the observation hook that fires BEFORE every
// filesystem operation issued by Move / RemoveObsolete and (b) the fault
// injector for Remove / Create / file-Sync failures.
//
// At every such operation (and once more after the call returned) the monitor
// materialises every crash state the repository's own crash model
// (MemFS.CrashClone) can produce at that instant:
//
//   - 0 % survival (only synced state), 100 % survival,
//   - every subset of the unsynced directory entries (constructed from the
//     100 % clone by removing the complement; the set of unsynced entries is
//     measured as listing(100 %) \ listing(0 %)),
//   - real partial CrashClone draws: seeded random percentages in both tiers;
//     in the thorough tier additionally all 2^n include/exclude patterns
//     obtained by driving CrashCloneCfg.RNG with a scripted source (n = number
//     of RNG draws CrashClone makes),
//   - the live state itself (what a process crash with a surviving OS leaves).
//
// Oracle on each of them: ReadMarker and LocateMarker succeed, agree, and yield
// a value from the allowed set (old or new while a Move is in flight; exactly
// the new value once Move has returned nil); independently of pebble's
// scanForMarker the value must be the one carried by the marker file with the
// numerically highest iteration in the clone's listing (obsolete files never
// win).
package c24

import (
	"fmt"
	"math/rand/v2"
	"sort"
	"strconv"
	"strings"
	"testing"

	"github.com/cockroachdb/pebble/internal/verif/vcommon"
	"github.com/cockroachdb/pebble/vfs"
	"github.com/cockroachdb/pebble/vfs/atomicfs"
	"github.com/cockroachdb/pebble/vfs/errorfs"
)

// ---------------------------------------------------------------------------
// Case description (fully generated up front so that it can be replayed).

// Step is one step of a chain.
type Step struct {
	Kind  string `json:"kind"`            // move | remove-obsolete | relocate-live
	Value string `json:"value,omitempty"` // move: the new value
	// Fault (move): "" | remove | create | filesync. (remove-obsolete): "" | remove
	Fault string `json:"fault,omitempty"`
	// FaultN: which Remove call of a remove-obsolete fails (0-based).
	FaultN int `json:"fault_n,omitempty"`
	// CrashAt >= 0: after this step's point number CrashAt was checked, one of
	// its crash states (CrashSel) becomes the filesystem the chain continues
	// on (the marker is re-located there). -1 = no crash.
	CrashAt  int    `json:"crash_at"`
	CrashSel uint64 `json:"crash_sel,omitempty"`
}

// PreFile is a marker file that exists (synced) before the chain starts.
type PreFile struct {
	Iter  uint64 `json:"iter"`
	Value string `json:"value"`
}

// Case is one generated execution.
type Case struct {
	Index       int       `json:"index"`
	Dir         string    `json:"dir"`
	Name        string    `json:"name"`
	Pre         []PreFile `json:"pre,omitempty"`
	Distractors []string  `json:"distractors,omitempty"`
	Steps       []Step    `json:"steps"`
}

var markerNames = []string{"manifest", "format-version", "x", "remote-obj-catalog", "m_1"}

func randValue(rng *rand.Rand) string {
	switch rng.IntN(12) {
	case 0:
		return fmt.Sprintf("MANIFEST-%06d", rng.IntN(1000))
	case 1:
		return fmt.Sprintf("%03d", rng.IntN(30)) // looks like an iteration number
	case 2:
		return fmt.Sprintf("%06d.%06d", rng.IntN(100), rng.IntN(100))
	case 3:
		return "a.b.c"
	case 4:
		return "."
	case 5:
		return ".." + strconv.Itoa(rng.IntN(10))
	case 6:
		return fmt.Sprintf("marker.x.%06d.v", rng.IntN(2000000)) // looks like a marker file name
	case 7:
		return fmt.Sprintf("v%d.", rng.IntN(100)) // trailing dot
	case 8:
		return fmt.Sprintf(".%d", rng.IntN(100)) // leading dot
	case 9:
		return fmt.Sprintf("999999.%d", rng.IntN(10))
	default:
		const alpha = "abcXYZ019._-"
		n := 1 + rng.IntN(12)
		b := make([]byte, n)
		for i := range b {
			b[i] = alpha[rng.IntN(len(alpha))]
		}
		return string(b)
	}
}

func genCase(i int, rng *rand.Rand) *Case {
	c := &Case{Index: i}
	c.Dir = []string{"db", "a/b", "store.dir"}[rng.IntN(3)]
	c.Name = markerNames[rng.IntN(len(markerNames))]
	// pre-existing marker files, as a previous incarnation may have left them
	if rng.IntN(3) == 0 {
		n := 1 + rng.IntN(3)
		base := []uint64{1, 7, 99, 999997, 999999, 1000000, 12345678}[rng.IntN(7)]
		seen := map[uint64]bool{}
		for k := 0; k < n; k++ {
			it := base + uint64(rng.IntN(4))
			if seen[it] {
				continue
			}
			seen[it] = true
			c.Pre = append(c.Pre, PreFile{Iter: it, Value: randValue(rng)})
		}
	}
	// unrelated files in the same directory
	if rng.IntN(2) == 0 {
		cands := []string{
			"MANIFEST-000001", "000004.log", "OPTIONS-000003", "LOCK",
			"marker." + c.Name + "2.000900.zz",
			"marker.other.000050.marker." + c.Name + ".999999.evil",
			"marker.zz.000001.",
			"markerX",
		}
		for _, d := range cands {
			if rng.IntN(3) == 0 {
				c.Distractors = append(c.Distractors, d)
			}
		}
	}
	nMoves := 1 + rng.IntN(30)
	faulty := rng.IntN(2) == 0
	moves := 0
	for moves < nMoves {
		st := Step{CrashAt: -1}
		x := rng.IntN(100)
		switch {
		case x < 72 || len(c.Steps) == 0:
			st.Kind = "move"
			st.Value = randValue(rng)
			if faulty {
				switch f := rng.IntN(100); {
				case f < 35:
					st.Fault = "remove"
				case f < 42:
					st.Fault = "create"
				case f < 50:
					st.Fault = "filesync"
				}
			}
			moves++
		case x < 90:
			st.Kind = "remove-obsolete"
			if faulty && rng.IntN(3) == 0 {
				st.Fault = "remove"
				st.FaultN = rng.IntN(3)
			}
		default:
			st.Kind = "relocate-live"
		}
		if st.Kind != "relocate-live" && rng.IntN(6) == 0 {
			st.CrashAt = rng.IntN(6)
			st.CrashSel = rng.Uint64()
		}
		c.Steps = append(c.Steps, st)
	}
	return c
}

// ---------------------------------------------------------------------------
// Scripted RNG source that drives CrashCloneCfg.RNG.

// Values for which (*rand.Rand).IntN(100) yields 0 resp. 99 (checked at start).
const (
	srcInclude = uint64(0x01000000) << 32
	srcExclude = uint64(0xFFFFFFFF) << 32
)

type scriptSource struct {
	bits  uint64 // bit k set = k-th draw says "survives"
	n     int    // draws made
	deflt uint64 // value returned beyond 64 draws
}

func (s *scriptSource) Uint64() uint64 {
	k := s.n
	s.n++
	if k < 64 {
		if s.bits&(1<<uint(k)) != 0 {
			return srcInclude
		}
		return srcExclude
	}
	return s.deflt
}

func scriptedSourceWorks() bool {
	a := rand.New(&scriptSource{bits: ^uint64(0)})
	b := rand.New(&scriptSource{bits: 0})
	for i := 0; i < 8; i++ {
		if a.IntN(100) != 0 || b.IntN(100) != 99 {
			return false
		}
	}
	return true
}

// ---------------------------------------------------------------------------
// Independent reading of a directory listing.

// maxIterValue returns the value carried by the marker file of the given name
// with the highest iteration number ("" when there is none) and how many files
// of that marker exist. It does not share code with atomicfs.
func maxIterValue(ls []string, name string) (value string, file string, count int) {
	prefix := "marker." + name + "."
	var best uint64
	for _, f := range ls {
		if !strings.HasPrefix(f, prefix) {
			continue
		}
		rest := f[len(prefix):]
		j := strings.IndexByte(rest, '.')
		if j <= 0 {
			continue
		}
		it, err := strconv.ParseUint(rest[:j], 10, 64)
		if err != nil {
			continue
		}
		count++
		if file == "" || it > best {
			best, value, file = it, rest[j+1:], f
		}
	}
	return value, file, count
}

func sortedCopy(ls []string) []string {
	c := append([]string(nil), ls...)
	sort.Strings(c)
	return c
}

// ---------------------------------------------------------------------------
// The monitor.

type runner struct {
	r    *vcommon.Report
	c    *Case
	rng  *rand.Rand
	mem  *vfs.MemFS // current "disk"
	efs  *errorfs.FS
	mk   *atomicfs.Marker
	full bool // thorough: drive the clone RNG through all patterns

	allowed map[string]bool // values a crash may legitimately expose right now
	// state of the call in flight
	active     bool
	stepIdx    int
	step       *Step
	point      int
	newValue   string
	inMove     bool
	removeSeen int
	sawOld     bool
	sawNew     bool
	// crash continuation chosen at a point of the current step
	contFS      *vfs.MemFS
	contDesc    string
	contAllowed map[string]bool

	straddled      int
	skippedSubsets bool
	nclones        int
	stopped        bool
}

func (x *runner) allowedList(extra string, withExtra bool) []string {
	var l []string
	for v := range x.allowed {
		l = append(l, v)
	}
	if withExtra && !x.allowed[extra] {
		l = append(l, extra)
	}
	sort.Strings(l)
	return l
}

func (x *runner) violate(class, detail, pointDesc, state string, ls []string, allowed []string, got string) {
	x.r.Violate(class, detail, map[string]any{
		"case": x.c, "step_index": x.stepIdx, "point": pointDesc, "crash_state": state,
		"clone_listing": sortedCopy(ls), "allowed_values": allowed, "got": got,
	}, map[string]any{"class": class, "point": pointDesc, "state_kind": strings.SplitN(state, ":", 2)[0]})
}

// verify applies the oracle to one crash state.
func (x *runner) verify(fs vfs.FS, allowed map[string]bool, allowedL []string, pointDesc, state string, atRest bool) (string, bool) {
	x.nclones++
	x.r.Count("crash_states_checked", 1)
	x.r.SetAdd("state_kinds", strings.SplitN(state, ":", 2)[0])
	ls, err := fs.List(x.c.Dir)
	if err != nil {
		x.violate("read-error", fmt.Sprintf("List(%q) on crash state failed: %v", x.c.Dir, err), pointDesc, state, nil, allowedL, "")
		return "", false
	}
	v, err := atomicfs.ReadMarker(fs, x.c.Dir, x.c.Name)
	if err != nil {
		x.violate("read-error", fmt.Sprintf("ReadMarker failed: %v", err), pointDesc, state, ls, allowedL, "")
		return "", false
	}
	m, v2, err := atomicfs.LocateMarker(fs, x.c.Dir, x.c.Name)
	if err != nil {
		x.violate("read-error", fmt.Sprintf("LocateMarker failed: %v", err), pointDesc, state, ls, allowedL, "")
		return "", false
	}
	_ = m.Close()
	ok := true
	if v2 != v {
		x.violate("read-locate-disagree", fmt.Sprintf("ReadMarker=%q LocateMarker=%q", v, v2), pointDesc, state, ls, allowedL, v)
		ok = false
	}
	want, wantFile, cnt := maxIterValue(ls, x.c.Name)
	if cnt > 1 {
		x.r.Count("states_with_obsolete_files", 1)
	}
	if v != want {
		x.violate("obsolete-marker-wins", fmt.Sprintf("marker reads %q but the file with the highest iteration is %q (value %q)", v, wantFile, want),
			pointDesc, state, ls, allowedL, v)
		ok = false
	}
	if !allowed[v] {
		class := "neither-old-nor-new"
		if atRest {
			class = "durable-value-lost"
		}
		x.violate(class, fmt.Sprintf("crash state reads %q, allowed %q", v, allowedL), pointDesc, state, ls, allowedL, v)
		ok = false
	}
	return v, ok
}

// checkPoint enumerates the crash states of the current instant.
// allowed = x.allowed (+ newValue if withNew). atRest: no Move in flight.
func (x *runner) checkPoint(pointDesc string, withNew, atRest bool) {
	if x.stopped {
		return
	}
	allowed := map[string]bool{}
	for v := range x.allowed {
		allowed[v] = true
	}
	if withNew {
		allowed[x.newValue] = true
	}
	allowedL := x.allowedList(x.newValue, withNew)
	x.r.Count("crash_points", 1)
	x.r.SetAdd("points", strings.SplitN(pointDesc, " ", 2)[0])

	note := func(v string, ok bool) {
		if ok && x.inMove {
			if v == x.newValue {
				x.sawNew = true
			}
			if x.allowed[v] && v != x.newValue {
				x.sawOld = true
			}
		}
	}

	// the live state: what a process crash leaves
	note(x.verify(x.mem, allowed, allowedL, pointDesc, "live", atRest))

	c0 := x.mem.CrashClone(vfs.CrashCloneCfg{})
	cnt := &scriptSource{bits: ^uint64(0), deflt: srcInclude}
	c100 := x.mem.CrashClone(vfs.CrashCloneCfg{UnsyncedDataPercent: 100, RNG: rand.New(cnt)})
	ndraws := cnt.n
	l0, err0 := c0.List(x.c.Dir)
	l100, err100 := c100.List(x.c.Dir)
	if err0 != nil || err100 != nil {
		x.violate("read-error", fmt.Sprintf("List on 0%%/100%% clone: %v / %v", err0, err100), pointDesc, "clone0", nil, allowedL, "")
		return
	}
	in0 := map[string]bool{}
	for _, f := range l0 {
		in0[f] = true
	}
	var unsynced []string
	in100 := map[string]bool{}
	for _, f := range l100 {
		in100[f] = true
		if !in0[f] {
			unsynced = append(unsynced, f)
		}
	}
	sort.Strings(unsynced)
	for _, f := range unsynced {
		if st, err := c100.Stat(c100.PathJoin(x.c.Dir, f)); err != nil || st.IsDir() || st.Size() != 0 {
			x.r.Inconclusive("unsynced entry %q is not an empty file; subset construction not faithful (case %d)", f, x.c.Index)
		}
	}
	for _, f := range l0 {
		if !in100[f] {
			x.r.Inconclusive("crash model: entry %q in the 0%% clone but not in the 100%% clone (case %d)", f, x.c.Index)
		}
	}
	x.r.Max("max_unsynced_entries", int64(len(unsynced)))

	type cont struct {
		fs   *vfs.MemFS
		desc string
	}
	var conts []cont
	wantCont := x.step != nil && x.step.CrashAt == x.point && x.contFS == nil
	seenListing := map[string]bool{}
	key := func(ls []string) string { return strings.Join(sortedCopy(ls), "\x00") }

	note(x.verify(c0, allowed, allowedL, pointDesc, "clone0", atRest))
	seenListing[key(l0)] = true
	if wantCont {
		conts = append(conts, cont{c0, "clone0"})
	}
	note(x.verify(c100, allowed, allowedL, pointDesc, "clone100", atRest))
	seenListing[key(l100)] = true
	if wantCont {
		conts = append(conts, cont{c100, "clone100"})
	}

	// every subset of the unsynced entries
	nsub := 0
	if len(unsynced) <= 10 {
		for mask := uint64(1); mask+1 < uint64(1)<<uint(len(unsynced)); mask++ {
			// Built on the 0 % clone by adding the surviving entries (all unsynced
			// entries here are empty marker files, checked below) and syncing the
			// directory, so that the state is a faithful, fully synced disk image
			// the chain can continue on.
			cl := x.mem.CrashClone(vfs.CrashCloneCfg{})
			var kept []string
			for k, f := range unsynced {
				if mask&(1<<uint(k)) != 0 {
					kept = append(kept, f)
					nf, err := cl.Create(cl.PathJoin(x.c.Dir, f), vfs.WriteCategoryUnspecified)
					if err != nil {
						x.r.Inconclusive("cannot build subset state: create %q: %v", f, err)
						continue
					}
					_ = nf.Sync()
					_ = nf.Close()
				}
			}
			if d, err := cl.OpenDir(x.c.Dir); err == nil {
				_ = d.Sync()
				_ = d.Close()
			}
			desc := "subset:" + strings.Join(kept, ",")
			note(x.verify(cl, allowed, allowedL, pointDesc, desc, atRest))
			ls, _ := cl.List(x.c.Dir)
			seenListing[key(ls)] = true
			nsub++
			if wantCont {
				conts = append(conts, cont{cl, desc})
			}
		}
		x.r.Count("points_all_subsets_enumerated", 1)
	} else {
		x.r.Count("points_subsets_not_enumerated", 1)
		x.skippedSubsets = true
	}
	if len(unsynced) > 0 {
		x.r.Count("points_with_unsynced_entries", 1)
	}

	// real partial draws of the repository's crash model
	checkReal := func(cl *vfs.MemFS, desc string) {
		ls, err := cl.List(x.c.Dir)
		if err == nil && len(unsynced) <= 10 && !seenListing[key(ls)] {
			// The constructed subsets are supposed to cover everything CrashClone
			// can produce; if not, the enumeration claim is void.
			x.r.Inconclusive("crash model: CrashClone produced a listing outside the constructed subsets: %q (case %d)", sortedCopy(ls), x.c.Index)
		}
		note(x.verify(cl, allowed, allowedL, pointDesc, desc, atRest))
		if wantCont {
			conts = append(conts, cont{cl, desc})
		}
	}
	for k := 0; k < 4; k++ {
		pct := []int{20, 50, 50, 80}[k]
		cl := x.mem.CrashClone(vfs.CrashCloneCfg{UnsyncedDataPercent: pct, RNG: x.rng})
		checkReal(cl, fmt.Sprintf("partial:%d%%", pct))
	}
	if x.full {
		// all include/exclude patterns over the draws CrashClone makes
		if ndraws <= 8 {
			for bits := uint64(0); bits < uint64(1)<<uint(ndraws); bits++ {
				src := &scriptSource{bits: bits, deflt: srcExclude}
				cl := x.mem.CrashClone(vfs.CrashCloneCfg{UnsyncedDataPercent: 50, RNG: rand.New(src)})
				checkReal(cl, fmt.Sprintf("pattern:%b/%d", bits, ndraws))
			}
			x.r.Count("points_all_rng_patterns", 1)
		} else {
			for k := 0; k < 256; k++ {
				src := &scriptSource{bits: x.rng.Uint64(), deflt: srcExclude}
				cl := x.mem.CrashClone(vfs.CrashCloneCfg{UnsyncedDataPercent: 50, RNG: rand.New(src)})
				checkReal(cl, fmt.Sprintf("pattern:%b/%d", src.bits&(1<<uint(min(ndraws, 63))-1), ndraws))
			}
			x.r.Count("points_sampled_rng_patterns", 1)
		}
	}
	if wantCont && len(conts) > 0 {
		ch := conts[x.step.CrashSel%uint64(len(conts))]
		x.contFS, x.contDesc, x.contAllowed = ch.fs, fmt.Sprintf("%s @ %s", ch.desc, pointDesc), allowed
	}
}

// hook is the errorfs injector: observation + fault injection.
func (x *runner) hook(op errorfs.Op) error {
	if !x.active {
		return nil
	}
	var kind string
	switch op.Kind {
	case errorfs.OpCreate:
		kind = "before-create"
	case errorfs.OpFileSync:
		if op.Path == x.c.Dir {
			kind = "before-dirsync"
		} else {
			kind = "before-filesync"
		}
	case errorfs.OpRemove:
		kind = "before-remove"
	default:
		kind = "before-op" + strconv.Itoa(int(op.Kind))
	}
	desc := fmt.Sprintf("%s %s(%s)", kind, x.step.Kind, op.Path)
	// Before the Create of the new file nothing of the new value exists.
	withNew := x.inMove && op.Kind != errorfs.OpCreate
	x.checkPoint(desc, withNew, false)
	x.point++
	// fault injection
	switch {
	case op.Kind == errorfs.OpRemove && x.step.Fault == "remove":
		n := x.removeSeen
		x.removeSeen++
		if x.inMove || n == x.step.FaultN {
			x.r.Count("faults_injected_remove", 1)
			return errorfs.ErrInjected
		}
	case op.Kind == errorfs.OpCreate && x.step.Fault == "create":
		x.r.Count("faults_injected_create", 1)
		return errorfs.ErrInjected
	case op.Kind == errorfs.OpFileSync && kind == "before-filesync" && x.step.Fault == "filesync":
		x.r.Count("faults_injected_filesync", 1)
		return errorfs.ErrInjected
	}
	return nil
}

func syncDirChain(fs *vfs.MemFS, dir string) error {
	// make the directory itself durable: sync every ancestor
	parts := strings.Split(dir, "/")
	paths := []string{"/"}
	for i := range parts[:len(parts)-1] {
		paths = append(paths, strings.Join(parts[:i+1], "/"))
	}
	paths = append(paths, dir)
	for _, p := range paths {
		d, err := fs.OpenDir(p)
		if err != nil {
			return err
		}
		if err := d.Sync(); err != nil {
			return err
		}
		d.Close()
	}
	return nil
}

func (x *runner) locate(how string) bool {
	if x.mk != nil {
		_ = x.mk.Close()
		x.mk = nil
	}
	x.efs = errorfs.Wrap(x.mem, errorfs.InjectorFunc(x.hook))
	m, v, err := atomicfs.LocateMarker(x.efs, x.c.Dir, x.c.Name)
	if err != nil {
		x.r.Violate("read-error", fmt.Sprintf("LocateMarker (%s) failed: %v", how, err),
			map[string]any{"case": x.c, "step_index": x.stepIdx}, map[string]any{"class": "read-error", "point": how})
		x.stopped = true
		return false
	}
	x.mk = m
	if !x.allowed[v] {
		ls, _ := x.mem.List(x.c.Dir)
		x.violate("neither-old-nor-new", fmt.Sprintf("LocateMarker (%s) returned %q, allowed %q", how, v, x.allowedList("", false)),
			how, "live", ls, x.allowedList("", false), v)
	}
	return true
}

func (x *runner) run() {
	c := x.c
	x.mem = vfs.NewCrashableMem()
	if err := x.mem.MkdirAll(c.Dir, 0o755); err != nil {
		x.r.Inconclusive("setup: %v", err)
		return
	}
	mk := func(name string) {
		f, err := x.mem.Create(x.mem.PathJoin(c.Dir, name), vfs.WriteCategoryUnspecified)
		if err != nil {
			x.r.Inconclusive("setup: %v", err)
			return
		}
		_ = f.Sync()
		_ = f.Close()
	}
	for _, d := range c.Distractors {
		mk(d)
	}
	cur := ""
	var curIter uint64
	for _, p := range c.Pre {
		mk(fmt.Sprintf("marker.%s.%06d.%s", c.Name, p.Iter, p.Value))
		if p.Iter >= curIter {
			curIter, cur = p.Iter, p.Value
		}
	}
	if err := syncDirChain(x.mem, c.Dir); err != nil {
		x.r.Inconclusive("setup: %v", err)
		return
	}
	x.allowed = map[string]bool{cur: true}
	x.stepIdx = -1
	if !x.locate("initial") {
		return
	}
	x.checkPoint("at-rest initial", false, true)

	for si := range c.Steps {
		if x.stopped {
			return
		}
		st := &c.Steps[si]
		x.stepIdx, x.step, x.point, x.removeSeen = si, st, 0, 0
		x.contFS, x.contDesc, x.contAllowed = nil, "", nil
		x.r.BeginCase(fmt.Sprintf("%d/%d", c.Index, si))
		switch st.Kind {
		case "move":
			x.newValue, x.inMove, x.sawOld, x.sawNew = st.Value, true, false, false
			x.active = true
			err := x.mk.Move(st.Value)
			x.active = false
			x.r.Count("moves", 1)
			switch {
			case err == nil:
				x.allowed = map[string]bool{st.Value: true}
				x.r.Count("moves_ok", 1)
			case st.Fault == "create":
				// the injected error preceded the operation: nothing was created
				x.r.Count("moves_failed", 1)
			case st.Fault == "filesync":
				// "If Move returns an error, the current value of the marker may be
				// the old value or the new value."
				x.allowed[st.Value] = true
				x.r.Count("moves_failed", 1)
			default:
				x.r.Violate("unexpected-move-error", fmt.Sprintf("Move(%q) failed without an injected Create/Sync fault: %v", st.Value, err),
					map[string]any{"case": c, "step_index": si}, map[string]any{"class": "unexpected-move-error"})
				x.allowed[st.Value] = true
			}
			x.checkPoint(fmt.Sprintf("after-return move(%q) err=%v", st.Value, err), false, true)
			x.point++
			if x.sawOld && x.sawNew {
				x.straddled++
				x.r.Count("moves_with_both_outcomes_observed", 1)
			}
			if strings.Contains(st.Value, ".") {
				x.r.Count("moves_value_with_dots", 1)
			}
			x.inMove = false
		case "remove-obsolete":
			x.inMove = false
			x.active = true
			err := x.mk.RemoveObsolete()
			x.active = false
			x.r.Count("remove_obsolete_calls", 1)
			if err != nil {
				x.r.Count("remove_obsolete_failed", 1)
				if st.Fault != "remove" {
					x.r.Violate("unexpected-removeobsolete-error", err.Error(), map[string]any{"case": c, "step_index": si}, nil)
				}
			}
			x.checkPoint(fmt.Sprintf("after-return remove-obsolete err=%v", err), false, true)
			x.point++
		case "relocate-live":
			// process restart on the same disk: the handle is dropped and the
			// marker located again; obsolete files are rediscovered.
			x.r.Count("relocations_live", 1)
			if !x.locate("relocate-live") {
				return
			}
			x.checkPoint("at-rest relocate-live", false, true)
		}
		if x.contFS != nil {
			// machine crash: continue on the chosen crash state
			x.mem = x.contFS
			v, err := atomicfs.ReadMarker(x.mem, c.Dir, c.Name)
			if err != nil {
				return // already reported by verify
			}
			if !x.contAllowed[v] {
				return // already reported by verify
			}
			// what was read after the crash is now the one durable value
			x.allowed = map[string]bool{v: true}
			x.r.Count("relocations_from_crash_state", 1)
			x.r.SetAdd("continued_from", strings.SplitN(x.contDesc, ":", 2)[0])
			if !x.locate("relocate-after-crash " + x.contDesc) {
				return
			}
			x.checkPoint("at-rest after-crash-relocate", false, true)
		}
	}
	if x.mk != nil {
		_ = x.mk.Close()
	}
}

func TestVerifC24(t *testing.T) {
	r := vcommon.NewReport("C24", "main")
	defer r.Finish(t)
	r.Rule("a case is a chain of 1-30 Marker.Move calls with random values (dots, numeric look-alikes, marker-file look-alikes), " +
		"interleaved RemoveObsolete, injected Remove/Create/file-Sync faults, process restarts and machine crashes that continue on a chosen crash state, " +
		"optionally over pre-existing marker files (iterations up to 8 digits) and unrelated directory entries; at every filesystem operation inside Move/RemoveObsolete " +
		"and after each return every crash state of the MemFS model is read back. distinct = (sequence of step kinds, faults, crash points); " +
		"non-trivial = at least one Move during which both the old and the new value were observed on crash states")
	r.Assume("crash model = vfs.MemFS.CrashClone (synced directory entries are never lost, removal of a synced entry is not durable before the directory sync) plus the live state (process crash)")
	r.Assume("marker files are empty, so the outcome of reading a crash state is a function of its directory listing; all subsets of unsynced entries are therefore all distinguishable crash states")
	if !scriptedSourceWorks() {
		r.Inconclusive("scripted rand source does not drive IntN(100) as expected with this Go version")
		return
	}
	full := vcommon.Thorough()
	// exhaustive = at every crash point of every executed chain all subsets of
	// unsynced directory entries were materialised (the chains are sampled).
	allEnumerated := true
	defer func() { r.Exhaustive(allEnumerated) }()
	n := vcommon.Scale(1500, 6000)
	r.Cases(n, func(i int, rng *rand.Rand) {
		c := genCase(i, rng)
		x := &runner{r: r, c: c, rng: rng, full: full}
		defer func() { allEnumerated = allEnumerated && !x.skippedSubsets }()
		func() {
			defer func() {
				if p := recover(); p != nil {
					r.Violate("panic", fmt.Sprintf("panic: %v", p), map[string]any{"case": c, "step_index": x.stepIdx}, map[string]any{"class": "panic"})
				}
			}()
			x.run()
		}()
		r.Eval(1)
		if x.straddled > 0 {
			var sig strings.Builder
			for _, s := range c.Steps {
				fmt.Fprintf(&sig, "%s/%s/%d;", s.Kind, s.Fault, s.CrashAt)
			}
			r.Distinct(sig.String(), len(c.Pre), len(c.Distractors))
		}
		r.Max("max_chain_steps", int64(len(c.Steps)))
		if r.WantSample() && x.straddled > 2 && len(c.Steps) <= 8 {
			r.Sample(map[string]any{"case": c, "crash_states_checked": x.nclones, "moves_with_both_outcomes": x.straddled})
		}
	})
}
