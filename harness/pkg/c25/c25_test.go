// C25: SSTables read back exactly what was written, under any writer options.
//
// Oracle: a sorted slice of internal keys + values (plus fragmented range dels
// and range keys). A table is written by the real RawWriter with random
// options, opened by the real Reader, and every iterator operation
// (First/Last/Next/Prev/SeekGE/SeekLT/SeekPrefixGE/NextPrefix/SetBounds, with
// and without filter use and TrySeekUsingNext) on the point, range-del and
// range-key iterators must return what binary search over the slice says.
package c25

import (
	"context"
	"fmt"
	"math/rand/v2"
	"testing"

	"github.com/cockroachdb/pebble/internal/keyspan"
	"github.com/cockroachdb/pebble/internal/verif/sstmodel"
	"github.com/cockroachdb/pebble/internal/verif/vcommon"
	"github.com/cockroachdb/pebble/sstable"
)

func countBucket(n int) string {
	switch {
	case n == 0:
		return "0"
	case n <= 5:
		return "1-5"
	case n <= 200:
		return "6-200"
	case n <= 1000:
		return "201-1000"
	default:
		return ">1000"
	}
}

func blockBucket(n int) string {
	switch {
	case n <= 2:
		return "1-2B"
	case n <= 64:
		return "<=64B"
	case n <= 512:
		return "<=512B"
	case n <= 4096:
		return "<=4K"
	default:
		return "<=32K"
	}
}

func addStats(r *vcommon.Report, st *sstmodel.Stats) {
	for k, v := range st.Ops {
		r.Count("op."+k, v)
	}
	r.Count("results_non_nil", st.NonNil)
	r.Count("prefix_mismatch_key_returned", st.PrefixMismatchLenient)
	r.Count("try_seek_using_next", st.TSUN)
	r.Count("set_bounds", st.SetBounds)
	r.Count("set_bounds_monotonic", st.MonotonicBounds)
	r.Count("direction_switch_after_exhaustion", st.DirSwitchAfterNil)
	r.Count("value_bytes_compared", st.ValueBytes)
}

func violate(r *vcommon.Report, i int, t *sstmodel.Table, class, detail string, mm *sstmodel.Mismatch) {
	kind := ""
	if mm != nil {
		kind = mm.IterKind
	}
	r.Violate(class, detail,
		map[string]any{"case": i, "options": t.Opts, "points": len(t.Points), "rangedels": len(t.RangeDels),
			"rangekeys": len(t.RangeKeys), "mismatch": mm,
			"replay_hint": fmt.Sprintf("VERIF_SEED=%d VERIF_ONLY_CASE=%d", vcommon.Seed(), i)},
		map[string]any{"format": t.Opts.Format, "iter_kind": kind, "keyspace": t.Opts.KeySpace, "filter": t.Opts.Filter})
}

func runCase(r *vcommon.Report, i int, rng *rand.Rand, sh sstmodel.Shape) {
	ks := sstmodel.TestKeys
	if rng.IntN(10) < 3 {
		ks = sstmodel.Crdb
	}
	t := sstmodel.GenTable(rng, ks, sh)
	r.Eval(1)
	if err := sstmodel.Build(t); err != nil {
		violate(r, i, t, "write-error", "writer rejected a sorted, fragmented input: "+err.Error(), nil)
		return
	}
	r.Count("tables", 1)
	r.Count("points_written", int64(len(t.Points)))
	r.Count("rangedel_spans_written", int64(len(t.RangeDels)))
	r.Count("rangekey_spans_written", int64(len(t.RangeKeys)))
	r.Count("table_bytes", int64(len(t.Data)))
	r.SetAdd("formats", t.Opts.Format)
	r.SetAdd("compression", t.Opts.Compression)
	r.SetAdd("checksum", t.Opts.Checksum)
	r.SetAdd("keyspace", t.Opts.KeySpace)
	r.SetAdd("block_size_bucket", blockBucket(t.Opts.BlockSize))
	r.SetAdd("restart_interval", fmt.Sprint(t.Opts.BlockRestartInterval))
	r.SetAdd("size_classes", t.Opts.SizeClasses)
	if len(t.Opts.Filter) > 4 {
		r.SetAdd("filter_family", t.Opts.Filter[:5])
	} else {
		r.SetAdd("filter_family", t.Opts.Filter)
	}

	var cacheSize int64
	switch rng.IntN(3) {
	case 0:
		cacheSize = 0
		r.Count("readers_without_cache", 1)
	case 1:
		cacheSize = 32 << 10 // tiny: constant eviction
	default:
		cacheSize = 8 << 20
	}
	env := sstmodel.NewReaderEnv(cacheSize)
	defer env.Close()

	useDecoders := rng.IntN(5) != 0
	rd, err := env.Open(ks, t.Data, useDecoders)
	if err != nil {
		violate(r, i, t, "open-error", "NewReader failed on a table just written: "+err.Error(), nil)
		return
	}
	defer func() {
		if err := rd.Close(); err != nil {
			violate(r, i, t, "close-error", "Reader.Close: "+err.Error(), nil)
		}
	}()
	if rd.Attributes.Has(sstable.AttributeTwoLevelIndex) {
		r.SetAdd("index", "two-level")
		r.Count("tables_two_level_index", 1)
	} else {
		r.SetAdd("index", "single-level")
	}
	if rd.Attributes.Has(sstable.AttributeValueBlocks) {
		r.Count("tables_with_value_blocks", 1)
	}
	if t.Meta != nil {
		r.Count("data_blocks", int64(t.Meta.Properties.NumDataBlocks))
		if t.Meta.Properties.FilterSize > 0 {
			r.Count("tables_with_filter_block", 1)
		}
	}

	model := sstmodel.NewPointModel(t, sstmodel.Transform{}, sstmodel.VBounds{})
	st := sstmodel.NewStats()
	defer addStats(r, st)

	// 1. whole-table round trip, both directions, plus the compaction iterator.
	for pass := 0; pass < 3; pass++ {
		spec := sstmodel.IterSpec{UseFilter: true, Compaction: pass == 2}
		it, err := sstmodel.NewPointIter(rd, spec, 0)
		if err != nil {
			violate(r, i, t, "iter-error", "NewPointIter: "+err.Error(), nil)
			return
		}
		got, err := sstmodel.ScanPoints(it, pass != 1)
		cerr := it.Close()
		name := []string{"forward scan", "backward scan", "compaction-iter scan"}[pass]
		if err != nil || cerr != nil {
			violate(r, i, t, "iter-error", fmt.Sprintf("%s: err=%v close=%v", name, err, cerr), nil)
			return
		}
		if d := sstmodel.DiffEntries(got, model.Entries); d != "" {
			violate(r, i, t, "roundtrip-mismatch", name+": "+d, nil)
			return
		}
	}

	// 2. random operations on several point iterators.
	nIters := 2 + rng.IntN(3)
	for j := 0; j < nIters; j++ {
		lo, up := sstmodel.RandIterBounds(rng, model, sstmodel.VBounds{})
		spec := sstmodel.IterSpec{Lower: lo, Upper: up, UseFilter: rng.IntN(3) != 0}
		it, err := sstmodel.NewPointIter(rd, spec, 0)
		if err != nil {
			violate(r, i, t, "iter-error", "NewPointIter: "+err.Error(), nil)
			return
		}
		kind := "point"
		if spec.UseFilter {
			kind = "point+filter"
			r.Count("point_iters_filter_allowed", 1)
		}
		cfg := sstmodel.PointCfg{NOps: 20 + rng.IntN(181), Lower: lo, Upper: up, IterKind: kind}
		mm := sstmodel.RunPointOps(rng, it, model, cfg, st)
		cerr := it.Close()
		if mm != nil {
			violate(r, i, t, mm.Class, mm.String(), mm)
			return
		}
		if cerr != nil {
			violate(r, i, t, "iter-error", "Close: "+cerr.Error(), nil)
			return
		}
		r.Count("point_iters", 1)
	}

	// 3. range deletions and range keys.
	for pass := 0; pass < 2; pass++ {
		var fit keyspan.FragmentIterator
		var want []keyspan.Span
		kind := "rangedel"
		if pass == 0 {
			fit, err = rd.NewRawRangeDelIter(context.Background(), sstable.NoFragmentTransforms, sstable.NoReadEnv)
			want = t.RangeDels
		} else {
			kind = "rangekey"
			fit, err = rd.NewRawRangeKeyIter(context.Background(), sstable.NoFragmentTransforms, sstable.NoReadEnv)
			want = t.RangeKeys
		}
		if err != nil {
			violate(r, i, t, "span-iter-error", kind+": "+err.Error(), nil)
			return
		}
		var extra [][]byte
		for k := 0; k < len(model.Entries) && k < 50; k++ {
			extra = append(extra, model.Entries[rng.IntN(len(model.Entries))].UserKey)
		}
		mm := sstmodel.RunSpanOps(rng, fit, ks, want, sstmodel.SpanCfg{NOps: 20 + rng.IntN(100), IterKind: kind, ExtraKeys: extra}, st)
		if fit != nil {
			if mm == nil {
				all, err := sstmodel.ReadAllSpans(fit)
				if err != nil {
					mm = &sstmodel.Mismatch{Class: "span-iter-error", Op: "scan", Got: err.Error(), IterKind: kind}
				} else if d := sstmodel.DiffSpans(ks, all, want); d != "" {
					mm = &sstmodel.Mismatch{Class: "span-mismatch", Op: "scan", Got: d, IterKind: kind}
				}
			}
			fit.Close()
			r.Count(kind+"_iters", 1)
		}
		if mm != nil {
			violate(r, i, t, mm.Class, mm.String(), mm)
			return
		}
	}

	sig := fmt.Sprintf("%s|%s|%d|%d|%d|%s|%s|%v|%v|%v|%s", t.Opts.KeySpace, t.Opts.Format, t.Opts.BlockSize, t.Opts.IndexBlockSize,
		t.Opts.BlockRestartInterval, t.Opts.Compression, t.Opts.Filter, t.Opts.DisableValueBlocks, t.Opts.StrictObsolete, t.Opts.Checksum, countBucket(len(t.Points)))
	if len(t.Points)+len(t.RangeDels)+len(t.RangeKeys) > 0 {
		r.Distinct(sig)
	}
	r.SetAdd("entries_bucket", countBucket(len(t.Points)))
	if r.WantSample() && len(t.Points) > 5 {
		r.Sample(map[string]any{"case": i, "options": t.Opts, "points": len(t.Points), "rangedels": len(t.RangeDels),
			"rangekeys": len(t.RangeKeys), "table_bytes": len(t.Data), "first_key": fmt.Sprintf("%q", t.Points[0].UserKey),
			"last_key": fmt.Sprintf("%q", t.Points[len(t.Points)-1].UserKey)})
	}
}

const rule = "each case = one random table (0-3000 points of all point kinds, 1-40 versions per prefix, empty to multi-block values, " +
	"long shared prefixes, fragmented range dels / range keys) written with random WriterOptions (every TableFormat from Pebblev1 to the newest, " +
	"BlockSize 1B-32KiB, single/two-level index, restart interval 1-64, every compression profile, bloom/adaptive-bloom/binary-fuse/no filter, value blocks on/off, " +
	"testkeys+DefaultKeySchema or cockroachkvs, strict-obsolete, checksum types, size-class aware flushing) and read back through 2-4 point iterators " +
	"(20-200 contract-respecting random ops each) plus range-del and range-key iterators; distinct = option tuple x entry-count bucket, empty tables are trivial"

func runPart(t *testing.T, part string, n int, sh sstmodel.Shape) {
	r := vcommon.NewReport("C25", part)
	defer r.Finish(t)
	r.Rule(rule)
	r.Assume("iterator calls stay inside the documented InternalIterator contract (internal/base/iterator.go): no First with a lower bound, no Last with an upper bound, " +
		"seek keys inside [lower, upper], no Next after an exhausted forward op, no Prev/NextPrefix in prefix mode, TrySeekUsingNext only in same-type seek sequences with non-decreasing keys")
	r.Assume("NextPrefix is only issued when the upper bound is nil or a bare prefix (pebble.Iterator enforces the same)")
	r.Cases(n, func(i int, rng *rand.Rand) {
		if msg, stack := sstmodel.Guard(func() { runCase(r, i, rng, sh) }); msg != "" {
			r.Violate("panic", "panic on contract-respecting input: "+msg,
				map[string]any{"case": i, "panic": msg, "stack": stack, "replay_hint": fmt.Sprintf("VERIF_SEED=%d VERIF_ONLY_CASE=%d", vcommon.Seed(), i)},
				map[string]any{"message": msg})
			// A recovered panic leaks open iterators; in invariants builds their pool
			// finalizers exit the process at the next GC. Persist the report now.
			r.Finish(t)
		}
	})
}

func TestVerifC25(t *testing.T) { runPart(t, "main", vcommon.Scale(400, 20000), sstmodel.Shape{}) }

// TestVerifC25Race repeats the monitor on the columnar formats under the race
// build (checkptr on colblk's unsafe decoding); thorough tier only.
func TestVerifC25Race(t *testing.T) {
	runPart(t, "race", vcommon.Scale(40, 600), sstmodel.Shape{MinFormat: sstable.TableFormatPebblev5, MaxEntries: 1200})
}
