package crash

import (
	"math/rand/v2"
	"testing"

	"github.com/cockroachdb/pebble/internal/verif/dbcheck"
	"github.com/cockroachdb/pebble/internal/verif/vcommon"
)

func runCrashDeck(t *testing.T, prop, part string, o Options, nq, nt int, rule string) {
	R := vcommon.NewReport(prop, part)
	defer R.Finish(t)
	R.Rule(rule + " Every history runs on vfs.NewCrashableMem behind an observing errorfs; at the selected filesystem-mutation indices (and after " +
		"acknowledged units) MemFS.CrashClone is taken with 0%, 100% and a seeded 50% survival of unsynced blocks/directory entries, the clone is " +
		"opened, fully scanned and compared with the set of model states legal at that moment ([last durable unit, last issued unit]); some clones " +
		"are crashed again during recovery. distinct_nontrivial = distinct (history, crash index, recovery depth, matched prefix, recovered version, state size) tuples.")
	n := vcommon.Scale(nq, nt)
	if vcommon.Thorough() {
		o.CloneEvery = 1
	}
	R.Cases(n, func(i int, rng *rand.Rand) {
		h := RunHistory(R, o, i, rng)
		R.Eval(1)
		if i < 1 && !h.Run.Failed() && R.WantSample() {
			R.Sample(map[string]any{"case": i, "config": h.Run.Cfg, "units": h.unitList(bounds{d: 0, issued: min(len(h.T.units)-1, 25)})})
		}
	})
	R.Exhaustive(vcommon.Thorough())
}

func baseKnobs(name string) dbcheck.Knobs {
	return dbcheck.Knobs{Name: name, Units: 70, RangeKeys: true, Batches: true, Maint: true, BigValues: true, NoAutoCompactionsPct: 10}
}

// C10: acknowledged synced writes survive any crash.
func TestVerifC10(t *testing.T) {
	k := baseKnobs("C10")
	k.Ingest, k.Excise, k.Reopen, k.FlushGate = true, true, true, true
	runCrashDeck(t, "C10", "main", Options{Prop: "C10", Knobs: k, CloneEvery: 5, PostSyncEvery: 6, Depth: 1, AllowMixed: true}, 12, 300,
		"Single-writer histories mixing Sync / NoSync / ApplyNoSyncWait+SyncWait commits, large batches, WAL rotation (small memtables), flushes, "+
			"automatic and manual compactions, MANIFEST rotation, ingests, excises and close/reopen. Oracle (contains form): the recovered state must "+
			"equal the model state of a WAL prefix P >= last durable unit, united with every acknowledged ingest/excise.")
}

// C11: crash recovery yields a consistent prefix of the history.
func TestVerifC11(t *testing.T) {
	k := baseKnobs("C11")
	runCrashDeck(t, "C11", "main", Options{Prop: "C11", Knobs: k, CloneEvery: 5, Depth: 1, AllowMixed: false, Restarts: 2}, 12, 300,
		"Histories of batches of all write kinds (deletes, range deletes, merges, single deletes per contract, range keys) with flushes, compactions "+
			"and WAL rotation, 0-2 crash/restart cycles inside the history (the run continues on the recovered clone and the model is rebased on the "+
			"matched prefix). Oracle (literal prefix form): the recovered state must equal the model state after some prefix P in [last durable unit, last issued unit].")
}

// C11 second family: with ingests and excises (known finding: an unsynced
// batch followed by a non-overlapping ingest is not prefix-consistent).
func TestVerifC11Ingest(t *testing.T) {
	k := baseKnobs("C11i")
	k.Ingest, k.Excise, k.FlushGate = true, true, true
	runCrashDeck(t, "C11", "ingest", Options{Prop: "C11", Knobs: k, CloneEvery: 6, Depth: 0, AllowMixed: false, Restarts: 1}, 8, 200,
		"The C11 histories plus Ingest / IngestAndExcise / Excise. The literal prefix oracle is applied; a recovered state that is a batch prefix "+
			"united with later acknowledged ingests/excises (only unsynced batches lost) is reported under the class non-prefix-recovery.")
}

// C12: Flush and Close make all prior writes durable.
func TestVerifC12(t *testing.T) {
	k := baseKnobs("C12")
	k.Reopen = true
	k.MaintHeavy = true
	k.Ingest = true
	runCrashDeck(t, "C12", "main", Options{Prop: "C12", Knobs: k, CloneEvery: 4, PostSyncEvery: 3, Depth: 0, AllowMixed: true,
		Setup: func(r *dbcheck.Run) {
			// NoSync writes and DisableWAL half of the time: Flush/Close are the only durability points.
			r.Cfg.DisableWAL = r.Rng().IntN(2) == 0
			r.NoSyncWrites = true
		}}, 20, 400,
		"NoSync-only histories (half of them with the WAL disabled) with frequent Flush and close/reopen; every crash clone taken after a Flush "+
			"(resp. Close with the WAL enabled) returned must contain every unit committed before it.")
}

// C44 (crash part): separated values survive crashes at every point,
// including inside blob-file rewrites.
func TestVerifC44Crash(t *testing.T) {
	k := baseKnobs("C44c")
	k.ValueSep, k.ForceValueSep, k.MaintHeavy, k.Reopen = true, true, true, true
	k.Units = 90
	runCrashDeck(t, "C44", "crash", Options{Prop: "C44", Knobs: k, CloneEvery: 5, PostSyncEvery: 4, Depth: 0, AllowMixed: true}, 14, 300,
		"Value-separation histories (separation threshold 1-64 bytes, values straddling it, overwrites and deletes producing blob garbage, frequent "+
			"flushes, compactions and blob-file rewrites, close/reopen) with crash clones at filesystem mutations and right after completed syncs; "+
			"every clone must open and every value it holds (read through Get and scans, so blob files are fetched) must equal the model state of a "+
			"legal prefix containing every durable unit.")
}

// C40: format major version ratchets are monotone, durable and lossless.
func TestVerifC40(t *testing.T) {
	k := baseKnobs("C40")
	k.Ratchet, k.RatchetHeavy = true, true
	k.Snapshots, k.SnapAudit, k.AuditEvery = true, true, 10
	runCrashDeck(t, "C40", "main", Options{Prop: "C40", Knobs: k, CloneEvery: 3, Depth: 1, AllowMixed: true}, 30, 400,
		"Stores created at the lower supported format major versions with data written in the old format, ratcheted one step at a time and in jumps "+
			"with snapshots open; crash clones at filesystem mutations inside RatchetFormatMajorVersion must recover a version in [old,new] (>= new "+
			"once the call returned) with contents equal to a legal model state; FormatMajorVersion() never decreases; reads are audited before and after each ratchet.")
}

// C13: OnlyReadGuaranteedDurable reads are consistent and crash-proof.
func TestVerifC13(t *testing.T) {
	k := baseKnobs("C13")
	k.MaintHeavy = true
	runCrashDeck(t, "C13", "main", Options{Prop: "C13", Knobs: k, CloneEvery: 1 << 30, Depth: 0, AllowMixed: true, Extra: DurableIterExtra}, 40, 800,
		"C12-style histories (writes of all kinds, large batches, frequent flushes and compactions); after many steps an OnlyReadGuaranteedDurable "+
			"iterator is scanned completely: its view must equal a prefix state of the model at or after the last successful Flush, and a crash clone "+
			"taken at that moment with 0% survival of unsynced data must recover a state at or ahead of that prefix.")
}

// C13 with ingests (known finding: an ingest enters the LSM ahead of older unflushed batches).
func TestVerifC13Ingest(t *testing.T) {
	k := baseKnobs("C13i")
	k.MaintHeavy, k.Ingest, k.Excise = true, true, true
	runCrashDeck(t, "C13", "ingest", Options{Prop: "C13", Knobs: k, CloneEvery: 1 << 30, Depth: 0, AllowMixed: true, Extra: DurableIterExtra}, 30, 600,
		"The C13 histories plus Ingest / IngestAndExcise / Excise; a durable-only view that is a flushed prefix united with later ingests/excises "+
			"(only unflushed batches missing) is reported under the class durable-view-non-prefix.")
}

// C22: MANIFEST updates are atomic and durable at every crash point.
func TestVerifC22(t *testing.T) {
	k := baseKnobs("C22")
	k.Ingest, k.Excise, k.MaintHeavy, k.Reopen, k.Ratchet = true, true, true, true, true
	runCrashDeck(t, "C22", "main", Options{Prop: "C22", Knobs: k, CloneEvery: 3, PostSyncEvery: 4, Depth: 1, AllowMixed: true, VersionOracle: true,
		Setup: func(r *dbcheck.Run) {
			// rotate the MANIFEST on every edit in a third of the histories
			r.Cfg.MaxManifest = []int64{1, 1 << 10, 128 << 20}[r.Rng().IntN(3)]
		}}, 15, 400,
		"Histories dominated by version updates (flushes, manual and automatic compactions, ingests, excises, format ratchets) with MaxManifestFileSize "+
			"in {1 B = rotate on every edit, 1 KiB, default}. Every crash clone is first opened READ-ONLY: its table layout (per level: file numbers, "+
			"bounds, sequence numbers, sizes, backings, blob references) must equal a version that was installed at or after the last version "+
			"installed before the clone was taken (each installed version is recorded from Options.DebugCheck); then it is opened normally and its "+
			"content checked as in C10. Open failing (marker naming a missing or incomplete MANIFEST) is a violation.")
}

// C38: checkpoints open to a consistent, complete state.
func TestVerifC38(t *testing.T) {
	k := baseKnobs("C38")
	k.Ingest, k.Excise, k.ValueSep = true, true, true
	runCrashDeck(t, "C38", "main", Options{Prop: "C38", Knobs: k, CloneEvery: 1 << 30, Depth: 0, AllowMixed: true, Extra: CheckpointExtra}, 60, 1500,
		"Histories with checkpoints taken at random points (with flushable ingests queued, virtual tables and blob files present, during background "+
			"flushes/compactions), WithFlushedWAL x WithRestrictToSpans; the checkpoint is opened while the source keeps running and its full "+
			"state (or, with restricted spans, the state inside the spans) must equal the model state after some prefix P of the units with "+
			"P >= the last synced unit (>= every committed unit with WithFlushedWAL).")
}

// C43: I/O faults never cause wrong results or inconsistent state.
func TestVerifC43(t *testing.T) {
	R := vcommon.NewReport("C43", "main")
	defer R.Finish(t)
	R.Rule("Histories alternate fault-free phases with phases in which a seeded rule injects errorfs.ErrInjected into filesystem operations (by op " +
		"kind: read / open+stat / write / sync / create / close / remove / link+rename; by file type: tables, blobs, ingest sources; after k matching " +
		"ops; one-shot or a window of up to 40 ops). Under faults every Get / scan / Flush / Compact / Ingest may return an error but a success " +
		"must match the model (scans: every position before an error; iterator errors must be sticky); a failed Ingest must have no effect. After the " +
		"faults stop: full audit against the model, CheckLevels, a crash clone (0/50/100 % survival) recovering to a legal prefix state, optional " +
		"reopen. WAL/MANIFEST faults (fatal by design) are not injected. distinct_nontrivial = distinct (history, round, rule, position, injections) with >= 1 injected fault.")
	n := vcommon.Scale(120, 1500)
	k := dbcheck.Knobs{Name: "C43", Units: 0, RangeKeys: true, Batches: true, Maint: true, Ingest: true, BigValues: true, ValueSep: true,
		Snapshots: true, NoAutoCompactionsPct: 10, TinyCaches: true}
	R.Cases(n, func(i int, rng *rand.Rand) {
		RunFaultHistory(R, k, i, rng)
	})
}
