package crash

import (
	"math/rand/v2"
	"testing"

	"github.com/cockroachdb/pebble/internal/verif/dbcheck"
	"github.com/cockroachdb/pebble/internal/verif/vcommon"
)

func runCrashDeck(t *testing.T, prop, part string, o Options, nq, nt int, rule string) {
	R := vcommon.NewReport(prop, part)
	defer R.Finish(t)
	R.Rule(rule + " Every history runs on vfs.NewCrashableMem behind an observing errorfs; at the selected filesystem-mutation indices (and after " +
		"acknowledged units) MemFS.CrashClone is taken with 0%, 100% and a seeded 50% survival of unsynced blocks/directory entries, the clone is " +
		"opened, fully scanned and compared with the set of model states legal at that moment ([last durable unit, last issued unit]); some clones " +
		"are crashed again during recovery. distinct_nontrivial = distinct (history, crash index, recovery depth, matched prefix, recovered version, state size) tuples.")
	n := vcommon.Scale(nq, nt)
	if vcommon.Thorough() {
		o.CloneEvery = 1
	}
	R.Cases(n, func(i int, rng *rand.Rand) {
		h := RunHistory(R, o, i, rng)
		R.Eval(1)
		if i < 1 && !h.Run.Failed() && R.WantSample() {
			R.Sample(map[string]any{"case": i, "config": h.Run.Cfg, "units": h.unitList(bounds{d: 0, issued: min(len(h.T.units)-1, 25)})})
		}
	})
	R.Exhaustive(vcommon.Thorough())
}

func baseKnobs(name string) dbcheck.Knobs {
	return dbcheck.Knobs{Name: name, Units: 70, RangeKeys: true, Batches: true, Maint: true, BigValues: true, NoAutoCompactionsPct: 10}
}

// C10: acknowledged synced writes survive any crash.
func TestVerifC10(t *testing.T) {
	k := baseKnobs("C10")
	k.Ingest, k.Excise, k.Reopen = true, true, true
	runCrashDeck(t, "C10", "main", Options{Prop: "C10", Knobs: k, CloneEvery: 5, Depth: 1, AllowMixed: true}, 12, 300,
		"Single-writer histories mixing Sync / NoSync / ApplyNoSyncWait+SyncWait commits, large batches, WAL rotation (small memtables), flushes, "+
			"automatic and manual compactions, MANIFEST rotation, ingests, excises and close/reopen. Oracle (contains form): the recovered state must "+
			"equal the model state of a WAL prefix P >= last durable unit, united with every acknowledged ingest/excise.")
}

// C11: crash recovery yields a consistent prefix of the history.
func TestVerifC11(t *testing.T) {
	k := baseKnobs("C11")
	runCrashDeck(t, "C11", "main", Options{Prop: "C11", Knobs: k, CloneEvery: 5, Depth: 1, AllowMixed: false, Restarts: 2}, 12, 300,
		"Histories of batches of all write kinds (deletes, range deletes, merges, single deletes per contract, range keys) with flushes, compactions "+
			"and WAL rotation, 0-2 crash/restart cycles inside the history (the run continues on the recovered clone and the model is rebased on the "+
			"matched prefix). Oracle (literal prefix form): the recovered state must equal the model state after some prefix P in [last durable unit, last issued unit].")
}

// C11 second family: with ingests and excises (known finding: an unsynced
// batch followed by a non-overlapping ingest is not prefix-consistent).
func TestVerifC11Ingest(t *testing.T) {
	k := baseKnobs("C11i")
	k.Ingest, k.Excise = true, true
	runCrashDeck(t, "C11", "ingest", Options{Prop: "C11", Knobs: k, CloneEvery: 6, Depth: 0, AllowMixed: false, Restarts: 1}, 8, 200,
		"The C11 histories plus Ingest / IngestAndExcise / Excise. The literal prefix oracle is applied; a recovered state that is a batch prefix "+
			"united with later acknowledged ingests/excises (only unsynced batches lost) is reported under the class non-prefix-recovery.")
}

// C12: Flush and Close make all prior writes durable.
func TestVerifC12(t *testing.T) {
	k := baseKnobs("C12")
	k.Reopen = true
	k.MaintHeavy = true
	k.Ingest = true
	runCrashDeck(t, "C12", "main", Options{Prop: "C12", Knobs: k, CloneEvery: 4, Depth: 0, AllowMixed: true,
		Setup: func(r *dbcheck.Run) {
			// NoSync writes and DisableWAL half of the time: Flush/Close are the only durability points.
			r.Cfg.DisableWAL = r.Rng().IntN(2) == 0
			r.NoSyncWrites = true
		}}, 20, 400,
		"NoSync-only histories (half of them with the WAL disabled) with frequent Flush and close/reopen; every crash clone taken after a Flush "+
			"(resp. Close with the WAL enabled) returned must contain every unit committed before it.")
}

// C40: format major version ratchets are monotone, durable and lossless.
func TestVerifC40(t *testing.T) {
	k := baseKnobs("C40")
	k.Ratchet, k.RatchetHeavy = true, true
	k.Snapshots, k.SnapAudit, k.AuditEvery = true, true, 10
	runCrashDeck(t, "C40", "main", Options{Prop: "C40", Knobs: k, CloneEvery: 3, Depth: 1, AllowMixed: true}, 30, 400,
		"Stores created at the lower supported format major versions with data written in the old format, ratcheted one step at a time and in jumps "+
			"with snapshots open; crash clones at filesystem mutations inside RatchetFormatMajorVersion must recover a version in [old,new] (>= new "+
			"once the call returned) with contents equal to a legal model state; FormatMajorVersion() never decreases; reads are audited before and after each ratchet.")
}
