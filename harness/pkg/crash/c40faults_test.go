package crash

import (
	"fmt"
	"math/rand/v2"
	"strings"
	"sync/atomic"
	"testing"

	"github.com/cockroachdb/pebble"
	"github.com/cockroachdb/pebble/internal/verif/vcommon"
	"github.com/cockroachdb/pebble/vfs"
	"github.com/cockroachdb/pebble/vfs/errorfs"
)

// TestVerifC40Faults: a ratchet that returned nil is durable, also when an
// earlier attempt failed on an I/O error on the format-version marker.
func TestVerifC40Faults(t *testing.T) {
	R := vcommon.NewReport("C40", "faults")
	defer R.Finish(t)
	R.Rule("Stores created at a random supported format major version with a little data are ratcheted step by step (and in jumps) while a one-shot " +
		"injected error hits the k-th filesystem operation on the marker.format-version.* files (create, write, sync, close, rename/link, remove, directory sync) of " +
		"seeded ratchet calls. A failed call may leave the version unchanged or advanced by whole steps; FormatMajorVersion() never decreases; as soon as a " +
		"RatchetFormatMajorVersion(v) call returned nil (first try or a retry), FormatMajorVersion() >= v, a crash clone with 0 % survival of unsynced data " +
		"reopens at >= v, and so does the store after Close; all keys stay readable. distinct_nontrivial = (start version, failing op kind, op index) triples that fired.")
	n := vcommon.Scale(120, 2500)
	R.Cases(n, func(ci int, rng *rand.Rand) {
		mem := vfs.NewCrashableMem()
		var armed atomic.Int64 // >0: fail the armed-th matching op
		var fired atomic.Int64
		var firedKind atomic.Value
		inj := errorfs.InjectorFunc(func(op errorfs.Op) error {
			if !strings.Contains(op.Path, "marker.format-version") {
				return nil
			}
			if a := armed.Load(); a > 0 {
				if armed.Add(-1) == 0 {
					fired.Add(1)
					firedKind.Store(fmt.Sprint(op.Kind))
					return errorfs.ErrInjected
				}
			}
			return nil
		})
		fs := errorfs.Wrap(mem, inj)
		start := pebble.FormatMinSupported + pebble.FormatMajorVersion(rng.IntN(int(pebble.FormatNewest-pebble.FormatMinSupported)))
		open := func(f vfs.FS, fmv pebble.FormatMajorVersion) (*pebble.DB, error) {
			return pebble.Open("db", &pebble.Options{FS: f, FormatMajorVersion: fmv, Logger: quietLog{}})
		}
		fail := func(class, format string, a ...any) {
			R.Violate(class, fmt.Sprintf("[C40 faults case %d, start version %d] ", ci, start)+fmt.Sprintf(format, a...), map[string]any{"case": ci, "start": int(start)}, nil)
		}
		d, err := open(fs, start)
		if err != nil {
			fail("harness-open", "%v", err)
			return
		}
		for j := 0; j < 20; j++ {
			_ = d.Set([]byte(fmt.Sprintf("k%02d", j)), []byte(fmt.Sprintf("v%d", j)), pebble.Sync)
		}
		_ = d.Flush()
		promised := d.FormatMajorVersion()
		last := promised
		checkKeys := func(db *pebble.DB, where string) {
			for j := 0; j < 20; j++ {
				v, c, err := db.Get([]byte(fmt.Sprintf("k%02d", j)))
				if err != nil || string(v) != fmt.Sprintf("v%d", j) {
					fail("data-lost-across-ratchet", "%s: Get(k%02d) = %q, %v", where, j, v, err)
					return
				}
				c.Close()
			}
		}
		for step := 0; step < 6 && d.FormatMajorVersion() < pebble.FormatNewest; step++ {
			cur := d.FormatMajorVersion()
			target := cur + 1
			if rng.IntN(3) == 0 {
				target = cur + pebble.FormatMajorVersion(1+rng.IntN(int(pebble.FormatNewest-cur)))
			}
			withFault := rng.IntN(3) != 0
			if withFault {
				armed.Store(int64(1 + rng.IntN(8)))
			}
			f0 := fired.Load()
			err := d.RatchetFormatMajorVersion(target)
			armed.Store(0)
			R.Eval(1)
			if fired.Load() > f0 {
				k, _ := firedKind.Load().(string)
				R.Distinct(int(start), k, int(cur))
				R.Count("ratchet_calls_with_an_injected_marker_fault", 1)
			}
			if err != nil {
				R.Count("ratchet_calls_failed", 1)
				// retry without faults: must succeed
				if err2 := d.RatchetFormatMajorVersion(target); err2 != nil {
					fail("ratchet-retry-failed", "RatchetFormatMajorVersion(%d) failed (%v) and the fault-free retry failed too: %v", target, err, err2)
					break
				}
			}
			promised = target
			if got := d.FormatMajorVersion(); got < promised {
				fail("ratchet-not-applied", "RatchetFormatMajorVersion(%d) returned nil but FormatMajorVersion() = %d", promised, got)
				break
			}
			if got := d.FormatMajorVersion(); got < last {
				fail("format-version-decreased", "FormatMajorVersion() went from %d to %d", last, got)
				break
			}
			last = d.FormatMajorVersion()
			// a crash right now must recover at >= promised
			clone := mem.CrashClone(vfs.CrashCloneCfg{UnsyncedDataPercent: 0})
			cd, err := open(clone, pebble.FormatMinSupported)
			if err != nil {
				fail("recovery-open-failed", "crash clone after Ratchet(%d) returned nil does not open: %v", promised, err)
				break
			}
			if got := cd.FormatMajorVersion(); got < promised {
				fail("ratchet-not-durable", "RatchetFormatMajorVersion(%d) returned nil (an earlier attempt had failed: %v), but a crash clone reopens at format major version %d", promised, err != nil, got)
			}
			checkKeys(cd, "crash clone")
			cd.Close()
			R.Count("crash_clones_reopened", 1)
		}
		checkKeys(d, "live store")
		if err := d.Close(); err != nil {
			fail("close-error", "%v", err)
			return
		}
		rd, err := open(fs, pebble.FormatMinSupported)
		if err != nil {
			fail("reopen-failed", "%v", err)
			return
		}
		if got := rd.FormatMajorVersion(); got < promised {
			fail("ratchet-not-durable", "RatchetFormatMajorVersion(%d) had returned nil, but after Close and reopen the store reports format major version %d", promised, got)
		}
		checkKeys(rd, "after reopen")
		rd.Close()
	})
}

type quietLog struct{}

func (quietLog) Infof(string, ...interface{})  {}
func (quietLog) Errorf(string, ...interface{}) {}
func (quietLog) Fatalf(f string, a ...interface{}) {
	panic(fmt.Sprintf("pebble Fatalf: "+f, a...))
}
