package crash

import (
	"fmt"
	"math/rand/v2"
	"os"
	"runtime/debug"
	"strings"
	"sync"
	"sync/atomic"

	"github.com/cockroachdb/pebble"
	"github.com/cockroachdb/pebble/internal/base"
	"github.com/cockroachdb/pebble/internal/verif/dbcheck"
	"github.com/cockroachdb/pebble/internal/verif/model"
	"github.com/cockroachdb/pebble/internal/verif/vcommon"
	"github.com/cockroachdb/pebble/vfs"
	"github.com/cockroachdb/pebble/vfs/errorfs"
)

// Retract removes the last issued (and failed) unit from the tracker: an
// operation that returned an error must have had no effect.
func (t *Tracker) Retract() {
	t.mu.Lock()
	if t.issued == len(t.units)-1 && t.issued > t.acked {
		t.units = t.units[:len(t.units)-1]
		t.issued = len(t.units) - 1
	}
	t.mu.Unlock()
}

// faultRule describes which operations fail.
type faultRule struct {
	Name      string
	Kinds     errorfs.OpKinds
	FileTypes map[base.FileType]bool // nil = any parsable or unparsable path except WAL/MANIFEST/marker/lock
	External  bool                   // also hit files outside the store (ingest sources)
	Skip      int64                  // let this many matching ops pass first
	Count     int64                  // then fail this many (large = window)
}

type faultInjector struct {
	mu      sync.Mutex
	rule    *faultRule
	seen    int64
	fired   atomic.Int64
	firedBy map[string]int64
	memfs   vfs.FS
}

// fatal-by-design files are never faulted: WAL and MANIFEST write/sync errors
// call Logger.Fatalf (DESIGN.md §1.5).
func (fi *faultInjector) match(op errorfs.Op) bool {
	r := fi.rule
	if r == nil || !r.Kinds.Contains(op.Kind) {
		return false
	}
	ft, _, ok := base.ParseFilename(fi.memfs, op.Path)
	if !ok {
		// directories, external files, marker files
		bn := fi.memfs.PathBase(op.Path)
		if len(bn) >= 6 && bn[:6] == "marker" {
			return false
		}
		if len(bn) > 4 && bn[len(bn)-4:] == ".sst" {
			return r.External
		}
		return false
	}
	switch ft {
	case base.FileTypeLog, base.FileTypeManifest, base.FileTypeLock:
		return false
	}
	if r.FileTypes != nil && !r.FileTypes[ft] {
		return false
	}
	return true
}

func (fi *faultInjector) MaybeError(op errorfs.Op) error {
	fi.mu.Lock()
	defer fi.mu.Unlock()
	if !fi.match(op) {
		return nil
	}
	fi.seen++
	if fi.seen <= fi.rule.Skip || fi.seen > fi.rule.Skip+fi.rule.Count {
		return nil
	}
	fi.fired.Add(1)
	if fi.firedBy == nil {
		fi.firedBy = map[string]int64{}
	}
	fi.firedBy[fmt.Sprintf("%s:%v", fi.rule.Name, op.Kind)]++
	if os.Getenv("VERIF_FAULT_STACKS") != "" {
		fmt.Printf("INJECTED %s %v %s\n%s\n", fi.rule.Name, op.Kind, op.Path, debug.Stack())
	}
	return errorfs.ErrInjected
}

func (fi *faultInjector) String() string { return "verif-fault-injector" }

func (fi *faultInjector) set(r *faultRule) {
	fi.mu.Lock()
	fi.rule = r
	fi.seen = 0
	fi.mu.Unlock()
}

func drawRule(rng *rand.Rand) *faultRule {
	tables := map[base.FileType]bool{base.FileTypeTable: true, base.FileTypeBlob: true}
	rules := []faultRule{
		{Name: "read-table", Kinds: errorfs.MakeOpKinds(errorfs.OpFileReadAt, errorfs.OpFileRead), FileTypes: tables},
		{Name: "read-table", Kinds: errorfs.MakeOpKinds(errorfs.OpFileReadAt, errorfs.OpFileRead), FileTypes: tables},
		{Name: "open-table", Kinds: errorfs.MakeOpKinds(errorfs.OpOpen, errorfs.OpFileStat, errorfs.OpStat), FileTypes: tables},
		{Name: "write-table", Kinds: errorfs.MakeOpKinds(errorfs.OpFileWrite, errorfs.OpFileWriteAt, errorfs.OpFileFlush), FileTypes: tables},
		{Name: "sync-table", Kinds: errorfs.MakeOpKinds(errorfs.OpFileSync, errorfs.OpFileSyncData, errorfs.OpFileSyncTo), FileTypes: tables},
		{Name: "create-table", Kinds: errorfs.MakeOpKinds(errorfs.OpCreate), FileTypes: tables},
		{Name: "close-table", Kinds: errorfs.MakeOpKinds(errorfs.OpFileClose), FileTypes: tables},
		{Name: "remove", Kinds: errorfs.MakeOpKinds(errorfs.OpRemove), FileTypes: tables},
		{Name: "link-rename", Kinds: errorfs.MakeOpKinds(errorfs.OpLink, errorfs.OpRename), FileTypes: nil, External: true},
		{Name: "any-table-io", Kinds: errorfs.MakeOpKinds(errorfs.OpFileReadAt, errorfs.OpFileWrite, errorfs.OpFileSync, errorfs.OpCreate, errorfs.OpOpen), FileTypes: tables},
	}
	r := rules[rng.IntN(len(rules))]
	r.Skip = int64(rng.IntN(6))
	if rng.IntN(2) == 0 {
		r.Count = 1 // one shot
	} else {
		r.Count = int64(1 + rng.IntN(40)) // ENOSPC-style window
	}
	return &r
}

// RunFaultHistory executes one fault-injection history (C43).
func RunFaultHistory(R *vcommon.Report, k dbcheck.Knobs, caseIdx int, rng *rand.Rand) {
	h := &Harness{R: R, CloneEvery: 1 << 30, Depth: 0, allowMixed: true, seed: vcommon.Seed()*1000003 + uint64(caseIdx)}
	h.mem = vfs.NewCrashableMem()
	fi := &faultInjector{memfs: h.mem}
	fs := errorfs.Wrap(h.mem, fi)
	run := dbcheck.NewRunFS(R, "C43", k, caseIdx, rng, fs, func(r *dbcheck.Run) {
		r.NoFinalClose = true
		r.Cfg.DisableWAL = false
		// Options.DebugCheck reads tables on every version install and turns an
		// injected read error into Fatalf; structural checks run after the
		// faults stop instead.
		r.OptsHook = func(o *pebble.Options) { o.DebugCheck = nil }
	})
	h.Run = run
	if run.Failed() {
		return
	}
	h.T = newTracker(model.NewState(), int(run.DB().FormatMajorVersion()))
	run.Hook = h.T
	R.Eval(1)
	rounds := 2 + rng.IntN(3)
	for round := 0; round < rounds && !run.Failed(); round++ {
		// phase A: ordinary steps
		for i := 0; i < 25 && !run.Failed(); i++ {
			run.StepOnce()
		}
		if run.Failed() {
			break
		}
		// phase B: faults active
		rule := drawRule(rng)
		run.Log("FAULTS ON: %s skip=%d count=%d", rule.Name, rule.Skip, rule.Count)
		before := fi.fired.Load()
		surv := run.SurvivorOpen()
		run.SurvivorSeeks(surv, 6, false)
		fi.set(rule)
		errs := 0
		for i := 0; i < 24 && !run.Failed(); i++ {
			var e bool
			x := rng.IntN(15)
			if (rule.Name == "read-table" || rule.Name == "any-table-io") && rng.IntN(2) == 0 {
				x = 12 // read faults: mostly drive the long-lived iterator
			}
			switch {
			case x >= 12:
				if rule.Name == "read-table" || rule.Name == "any-table-io" {
					run.SurvivorSeeks(surv, 12, true)
				} else {
					run.SurvivorSeeks(surv, 3, true)
				}
			case x < 3:
				run.WriteStep()
			case x < 5:
				e = run.TolerantGet()
			case x < 8:
				e = run.TolerantScan()
			case x < 10:
				e = run.TolerantMaint()
			default:
				e = run.TolerantIngest()
			}
			if e {
				errs++
			}
		}
		fi.set(nil)
		fired := fi.fired.Load() - before
		// the long-lived iterator must work again, and correctly
		run.SurvivorSeeks(surv, 10, false)
		run.SurvivorClose(surv)
		run.Log("FAULTS OFF: %d injected, %d operations returned an error", fired, errs)
		R.Count("fault_rounds", 1)
		if fired > 0 {
			R.Count("fault_rounds_with_injections", 1)
			R.Distinct("fault", caseIdx, round, rule.Name, rule.Skip, rule.Count, fired)
		}
		if errs > 0 && fired == 0 {
			run.Fail("error-without-fault", "%d operation(s) returned an error although no fault was injected in this round", errs)
			break
		}
		bg := run.BackgroundErrors()
		R.Count("background_errors_under_faults", int64(len(bg)))
		// A background job that hit an injected error in an EARLIER round may
		// report it only now (the event is asynchronous): errors that carry the
		// injected error are attributed to the injections of the whole history.
		var foreign []string
		for _, e := range bg {
			if !strings.Contains(e, errorfs.ErrInjected.Error()) || fi.fired.Load() == 0 {
				foreign = append(foreign, e)
			}
		}
		if len(foreign) > 0 && fired == 0 {
			run.Fail("background-error", "background error without an injected fault: %s", foreign[0])
			break
		}
		if run.Failed() {
			break
		}
		// phase C: faults stopped; everything must be consistent again
		run.Audit(fmt.Sprintf("after-faults(%s)", rule.Name))
		if run.Failed() {
			break
		}
		h.enabled.Store(true)
		h.cloneAndCheck(fmt.Sprintf("after-faults-round-%d", round), int64(1<<44)+int64(round))
		h.enabled.Store(false)
		if run.Failed() {
			break
		}
		if rng.IntN(2) == 0 {
			run.Reopen()
			if !run.Failed() {
				run.BackgroundErrors()
			}
		}
	}
	fi.mu.Lock()
	for k, v := range fi.firedBy {
		R.Count("injected["+k+"]", v)
	}
	fi.mu.Unlock()
	run.BackgroundErrors()
	run.Finish()
	run.CloseAll()
	R.Count("crash_clones_taken", h.clones)
}
