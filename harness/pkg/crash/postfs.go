package crash

import (
	"fmt"
	"runtime"

	"github.com/cockroachdb/pebble/internal/verif/vcommon"
	"github.com/cockroachdb/pebble/vfs"
)

// postFS adds crash points AFTER a sync has completed (of a file or of a
// directory), in the goroutine that issued it and before that goroutine can
// record that the sync happened. The errorfs observer underneath only sees
// operations before they execute. Taking and auditing a clone here also stalls
// the syncing job for a while, so that other jobs create, write and sync files
// in the window between "the sync finished" and "the job noted what it covers".
type postFS struct {
	vfs.FS
	h *Harness
}

func (f postFS) wrap(file vfs.File, err error, name string, dir bool) (vfs.File, error) {
	if err != nil || file == nil {
		return file, err
	}
	return &postFile{File: file, h: f.h, name: name, dir: dir}, nil
}

func (f postFS) Create(name string, cat vfs.DiskWriteCategory) (vfs.File, error) {
	file, err := f.FS.Create(name, cat)
	return f.wrap(file, err, name, false)
}

func (f postFS) OpenReadWrite(name string, cat vfs.DiskWriteCategory, opts ...vfs.OpenOption) (vfs.File, error) {
	file, err := f.FS.OpenReadWrite(name, cat, opts...)
	return f.wrap(file, err, name, false)
}

func (f postFS) ReuseForWrite(oldname, newname string, cat vfs.DiskWriteCategory) (vfs.File, error) {
	file, err := f.FS.ReuseForWrite(oldname, newname, cat)
	return f.wrap(file, err, newname, false)
}

func (f postFS) OpenDir(name string) (vfs.File, error) {
	file, err := f.FS.OpenDir(name)
	return f.wrap(file, err, name, true)
}

type postFile struct {
	vfs.File
	h    *Harness
	name string
	dir  bool
}

func (p *postFile) Sync() error {
	err := p.File.Sync()
	if err == nil {
		p.h.afterSync(p.name, p.dir)
	}
	return err
}

func (p *postFile) SyncData() error {
	err := p.File.SyncData()
	if err == nil {
		p.h.afterSync(p.name, p.dir)
	}
	return err
}

func (p *postFile) SyncTo(length int64) (bool, error) {
	full, err := p.File.SyncTo(length)
	if err == nil && full {
		p.h.afterSync(p.name, p.dir)
	}
	return full, err
}

// afterSync is the post-sync crash point.
func (h *Harness) afterSync(name string, dir bool) {
	if !h.enabled.Load() || h.PostSyncEvery <= 0 {
		return
	}
	i := h.postIdx.Add(1)
	every := h.PostSyncEvery
	if dir {
		every = (every + 3) / 4 // directory syncs are rarer and guard file creation
	}
	if every > 1 && vcommon.RNG("postsync", h.seed, i).IntN(every) != 0 {
		runtime.Gosched()
		return
	}
	what := "file"
	if dir {
		what = "dir"
	}
	h.cloneAndCheck(fmt.Sprintf("after-%s-sync#%d:%s", what, i, shortPath(name)), int64(1<<42)+i)
}
