// Package crash is the crash harness of DESIGN.md §3.4: histories run on a
// crashable MemFS behind an observing errorfs; crash clones are taken at
// filesystem-mutation indices, reopened and audited against the set of model
// states that are legal at that moment.
package crash

import (
	"fmt"
	"math/rand/v2"
	"sort"
	"strings"
	"sync"
	"sync/atomic"

	"github.com/cockroachdb/pebble"
	"github.com/cockroachdb/pebble/internal/verif/dbcheck"
	"github.com/cockroachdb/pebble/internal/verif/model"
	"github.com/cockroachdb/pebble/internal/verif/vcommon"
	"github.com/cockroachdb/pebble/vfs"
	"github.com/cockroachdb/pebble/vfs/errorfs"
)

type unit struct {
	desc    string
	kind    string // "init" | "batch" | "ingest" | "excise"
	durable bool   // durable when acknowledged
	apply   func(st *model.State)
	state   *model.State // state after units 0..i
	canon   string
}

// Tracker records issued / acknowledged units and durability points. It
// implements dbcheck.UnitHook and dbcheck.RatchetHook.
type Tracker struct {
	mu     sync.Mutex
	units  []unit
	issued int // index of the last issued unit
	acked  int // index of the last acknowledged unit
	d      int // every unit <= d is durable as part of a prefix (sync commit, Flush, Close)
	ing    int // index of the last acknowledged ingest/excise (durable on its own)
	hasIng bool
	flushed int // index acked when the last Flush returned

	fmvLo, fmvHi int // recovered format major version must lie in [fmvLo, fmvHi]

	// noWAL: the store runs with DisableWAL. An ingest or excise that overlaps
	// the memtable is then queued as a flushable WITHOUT any log record and is
	// lost by a crash, while a later ingest that overlaps nothing in the queue
	// goes straight into the LSM (MANIFEST) and survives: any subset of the
	// ingests/excises after the flushed prefix may survive.
	noWAL bool
}

func newTracker(init *model.State, fmv int) *Tracker {
	t := &Tracker{fmvLo: fmv, fmvHi: fmv}
	t.units = []unit{{desc: "init", kind: "init", state: init.Clone(), canon: dbcheck.CanonFull(init)}}
	return t
}

// Issue implements dbcheck.UnitHook.
func (t *Tracker) Issue(desc, kind string, apply func(st *model.State), durableOnAck bool) {
	t.mu.Lock()
	st := t.units[len(t.units)-1].state.Clone()
	apply(st)
	t.units = append(t.units, unit{desc: desc, kind: kind, durable: durableOnAck, apply: apply, state: st, canon: dbcheck.CanonFull(st)})
	t.issued = len(t.units) - 1
	if kind != "batch" {
		t.hasIng = true
	}
	t.mu.Unlock()
}

// Ack implements dbcheck.UnitHook.
func (t *Tracker) Ack() {
	t.mu.Lock()
	t.acked = t.issued
	u := t.units[t.acked]
	if u.durable {
		if u.kind == "batch" {
			t.d = t.acked
		} else {
			t.ing = t.acked
		}
	}
	t.mu.Unlock()
}

// Durable implements dbcheck.UnitHook.
func (t *Tracker) Durable(what string) {
	t.mu.Lock()
	t.d = t.acked
	if what == "Flush" {
		t.flushed = t.acked
	}
	t.mu.Unlock()
}

// RatchetIssue implements dbcheck.RatchetHook.
func (t *Tracker) RatchetIssue(from, to int) {
	t.mu.Lock()
	if to > t.fmvHi {
		t.fmvHi = to
	}
	t.mu.Unlock()
}

// RatchetAck implements dbcheck.RatchetHook.
func (t *Tracker) RatchetAck(now int) {
	t.mu.Lock()
	t.fmvLo = now
	if now > t.fmvHi {
		t.fmvHi = now
	}
	t.mu.Unlock()
}

type bounds struct {
	d, ing, acked, issued int
	fmvLo, fmvHi          int
}

// before reads the lower bounds (must be read BEFORE the clone is taken).
func (t *Tracker) before() bounds {
	t.mu.Lock()
	defer t.mu.Unlock()
	return bounds{d: t.d, ing: t.ing, acked: t.acked, fmvLo: t.fmvLo}
}

// after completes the bounds with the upper limits (read AFTER the clone).
func (t *Tracker) after(b bounds) bounds {
	t.mu.Lock()
	defer t.mu.Unlock()
	b.issued = t.issued
	b.fmvHi = t.fmvHi
	return b
}

// Verdict of matching a recovered state against the legal set.
type Verdict struct {
	OK        bool
	Prefix    int  // matched prefix index (batches), -1 if none
	Q         int  // for mixed matches: ingests up to Q applied on top of prefix
	Mixed     bool // matched only as batch-prefix ∪ later ingests/excises
	State     *model.State
	LostBatch int // number of batch units skipped in a mixed match
}

// match finds the legal state equal to canon.
func (t *Tracker) match(canon string, b bounds) Verdict {
	return t.matchRender(canon, b, nil)
}

// matchRender is match with a custom rendering of states (nil = full state).
func (t *Tracker) matchRender(canon string, b bounds, render func(st *model.State) string) Verdict {
	t.mu.Lock()
	units := t.units[:b.issued+1]
	t.mu.Unlock()
	lo := b.d
	if b.ing > lo {
		lo = b.ing
	}
	// A. literal prefix states
	for p := b.issued; p >= lo; p-- {
		if (render == nil && units[p].canon == canon) || (render != nil && render(units[p].state) == canon) {
			return Verdict{OK: true, Prefix: p, Q: p, State: units[p].state}
		}
	}
	// B. batch prefix P ∈ [d, issued] plus ingests/excises in (P, Q], Q ≥ ing
	anyIng := false
	for _, u := range units {
		if u.kind == "ingest" || u.kind == "excise" {
			anyIng = true
		}
	}
	if !anyIng {
		return Verdict{Prefix: -1}
	}
	for p := b.d; p <= b.issued; p++ {
		st := units[p].state.Clone()
		lost := 0
		for q := p + 1; q <= b.issued; q++ {
			if units[q].kind == "batch" {
				lost++
				continue
			}
			units[q].apply(st)
			if q >= b.ing && lost > 0 && ((render == nil && dbcheck.CanonFull(st) == canon) || (render != nil && render(st) == canon)) {
				return Verdict{OK: true, Prefix: p, Q: q, Mixed: true, State: st, LostBatch: lost}
			}
		}
	}
	// C. without a WAL: batch prefix P plus any subset of the later ingests/excises
	if t.noWAL {
		for p := b.d; p <= b.issued; p++ {
			var later []int
			for q := p + 1; q <= b.issued; q++ {
				if units[q].kind != "batch" {
					later = append(later, q)
				}
			}
			if len(later) == 0 || len(later) > 10 {
				continue
			}
			for mask := 1; mask < 1<<len(later); mask++ {
				st := units[p].state.Clone()
				last := p
				for i, q := range later {
					if mask&(1<<i) != 0 {
						units[q].apply(st)
						last = q
					}
				}
				if (render == nil && dbcheck.CanonFull(st) == canon) || (render != nil && render(st) == canon) {
					return Verdict{OK: true, Prefix: p, Q: last, Mixed: true, State: st, LostBatch: last - p - 1}
				}
			}
		}
	}
	return Verdict{Prefix: -1}
}

// Harness ties a dbcheck.Run to a crashable file system.
type Harness struct {
	R       *vcommon.Report
	Run     *dbcheck.Run
	T       *Tracker
	mem     *vfs.MemFS
	enabled atomic.Bool
	opIdx   atomic.Int64
	seed    uint64
	// CloneEvery: take clones at FS-mutation indices i with i % CloneEvery == phase.
	CloneEvery int
	// PostSyncEvery: take clones right after every k-th completed sync (0 = never).
	PostSyncEvery int
	postIdx       atomic.Int64
	Depth      int
	strictPrefix bool // C11 main family: no ingests generated; a mixed match is impossible
	allowMixed   bool
	checkMu sync.Mutex

	clones, opens, nested int64
	matchedBehind         int64 // clones whose match was strictly behind `acked` (unsynced loss observed)
	matchedAhead          int64 // clones that contained an un-acknowledged unit
	mixed                 int64
	windows               map[string]int64

	// version oracle (C22)
	versionOracle bool
	vmu           sync.Mutex
	versions      []string // signatures of installed versions, in install order
	pendingV      []pendingVersion
	versionChecks int64
	ckptN         int
}

type pendingVersion struct {
	sig   string
	lo    int
	where string
}

// versionSig renders the table layout of a DB: per level the tables with file
// number, bounds, sequence numbers, size, backing and blob references.
func versionSig(db *pebble.DB) string {
	lv, err := db.SSTables()
	if err != nil {
		return "error: " + err.Error()
	}
	var sb strings.Builder
	for l, ts := range lv {
		var rows []string
		for _, t := range ts {
			rows = append(rows, fmt.Sprintf("%06d[%s-%s]#%d-%d sz=%d virt=%v back=%d blobs=%v", t.FileNum, t.Smallest.Pretty(nil2fmt), t.Largest.Pretty(nil2fmt),
				t.SmallestSeqNum, t.LargestSeqNum, t.Size, t.Virtual, t.BackingSSTNum, t.GetBlobReferenceFiles()))
		}
		sort.Strings(rows)
		fmt.Fprintf(&sb, "L%d: %s\n", l, strings.Join(rows, " | "))
	}
	return sb.String()
}

func nil2fmt(k []byte) fmt.Formatter { return keyFmt(k) }

type keyFmt []byte

func (k keyFmt) Format(s fmt.State, c rune) { fmt.Fprintf(s, "%q", []byte(k)) }

func (h *Harness) recordVersion(db *pebble.DB) {
	sig := versionSig(db)
	h.vmu.Lock()
	if n := len(h.versions); n == 0 || h.versions[n-1] != sig {
		h.versions = append(h.versions, sig)
	}
	h.vmu.Unlock()
}

// checkVersionOf opens the clone read-only and remembers its version for the
// end-of-history comparison.
func (h *Harness) checkVersionOf(fs *vfs.MemFS, lo int, where string) {
	o := dbcheck.MakeOptions(h.Run.Cfg, fs, nil)
	o.FormatMajorVersion = pebble.FormatMinSupported
	o.ReadOnly = true
	o.DebugCheck = nil
	db, err := pebble.Open(h.Run.Dir, o)
	if err != nil {
		h.Run.FailMatch("recovery-open-failed", nil, "crash at %s: read-only Open of the crash clone failed: %v", where, err)
		return
	}
	sig := versionSig(db)
	db.Close()
	h.vmu.Lock()
	h.pendingV = append(h.pendingV, pendingVersion{sig: sig, lo: lo, where: where})
	h.vmu.Unlock()
}

// finishVersions verifies every remembered clone version against the versions
// installed at or after the clone's lower bound.
func (h *Harness) finishVersions() {
	h.vmu.Lock()
	defer h.vmu.Unlock()
	for _, p := range h.pendingV {
		ok := false
		for j := p.lo; j < len(h.versions); j++ {
			if j >= 0 && h.versions[j] == p.sig {
				ok = true
				break
			}
		}
		h.versionChecks++
		if !ok {
			older := -1
			for j := 0; j < p.lo && j < len(h.versions); j++ {
				if h.versions[j] == p.sig {
					older = j
				}
			}
			lo := p.lo
			if lo < 0 {
				lo = 0
			}
			want := ""
			if lo < len(h.versions) {
				want = h.versions[lo]
			}
			h.Run.FailMatch("recovered-version-illegal", map[string]any{"older_version_index": older},
				"crash at %s: the recovered version equals none of the versions installed at or after version #%d (it equals older version #%d; -1 = never installed)\nrecovered:\n%s\nversion #%d:\n%s",
				p.where, p.lo, older, clip(p.sig), lo, clip(want))
			return
		}
	}
	h.pendingV = nil
}

func (h *Harness) injector() errorfs.Injector {
	return errorfs.InjectorFunc(func(op errorfs.Op) error {
		if !h.enabled.Load() || !op.Kind.IsWrite() {
			return nil
		}
		i := h.opIdx.Add(1)
		if h.CloneEvery > 1 && vcommon.RNG("clone", h.seed, i).IntN(h.CloneEvery) != 0 {
			return nil
		}
		h.cloneAndCheck(fmt.Sprintf("fsop#%d:%v:%s", i, op.Kind, shortPath(op.Path)), i)
		return nil
	})
}

func shortPath(p string) string {
	if j := strings.LastIndexByte(p, '/'); j >= 0 {
		return p[j+1:]
	}
	return p
}

// cloneAndCheck takes crash clones of the live FS with several survival
// settings and audits each.
func (h *Harness) cloneAndCheck(where string, idx int64) {
	if h.Run.Failed() {
		return
	}
	for _, pct := range []int{0, 100, 50} {
		b := h.T.before()
		cfg := vfs.CrashCloneCfg{UnsyncedDataPercent: pct}
		if pct > 0 && pct < 100 {
			cfg.RNG = rand.New(rand.NewPCG(h.seed, uint64(idx)*131+uint64(pct)))
		} else if pct == 100 {
			cfg.RNG = rand.New(rand.NewPCG(1, 1))
		}
		vlo := 0
		if h.versionOracle {
			h.vmu.Lock()
			vlo = len(h.versions) - 1
			h.vmu.Unlock()
		}
		clone := h.mem.CrashClone(cfg)
		b = h.T.after(b)
		atomic.AddInt64(&h.clones, 1)
		if h.versionOracle {
			h.checkVersionOf(clone, vlo, fmt.Sprintf("%s survive=%d%%", where, pct))
			if h.Run.Failed() {
				return
			}
		}
		h.checkClone(clone, b, fmt.Sprintf("%s survive=%d%%", where, pct), 0, idx)
		if h.Run.Failed() {
			return
		}
	}
}

// checkClone opens a clone, reads its state and matches it.
func (h *Harness) checkClone(fs *vfs.MemFS, b bounds, where string, depth int, idx int64) Verdict {
	// nested crash points during recovery
	var subMu sync.Mutex
	var sub []*vfs.MemFS
	var openFS vfs.FS = fs
	if depth < h.Depth {
		var n atomic.Int64
		// the injector may be called from several goroutines of the recovering DB
		openFS = errorfs.Wrap(fs, errorfs.InjectorFunc(func(op errorfs.Op) error {
			if !op.Kind.IsWrite() {
				return nil
			}
			k := n.Add(1)
			if vcommon.RNG("nested", h.seed, idx, depth, k).IntN(12) == 0 {
				subMu.Lock()
				if len(sub) < 2 {
					pct := []int{0, 100, 50}[int(k)%3]
					cfg := vfs.CrashCloneCfg{UnsyncedDataPercent: pct, RNG: rand.New(rand.NewPCG(h.seed+7, uint64(idx)*977+uint64(k)))}
					sub = append(sub, fs.CrashClone(cfg))
				}
				subMu.Unlock()
			}
			return nil
		}))
	}
	o := dbcheck.MakeOptions(h.Run.Cfg, openFS, nil)
	o.FormatMajorVersion = pebble.FormatMinSupported // the store decides
	o.DisableAutomaticCompactions = true
	db, err := pebble.Open(h.Run.Dir, o)
	atomic.AddInt64(&h.opens, 1)
	if err != nil {
		h.Run.FailMatch("recovery-open-failed", nil, "crash at %s (depth %d): Open of the crash clone failed: %v | bounds %+v", where, depth, err, b)
		return Verdict{Prefix: -1}
	}
	canon, err := dbcheck.ReadCanon(db.NewIter, nil)
	fmv := int(db.FormatMajorVersion())
	cerr := db.CheckLevels(nil)
	if err2 := db.Close(); err == nil {
		err = err2
	}
	if err != nil {
		h.Run.FailMatch("recovery-read-failed", nil, "crash at %s: reading the recovered DB failed: %v", where, err)
		return Verdict{Prefix: -1}
	}
	if cerr != nil {
		h.Run.FailMatch("recovery-check-levels", nil, "crash at %s: CheckLevels on the recovered DB: %v", where, cerr)
		return Verdict{Prefix: -1}
	}
	if fmv < b.fmvLo || fmv > b.fmvHi {
		h.Run.FailMatch("recovered-format-version", nil, "crash at %s: recovered format major version %d outside [%d,%d]", where, fmv, b.fmvLo, b.fmvHi)
		return Verdict{Prefix: -1}
	}
	v := h.T.match(canon, b)
	if !v.OK {
		h.Run.FailMatch("recovered-state-illegal", map[string]any{"kind": "no-legal-state"},
			"crash at %s (depth %d): recovered state equals no legal state; durable prefix d=%d, durable ingest=%d, acked=%d, issued=%d\nrecovered:\n%s\nstate after d:\n%s\nstate after issued:\n%s\nunits: %s",
			where, depth, b.d, b.ing, b.acked, b.issued, clip(canon), clip(h.canonOf(b.d)), clip(h.canonOf(b.issued)), h.unitList(b))
		return v
	}
	if v.Mixed {
		atomic.AddInt64(&h.mixed, 1)
		if !h.allowMixed {
			h.Run.ViolateSoft("non-prefix-recovery", map[string]any{"lost": "unsynced-batches-only", "survivors": "ingest-or-excise"},
				"crash at %s: recovered state is not a prefix of the history: %d unsynced batch(es) after unit %d are lost while later ingest/excise unit(s) up to %d survive",
				where, v.LostBatch, v.Prefix, v.Q)
		}
	} else {
		if v.Prefix < b.acked {
			atomic.AddInt64(&h.matchedBehind, 1)
		}
		if v.Prefix > b.acked {
			atomic.AddInt64(&h.matchedAhead, 1)
		}
	}
	h.R.Distinct("clone", h.Run.Case, idx, depth, v.Prefix, v.Q, fmv, len(canon))
	subMu.Lock()
	subs := append([]*vfs.MemFS(nil), sub...)
	subMu.Unlock()
	for _, s := range subs {
		atomic.AddInt64(&h.nested, 1)
		h.checkClone(s, b, where+" +crash-during-recovery", depth+1, idx*31+int64(depth)+1)
		if h.Run.Failed() {
			break
		}
	}
	return v
}

func (h *Harness) canonOf(i int) string {
	h.T.mu.Lock()
	defer h.T.mu.Unlock()
	if i < 0 || i >= len(h.T.units) {
		return "?"
	}
	return h.T.units[i].canon
}

func (h *Harness) unitList(b bounds) string {
	h.T.mu.Lock()
	defer h.T.mu.Unlock()
	var sb strings.Builder
	lo := b.d - 2
	if lo < 0 {
		lo = 0
	}
	for i := lo; i <= b.issued && i < len(h.T.units); i++ {
		u := h.T.units[i]
		d := u.desc
		if len(d) > 200 {
			d = d[:200] + "…"
		}
		fmt.Fprintf(&sb, "\n  %d [%s durable=%v] %s", i, u.kind, u.durable, d)
	}
	return sb.String()
}

func clip(s string) string {
	if len(s) > 3000 {
		return s[:3000] + "…"
	}
	return s
}

// Options configure one crash history.
type Options struct {
	Prop       string
	Knobs      dbcheck.Knobs
	CloneEvery int
	PostSyncEvery int // crash points right after completed syncs (see postfs.go)
	Depth      int
	VersionOracle bool // C22: recovered version must be one of the installed versions
	AllowMixed bool // C10/C12: a batch-prefix ∪ later-ingests state is legal ("contains every durable unit")
	Restarts   int  // crash/restart cycles inside the history (C11)
	Setup      func(r *dbcheck.Run)
	Extra      func(h *Harness) []dbcheck.ExtraStep
}

// RunHistory executes one crash history.
func RunHistory(R *vcommon.Report, o Options, caseIdx int, rng *rand.Rand) *Harness {
	h := &Harness{R: R, CloneEvery: o.CloneEvery, Depth: o.Depth, allowMixed: o.AllowMixed, versionOracle: o.VersionOracle, seed: vcommon.Seed()*1000003 + uint64(caseIdx)}
	h.mem = vfs.NewCrashableMem()
	h.PostSyncEvery = o.PostSyncEvery
	var fs vfs.FS = errorfs.Wrap(h.mem, h.injector())
	if h.PostSyncEvery > 0 {
		fs = postFS{FS: fs, h: h}
	}
	restartsLeft := o.Restarts
	run := dbcheck.NewRunFS(R, o.Prop, o.Knobs, caseIdx, rng, fs, func(r *dbcheck.Run) {
		if o.Setup != nil {
			o.Setup(r)
		}
		if o.VersionOracle {
			r.OptsHook = func(po *pebble.Options) {
				prev := po.DebugCheck
				po.DebugCheck = func(db *pebble.DB) error {
					h.recordVersion(db)
					if prev != nil {
						return prev(db)
					}
					return nil
				}
			}
		}
		r.NoFinalClose = true
	})
	h.Run = run
	if run.Failed() {
		return h
	}
	h.T = newTracker(model.NewState(), int(run.DB().FormatMajorVersion()))
	h.T.noWAL = run.Cfg.DisableWAL
	run.Hook = h.T
	// explicit crash points right after each acknowledged unit and crash/restart
	run.Extra = append(run.Extra, dbcheck.ExtraStep{Weight: 6, F: func(r *dbcheck.Run) {
		h.cloneAndCheck(fmt.Sprintf("after-step-%d", r.Step()), int64(1<<40)+int64(r.Step()))
	}})
	if o.Restarts > 0 {
		run.Extra = append(run.Extra, dbcheck.ExtraStep{Weight: 1, F: func(r *dbcheck.Run) {
			if restartsLeft <= 0 {
				return
			}
			restartsLeft--
			h.crashRestart()
		}})
	}
	if o.Extra != nil {
		run.Extra = append(run.Extra, o.Extra(h)...)
	}
	h.enabled.Store(true)
	run.Execute()
	h.enabled.Store(false)
	if !run.Failed() {
		// final crash points: now, and after a clean Close (everything durable with WAL)
		h.cloneAndCheck("end-of-history", int64(1<<41))
	}
	run.CloseAll()
	if o.VersionOracle && !run.Failed() {
		h.finishVersions()
		R.Count("recovered_versions_checked", h.versionChecks)
		R.Count("versions_installed", int64(len(h.versions)))
	}
	R.Count("crash_clones_taken", h.clones)
	R.Count("clone_opens_audited", h.opens)
	R.Count("nested_recovery_crashes", h.nested)
	R.Count("clones_recovered_behind_acked", h.matchedBehind)
	R.Count("clones_recovered_ahead_of_acked", h.matchedAhead)
	R.Count("clones_matched_only_as_prefix_plus_ingests", h.mixed)
	R.Count("fs_mutations_observed", h.opIdx.Load())
	return h
}

// crashRestart simulates a machine crash: a clone with a random survival
// setting becomes the new file system, the model is rebased on the state the
// clone recovered to, and the history continues.
func (h *Harness) crashRestart() {
	r := h.Run
	h.enabled.Store(false)
	pct := []int{0, 50, 100}[r.Rng().IntN(3)]
	b := h.T.before()
	cfg := vfs.CrashCloneCfg{UnsyncedDataPercent: pct, RNG: rand.New(rand.NewPCG(h.seed, uint64(r.Step())))}
	clone := h.mem.CrashClone(cfg)
	b = h.T.after(b)
	// audit a copy (opening mutates the file system: WAL replay, new manifest)
	v := h.checkClone(clone.CrashClone(vfs.CrashCloneCfg{UnsyncedDataPercent: 100, RNG: rand.New(rand.NewPCG(1, 2))}), b, fmt.Sprintf("restart@%d survive=%d%%", r.Step(), pct), h.Depth, int64(1<<43)+int64(r.Step()))
	if r.Failed() || !v.OK {
		return
	}
	r.Log("CRASH+RESTART survive=%d%% recovered to unit %d (mixed=%v)", pct, v.Prefix, v.Mixed)
	h.mem = clone
	var fs vfs.FS = errorfs.Wrap(h.mem, h.injector())
	if h.PostSyncEvery > 0 {
		fs = postFS{FS: fs, h: h}
	}
	r.CrashRestart(fs, v.State)
	if r.Failed() {
		return
	}
	h.T = newTracker(v.State, int(r.DB().FormatMajorVersion()))
	h.T.noWAL = r.Cfg.DisableWAL
	r.Hook = h.T
	if h.versionOracle {
		h.finishVersions()
		h.vmu.Lock()
		h.versions = nil
		h.vmu.Unlock()
		h.recordVersion(r.DB())
	}
	r.Count("crash_restarts", 1)
	h.enabled.Store(true)
}


// durableIterStep implements the C13 oracle: an OnlyReadGuaranteedDurable
// iterator must show a prefix state of the history (at least everything up to
// the last successful Flush), and a crash taken at that moment with 0 %
// survival of unsynced data must recover a state that contains that prefix.
func (h *Harness) durableIterStep(r *dbcheck.Run) {
	if r.Failed() {
		return
	}
	db := r.DB()
	newIter := db.NewIter
	if r.Rng().IntN(2) == 0 {
		// reach the durable-only view through SetOptions on an ordinary iterator
		// (positioned first, so that its stacks are built)
		newIter = func(o *pebble.IterOptions) (*pebble.Iterator, error) {
			plain := *o
			plain.OnlyReadGuaranteedDurable = false
			it, err := db.NewIter(&plain)
			if err != nil {
				return nil, err
			}
			it.First()
			it.SetOptions(o)
			return it, nil
		}
		r.Count("durable_only_views_via_setoptions", 1)
	}
	canon, err := dbcheck.ReadCanon(newIter, &pebble.IterOptions{OnlyReadGuaranteedDurable: true})
	if err != nil {
		r.Fail("durable-iter-error", "OnlyReadGuaranteedDurable iterator: %v", err)
		return
	}
	h.T.mu.Lock()
	view := bounds{d: h.T.flushed, ing: 0, acked: h.T.acked, issued: h.T.acked, fmvLo: h.T.fmvLo, fmvHi: h.T.fmvHi}
	h.T.mu.Unlock()
	vm := h.T.match(canon, view)
	r.Count("durable_only_views_checked", 1)
	if !vm.OK {
		r.FailMatch("durable-view-illegal", map[string]any{"kind": "no-prefix"},
			"OnlyReadGuaranteedDurable view equals no prefix state in [last flush=%d, acked=%d] (nor a flushed prefix united with later ingests)\nview:\n%s\nstate after last flush:\n%s\nunits:%s",
			view.d, view.acked, clip(canon), clip(h.canonOf(view.d)), h.unitList(view))
		return
	}
	if vm.Mixed {
		r.ViolateSoft("durable-view-non-prefix", map[string]any{"missing": "unflushed-batches-only", "present": "ingest-or-excise"},
			"OnlyReadGuaranteedDurable view is not a prefix of the history: it shows the flushed prefix up to unit %d plus later ingest/excise unit(s) up to %d while %d unflushed batch(es) in between are absent",
			vm.Prefix, vm.Q, vm.LostBatch)
	}
	if !vm.Mixed {
		// Several prefix states can be equal (a later unit may undo an earlier
		// one); the statement is existential, so take the earliest matching one.
		h.T.mu.Lock()
		for p := view.d; p < vm.Prefix; p++ {
			if h.T.units[p].canon == canon {
				vm.Prefix, vm.Q = p, p
				break
			}
		}
		h.T.mu.Unlock()
	}
	// crash right now with no unsynced survival
	b := h.T.before()
	clone := h.mem.CrashClone(vfs.CrashCloneCfg{})
	b = h.T.after(b)
	atomic.AddInt64(&h.clones, 1)
	save := h.allowMixed
	h.allowMixed = true
	rv := h.checkClone(clone, b, fmt.Sprintf("durable-iter@%d survive=0%%", r.Step()), h.Depth, int64(1<<43)+int64(r.Step()))
	h.allowMixed = save
	if !rv.OK || r.Failed() {
		return
	}
	if rv.Prefix < vm.Prefix || rv.Q < vm.Q {
		r.FailMatch("durable-view-not-crash-proof", nil,
			"the OnlyReadGuaranteedDurable iterator showed the history up to unit %d (ingests up to %d) but a crash at that moment recovered only up to unit %d (ingests up to %d)\nview:\n%s\nstate after unit %d:\n%s\nunits:%s",
			vm.Prefix, vm.Q, rv.Prefix, rv.Q, clip(canon), rv.Prefix, clip(h.canonOf(rv.Prefix)), h.unitList(bounds{d: rv.Prefix, issued: b.issued}))
		return
	}
	if vm.Prefix > 0 {
		h.R.Distinct("durable-view", r.Case, r.Step(), vm.Prefix, vm.Q)
	}
	r.Count("durable_view_and_crash_pairs", 1)
}

// DurableIterExtra returns the extra step for C13.
func DurableIterExtra(h *Harness) []dbcheck.ExtraStep {
	return []dbcheck.ExtraStep{{Weight: 14, F: h.durableIterStep}}
}


// checkpointStep implements the C38 oracle: a checkpoint, once opened, must
// hold a prefix state of the source history that contains every unit that was
// durable (or, with WithFlushedWAL, committed) before the Checkpoint call; with
// restricted spans only keys inside the spans are compared.
func (h *Harness) checkpointStep(r *dbcheck.Run) {
	if r.Failed() {
		return
	}
	rng := r.Rng()
	h.ckptN++
	dir := fmt.Sprintf("ckpt-%d", h.ckptN)
	var opts []pebble.CheckpointOption
	flushWAL := rng.IntN(2) == 0
	if flushWAL {
		opts = append(opts, pebble.WithFlushedWAL())
	}
	var spans [][2]string
	if rng.IntN(3) == 0 {
		var cs []pebble.CheckpointSpan
		a, b := r.RandRange()
		spans = append(spans, [2]string{a, b})
		if rng.IntN(2) == 0 {
			c, d := r.RandRange()
			if model.Cmp(b, c) <= 0 {
				spans = append(spans, [2]string{c, d})
			} else if model.Cmp(d, a) <= 0 {
				spans = [][2]string{{c, d}, {a, b}}
			}
		}
		for _, sp := range spans {
			cs = append(cs, pebble.CheckpointSpan{Start: []byte(sp[0]), End: []byte(sp[1])})
		}
		opts = append(opts, pebble.WithRestrictToSpans(cs))
	}
	b := h.T.before()
	r.Log("Checkpoint(%s) flushWAL=%v spans=%v", dir, flushWAL, spans)
	if err := r.DB().Checkpoint(dir, opts...); err != nil {
		r.Fail("checkpoint-error", "Checkpoint: %v", err)
		return
	}
	b = h.T.after(b)
	lower := b.d
	if flushWAL && !r.Cfg.DisableWAL {
		lower = b.acked
	}
	// open the checkpoint while the source keeps running
	o := dbcheck.MakeOptions(r.Cfg, r.Opts().FS, nil)
	o.FormatMajorVersion = pebble.FormatMinSupported
	o.DisableAutomaticCompactions = true
	db, err := pebble.Open(dir, o)
	if err != nil {
		r.Fail("checkpoint-open-failed", "Open(checkpoint): %v", err)
		return
	}
	defer func() {
		db.Close()
		r.Opts().FS.RemoveAll(dir)
	}()
	if err := db.CheckLevels(nil); err != nil {
		r.Fail("checkpoint-check-levels", "CheckLevels on the checkpoint: %v", err)
		return
	}
	r.Count("checkpoints_opened", 1)
	if len(spans) == 0 {
		canon, err := dbcheck.ReadCanon(db.NewIter, nil)
		if err != nil {
			r.Fail("checkpoint-read-failed", "reading the checkpoint: %v", err)
			return
		}
		v := h.T.match(canon, bounds{d: lower, ing: b.ing, acked: b.acked, issued: b.issued})
		if !v.OK {
			r.FailMatch("checkpoint-state-illegal", nil,
				"checkpoint (flushWAL=%v) equals no prefix state in [%d,%d]\ncheckpoint:\n%s\nstate after unit %d:\n%s\nunits:%s",
				flushWAL, lower, b.issued, clip(canon), lower, clip(h.canonOf(lower)), h.unitList(bounds{d: lower, issued: b.issued}))
			return
		}
		if v.Mixed {
			r.ViolateSoft("checkpoint-non-prefix", map[string]any{"missing": "unsynced-batches-only", "present": "ingest-or-excise"},
				"checkpoint is not a prefix of the history: batch prefix up to unit %d plus later ingests/excises up to %d", v.Prefix, v.Q)
		}
		h.R.Distinct("ckpt", r.Case, r.Step(), v.Prefix, flushWAL)
		return
	}
	// restricted spans: compare inside the spans only
	var sb strings.Builder
	for _, sp := range spans {
		c, err := dbcheck.ReadCanon(db.NewIter, &pebble.IterOptions{LowerBound: []byte(sp[0]), UpperBound: []byte(sp[1])})
		if err != nil {
			r.Fail("checkpoint-read-failed", "reading the checkpoint: %v", err)
			return
		}
		sb.WriteString(c)
		sb.WriteString("--\n")
	}
	got := sb.String()
	v := h.T.matchRender(got, bounds{d: lower, ing: b.ing, acked: b.acked, issued: b.issued}, func(st *model.State) string { return dbcheck.CanonSpans(st, spans) })
	if !v.OK {
		h.T.mu.Lock()
		last := h.T.units[b.issued].state
		h.T.mu.Unlock()
		r.FailMatch("checkpoint-state-illegal", map[string]any{"restricted": true},
			"span-restricted checkpoint (flushWAL=%v, spans %q) equals no prefix state in [%d,%d] inside its spans\ncheckpoint:\n%s\nmodel at %d:\n%s\nunits:%s",
			flushWAL, spans, lower, b.issued, clip(got), b.issued, clip(dbcheck.CanonSpans(last, spans)), h.unitList(bounds{d: lower, issued: b.issued}))
		return
	}
	if v.Mixed {
		r.ViolateSoft("checkpoint-non-prefix", map[string]any{"missing": "unsynced-batches-only", "present": "ingest-or-excise"},
			"span-restricted checkpoint is not a prefix of the history: batch prefix up to unit %d plus later ingests/excises up to %d", v.Prefix, v.Q)
	}
	h.R.Distinct("ckpt-spans", r.Case, r.Step(), v.Prefix, flushWAL)
	r.Count("span_restricted_checkpoints", 1)
}

// CheckpointExtra returns the extra step for C38.
func CheckpointExtra(h *Harness) []dbcheck.ExtraStep {
	return []dbcheck.ExtraStep{{Weight: 10, F: h.checkpointStep}}
}
