// C16: L0 sublevels are sound and compaction picks are closed.
//
// The monitor drives the real l0Sublevels code (newL0Sublevels, addL0Files,
// InitCompactingFileInfo, PickBaseCompaction, ExtendL0ForBaseCompactionTo,
// PickIntraL0Compaction, UpdateStateForStartedCompaction) from a key-level
// simulation of a small LSM: a memtable, L0 and Lbase. Every simulated table
// carries its explicit (user key, seqnum) entries; tables arise only the way
// they can in Pebble (flushes of a seqnum-contiguous memtable split at user
// keys, ingests with a single seqnum that force a flush when their bounds
// overlap the memtable, compaction outputs). The oracle never looks at
// intervals: soundness is judged on integer key ranges and on entries.
package manifest

import (
	"fmt"
	"math/rand/v2"
	"slices"
	"sort"
	"strings"
	"testing"

	"github.com/cockroachdb/pebble/internal/base"
	"github.com/cockroachdb/pebble/internal/verif/vcommon"
)

func verifC16K(i int) []byte { return []byte{byte('a' + i)} }

type verifC16Ent struct {
	key int
	seq uint64
	rd  bool // part of a range tombstone (lets a table end with an exclusive bound)
}

type verifC16File struct {
	meta   *TableMetadata
	ents   []verifC16Ent
	lo, hi int  // integer key span, hi inclusive
	excl   bool // largest bound is the exclusive sentinel at K(hi+1)
	comp   *verifC16Comp
}

func (f *verifC16File) String() string {
	end := fmt.Sprintf("%s]", verifC16K(f.hi))
	if f.excl {
		end = fmt.Sprintf("%s)", verifC16K(f.hi+1))
	}
	c := ""
	if f.comp != nil {
		c = " base-compacting"
		if f.comp.intra {
			c = " intra-compacting"
		}
	}
	var es []string
	for _, e := range f.ents {
		es = append(es, fmt.Sprintf("%s@%d", verifC16K(e.key), e.seq))
	}
	return fmt.Sprintf("%s:[%s-%s seq[%d,%d] size=%d%s {%s}", f.meta.TableNum, verifC16K(f.lo), end, f.meta.SeqNums.Low, f.meta.SeqNums.High, f.meta.Size, c, strings.Join(es, " "))
}

type verifC16Comp struct {
	l0, base []*verifC16File
	intra    bool
	lo, hi   int
	excl     bool
}

func (c *verifC16Comp) l0Compaction() L0Compaction {
	b := base.UserKeyBoundsInclusive(verifC16K(c.lo), verifC16K(c.hi))
	if c.excl {
		b = base.UserKeyBoundsEndExclusive(verifC16K(c.lo), verifC16K(c.hi+1))
	}
	return L0Compaction{Bounds: b, IsIntraL0: c.intra}
}

var verifC16Seen = map[string]int{}

type verifC16Logger struct{ errs []string }

func (l *verifC16Logger) Infof(string, ...interface{}) {}
func (l *verifC16Logger) Errorf(f string, a ...interface{}) {
	l.errs = append(l.errs, fmt.Sprintf(f, a...))
}
func (l *verifC16Logger) Fatalf(f string, a ...interface{}) {
	panic(fmt.Sprintf("Fatalf: "+f, a...))
}

type verifC16Sim struct {
	rng      *rand.Rand
	r        *vcommon.Report
	nkeys    int
	seq      uint64
	nextNum  uint64
	mem      []verifC16Ent
	memStart uint64 // earliest unflushed seqnum
	l0, base []*verifC16File
	sub      *l0Sublevels
	inprog   []*verifC16Comp
	fsb      int64 // flushSplitMaxBytes
	log      []string
	failed   bool
	// fixedDepth, if non-zero, replaces the random minimum compaction depth.
	fixedDepth int
	// coverage
	nPicks, nExec, maxL0, maxSub int
}

func (s *verifC16Sim) logf(f string, a ...any) { s.log = append(s.log, fmt.Sprintf(f, a...)) }

func (s *verifC16Sim) describe() map[string]any {
	var l0, bs []string
	for _, f := range s.l0 {
		sl := -1
		if s.sub != nil {
			if idx, ok := s.sub.fileStateMap[f.meta.TableNum]; ok {
				sl = s.sub.fileState[idx].subLevel
			}
		}
		l0 = append(l0, fmt.Sprintf("L0.%d %s", sl, f))
	}
	for _, f := range s.base {
		bs = append(bs, "Lbase "+f.String())
	}
	var mem []string
	for _, e := range s.mem {
		mem = append(mem, fmt.Sprintf("%s@%d", verifC16K(e.key), e.seq))
	}
	return map[string]any{"ops": s.log, "l0": l0, "lbase": bs, "memtable": mem, "earliest_unflushed_seqnum": s.memStart, "nkeys": s.nkeys}
}

func (s *verifC16Sim) violate(class, detail string, match map[string]any) {
	s.failed = true
	s.r.Violate(class, detail, s.describe(), match)
}

// newFile builds the table (and its TableMetadata) holding ents.
func (s *verifC16Sim) newFile(ents []verifC16Ent) *verifC16File {
	ents = slices.Clone(ents)
	slices.SortFunc(ents, func(a, b verifC16Ent) int {
		if a.key != b.key {
			return a.key - b.key
		}
		if a.seq > b.seq {
			return -1
		}
		return 1
	})
	f := &verifC16File{ents: ents, lo: ents[0].key, hi: ents[len(ents)-1].key}
	lowSeq, highSeq := ents[0].seq, ents[0].seq
	allRD := true
	for _, e := range ents {
		lowSeq, highSeq = min(lowSeq, e.seq), max(highSeq, e.seq)
		if e.key == f.hi && !e.rd {
			allRD = false
		}
	}
	f.excl = allRD
	if f.excl {
		s.r.SetAdd("events", "table with exclusive (range tombstone sentinel) largest bound")
	}
	s.nextNum++
	size := uint64(1 + s.rng.IntN(1<<16))
	switch s.rng.IntN(12) {
	case 0:
		size = uint64(60+s.rng.IntN(300)) << 20 // large tables exercise the size cut-offs of the pickers
	case 1:
		size = uint64(1 + s.rng.IntN(8))
	}
	m := &TableMetadata{TableNum: base.TableNum(s.nextNum), Size: size,
		SeqNums: base.SeqNumRange{Low: base.SeqNum(lowSeq), High: base.SeqNum(highSeq)}, LargestSeqNumAbsolute: base.SeqNum(highSeq)}
	kind := func(e verifC16Ent) base.InternalKeyKind {
		if e.rd {
			return base.InternalKeyKindRangeDelete
		}
		return base.InternalKeyKindSet
	}
	smallest := base.MakeInternalKey(verifC16K(f.lo), base.SeqNum(ents[0].seq), kind(ents[0]))
	last := ents[len(ents)-1]
	largest := base.MakeInternalKey(verifC16K(f.hi), base.SeqNum(last.seq), kind(last))
	if f.excl {
		largest = base.MakeRangeDeleteSentinelKey(verifC16K(f.hi + 1))
	}
	m.ExtendPointKeyBounds(base.DefaultComparer.Compare, smallest, largest)
	m.InitPhysicalBacking()
	f.meta = m
	return f
}

// split cuts ents (any order) into 1..maxParts tables at user-key boundaries.
func (s *verifC16Sim) split(ents []verifC16Ent, maxParts int) []*verifC16File {
	keys := map[int]bool{}
	for _, e := range ents {
		keys[e.key] = true
	}
	var ks []int
	for k := range keys {
		ks = append(ks, k)
	}
	sort.Ints(ks)
	parts := 1
	if maxParts > 1 && len(ks) > 1 {
		parts = 1 + s.rng.IntN(min(maxParts, len(ks)))
	}
	cut := map[int]bool{} // cut before ks[i]
	for len(cut) < parts-1 {
		cut[1+s.rng.IntN(len(ks)-1)] = true
	}
	var out []*verifC16File
	var cur []verifC16Ent
	for i, k := range ks {
		if cut[i] && len(cur) > 0 {
			out = append(out, s.newFile(cur))
			cur = nil
		}
		for _, e := range ents {
			if e.key == k {
				cur = append(cur, e)
			}
		}
	}
	out = append(out, s.newFile(cur))
	return out
}

func verifC16Overlap(a, b *verifC16File) bool { return !(a.hi < b.lo || b.hi < a.lo) }

func verifC16Metas(fs []*verifC16File) []*TableMetadata {
	out := make([]*TableMetadata, len(fs))
	for i, f := range fs {
		out[i] = f.meta
	}
	return out
}

// verifC16KeyLevel checks, for every user key, that its versions from newest
// to oldest sit in non-increasing LSM position (sublevel n ... sublevel 0, then
// Lbase), and that Lbase tables are disjoint.
func verifC16KeyLevel(sub *l0Sublevels, l0, bs []*verifC16File) string {
	type ver struct {
		seq uint64
		pos int
		num base.TableNum
	}
	per := map[int][]ver{}
	for _, f := range l0 {
		idx, ok := sub.fileStateMap[f.meta.TableNum]
		if !ok {
			return fmt.Sprintf("table %s missing from the sublevel structure", f.meta.TableNum)
		}
		pos := sub.fileState[idx].subLevel
		for _, e := range f.ents {
			per[e.key] = append(per[e.key], ver{e.seq, pos, f.meta.TableNum})
		}
	}
	for _, f := range bs {
		for _, e := range f.ents {
			per[e.key] = append(per[e.key], ver{e.seq, -1, f.meta.TableNum})
		}
	}
	for k := 0; k < 16; k++ {
		vs := per[k]
		slices.SortFunc(vs, func(a, b ver) int {
			if a.seq > b.seq {
				return -1
			}
			if a.seq < b.seq {
				return 1
			}
			return 0
		})
		for i := 1; i < len(vs); i++ {
			if vs[i].pos > vs[i-1].pos {
				name := func(p int) string {
					if p < 0 {
						return "Lbase"
					}
					return fmt.Sprintf("L0.%d", p)
				}
				return fmt.Sprintf("key %s: version @%d (table %s, %s) is older than @%d (table %s, %s) but sits above it",
					verifC16K(k), vs[i].seq, vs[i].num, name(vs[i].pos), vs[i-1].seq, vs[i-1].num, name(vs[i-1].pos))
			}
		}
	}
	sorted := slices.Clone(bs)
	slices.SortFunc(sorted, func(a, b *verifC16File) int { return a.lo - b.lo })
	for i := 1; i < len(sorted); i++ {
		if sorted[i-1].hi >= sorted[i].lo {
			return fmt.Sprintf("Lbase tables %s and %s overlap", sorted[i-1].meta.TableNum, sorted[i].meta.TableNum)
		}
	}
	return ""
}

// verifC16Soundness checks the sublevel assignment against integer key ranges.
func verifC16Soundness(sub *l0Sublevels, l0 []*verifC16File) string {
	n := 0
	byNum := map[base.TableNum]*verifC16File{}
	for _, f := range l0 {
		byNum[f.meta.TableNum] = f
	}
	for sl, files := range sub.levelFiles {
		if len(files) == 0 {
			return fmt.Sprintf("sublevel %d is empty", sl)
		}
		var prev *verifC16File
		for _, m := range files {
			f := byNum[m.TableNum]
			if f == nil {
				return fmt.Sprintf("sublevel %d holds unknown table %s", sl, m.TableNum)
			}
			if got := sub.state(m).subLevel; got != sl {
				return fmt.Sprintf("table %s is listed in sublevel %d but its state says %d", m.TableNum, sl, got)
			}
			if prev != nil && prev.hi >= f.lo {
				return fmt.Sprintf("sublevel %d: tables %s and %s overlap or are out of key order", sl, prev.meta.TableNum, f.meta.TableNum)
			}
			prev = f
			n++
		}
	}
	if n != len(l0) {
		return fmt.Sprintf("sublevels hold %d tables, L0 has %d", n, len(l0))
	}
	for i, f := range l0 {
		for _, g := range l0[i+1:] {
			if !verifC16Overlap(f, g) {
				continue
			}
			sf, sg := sub.state(f.meta).subLevel, sub.state(g.meta).subLevel
			if sf == sg {
				return fmt.Sprintf("overlapping tables %s and %s share sublevel %d", f.meta.TableNum, g.meta.TableNum, sf)
			}
			hi, lo := f, g
			if sg > sf {
				hi, lo = g, f
			}
			if hi.meta.cmpSeqNum(lo.meta) <= 0 {
				return fmt.Sprintf("table %s (seq %s) is in a higher sublevel than overlapping table %s (seq %s) but is not newer",
					hi.meta.TableNum, hi.meta.SeqNums, lo.meta.TableNum, lo.meta.SeqNums)
			}
		}
	}
	// A table must not float: sublevel k > 0 requires an overlapping table in k-1.
	for _, f := range l0 {
		sf := sub.state(f.meta).subLevel
		if sf == 0 {
			continue
		}
		ok := false
		for _, g := range l0 {
			ok = ok || (g != f && verifC16Overlap(f, g) && sub.state(g.meta).subLevel == sf-1)
		}
		if !ok {
			return fmt.Sprintf("table %s sits in sublevel %d without an overlapping table in sublevel %d", f.meta.TableNum, sf, sf-1)
		}
	}
	return ""
}

// verifC16Shape renders every structural field of an l0Sublevels.
func verifC16Shape(s *l0Sublevels) []string {
	var out []string
	for i, files := range s.levelFiles {
		var nums []string
		for _, f := range files {
			nums = append(nums, f.TableNum.String())
		}
		out = append(out, fmt.Sprintf("sublevel[%d]=%s", i, strings.Join(nums, ",")))
		var nums2 []string
		if i < len(s.Levels) {
			for f := range s.Levels[i].All() {
				nums2 = append(nums2, f.TableNum.String())
			}
		}
		out = append(out, fmt.Sprintf("Levels[%d]=%s", i, strings.Join(nums2, ",")))
	}
	out = append(out, fmt.Sprintf("nLevels=%d", len(s.Levels)))
	for i := range s.orderedIntervals {
		iv := &s.orderedIntervals[i]
		var nums []string
		for _, f := range iv.files {
			nums = append(nums, f.TableNum.String())
		}
		out = append(out, fmt.Sprintf("interval[%d]=idx:%d start:%s/%t files:%s range:[%d,%d] bytes:%d compacting:%d base:%t rangebase:%t",
			i, iv.index, iv.startKey.key, iv.startKey.isInclusiveEndBound, strings.Join(nums, ","), iv.filesMinIntervalIndex, iv.filesMaxIntervalIndex,
			iv.estimatedBytes, iv.compactingFileCount, iv.isBaseCompacting, iv.intervalRangeIsBaseCompacting))
	}
	for f := range s.levelMetadata.All() {
		st := s.state(f)
		out = append(out, fmt.Sprintf("state[%s]=sub:%d intervals:[%d,%d]", f.TableNum, st.subLevel, st.minIntervalIndex, st.maxIntervalIndex))
	}
	var fk []string
	for _, k := range s.flushSplitUserKeys {
		fk = append(fk, string(k))
	}
	out = append(out, "flushsplit="+strings.Join(fk, ","), fmt.Sprintf("filebytes=%d", s.fileBytes))
	return out
}

func verifC16Catch(f func()) (msg string) {
	defer func() {
		if r := recover(); r != nil {
			msg = fmt.Sprint(r)
			if msg == "" {
				msg = "(empty panic)"
			}
		}
	}()
	f()
	return ""
}

func (s *verifC16Sim) inProgress() []L0Compaction {
	var out []L0Compaction
	for _, c := range s.inprog {
		out = append(out, c.l0Compaction())
	}
	return out
}

// scratch builds sublevels from scratch for an L0 set (no state is shared with s.sub).
func (s *verifC16Sim) scratch(l0 []*verifC16File, inprog []L0Compaction) (*l0Sublevels, string) {
	var sub *l0Sublevels
	var err error
	p := verifC16Catch(func() {
		lm := MakeLevelMetadata(base.DefaultComparer.Compare, 0, verifC16Metas(l0))
		sub, err = newL0Sublevels(&lm, base.DefaultComparer.Compare, base.DefaultFormatter, s.fsb)
		if err == nil {
			sub.InitCompactingFileInfo(inprog)
		}
	})
	if p != "" {
		return nil, "panic: " + p
	}
	if err != nil {
		return nil, "error: " + err.Error()
	}
	return sub, ""
}

// install recomputes the sublevels after L0 changed, the way L0Organizer does
// (incrementally when only tables were added on top), and checks the result.
func (s *verifC16Sim) install(added []*verifC16File, deleted bool, what string) {
	sc, msg := s.scratch(s.l0, s.inProgress())
	if msg != "" {
		s.violate("sublevel-build-failed", fmt.Sprintf("%s: newL0Sublevels %s", what, msg), map[string]any{"stage": "scratch"})
		return
	}
	s.r.Count("sublevel_builds_scratch", 1)
	use := sc
	if !deleted && len(added) > 0 && s.sub != nil {
		var inc *l0Sublevels
		usable := false
		p := verifC16Catch(func() {
			lm := MakeLevelMetadata(base.DefaultComparer.Compare, 0, verifC16Metas(s.l0))
			am := map[base.TableNum]*TableMetadata{}
			for _, f := range added {
				am[f.meta.TableNum] = f.meta
			}
			files, ok := s.sub.canUseAddL0Files(am, &lm)
			if !ok {
				return
			}
			usable = true
			inc = s.sub.addL0Files(files, s.fsb, &lm)
			inc.InitCompactingFileInfo(s.inProgress())
		})
		if p != "" {
			s.violate("sublevel-build-failed", fmt.Sprintf("%s: addL0Files panicked: %s", what, p), map[string]any{"stage": "incremental"})
			return
		}
		if usable {
			s.r.Count("sublevel_builds_incremental", 1)
			s.r.SetAdd("events", "addL0Files compared with newL0Sublevels")
			a, b := verifC16Shape(inc), verifC16Shape(sc)
			if !slices.Equal(a, b) {
				var diff []string
				for i := 0; i < max(len(a), len(b)) && len(diff) < 6; i++ {
					var x, y string
					if i < len(a) {
						x = a[i]
					}
					if i < len(b) {
						y = b[i]
					}
					if x != y {
						diff = append(diff, fmt.Sprintf("incremental %q vs scratch %q", x, y))
					}
				}
				s.violate("incremental-mismatch", fmt.Sprintf("%s: addL0Files result differs from newL0Sublevels on the same tables: %s", what, strings.Join(diff, "; ")), nil)
				return
			}
			use = inc
		} else {
			s.r.Count("sublevel_incremental_not_applicable", 1)
		}
	}
	s.sub = use
	if msg := verifC16Soundness(s.sub, s.l0); msg != "" {
		s.violate("sublevel-unsound", what+": "+msg, nil)
		return
	}
	if msg := verifC16KeyLevel(s.sub, s.l0, s.base); msg != "" {
		s.violate("level-invariant-broken", what+": "+msg, map[string]any{"after": strings.Fields(what)[0]})
		return
	}
	s.maxL0 = max(s.maxL0, len(s.l0))
	s.maxSub = max(s.maxSub, len(s.sub.levelFiles))
}

func (s *verifC16Sim) write() {
	n := 1 + s.rng.IntN(3)
	for i := 0; i < n; i++ {
		s.seq++
		if s.rng.IntN(5) == 0 {
			a := s.rng.IntN(s.nkeys)
			b := min(s.nkeys-1, a+s.rng.IntN(3))
			for k := a; k <= b; k++ {
				s.mem = append(s.mem, verifC16Ent{key: k, seq: s.seq, rd: true})
			}
			s.logf("rangedel [%s,%s)@%d", verifC16K(a), verifC16K(b+1), s.seq)
		} else {
			k := s.rng.IntN(s.nkeys)
			s.mem = append(s.mem, verifC16Ent{key: k, seq: s.seq})
			s.logf("set %s@%d", verifC16K(k), s.seq)
		}
	}
}

func (s *verifC16Sim) flush() {
	if len(s.mem) == 0 {
		return
	}
	files := s.split(s.mem, 4)
	s.mem = nil
	s.memStart = s.seq + 1
	s.l0 = append(s.l0, files...)
	var d []string
	for _, f := range files {
		d = append(d, f.String())
	}
	s.logf("flush -> %s", strings.Join(d, " | "))
	s.r.SetAdd("events", fmt.Sprintf("flush into %d table(s)", min(len(files), 4)))
	s.install(files, false, "flush")
}

func (s *verifC16Sim) ingest() {
	lo := s.rng.IntN(s.nkeys)
	hi := min(s.nkeys-1, lo+s.rng.IntN(1+s.rng.IntN(s.nkeys)))
	for _, e := range s.mem {
		if e.key >= lo && e.key <= hi {
			s.logf("ingest [%s,%s] overlaps the memtable: flush first", verifC16K(lo), verifC16K(hi))
			s.r.SetAdd("events", "ingest forces a flush")
			s.flush()
			if s.failed {
				return
			}
			break
		}
	}
	s.seq++
	ents := []verifC16Ent{{key: lo, seq: s.seq}, {key: hi, seq: s.seq}}
	if hi == lo {
		ents = ents[:1]
	}
	for k := lo + 1; k < hi; k++ {
		if s.rng.IntN(2) == 0 {
			ents = append(ents, verifC16Ent{key: k, seq: s.seq})
		}
	}
	if s.rng.IntN(6) == 0 { // the ingested table ends with a range tombstone: exclusive largest bound
		for i := range ents {
			if ents[i].key == hi {
				ents[i].rd = true
			}
		}
	}
	f := s.newFile(ents)
	s.l0 = append(s.l0, f)
	s.logf("ingest -> %s", f)
	s.r.SetAdd("events", "ingest into L0")
	if uint64(f.meta.SeqNums.High) >= s.memStart && len(s.mem) > 0 {
		s.r.SetAdd("events", "ingested table newer than the earliest unflushed seqnum while the memtable is non-empty")
	}
	s.install([]*verifC16File{f}, false, "ingest")
}

func (s *verifC16Sim) byNum() map[base.TableNum]*verifC16File {
	m := map[base.TableNum]*verifC16File{}
	for _, f := range s.l0 {
		m[f.meta.TableNum] = f
	}
	return m
}

func verifC16Without(all []*verifC16File, rm []*verifC16File) []*verifC16File {
	var out []*verifC16File
	for _, f := range all {
		if !slices.Contains(rm, f) {
			out = append(out, f)
		}
	}
	return out
}

func verifC16Span(fs ...[]*verifC16File) (lo, hi int, excl bool) {
	lo, hi = 1<<30, -1
	for _, l := range fs {
		for _, f := range l {
			lo = min(lo, f.lo)
			if f.hi > hi {
				hi, excl = f.hi, f.excl
			} else if f.hi == hi && !f.excl {
				excl = false
			}
		}
	}
	return
}

// checkPick validates the files of a pick and maps them to simulated tables.
func (s *verifC16Sim) checkPick(lcf *L0CompactionFiles, intra bool, what string) ([]*verifC16File, bool) {
	bn := s.byNum()
	var files []*verifC16File
	seen := map[base.TableNum]bool{}
	for _, m := range lcf.Files {
		f := bn[m.TableNum]
		if f == nil {
			s.violate("pick-unknown-table", fmt.Sprintf("%s returned table %s which is not in L0", what, m.TableNum), nil)
			return nil, false
		}
		if seen[m.TableNum] {
			s.violate("pick-duplicate-table", fmt.Sprintf("%s returned table %s twice", what, m.TableNum), nil)
			return nil, false
		}
		seen[m.TableNum] = true
		if f.comp != nil || m.IsCompacting() {
			// pickedTableCompaction.setupInputs rejects such a candidate
			// (canCompactTables), so the session continues without it; the
			// violation is recorded (rate-limited per kind).
			kind := "base"
			if m.IsIntraL0Compacting {
				kind = "intra"
			}
			via := "extension"
			if lcf.seedInterval >= 0 && lcf.seedInterval < len(s.sub.orderedIntervals) &&
				slices.Contains(s.sub.orderedIntervals[lcf.seedInterval].files, m) {
				via = "seed-interval-stack"
			}
			key := what + "/" + kind + "/" + via
			verifC16Seen[key]++
			s.r.Count("pick_includes_compacting:"+key, 1)
			if verifC16Seen[key] <= 2 {
				s.r.Violate("pick-includes-compacting", fmt.Sprintf("%s includes table %s which is already compacting (%s compaction; reached through the %s)", what, f, kind, via),
					s.describe(), map[string]any{"picker": what, "compacting_kind": kind, "via": via})
			}
			s.logf("%s -> rejected: includes compacting table %s", what, m.TableNum)
			return nil, false
		}
		if intra && uint64(m.SeqNums.High) >= s.memStart {
			s.violate("pick-includes-unflushed-seqnum", fmt.Sprintf("%s includes table %s whose largest seqnum is >= earliestUnflushedSeqNum %d", what, f, s.memStart), map[string]any{"picker": what})
			return nil, false
		}
		files = append(files, f)
	}
	if len(lcf.FilesIncluded) != len(lcf.Files) {
		s.violate("pick-inconsistent", fmt.Sprintf("%s: FilesIncluded has %d entries for %d files", what, len(lcf.FilesIncluded), len(lcf.Files)), nil)
		return nil, false
	}
	for _, m := range lcf.Files {
		if _, ok := lcf.FilesIncluded[m.TableNum]; !ok {
			s.violate("pick-inconsistent", fmt.Sprintf("%s: table %s missing from FilesIncluded", what, m.TableNum), nil)
			return nil, false
		}
	}
	if len(files) == 0 {
		s.violate("pick-empty", what+" returned a compaction without tables", nil)
		return nil, false
	}
	return files, true
}

// execute applies a compaction to (l0, base) and returns the new sets.
func (s *verifC16Sim) execute(c *verifC16Comp, l0, bs []*verifC16File) (nl0, nbase, outs []*verifC16File) {
	var ents []verifC16Ent
	for _, f := range c.l0 {
		ents = append(ents, f.ents...)
	}
	for _, f := range c.base {
		ents = append(ents, f.ents...)
	}
	outs = s.split(ents, 3)
	nl0 = verifC16Without(l0, c.l0)
	nbase = verifC16Without(bs, c.base)
	if c.intra {
		nl0 = append(nl0, outs...)
	} else {
		nbase = append(nbase, outs...)
	}
	return
}

// virtual executes c on a copy of the current state and checks the level
// invariant; for intra-L0 compactions it additionally flushes the memtable on
// top of the result.
func (s *verifC16Sim) virtual(c *verifC16Comp, what string) bool {
	saveNum := s.nextNum
	defer func() { s.nextNum = saveNum }()
	nl0, nbase, outs := s.execute(c, s.l0, s.base)
	check := func(stage string, l0 []*verifC16File) bool {
		sub, msg := s.scratch(l0, nil)
		if msg != "" {
			s.violate("sublevel-build-failed", fmt.Sprintf("%s, %s: newL0Sublevels %s", what, stage, msg), map[string]any{"stage": "virtual"})
			return false
		}
		if msg := verifC16KeyLevel(sub, l0, nbase); msg != "" {
			var in, out []string
			for _, f := range c.l0 {
				in = append(in, f.String())
			}
			for _, f := range c.base {
				in = append(in, "Lbase "+f.String())
			}
			for _, f := range outs {
				out = append(out, f.String())
			}
			s.violate("pick-not-closed", fmt.Sprintf("%s: executing the picked compaction (%s) breaks the level invariant: %s; inputs: %s; outputs: %s",
				what, stage, msg, strings.Join(in, " | "), strings.Join(out, " | ")), map[string]any{"picker": strings.Fields(what)[0], "stage": stage})
			return false
		}
		return true
	}
	if !check("executed immediately", nl0) {
		return false
	}
	if c.intra && len(s.mem) > 0 {
		mem := s.split(s.mem, 3)
		if !check("executed, then the memtable is flushed", append(slices.Clone(nl0), mem...)) {
			return false
		}
	}
	return true
}

func (s *verifC16Sim) start(c *verifC16Comp) bool {
	for _, f := range c.l0 {
		f.comp = c
		f.meta.SetCompactionState(CompactionStateCompacting)
		f.meta.IsIntraL0Compacting = c.intra
	}
	for _, f := range c.base {
		f.comp = c
		f.meta.SetCompactionState(CompactionStateCompacting)
	}
	c.lo, c.hi, c.excl = verifC16Span(c.l0, c.base)
	metas := verifC16Metas(c.l0)
	slices.SortFunc(metas, func(a, b *TableMetadata) int { return a.cmpSeqNum(b) })
	var err error
	if p := verifC16Catch(func() {
		err = s.sub.UpdateStateForStartedCompaction([]LevelSlice{NewLevelSliceSeqSorted(metas)}, !c.intra)
	}); p != "" || err != nil {
		s.violate("update-state-failed", fmt.Sprintf("UpdateStateForStartedCompaction: panic=%q err=%v", p, err), nil)
		return false
	}
	s.inprog = append(s.inprog, c)
	return true
}

func (s *verifC16Sim) pickBase() {
	if len(s.l0) == 0 {
		return
	}
	minDepth := 1
	if s.rng.IntN(3) == 0 {
		minDepth = 2 + s.rng.IntN(2)
	}
	if s.fixedDepth > 0 {
		minDepth = s.fixedDepth
	}
	lg := &verifC16Logger{}
	var lcf *L0CompactionFiles
	baseSlice := NewLevelSliceKeySorted(base.DefaultComparer.Compare, verifC16Metas(s.base))
	if p := verifC16Catch(func() { lcf = s.sub.PickBaseCompaction(lg, minDepth, baseSlice, 1, nil) }); p != "" {
		s.violate("picker-panic", "PickBaseCompaction panicked: "+p, map[string]any{"picker": "PickBaseCompaction"})
		return
	}
	if len(lg.errs) > 0 {
		s.violate("picker-logged-error", "PickBaseCompaction logged: "+strings.Join(lg.errs, "; "), map[string]any{"picker": "PickBaseCompaction"})
		return
	}
	if lcf == nil {
		s.r.Count("picks_base_none", 1)
		s.logf("pick-base min_depth=%d -> none", minDepth)
		return
	}
	what := "PickBaseCompaction"
	files, ok := s.checkPick(lcf, false, what)
	if !ok {
		return
	}
	// What pickedTableCompaction.setupInputs does with the candidate.
	overlapping := func(l0 []*verifC16File) []*verifC16File {
		lo, hi, _ := verifC16Span(l0)
		var out []*verifC16File
		for _, b := range s.base {
			if !(b.hi < lo || hi < b.lo) {
				out = append(out, b)
			}
		}
		slices.SortFunc(out, func(a, b *verifC16File) int { return a.lo - b.lo })
		return out
	}
	baseIn := overlapping(files)
	for _, b := range baseIn {
		if b.comp != nil {
			s.r.Count("picks_base_rejected_lbase_compacting", 1)
			s.logf("pick-base min_depth=%d -> rejected (Lbase table %s compacting)", minDepth, b.meta.TableNum)
			return
		}
	}
	s.r.Count("picks_base", 1)
	if len(baseIn) > 0 {
		sorted := slices.Clone(s.base)
		slices.SortFunc(sorted, func(a, b *verifC16File) int { return a.lo - b.lo })
		first, last := slices.Index(sorted, baseIn[0]), slices.Index(sorted, baseIn[len(baseIn)-1])
		sm, la := base.InvalidInternalKey, base.InvalidInternalKey
		if first > 0 {
			sm = sorted[first-1].meta.Largest()
		}
		if last < len(sorted)-1 {
			la = sorted[last+1].meta.Smallest()
		}
		before := len(lcf.Files)
		var grew bool
		if p := verifC16Catch(func() { grew = s.sub.ExtendL0ForBaseCompactionTo(sm, la, lcf) }); p != "" {
			s.violate("picker-panic", "ExtendL0ForBaseCompactionTo panicked: "+p, map[string]any{"picker": "ExtendL0ForBaseCompactionTo"})
			return
		}
		what = "PickBaseCompaction+ExtendL0ForBaseCompactionTo"
		if files, ok = s.checkPick(lcf, false, what); !ok {
			return
		}
		if grew != (len(lcf.Files) > before) {
			s.violate("pick-inconsistent", fmt.Sprintf("ExtendL0ForBaseCompactionTo returned %t but the candidate went from %d to %d tables", grew, before, len(lcf.Files)), nil)
			return
		}
		if grew {
			s.r.Count("picks_base_extended", 1)
			s.r.SetAdd("events", "ExtendL0ForBaseCompactionTo added tables")
			after := overlapping(files)
			if !slices.Equal(after, baseIn) {
				s.violate("extend-touches-lbase", fmt.Sprintf("ExtendL0ForBaseCompactionTo(%s, %s) added L0 tables that overlap %d Lbase tables instead of %d", sm, la, len(after), len(baseIn)),
					map[string]any{"picker": "ExtendL0ForBaseCompactionTo"})
				return
			}
		}
	}
	c := &verifC16Comp{l0: files, base: baseIn}
	c.lo, c.hi, c.excl = verifC16Span(c.l0, c.base)
	for _, o := range s.inprog {
		if !o.intra && !(o.hi < c.lo || c.hi < o.lo) {
			s.r.Count("picks_base_rejected_output_range_busy", 1)
			s.logf("pick-base min_depth=%d -> rejected (output range overlaps an in-progress compaction)", minDepth)
			return
		}
	}
	var names []string
	for _, f := range files {
		names = append(names, f.meta.TableNum.String())
	}
	s.logf("pick-base min_depth=%d -> L0 %s + %d Lbase tables", minDepth, strings.Join(names, ","), len(baseIn))
	s.nPicks++
	s.r.SetAdd("events", fmt.Sprintf("base pick with %d compaction(s) in progress", min(len(s.inprog), 3)))
	if !s.virtual(c, what) {
		return
	}
	s.start(c)
}

func (s *verifC16Sim) pickIntra() {
	if len(s.l0) == 0 {
		return
	}
	minDepth := 1 + s.rng.IntN(4)
	if s.fixedDepth > 0 {
		minDepth = s.fixedDepth
	}
	var lcf *L0CompactionFiles
	if p := verifC16Catch(func() { lcf = s.sub.PickIntraL0Compaction(base.SeqNum(s.memStart), minDepth, nil) }); p != "" {
		s.violate("picker-panic", "PickIntraL0Compaction panicked: "+p, map[string]any{"picker": "PickIntraL0Compaction"})
		return
	}
	if lcf == nil {
		s.r.Count("picks_intra_none", 1)
		s.logf("pick-intra min_depth=%d earliest_unflushed=%d -> none", minDepth, s.memStart)
		return
	}
	files, ok := s.checkPick(lcf, true, "PickIntraL0Compaction")
	if !ok {
		return
	}
	s.r.Count("picks_intra", 1)
	var names []string
	for _, f := range files {
		names = append(names, f.meta.TableNum.String())
	}
	s.logf("pick-intra min_depth=%d earliest_unflushed=%d -> L0 %s", minDepth, s.memStart, strings.Join(names, ","))
	c := &verifC16Comp{l0: files, intra: true}
	s.nPicks++
	s.r.SetAdd("events", fmt.Sprintf("intra-L0 pick with %d compaction(s) in progress", min(len(s.inprog), 3)))
	if !s.virtual(c, "PickIntraL0Compaction") {
		return
	}
	s.start(c)
}

func (s *verifC16Sim) complete() {
	if len(s.inprog) == 0 {
		return
	}
	i := s.rng.IntN(len(s.inprog))
	c := s.inprog[i]
	s.inprog = slices.Delete(s.inprog, i, i+1)
	var outs []*verifC16File
	s.l0, s.base, outs = s.execute(c, s.l0, s.base)
	for _, f := range append(slices.Clone(c.l0), c.base...) {
		f.meta.SetCompactionState(CompactionStateCompacted)
	}
	var d []string
	for _, f := range outs {
		d = append(d, f.String())
	}
	kind := "base"
	if c.intra {
		kind = "intra-L0"
	}
	s.logf("complete %s compaction -> %s", kind, strings.Join(d, " | "))
	s.nExec++
	s.r.Count("compactions_executed_"+kind, 1)
	s.install(nil, true, kind+"-compaction-completed")
}

func TestVerifC16(t *testing.T) {
	r := vcommon.NewReport("C16", "main")
	defer r.Finish(t)
	r.Rule("one simulated LSM session per case (4-12 user keys, 15-70 operations: writes, range deletions, flushes split at user keys, ingests, " +
		"base and intra-L0 picks with random depths, deferred completion of picked compactions); distinct = distinct operation log; " +
		"non-trivial = at least one picked compaction was executed and L0 reached 3 or more tables")
	r.Exhaustive(false) // sampled sessions; the enumerated part is TestVerifC16Exhaustive
	n := vcommon.Scale(20000, 400000)
	r.Cases(n, func(ci int, rng *rand.Rand) {
		s := &verifC16Sim{rng: rng, r: r, nkeys: 4 + rng.IntN(9), fsb: []int64{0, 1, 64, 1 << 10, 1 << 20, 64 << 20}[rng.IntN(6)]}
		if rng.IntN(4) == 0 {
			s.nkeys = 2 + rng.IntN(3)
		}
		s.seq = uint64(rng.IntN(5))
		// Lbase: a few disjoint tables with old sequence numbers.
		k := 0
		for k < s.nkeys && len(s.base) < 4 {
			k += rng.IntN(3)
			if k >= s.nkeys || rng.IntN(4) == 0 {
				break
			}
			hi := min(s.nkeys-1, k+rng.IntN(4))
			var ents []verifC16Ent
			for x := k; x <= hi; x++ {
				if x == k || x == hi || rng.IntN(2) == 0 {
					s.seq++
					ents = append(ents, verifC16Ent{key: x, seq: s.seq, rd: x == hi && rng.IntN(5) == 0})
				}
			}
			s.base = append(s.base, s.newFile(ents))
			k = hi + 1
		}
		s.memStart = s.seq + 1
		var sc string
		s.sub, sc = s.scratch(nil, nil)
		if sc != "" {
			s.violate("sublevel-build-failed", "empty L0: "+sc, nil)
			return
		}
		steps := 15 + rng.IntN(56)
		for i := 0; i < steps && !s.failed; i++ {
			switch x := rng.IntN(100); {
			case x < 28:
				s.write()
			case x < 44:
				s.flush()
			case x < 60:
				s.ingest()
			case x < 74:
				s.pickBase()
			case x < 86:
				s.pickIntra()
			default:
				s.complete()
			}
		}
		// Drain: complete everything, then pick until nothing is picked.
		for round := 0; round < 40 && !s.failed; round++ {
			for len(s.inprog) > 0 && !s.failed {
				s.complete()
			}
			before := s.nPicks
			if !s.failed {
				s.pickBase()
			}
			if !s.failed && s.nPicks == before {
				s.pickIntra()
			}
			if s.nPicks == before {
				break
			}
		}
		r.Eval(1)
		r.Count("sessions", 1)
		r.Count("operations", int64(len(s.log)))
		r.Max("max_l0_tables", int64(s.maxL0))
		r.Max("max_sublevels", int64(s.maxSub))
		if s.nExec > 0 && s.maxL0 >= 3 {
			r.Distinct(strings.Join(s.log, "\n"))
		}
		if r.WantSample() && s.nExec >= 2 && len(s.log) < 40 {
			r.Sample(map[string]any{"case": ci, "session": s.describe()})
		}
	})
}
