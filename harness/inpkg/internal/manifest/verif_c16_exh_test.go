// C16, exhaustive part: every layout of a small L0 is enumerated (not sampled).
//
// A layout is a sequence of up to G generations over K user keys; a generation
// is either a flush (one or more tables with pairwise disjoint key spans,
// sequence numbers {2g-1, 2g}) or an ingest (one table, single sequence number
// 2g); every table holds an entry at each key of its span and may end with an
// exclusive bound. For every layout the sublevels are built generation by
// generation (incremental vs scratch, soundness, per-key order) and then, for
// every Lbase configuration, minimum depth and earliest-unflushed choice, the
// pickers are called on a fresh copy, the pick is executed virtually, started,
// followed by a second round of picks against the compacting marks it leaves,
// and completed.
package manifest

import (
	"fmt"
	"math/rand/v2"
	"testing"

	"github.com/cockroachdb/pebble/internal/verif/vcommon"
)

type verifC16XSpan struct {
	lo, hi int
	excl   bool
}

type verifC16XGen struct {
	ingest bool
	spans  []verifC16XSpan
}

// verifC16XSpanSets lists every non-empty set of pairwise disjoint spans over
// keys [from, nkeys), each with and without an exclusive end.
func verifC16XSpanSets(from, nkeys int) [][]verifC16XSpan {
	out := [][]verifC16XSpan{nil}
	for lo := from; lo < nkeys; lo++ {
		for hi := lo; hi < nkeys; hi++ {
			for _, rest := range verifC16XSpanSets(hi+1, nkeys) {
				for _, excl := range []bool{false, true} {
					out = append(out, append([]verifC16XSpan{{lo, hi, excl}}, rest...))
				}
			}
		}
	}
	return out
}

func verifC16XLayouts(nkeys, maxFiles, maxGens int) [][]verifC16XGen {
	var gens []verifC16XGen
	for _, set := range verifC16XSpanSets(0, nkeys) {
		if len(set) == 0 || len(set) > maxFiles {
			continue
		}
		gens = append(gens, verifC16XGen{spans: set})
		if len(set) == 1 {
			gens = append(gens, verifC16XGen{ingest: true, spans: set})
		}
	}
	var out [][]verifC16XGen
	var rec func(cur []verifC16XGen, files int)
	rec = func(cur []verifC16XGen, files int) {
		if len(cur) > 0 {
			out = append(out, append([]verifC16XGen(nil), cur...))
		}
		if len(cur) == maxGens {
			return
		}
		for _, g := range gens {
			if files+len(g.spans) <= maxFiles {
				rec(append(cur, g), files+len(g.spans))
			}
		}
	}
	rec(nil, 0)
	return out
}

func (g verifC16XGen) String() string {
	s := "flush"
	if g.ingest {
		s = "ingest"
	}
	for _, sp := range g.spans {
		end := "]"
		if sp.excl {
			end = ")"
		}
		s += fmt.Sprintf(" [%s,%s%s", verifC16K(sp.lo), verifC16K(sp.hi), end)
	}
	return s
}

// verifC16XBuild constructs a fresh simulation holding the layout. tail is the
// number of trailing ingest generations that arrived after the current
// memtable was created (their sequence numbers are >= earliestUnflushedSeqNum).
func verifC16XBuild(r *vcommon.Report, rng *rand.Rand, nkeys int, layout []verifC16XGen, baseCfg [][2]int, tail int, incremental bool) *verifC16Sim {
	s := &verifC16Sim{rng: rng, r: r, nkeys: nkeys, fsb: 64}
	for _, b := range baseCfg {
		var ents []verifC16Ent
		for k := b[0]; k <= b[1]; k++ {
			ents = append(ents, verifC16Ent{key: k, seq: 0})
		}
		s.base = append(s.base, s.newFile(ents))
	}
	var sc string
	if s.sub, sc = s.scratch(nil, nil); sc != "" {
		s.violate("sublevel-build-failed", "empty L0: "+sc, nil)
		return s
	}
	for gi, g := range layout {
		hiSeq := uint64(2 * (gi + 1))
		var added []*verifC16File
		for _, sp := range g.spans {
			var ents []verifC16Ent
			for k := sp.lo; k <= sp.hi; k++ {
				seq := hiSeq - 1
				if g.ingest || k == sp.lo {
					seq = hiSeq
				}
				ents = append(ents, verifC16Ent{key: k, seq: seq, rd: sp.excl && k == sp.hi})
			}
			f := s.newFile(ents)
			added = append(added, f)
		}
		s.l0 = append(s.l0, added...)
		s.logf("%s", g)
		if incremental {
			s.install(added, false, "add-generation")
			if s.failed {
				return s
			}
		}
	}
	if !incremental {
		s.install(nil, true, "build")
	}
	G := len(layout)
	s.seq = uint64(2*G + 1)
	s.memStart = uint64(2*G + 1)
	if tail > 0 {
		// The memtable was created before the last `tail` ingests: it holds older
		// entries on keys outside those ingests' bounds, and newer entries anywhere.
		s.memStart = uint64(2*(G-tail+1) - 1)
		covered := map[int]bool{}
		for _, g := range layout[G-tail:] {
			for k := g.spans[0].lo; k <= g.spans[0].hi; k++ {
				covered[k] = true
			}
		}
		for k := 0; k < nkeys; k++ {
			if !covered[k] {
				s.mem = append(s.mem, verifC16Ent{key: k, seq: s.memStart})
			}
		}
	}
	for k := 0; k < nkeys; k++ {
		s.mem = append(s.mem, verifC16Ent{key: k, seq: uint64(2*G + 1)})
	}
	return s
}

func TestVerifC16Exhaustive(t *testing.T) {
	r := vcommon.NewReport("C16", "exhaustive")
	defer r.Finish(t)
	nkeys, maxFiles, maxGens := 3, 3, 3
	if vcommon.Thorough() {
		nkeys, maxFiles, maxGens = 4, 4, 3
	}
	layouts := verifC16XLayouts(nkeys, maxFiles, maxGens)
	r.Rule(fmt.Sprintf("exhaustive: every layout of at most %d L0 tables in at most %d generations (flush with disjoint spans / single-seqnum ingest, inclusive or exclusive end bounds) over %d user keys: %d layouts, "+
		"each combined with every Lbase configuration, minimum depth 1-2 and every consistent earliest-unflushed choice; distinct = layout; non-trivial = layout with at least two overlapping tables",
		maxFiles, maxGens, nkeys, len(layouts)))
	r.Exhaustive(true)
	r.Note("exhaustive part: %d layouts enumerated (nkeys=%d, max tables=%d, max generations=%d); compacting marks are those left by one preceding pick of either kind", len(layouts), nkeys, maxFiles, maxGens)
	baseCfgs := [][][2]int{nil, {{0, nkeys - 1}}, {{0, 0}, {nkeys - 1, nkeys - 1}}, {{1, nkeys - 2}}}
	if nkeys >= 4 {
		baseCfgs = append(baseCfgs, [][2]int{{0, 1}, {2, 3}})
	}
	r.Cases(len(layouts), func(ci int, rng *rand.Rand) {
		layout := layouts[ci]
		r.Eval(1)
		r.Count("layouts", 1)
		// 1. generation by generation (incremental path).
		s := verifC16XBuild(r, rng, nkeys, layout, nil, 0, true)
		if s.failed {
			return
		}
		overlapping := false
		for i, f := range s.l0 {
			for _, g := range s.l0[i+1:] {
				overlapping = overlapping || verifC16Overlap(f, g)
			}
		}
		if overlapping {
			r.Distinct(fmt.Sprint(layout))
		}
		r.Max("max_sublevels", int64(len(s.sub.levelFiles)))
		maxTail := 0
		for i := len(layout) - 1; i >= 0 && layout[i].ingest; i-- {
			maxTail++
		}
		drain := func(s *verifC16Sim) {
			for len(s.inprog) > 0 && !s.failed {
				s.complete()
			}
		}
		for _, bc := range baseCfgs {
			for tail := 0; tail <= maxTail; tail++ {
				for depth := 1; depth <= 2; depth++ {
					// base pick first, then both pickers against its marks
					s := verifC16XBuild(r, rng, nkeys, layout, bc, tail, false)
					s.fixedDepth = depth
					r.Count("configurations", 1)
					if s.failed {
						return
					}
					s.pickBase()
					if !s.failed {
						s.pickIntra()
					}
					if !s.failed {
						s.pickBase()
					}
					drain(s)
					if s.failed {
						return
					}
					// intra pick first
					s = verifC16XBuild(r, rng, nkeys, layout, bc, tail, false)
					s.fixedDepth = depth
					if s.failed {
						return
					}
					s.pickIntra()
					if !s.failed {
						s.pickBase()
					}
					if !s.failed {
						s.pickIntra()
					}
					drain(s)
					if s.failed {
						return
					}
				}
			}
		}
		if r.WantSample() && len(s.l0) == maxFiles && overlapping {
			r.Sample(map[string]any{"part": "exhaustive", "layout_index": ci, "layout": fmt.Sprint(layout)})
		}
	})
}
