// C23: version edits round-trip and replay deterministically.
//
// Three monitors over the real Encode/Decode/Accumulate/Apply code:
//
//	(a) TestVerifC23RoundTrip: generated valid edits covering every tag the
//	    encoder can emit; Decode(Encode(e)) must equal e on every persisted
//	    field and on DebugString, through three different reader kinds.
//	(b) TestVerifC23Replay: consistent edit sequences driven by a model LSM;
//	    the version after applying edits one at a time (runtime path) must
//	    equal the model, and must equal the version obtained by decoding the
//	    encoded edits and accumulating them into one BulkVersionEdit (recovery
//	    path) or into random chunks (replay-tool path).
//	(c) TestVerifC23Fuzz: arbitrary bytes (random, varint soup, mutated valid
//	    encodings). Decode must not panic; if it succeeds with e', then
//	    Decode(Encode(e')) must equal e'.
package manifest

import (
	"bytes"
	"encoding/binary"
	"encoding/hex"
	"errors"
	"fmt"
	"io"
	"math/rand/v2"
	"regexp"
	"runtime"
	"slices"
	"sort"
	"strings"
	"sync"
	"testing"
	"testing/iotest"

	"github.com/cockroachdb/pebble/internal/base"
	"github.com/cockroachdb/pebble/internal/verif/vcommon"
	"github.com/cockroachdb/pebble/sstable"
)

// ---------------------------------------------------------------------------
// Canonical (structural) form of an edit: every field Encode persists.

func verifC23KeyStr(k InternalKey) string {
	return fmt.Sprintf("%x#%d", k.UserKey, uint64(k.Trailer))
}

func verifC23CanonMeta(p string, m *TableMetadata, backingFileNum base.DiskFileNum) []string {
	var out []string
	add := func(f string, a ...any) { out = append(out, p+fmt.Sprintf(f, a...)) }
	if m == nil {
		add("meta=nil")
		return out
	}
	add("num=%d", uint64(m.TableNum))
	add("size=%d", m.Size)
	add("ctime=%d", m.CreationTime)
	add("seqlo=%d", uint64(m.SeqNums.Low))
	add("seqhi=%d", uint64(m.SeqNums.High))
	add("seqabs=%d", uint64(m.LargestSeqNumAbsolute))
	add("virtual=%t", m.Virtual)
	if m.Virtual {
		bn := backingFileNum
		if m.TableBacking != nil {
			bn = m.TableBacking.DiskFileNum
		}
		add("vbacking=%d", uint64(bn))
	} else if m.TableBacking != nil {
		add("pbacking=%d/%d", uint64(m.TableBacking.DiskFileNum), m.TableBacking.Size)
	} else {
		add("pbacking=nil")
	}
	add("haspoint=%t", m.HasPointKeys)
	if m.HasPointKeys {
		add("ptsmallest=%s", verifC23KeyStr(m.PointKeyBounds.Smallest()))
		add("ptlargest=%s", verifC23KeyStr(m.PointKeyBounds.Largest()))
	}
	add("hasrange=%t", m.HasRangeKeys)
	if m.RangeKeyBounds != nil {
		add("rksmallest=%s", verifC23KeyStr(m.RangeKeyBounds.Smallest()))
		add("rklargest=%s", verifC23KeyStr(m.RangeKeyBounds.Largest()))
	}
	add("rkkinds=%d", uint8(m.RangeKeyKinds))
	add("boundtypes=%d/%d/%t", m.boundTypeSmallest, m.boundTypeLargest, m.boundsSet)
	add("prefix=%x", []byte(m.SyntheticPrefixAndSuffix.Prefix()))
	add("suffix=%x", []byte(m.SyntheticPrefixAndSuffix.Suffix()))
	add("blobdepth=%d", int(m.BlobReferenceDepth))
	add("nblobrefs=%d", len(m.BlobReferences))
	for i, r := range m.BlobReferences {
		add("blobref[%d]=%d/%d/%d", i, uint64(r.FileID), r.ValueSize, r.BackingValueSize)
	}
	return out
}

func verifC23CanonEdit(ve *VersionEdit) []string {
	var out []string
	add := func(f string, a ...any) { out = append(out, fmt.Sprintf(f, a...)) }
	add("comparer=%q", ve.ComparerName)
	add("lognum=%d", uint64(ve.MinUnflushedLogNum))
	add("prevlognum=%d", ve.ObsoletePrevLogNum)
	add("nextfilenum=%d", ve.NextFileNum)
	add("lastseqnum=%d", uint64(ve.LastSeqNum))
	var dels []string
	for d := range ve.DeletedTables {
		dels = append(dels, fmt.Sprintf("del.table=L%d/%020d", d.Level, uint64(d.FileNum)))
	}
	sort.Strings(dels)
	out = append(out, dels...)
	add("nnew=%d", len(ve.NewTables))
	for i, nt := range ve.NewTables {
		p := fmt.Sprintf("new[%d].", i)
		out = append(out, fmt.Sprintf("%slevel=%d", p, nt.Level))
		out = append(out, verifC23CanonMeta(p, nt.Meta, nt.BackingFileNum)...)
	}
	add("ncreatedbacking=%d", len(ve.CreatedBackingTables))
	for i, b := range ve.CreatedBackingTables {
		add("createdbacking[%d]=%d/%d", i, uint64(b.DiskFileNum), b.Size)
	}
	add("nremovedbacking=%d", len(ve.RemovedBackingTables))
	for i, n := range ve.RemovedBackingTables {
		add("removedbacking[%d]=%d", i, uint64(n))
	}
	add("nnewblob=%d", len(ve.NewBlobFiles))
	for i, b := range ve.NewBlobFiles {
		if b.Physical == nil {
			add("newblob[%d]=%d/nil", i, uint64(b.FileID))
			continue
		}
		add("newblob[%d]=%d/%d/%d/%d/%d", i, uint64(b.FileID), uint64(b.Physical.FileNum), b.Physical.Size, b.Physical.ValueSize, b.Physical.CreationTime)
	}
	dels = dels[:0]
	for d := range ve.DeletedBlobFiles {
		dels = append(dels, fmt.Sprintf("del.blob=%020d/%020d", uint64(d.FileID), uint64(d.FileNum)))
	}
	sort.Strings(dels)
	out = append(out, dels...)
	add("nexcise=%d", len(ve.ExciseBoundsRecord))
	for i, e := range ve.ExciseBoundsRecord {
		add("excise[%d]=%x/%x/%d/%d", i, e.Bounds.Start, e.Bounds.End.Key, e.Bounds.End.Kind, uint64(e.SeqNum))
	}
	add("nmarked=%d", len(ve.TablesMarkedForCompaction))
	for i, e := range ve.TablesMarkedForCompaction {
		add("marked[%d]=L%d/%d", i, e.Level, uint64(e.TableNum))
	}
	return out
}

var verifC23IdxRe = regexp.MustCompile(`\[\d+\]`)

// verifC23Diff returns the differing lines and the (index-free) names of the
// fields that differ.
func verifC23Diff(a, b []string) (lines []string, fields string) {
	fs := map[string]struct{}{}
	n := max(len(a), len(b))
	for i := 0; i < n; i++ {
		var x, y string
		if i < len(a) {
			x = a[i]
		}
		if i < len(b) {
			y = b[i]
		}
		if x != y {
			if len(lines) < 12 {
				lines = append(lines, fmt.Sprintf("%q != %q", x, y))
			}
			k := x
			if k == "" {
				k = y
			}
			if j := strings.IndexByte(k, '='); j >= 0 {
				k = k[:j]
			}
			fs[verifC23IdxRe.ReplaceAllString(k, "")] = struct{}{}
		}
	}
	var l []string
	for k := range fs {
		l = append(l, k)
	}
	sort.Strings(l)
	return lines, strings.Join(l, ",")
}

// verifC23AttachBackings performs the caller's part of Decode's contract: the
// TableBacking of decoded virtual tables is not set by Decode.
func verifC23AttachBackings(ve *VersionEdit, lookup func(i int, n base.DiskFileNum) *TableBacking, viaAPI bool) {
	for i := range ve.NewTables {
		nt := &ve.NewTables[i]
		if nt.Meta == nil || !nt.Meta.Virtual || nt.Meta.TableBacking != nil {
			continue
		}
		var tb *TableBacking
		if lookup != nil {
			tb = lookup(i, nt.BackingFileNum)
		}
		if tb == nil {
			for _, cb := range ve.CreatedBackingTables {
				if cb.DiskFileNum == nt.BackingFileNum {
					tb = cb
				}
			}
		}
		if tb == nil {
			tb = &TableBacking{DiskFileNum: nt.BackingFileNum}
		}
		if viaAPI {
			nt.Meta.AttachVirtualBacking(tb)
		} else {
			nt.Meta.TableBacking = tb
		}
	}
}

// verifC23Tags names the tags / custom tags the encoder emits for ve.
func verifC23Tags(ve *VersionEdit) []string {
	var t []string
	if ve.ComparerName != "" {
		t = append(t, "comparator")
	}
	if ve.MinUnflushedLogNum != 0 {
		t = append(t, "log-number")
	}
	if ve.ObsoletePrevLogNum != 0 {
		t = append(t, "prev-log-number")
	}
	if ve.NextFileNum != 0 {
		t = append(t, "next-file-number")
	}
	if ve.LastSeqNum != 0 || ve.ComparerName != "" {
		t = append(t, "last-sequence")
	}
	if len(ve.DeletedTables) > 0 {
		t = append(t, "deleted-file")
	}
	for _, nt := range ve.NewTables {
		m := nt.Meta
		custom := m.CreationTime != 0 || m.Virtual || len(m.BlobReferences) > 0 || m.RangeKeyKinds == OnlyRangeKeyUnsetAndDelete
		switch {
		case m.HasRangeKeys && m.HasPointKeys:
			t = append(t, "new-file5(points+ranges)")
		case m.HasRangeKeys:
			t = append(t, "new-file5(ranges-only)")
		case custom:
			t = append(t, "new-file4")
		default:
			t = append(t, "new-file2")
		}
		if m.CreationTime != 0 {
			t = append(t, "custom:creation-time")
		}
		if m.RangeKeyKinds == OnlyRangeKeyUnsetAndDelete {
			t = append(t, "custom:no-range-key-sets")
		}
		if m.Virtual {
			t = append(t, "custom:virtual")
		}
		if m.SyntheticPrefixAndSuffix.HasPrefix() {
			t = append(t, "custom:synthetic-prefix")
		}
		if m.SyntheticPrefixAndSuffix.HasSuffix() {
			t = append(t, "custom:synthetic-suffix")
		}
		if len(m.BlobReferences) > 0 {
			two := false
			if m.Virtual {
				for _, r := range m.BlobReferences {
					two = two || r.BackingValueSize > 0
				}
			}
			if two {
				t = append(t, "custom:blob-references2")
			} else {
				t = append(t, "custom:blob-references")
			}
		}
		if m.Largest().IsExclusiveSentinel() {
			t = append(t, "bounds:exclusive-sentinel-largest")
		}
	}
	if len(ve.CreatedBackingTables) > 0 {
		t = append(t, "created-backing-table")
	}
	if len(ve.RemovedBackingTables) > 0 {
		t = append(t, "removed-backing-table")
	}
	if len(ve.NewBlobFiles) > 0 {
		t = append(t, "new-blob-file")
	}
	if len(ve.DeletedBlobFiles) > 0 {
		t = append(t, "deleted-blob-file")
	}
	if len(ve.ExciseBoundsRecord) > 0 {
		t = append(t, "excise-bounds-record")
	}
	if len(ve.TablesMarkedForCompaction) > 0 {
		t = append(t, "table-marked-for-compaction")
	}
	return t
}

// verifC23NoCustomRangeKeyTable: a table that Encode writes as tagNewFile5
// without any custom field (and hence without the custom-field terminator).
func verifC23NoCustomRangeKeyTable(m *TableMetadata) bool {
	return m.HasRangeKeys && m.CreationTime == 0 && !m.Virtual && len(m.BlobReferences) == 0 && m.RangeKeyKinds != OnlyRangeKeyUnsetAndDelete
}

// verifC23KnownTrigger labels edits that contain a state that used to break the
// round trip (Encode omitted the custom-field terminator; fixed in 14dc881c8).
func verifC23KnownTrigger(ve *VersionEdit) string {
	for _, nt := range ve.NewTables {
		if verifC23NoCustomRangeKeyTable(nt.Meta) {
			return "newfile5-without-custom-fields"
		}
	}
	return ""
}

// verifC23Catch runs f and converts a panic into a message.
func verifC23Catch(f func()) (msg string) {
	defer func() {
		if r := recover(); r != nil {
			msg = fmt.Sprint(r)
			if msg == "" {
				msg = "(empty panic)"
			}
		}
	}()
	f()
	return ""
}

type verifC23PlainReader struct{ r io.Reader }

func (p verifC23PlainReader) Read(b []byte) (int, error) { return p.r.Read(b) }

// verifC23CheckRoundTrip checks Decode(Encode(e)) == e for a valid edit and
// returns the encoding. lookup resolves backings created by earlier edits.
func verifC23CheckRoundTrip(r *vcommon.Report, ve *VersionEdit, lookup func(i int, n base.DiskFileNum) *TableBacking, what string, light bool) (enc []byte, ok bool) {
	want := verifC23CanonEdit(ve)
	wantDbg := ve.DebugString(base.DefaultFormatter)
	var buf bytes.Buffer
	var err error
	if p := verifC23Catch(func() { err = ve.Encode(&buf) }); p != "" || err != nil {
		r.Violate("encode-error", fmt.Sprintf("%s: Encode of a valid edit failed: panic=%q err=%v", what, p, err),
			map[string]any{"edit": wantDbg, "canon": want}, map[string]any{"stage": "encode"})
		return nil, false
	}
	enc = slices.Clone(buf.Bytes())
	ok = true
	// trigger labels a state that once failed to round-trip (fixed in 14dc881c8);
	// it is kept in the match fields as a regression marker.
	trigger := verifC23KnownTrigger(ve)
	if trigger != "" {
		r.Count("regression_cases:"+trigger, 1)
	}
	for ri, mk := range []func() io.Reader{
		func() io.Reader { return verifC23NewGuard(enc) },                      // byteReader, used directly (allocation guard, see verifC23Guard)
		func() io.Reader { return verifC23PlainReader{bytes.NewReader(enc)} },  // wrapped in bufio by Decode
		func() io.Reader { return iotest.OneByteReader(bytes.NewReader(enc)) }, // short reads through bufio/io.ReadFull
	} {
		if light && ri != 0 && ri != 1+len(enc)%2 {
			continue // sequences: guarded reader plus one of the two bufio paths
		}
		if ri == 2 && len(enc) > 1<<15 {
			continue // byte-at-a-time reads of a long field are prohibitively slow under the race detector
		}
		var got VersionEdit
		if p := verifC23Catch(func() { err = got.Decode(mk()) }); p != "" || err != nil {
			r.Violate("decode-error", fmt.Sprintf("%s: Decode(Encode(e)) failed (reader %d): panic=%q err=%v", what, ri, p, err),
				map[string]any{"edit": wantDbg, "encoded_hex": hex.EncodeToString(enc)}, map[string]any{"stage": "decode", "reader": ri, "trigger": trigger})
			return enc, false
		}
		gotCanon := verifC23CanonEdit(&got)
		if lines, fields := verifC23Diff(want, gotCanon); len(lines) > 0 {
			r.Violate("roundtrip-mismatch", fmt.Sprintf("%s: Decode(Encode(e)) != e (reader %d): %s", what, ri, strings.Join(lines, "; ")),
				map[string]any{"edit": wantDbg, "encoded_hex": hex.EncodeToString(enc), "want": want, "got": gotCanon},
				map[string]any{"fields": fields, "trigger": trigger})
			ok = false
			continue
		}
		var gotDbg string
		if p := verifC23Catch(func() {
			verifC23AttachBackings(&got, lookup, true)
			gotDbg = got.DebugString(base.DefaultFormatter)
		}); p != "" {
			r.Violate("debugstring-panic", fmt.Sprintf("%s: DebugString of decoded edit panicked: %s", what, p),
				map[string]any{"edit": wantDbg, "encoded_hex": hex.EncodeToString(enc)}, map[string]any{"panic": p})
			ok = false
			continue
		}
		if gotDbg != wantDbg {
			r.Violate("debugstring-mismatch", fmt.Sprintf("%s: DebugString differs after round trip", what),
				map[string]any{"want": wantDbg, "got": gotDbg, "encoded_hex": hex.EncodeToString(enc)}, nil)
			ok = false
		}
	}
	return enc, ok
}

// ---------------------------------------------------------------------------
// (a) wild-but-valid single edits.

var verifC23Boundary = []uint64{0, 1, 2, 127, 128, 129, 16383, 16384, 1<<21 - 1, 1 << 21, 1<<28 - 1, 1 << 28,
	1<<32 - 1, 1 << 32, 1<<35 - 1, 1 << 35, 1<<42 - 1, 1<<49 - 1, 1 << 49, 1<<56 - 1, 1 << 56, 1<<63 - 1, 1 << 63, 1<<64 - 1}

func verifC23U64(rng *rand.Rand) uint64 {
	switch rng.IntN(5) {
	case 0:
		return verifC23Boundary[rng.IntN(len(verifC23Boundary))]
	case 1:
		return rng.Uint64()
	case 2:
		return rng.Uint64() >> uint(rng.IntN(64))
	default:
		return uint64(rng.IntN(1000))
	}
}

func verifC23Bytes(rng *rand.Rand, minLen, maxLen int) []byte {
	n := minLen + rng.IntN(maxLen-minLen+1)
	b := make([]byte, n)
	for i := range b {
		switch rng.IntN(4) {
		case 0:
			b[i] = byte(rng.IntN(256))
		case 1:
			b[i] = []byte{0, 0xff, 0x80, 0x7f}[rng.IntN(4)]
		default:
			b[i] = byte('a' + rng.IntN(26))
		}
	}
	return b
}

var verifC23PointKinds = []base.InternalKeyKind{base.InternalKeyKindDelete, base.InternalKeyKindSet, base.InternalKeyKindMerge,
	base.InternalKeyKindSingleDelete, base.InternalKeyKindRangeDelete, base.InternalKeyKindSetWithDelete, base.InternalKeyKindDeleteSized}
var verifC23RangeKinds = []base.InternalKeyKind{base.InternalKeyKindRangeKeySet, base.InternalKeyKindRangeKeyUnset, base.InternalKeyKindRangeKeyDelete}

func verifC23SeqNum(rng *rand.Rand) base.SeqNum {
	return base.SeqNum(verifC23U64(rng) & uint64(base.SeqNumMax))
}

// verifC23WildMeta builds a table with arbitrary (valid) field values.
func verifC23WildMeta(rng *rand.Rand, small bool, probe bool) (*TableMetadata, base.DiskFileNum) {
	cmp := base.DefaultComparer.Compare
	u64 := func() uint64 {
		if small {
			return uint64(rng.IntN(1 << 16))
		}
		return verifC23U64(rng)
	}
	m := &TableMetadata{TableNum: base.TableNum(u64()), Size: u64()}
	if rng.IntN(2) == 0 {
		m.CreationTime = int64(u64() >> 1)
	}
	lo, hi := base.SeqNum(u64()&uint64(base.SeqNumMax)), base.SeqNum(u64()&uint64(base.SeqNumMax))
	if lo > hi {
		lo, hi = hi, lo
	}
	m.SeqNums = base.SeqNumRange{Low: lo, High: hi}
	m.LargestSeqNumAbsolute = hi
	m.Virtual = rng.IntN(3) == 0
	minKey := 0
	if m.Virtual {
		minKey = 1
	}
	uks := [][]byte{verifC23Bytes(rng, minKey, 24), verifC23Bytes(rng, minKey, 24), verifC23Bytes(rng, minKey, 24), verifC23Bytes(rng, minKey, 24)}
	slices.SortFunc(uks, cmp)
	if rng.IntN(6) == 0 {
		uks[1], uks[2], uks[3] = uks[0], uks[0], uks[0]
	}
	ptKey := func(uk []byte) InternalKey {
		return base.MakeInternalKey(uk, base.SeqNum(u64()&uint64(base.SeqNumMax-1)), verifC23PointKinds[rng.IntN(len(verifC23PointKinds))])
	}
	ordered := func(a, b InternalKey) (InternalKey, InternalKey) {
		if base.InternalCompare(cmp, a, b) > 0 {
			return b, a
		}
		return a, b
	}
	shape := rng.IntN(4)
	if shape <= 2 { // points
		i, j := rng.IntN(4), rng.IntN(4)
		if i > j {
			i, j = j, i
		}
		s, l := ptKey(uks[i]), ptKey(uks[j])
		if rng.IntN(4) == 0 {
			l = base.MakeRangeDeleteSentinelKey(uks[j])
		}
		s, l = ordered(s, l)
		m.ExtendPointKeyBounds(cmp, s, l)
	}
	if shape >= 2 { // ranges
		i, j := rng.IntN(4), rng.IntN(4)
		if i > j {
			i, j = j, i
		}
		kinds := AnyRangeKeys
		rk := verifC23RangeKinds
		if rng.IntN(2) == 0 {
			kinds = OnlyRangeKeyUnsetAndDelete
			rk = verifC23RangeKinds[1:]
		}
		s := base.MakeInternalKey(uks[i], base.SeqNum(u64()&uint64(base.SeqNumMax-1)), rk[rng.IntN(len(rk))])
		l := base.MakeExclusiveSentinelKey(rk[rng.IntN(len(rk))], uks[j])
		s, l = ordered(s, l)
		m.ExtendRangeKeyBounds(cmp, kinds, s, l)
	}
	var backing base.DiskFileNum
	nref := 0
	if rng.IntN(3) == 0 {
		nref = 1 + rng.IntN(4)
	}
	for i := 0; i < nref; i++ {
		ref := BlobReference{FileID: base.BlobFileID(u64()), ValueSize: u64()}
		if m.Virtual && rng.IntN(2) == 0 {
			ref.BackingValueSize = u64()
		}
		m.BlobReferences = append(m.BlobReferences, ref)
	}
	if nref > 0 {
		m.BlobReferenceDepth = BlobReferenceDepth(1 + rng.IntN(nref))
	}
	_ = probe
	if m.Virtual {
		var pre, suf []byte
		if rng.IntN(2) == 0 {
			pre = verifC23Bytes(rng, 1, 8)
		}
		if rng.IntN(2) == 0 {
			suf = verifC23Bytes(rng, 1, 8)
		}
		m.SyntheticPrefixAndSuffix = sstable.MakeSyntheticPrefixAndSuffix(pre, suf)
		backing = base.DiskFileNum(u64())
		m.InitVirtualBacking(backing, u64())
	} else {
		m.InitPhysicalBacking()
	}
	return m, backing
}

// verifC23WildEdit generates one valid edit; every encodable field is present
// with some probability. With small=true all numbers stay below 2^16 (used as
// fuzz seeds so that the allocation guard rarely fires on unmutated fields).
func verifC23WildEdit(rng *rand.Rand, small bool, probe bool) *VersionEdit {
	u64 := func() uint64 {
		if small {
			return uint64(rng.IntN(1 << 16))
		}
		return verifC23U64(rng)
	}
	ve := &VersionEdit{}
	p := func(n int) bool { return rng.IntN(n) == 0 }
	if p(4) {
		ve.ComparerName = string(verifC23Bytes(rng, 1, 30))
		if !small && p(300) {
			// longer than one read chunk of versionEditDecoder.readBytes (rare:
			// the race detector makes 64 KiB fields cost about a second)
			ve.ComparerName = string(verifC23Bytes(rng, 1<<16-2, 1<<16+4096))
		}
	}
	if p(3) {
		ve.MinUnflushedLogNum = base.DiskFileNum(u64())
	}
	if p(6) {
		ve.ObsoletePrevLogNum = u64()
	}
	if p(3) {
		ve.NextFileNum = u64()
	}
	if p(3) {
		ve.LastSeqNum = base.SeqNum(u64())
	}
	if p(2) {
		ve.DeletedTables = map[DeletedTableEntry]*TableMetadata{}
		for i, n := 0, 1+rng.IntN(4); i < n; i++ {
			m, _ := verifC23WildMeta(rng, small, false)
			ve.DeletedTables[DeletedTableEntry{Level: rng.IntN(NumLevels), FileNum: m.TableNum}] = m
		}
	}
	if !p(4) {
		for i, n := 0, 1+rng.IntN(5); i < n; i++ {
			m, backing := verifC23WildMeta(rng, small, probe)
			ve.NewTables = append(ve.NewTables, NewTableEntry{Level: rng.IntN(NumLevels), Meta: m, BackingFileNum: backing})
			if m.Virtual && p(2) {
				ve.CreatedBackingTables = append(ve.CreatedBackingTables, m.TableBacking)
			}
		}
	}
	if p(4) {
		for i, n := 0, 1+rng.IntN(3); i < n; i++ {
			ve.CreatedBackingTables = append(ve.CreatedBackingTables, &TableBacking{DiskFileNum: base.DiskFileNum(u64()), Size: u64()})
		}
	}
	if p(3) {
		for i, n := 0, 1+rng.IntN(3); i < n; i++ {
			ve.RemovedBackingTables = append(ve.RemovedBackingTables, base.DiskFileNum(u64()))
		}
	}
	if p(3) {
		for i, n := 0, 1+rng.IntN(3); i < n; i++ {
			ve.NewBlobFiles = append(ve.NewBlobFiles, BlobFileMetadata{FileID: base.BlobFileID(u64()),
				Physical: &PhysicalBlobFile{FileNum: base.DiskFileNum(u64()), Size: u64(), ValueSize: u64(), CreationTime: u64()}})
		}
	}
	if p(3) {
		ve.DeletedBlobFiles = map[DeletedBlobFileEntry]*PhysicalBlobFile{}
		for i, n := 0, 1+rng.IntN(3); i < n; i++ {
			e := DeletedBlobFileEntry{FileID: base.BlobFileID(u64()), FileNum: base.DiskFileNum(u64())}
			ve.DeletedBlobFiles[e] = &PhysicalBlobFile{FileNum: e.FileNum}
		}
	}
	if p(3) {
		for i, n := 0, 1+rng.IntN(2); i < n; i++ {
			a, b := verifC23Bytes(rng, 1, 16), verifC23Bytes(rng, 1, 16)
			if !small && p(400) {
				b = verifC23Bytes(rng, 1<<16-1, 1<<17+3)
			}
			if bytes.Compare(a, b) > 0 {
				a, b = b, a
			}
			ve.ExciseBoundsRecord = append(ve.ExciseBoundsRecord, ExciseOpEntry{
				Bounds: base.UserKeyBounds{Start: a, End: base.UserKeyExclusiveIf(b, p(2))}, SeqNum: base.SeqNum(u64())})
		}
	}
	if p(3) {
		for i, n := 0, 1+rng.IntN(3); i < n; i++ {
			m, _ := verifC23WildMeta(rng, small, false)
			ve.TablesMarkedForCompaction = append(ve.TablesMarkedForCompaction,
				TableMarkedForCompactionEntry{Level: rng.IntN(NumLevels), TableNum: m.TableNum, Meta: m})
		}
	}
	return ve
}

// verifC23LegacyCase hand-encodes records that only the decoder knows (LevelDB /
// RocksDB new-file tags 1, 100, 102, compact pointers, ignorable custom tags)
// and checks that Decode yields the equivalent modern edit.
func verifC23LegacyCase(r *vcommon.Report, rng *rand.Rand) {
	want := &VersionEdit{}
	var enc []byte
	u := func(v uint64) { enc = binary.AppendUvarint(enc, v) }
	key := func(k InternalKey) {
		u(uint64(len(k.UserKey) + 8))
		enc = append(enc, k.UserKey...)
		enc = binary.LittleEndian.AppendUint64(enc, uint64(k.Trailer))
	}
	for i, n := 0, 1+rng.IntN(3); i < n; i++ {
		var m *TableMetadata
		for {
			m, _ = verifC23WildMeta(rng, false, false)
			if !m.Virtual && !m.HasRangeKeys && len(m.BlobReferences) == 0 {
				break
			}
		}
		if rng.IntN(3) == 0 {
			u(tagCompactPointer)
			u(uint64(rng.IntN(NumLevels)))
			b := verifC23Bytes(rng, 0, 12)
			u(uint64(len(b)))
			enc = append(enc, b...)
			r.SetAdd("tags_decoded_legacy", "compact-pointer")
		}
		tag := []uint64{tagNewFile, tagNewFile2, tagNewFile3, tagNewFile4}[rng.IntN(4)]
		level := rng.IntN(NumLevels)
		switch tag {
		case tagNewFile:
			m.SeqNums, m.LargestSeqNumAbsolute, m.CreationTime = base.SeqNumRange{}, 0, 0
			r.SetAdd("tags_decoded_legacy", "new-file(1)")
		case tagNewFile2:
			m.CreationTime = 0
		case tagNewFile3:
			m.CreationTime = 0
			r.SetAdd("tags_decoded_legacy", "new-file3(102)")
		}
		u(tag)
		u(uint64(level))
		u(uint64(m.TableNum))
		if tag == tagNewFile3 {
			u(verifC23U64(rng)) // path id, ignored
		}
		u(m.Size)
		key(m.PointKeyBounds.Smallest())
		key(m.PointKeyBounds.Largest())
		if tag != tagNewFile {
			u(uint64(m.SeqNums.Low))
			u(uint64(m.SeqNums.High))
		}
		if tag == tagNewFile4 {
			ignorable := func() {
				if rng.IntN(2) == 0 {
					u([]uint64{3, 4, 5, 8, 63}[rng.IntN(5)])
					b := verifC23Bytes(rng, 0, 10)
					u(uint64(len(b)))
					enc = append(enc, b...)
					r.SetAdd("tags_decoded_legacy", "custom:ignorable-unknown")
				}
			}
			ignorable()
			if m.CreationTime != 0 {
				u(customTagCreationTime)
				b := binary.AppendUvarint(nil, uint64(m.CreationTime))
				u(uint64(len(b)))
				enc = append(enc, b...)
			}
			ignorable()
			u(customTagTerminate)
		}
		want.NewTables = append(want.NewTables, NewTableEntry{Level: level, Meta: m})
	}
	r.Count("legacy_decodes", 1)
	o := verifC23GuardedDecode(enc)
	if o.ve == nil {
		r.Violate("decode-error", fmt.Sprintf("legacy encoding rejected: panic=%q err=%v", o.panicV, o.err),
			map[string]any{"encoded_hex": hex.EncodeToString(enc), "want": verifC23CanonEdit(want)}, map[string]any{"stage": "legacy"})
		return
	}
	if lines, fields := verifC23Diff(verifC23CanonEdit(want), verifC23CanonEdit(o.ve)); len(lines) > 0 {
		r.Violate("roundtrip-mismatch", "legacy encoding decoded to a different edit: "+strings.Join(lines, "; "),
			map[string]any{"encoded_hex": hex.EncodeToString(enc), "want": verifC23CanonEdit(want), "got": verifC23CanonEdit(o.ve)}, map[string]any{"fields": fields, "stage": "legacy"})
	}
}

func TestVerifC23RoundTrip(t *testing.T) {
	r := vcommon.NewReport("C23", "roundtrip")
	defer r.Finish(t)
	r.Rule("roundtrip: one generated valid VersionEdit per case (every encodable field present with some probability, boundary-biased uint64 values, " +
		"random byte keys, physical/virtual tables with point and/or range bounds); distinct = distinct encoding; non-trivial = at least one tag emitted")
	n := vcommon.Scale(8000, 60000)
	r.Cases(n, func(i int, rng *rand.Rand) {
		ve := verifC23WildEdit(rng, i%5 == 0, true)
		enc, _ := verifC23CheckRoundTrip(r, ve, func(i int, _ base.DiskFileNum) *TableBacking {
			// A fresh copy: the decoded edit must not share state with the original.
			b := ve.NewTables[i].Meta.TableBacking
			return &TableBacking{DiskFileNum: b.DiskFileNum, Size: b.Size}
		}, "wild edit", false)
		verifC23LegacyCase(r, rng)
		r.Eval(1)
		r.Count("roundtrip_edits", 1)
		r.Count("roundtrip_bytes", int64(len(enc)))
		tags := verifC23Tags(ve)
		for _, tg := range tags {
			r.SetAdd("tags_encoded", tg)
		}
		if len(tags) > 0 && enc != nil {
			r.Distinct("rt", string(enc))
		}
		if len(enc) > 1<<16 {
			r.Count("roundtrip_edits_with_field_longer_than_64KiB", 1)
		}
		if r.WantSample() && len(tags) >= 6 {
			r.Sample(map[string]any{"part": "roundtrip", "case": i, "encoded_hex": hex.EncodeToString(enc), "edit": ve.DebugString(base.DefaultFormatter)})
		}
	})
}


// ---------------------------------------------------------------------------
// (b) consistent edit sequences from a model LSM.

const verifC23KeySpace = 600

func verifC23K(i int) []byte { return []byte(fmt.Sprintf("k%05d", i)) }

type verifC23Tab struct {
	meta   *TableMetadata
	level  int
	lo, hi int  // user keys lie in [K(lo), K(hi+1))
	loose  bool // largest key is an exclusive sentinel exactly at K(hi)
	marked bool
}

type verifC23Backing struct {
	tb    *TableBacking
	users int
}

type verifC23Blob struct {
	phys  *PhysicalBlobFile
	users int
}

type verifC23Gen struct {
	rng      *rand.Rand
	nextNum  uint64
	seq      base.SeqNum
	levels   [NumLevels][]*verifC23Tab
	backings map[base.DiskFileNum]*verifC23Backing // the backing set (created and not yet removed)
	unused   []base.DiskFileNum                    // in the backing set, without users, removal pending
	blobs    map[base.BlobFileID]*verifC23Blob
	// per-edit scratch
	createdNow map[base.DiskFileNum]bool
}

func verifC23NewGen(rng *rand.Rand) *verifC23Gen {
	return &verifC23Gen{rng: rng, nextNum: 1 + uint64(rng.IntN(50)), seq: base.SeqNum(10 + rng.IntN(100)),
		backings: map[base.DiskFileNum]*verifC23Backing{}, blobs: map[base.BlobFileID]*verifC23Blob{}}
}

func (g *verifC23Gen) num() uint64 {
	g.nextNum += 1 + uint64(g.rng.IntN(3))
	if g.rng.IntN(40) == 0 {
		g.nextNum += uint64(g.rng.IntN(1 << 20))
	}
	return g.nextNum
}

func (g *verifC23Gen) nextSeq() base.SeqNum { g.seq += base.SeqNum(1 + g.rng.IntN(5)); return g.seq }

func (g *verifC23Gen) size() uint64 {
	if g.rng.IntN(10) == 0 {
		return 1 + g.rng.Uint64N(1<<40)
	}
	return 1 + uint64(g.rng.IntN(1<<20))
}

// fits reports whether [lo,hi] (not loose) can be placed in level.
func (g *verifC23Gen) fits(level, lo, hi int, exclude map[*verifC23Tab]bool) bool {
	if level == 0 {
		return true
	}
	for _, t := range g.levels[level] {
		if exclude[t] {
			continue
		}
		if t.hi < lo || (t.hi == lo && t.loose) || hi < t.lo {
			continue
		}
		return false
	}
	return true
}

type verifC23MetaOpts struct {
	virtual        *TableBacking
	refs           BlobReferences
	seqLo, seqHi   base.SeqNum
	synthetic      bool
	forcePointOnly bool
}

// meta builds a valid TableMetadata with user keys in [K(lo), K(hi+1)).
func (g *verifC23Gen) meta(lo, hi int, o verifC23MetaOpts) (*TableMetadata, bool) {
	rng := g.rng
	cmp := base.DefaultComparer.Compare
	m := &TableMetadata{TableNum: base.TableNum(g.num()), Size: g.size(),
		SeqNums: base.SeqNumRange{Low: o.seqLo, High: o.seqHi}, LargestSeqNumAbsolute: o.seqHi}
	if rng.IntN(2) == 0 {
		m.CreationTime = int64(1 + rng.IntN(1<<31))
	}
	m.Virtual = o.virtual != nil
	seq := func() base.SeqNum { return o.seqLo + base.SeqNum(rng.Uint64N(uint64(o.seqHi-o.seqLo)+1)) }
	var tail []byte
	if rng.IntN(3) == 0 {
		tail = verifC23Bytes(rng, 1, 3)
	}
	hiKey := func(i int, withTail bool) []byte {
		k := verifC23K(i)
		if withTail {
			k = append(k, tail...)
		}
		return k
	}
	addPoints := func(a, b int, bTail bool) {
		s := base.MakeInternalKey(verifC23K(a), seq(), verifC23PointKinds[rng.IntN(len(verifC23PointKinds))])
		luk := hiKey(b, bTail)
		var l InternalKey
		if rng.IntN(4) == 0 && !bytes.Equal(luk, s.UserKey) {
			l = base.MakeRangeDeleteSentinelKey(luk)
		} else {
			l = base.MakeInternalKey(luk, seq(), verifC23PointKinds[rng.IntN(len(verifC23PointKinds))])
			if bytes.Equal(luk, s.UserKey) && base.InternalCompare(cmp, s, l) > 0 {
				s, l = l, s
			}
		}
		m.ExtendPointKeyBounds(cmp, s, l)
	}
	addRanges := func(a, b int, bTail bool) {
		kinds, rk := AnyRangeKeys, verifC23RangeKinds
		if rng.IntN(2) == 0 {
			kinds, rk = OnlyRangeKeyUnsetAndDelete, verifC23RangeKinds[1:]
		}
		s := base.MakeInternalKey(verifC23K(a), seq(), rk[rng.IntN(len(rk))])
		luk := hiKey(b, bTail)
		if bytes.Equal(luk, s.UserKey) {
			luk = append(luk, 0)
		}
		m.ExtendRangeKeyBounds(cmp, kinds, s, base.MakeExclusiveSentinelKey(rk[rng.IntN(len(rk))], luk))
	}
	in := func() (int, int) {
		a, b := lo+rng.IntN(hi-lo+1), lo+rng.IntN(hi-lo+1)
		if a > b {
			a, b = b, a
		}
		return a, b
	}
	shape := rng.IntN(8)
	if o.forcePointOnly {
		shape = 0
	}
	switch {
	case shape <= 3:
		addPoints(lo, hi, true)
	case shape == 4:
		addRanges(lo, hi, true)
	case shape == 5: // points left, ranges right
		_, pb := in()
		ra, _ := in()
		addPoints(lo, pb, pb == hi)
		addRanges(ra, hi, true)
	case shape == 6: // ranges left, points right
		_, rb := in()
		pa, _ := in()
		addRanges(lo, rb, rb == hi)
		addPoints(pa, hi, true)
	default: // one contains the other
		a, b := in()
		if rng.IntN(2) == 0 {
			addPoints(lo, hi, true)
			addRanges(a, b, b == hi)
		} else {
			addRanges(lo, hi, true)
			addPoints(a, b, b == hi)
		}
	}
	if len(o.refs) > 0 {
		m.BlobReferences = slices.Clone(o.refs)
		m.BlobReferenceDepth = BlobReferenceDepth(1 + rng.IntN(len(o.refs)))
	}
	if m.Virtual {
		if o.synthetic {
			var pre, suf []byte
			if rng.IntN(3) != 0 {
				pre = [][]byte{[]byte("k"), []byte("k0")}[rng.IntN(2)]
			}
			if rng.IntN(2) == 0 || pre == nil {
				suf = []byte(fmt.Sprintf("@%d", rng.IntN(100)))
			}
			m.SyntheticPrefixAndSuffix = sstable.MakeSyntheticPrefixAndSuffix(pre, suf)
		}
		m.AttachVirtualBacking(o.virtual)
	} else {
		m.InitPhysicalBacking()
	}
	l := m.Largest()
	loose := l.IsExclusiveSentinel() && bytes.Equal(l.UserKey, verifC23K(hi))
	return m, loose
}

func (g *verifC23Gen) add(ve *VersionEdit, level int, m *TableMetadata, lo, hi int, loose bool) *verifC23Tab {
	t := &verifC23Tab{meta: m, level: level, lo: lo, hi: hi, loose: loose}
	g.levels[level] = append(g.levels[level], t)
	ve.NewTables = append(ve.NewTables, NewTableEntry{Level: level, Meta: m})
	for _, ref := range m.BlobReferences {
		g.blobs[ref.FileID].users++
	}
	if m.Virtual {
		g.backings[m.TableBacking.DiskFileNum].users++
	}
	return t
}

func (g *verifC23Gen) del(ve *VersionEdit, t *verifC23Tab) {
	if ve.DeletedTables == nil {
		ve.DeletedTables = map[DeletedTableEntry]*TableMetadata{}
	}
	ve.DeletedTables[DeletedTableEntry{Level: t.level, FileNum: t.meta.TableNum}] = t.meta
	i := slices.Index(g.levels[t.level], t)
	g.levels[t.level] = slices.Delete(g.levels[t.level], i, i+1)
	t.marked = false
	for _, ref := range t.meta.BlobReferences {
		g.blobs[ref.FileID].users--
	}
	if t.meta.Virtual {
		g.backings[t.meta.TableBacking.DiskFileNum].users--
	}
}

// newBlob creates a blob file within ve and returns a reference to it.
func (g *verifC23Gen) newBlob(ve *VersionEdit) BlobReference {
	n := g.num()
	phys := &PhysicalBlobFile{FileNum: base.DiskFileNum(n), Size: g.size(), ValueSize: 1 + uint64(g.rng.IntN(1<<20)), CreationTime: uint64(g.rng.IntN(1 << 31))}
	id := base.BlobFileID(n)
	g.blobs[id] = &verifC23Blob{phys: phys}
	ve.NewBlobFiles = append(ve.NewBlobFiles, BlobFileMetadata{FileID: id, Physical: phys})
	return BlobReference{FileID: id, ValueSize: 1 + g.rng.Uint64N(phys.ValueSize)}
}

// finish emits the derived records: blob files and backings that lost their
// last user.
func (g *verifC23Gen) finish(ve *VersionEdit) {
	var ids []base.BlobFileID
	for id, b := range g.blobs {
		if b.users == 0 {
			ids = append(ids, id)
		}
	}
	slices.Sort(ids)
	for _, id := range ids {
		if ve.DeletedBlobFiles == nil {
			ve.DeletedBlobFiles = map[DeletedBlobFileEntry]*PhysicalBlobFile{}
		}
		ve.DeletedBlobFiles[DeletedBlobFileEntry{FileID: id, FileNum: g.blobs[id].phys.FileNum}] = g.blobs[id].phys
		delete(g.blobs, id)
	}
	var nums []base.DiskFileNum
	for n, b := range g.backings {
		if b.users == 0 && !slices.Contains(g.unused, n) {
			nums = append(nums, n)
		}
	}
	slices.Sort(nums)
	g.unused = append(g.unused, nums...)
	// Remove some of the unused backings now, the rest in a later edit.
	var keep []base.DiskFileNum
	for _, n := range g.unused {
		if g.rng.IntN(2) == 0 && !g.createdNow[n] {
			ve.RemovedBackingTables = append(ve.RemovedBackingTables, n)
			delete(g.backings, n)
		} else {
			keep = append(keep, n)
		}
	}
	g.unused = keep
	g.createdNow = nil
}

func (g *verifC23Gen) createBacking(ve *VersionEdit, tb *TableBacking) {
	g.backings[tb.DiskFileNum] = &verifC23Backing{tb: tb}
	ve.CreatedBackingTables = append(ve.CreatedBackingTables, tb)
	if g.createdNow == nil {
		g.createdNow = map[base.DiskFileNum]bool{}
	}
	g.createdNow[tb.DiskFileNum] = true
}

func (g *verifC23Gen) randTab(pred func(*verifC23Tab) bool) *verifC23Tab {
	var c []*verifC23Tab
	for l := range g.levels {
		for _, t := range g.levels[l] {
			if pred == nil || pred(t) {
				c = append(c, t)
			}
		}
	}
	if len(c) == 0 {
		return nil
	}
	return c[g.rng.IntN(len(c))]
}

func (g *verifC23Gen) gap(level int) (lo, hi int, ok bool) {
	for try := 0; try < 8; try++ {
		lo = g.rng.IntN(verifC23KeySpace)
		hi = min(verifC23KeySpace-1, lo+g.rng.IntN(1+g.rng.IntN(30)))
		if g.fits(level, lo, hi, nil) {
			return lo, hi, true
		}
	}
	return 0, 0, false
}

func (g *verifC23Gen) bookkeeping(ve *VersionEdit) {
	if g.rng.IntN(2) == 0 {
		ve.MinUnflushedLogNum = base.DiskFileNum(g.num())
	}
	if g.rng.IntN(2) == 0 {
		ve.NextFileNum = g.nextNum + 1
	}
	if g.rng.IntN(2) == 0 {
		ve.LastSeqNum = g.seq
	}
	if g.rng.IntN(20) == 0 {
		ve.ObsoletePrevLogNum = uint64(g.rng.IntN(100))
	}
}

// next produces the next edit of the sequence and its operation name.
func (g *verifC23Gen) next(first bool) (*VersionEdit, string) {
	rng := g.rng
	ve := &VersionEdit{}
	op := ""
	if first {
		ve.ComparerName = base.DefaultComparer.Name
		ve.NextFileNum = g.nextNum + 1
		if rng.IntN(2) == 0 {
			ve.LastSeqNum = g.seq
		}
	}
	for try := 0; op == "" && try < 20; try++ {
		switch k := rng.IntN(14); {
		case k <= 2 || first: // flush: 1-3 L0 tables from one memtable
			seqLo := g.nextSeq()
			seqHi := seqLo + base.SeqNum(rng.IntN(20))
			g.seq = seqHi
			for i, n := 0, 1+rng.IntN(3); i < n; i++ {
				lo := rng.IntN(verifC23KeySpace)
				hi := min(verifC23KeySpace-1, lo+rng.IntN(60))
				var refs BlobReferences
				if rng.IntN(3) == 0 {
					refs = append(refs, g.newBlob(ve))
				}
				m, loose := g.meta(lo, hi, verifC23MetaOpts{seqLo: seqLo, seqHi: seqHi, refs: refs})
				g.add(ve, 0, m, lo, hi, loose)
			}
			g.bookkeeping(ve)
			op = "flush"
		case k == 3: // ingest into the lowest level that fits
			s := g.nextSeq()
			level := rng.IntN(NumLevels)
			lo, hi, ok := g.gap(level)
			if !ok {
				continue
			}
			var refs BlobReferences
			if rng.IntN(4) == 0 {
				refs = append(refs, g.newBlob(ve))
			}
			m, loose := g.meta(lo, hi, verifC23MetaOpts{seqLo: s, seqHi: s, refs: refs})
			g.add(ve, level, m, lo, hi, loose)
			op = "ingest"
		case k <= 6: // compaction
			start := g.randTab(func(t *verifC23Tab) bool { return t.level < NumLevels-1 })
			if start == nil {
				continue
			}
			out := start.level + 1
			if start.level == 0 && rng.IntN(3) == 0 {
				out = 0 // intra-L0
			} else if rng.IntN(4) == 0 {
				out = start.level + 1 + rng.IntN(NumLevels-1-start.level)
			}
			inputs := map[*verifC23Tab]bool{start: true}
			lo, hi := start.lo, start.hi
			// more start-level inputs
			for _, t := range g.levels[start.level] {
				if t != start && rng.IntN(3) == 0 && (start.level == 0 || len(inputs) < 3) {
					inputs[t] = true
					lo, hi = min(lo, t.lo), max(hi, t.hi)
				}
			}
			if start.level > 0 {
				// inputs must be contiguous in the level: add everything inside the hull
				for _, t := range g.levels[start.level] {
					if t.hi >= lo && t.lo <= hi {
						inputs[t] = true
					}
				}
			}
			if out != start.level {
				for changed := true; changed; {
					changed = false
					for _, t := range g.levels[out] {
						if !inputs[t] && t.hi >= lo && t.lo <= hi {
							inputs[t] = true
							lo, hi = min(lo, t.lo), max(hi, t.hi)
							changed = true
						}
					}
					if start.level > 0 {
						for _, t := range g.levels[start.level] {
							if !inputs[t] && t.hi >= lo && t.lo <= hi {
								inputs[t] = true
								lo, hi = min(lo, t.lo), max(hi, t.hi)
								changed = true
							}
						}
					}
				}
				// intermediate levels are skipped only if nothing overlaps there
				ok := true
				for l := start.level + 1; l < out; l++ {
					ok = ok && g.fits(l, lo, hi, nil)
				}
				if !ok {
					continue
				}
			}
			var seqLo, seqHi base.SeqNum = base.SeqNumMax, 0
			var inRefs BlobReferences
			var order []*verifC23Tab
			for l := range g.levels {
				for _, t := range g.levels[l] {
					if inputs[t] {
						order = append(order, t)
					}
				}
			}
			for _, t := range order {
				seqLo, seqHi = min(seqLo, t.meta.SeqNums.Low), max(seqHi, t.meta.SeqNums.High)
				for _, ref := range t.meta.BlobReferences {
					if _, dup := inRefs.IDByBlobFileID(ref.FileID); !dup {
						inRefs = append(inRefs, BlobReference{FileID: ref.FileID, ValueSize: ref.ValueSize})
					}
				}
			}
			// outputs first (they may keep references of the inputs alive), then deletions
			nOut := rng.IntN(4) // 0 outputs: everything was elided
			cuts := []int{lo}
			for i := 1; i < nOut && hi > lo; i++ {
				cuts = append(cuts, lo+1+rng.IntN(hi-lo))
			}
			slices.Sort(cuts)
			cuts = slices.Compact(cuts)
			var outs []func()
			for i := range cuts {
				if nOut == 0 {
					break
				}
				a := cuts[i]
				b := hi
				if i+1 < len(cuts) {
					b = cuts[i+1] - 1
				}
				var refs BlobReferences
				for _, ref := range inRefs {
					if rng.IntN(2) == 0 {
						refs = append(refs, BlobReference{FileID: ref.FileID, ValueSize: 1 + rng.Uint64N(ref.ValueSize)})
					}
				}
				if rng.IntN(5) == 0 {
					refs = append(refs, g.newBlob(ve))
				}
				m, loose := g.meta(a, b, verifC23MetaOpts{seqLo: seqLo, seqHi: seqHi, refs: refs})
				outs = append(outs, func() { g.add(ve, out, m, a, b, loose) })
			}
			for _, t := range order {
				g.del(ve, t)
			}
			for _, f := range outs {
				f()
			}
			op = "compaction"
			if out == 0 {
				op = "intra-L0-compaction"
			}
		case k == 7: // move
			t := g.randTab(func(t *verifC23Tab) bool { return t.level < NumLevels-1 })
			if t == nil {
				continue
			}
			to := t.level + 1 + rng.IntN(NumLevels-1-t.level)
			ok := true
			for l := t.level + 1; l <= to; l++ {
				ok = ok && g.fits(l, t.lo, t.hi, nil)
			}
			if !ok {
				continue
			}
			wasMarked := t.marked
			g.del(ve, t)
			nt := g.add(ve, to, t.meta, t.lo, t.hi, t.loose)
			_ = wasMarked
			_ = nt
			op = "move"
		case k == 8: // virtualise a physical table (excise the middle)
			t := g.randTab(func(t *verifC23Tab) bool { return !t.meta.Virtual })
			if t == nil {
				continue
			}
			g.createBacking(ve, t.meta.TableBacking)
			var refs BlobReferences
			for _, ref := range t.meta.BlobReferences {
				nr := BlobReference{FileID: ref.FileID, ValueSize: 1 + rng.Uint64N(ref.ValueSize)}
				if rng.IntN(3) != 0 {
					nr.BackingValueSize = ref.ValueSize
				}
				refs = append(refs, nr)
			}
			level, lo, hi := t.level, t.lo, t.hi
			seqLo, seqHi := t.meta.SeqNums.Low, t.meta.SeqNums.High
			tb := t.meta.TableBacking
			g.del(ve, t)
			// left piece [lo,a], right piece [b,hi]
			a, b := lo+rng.IntN(hi-lo+1), lo+rng.IntN(hi-lo+1)
			if a > b {
				a, b = b, a
			}
			pieces := [][2]int{{lo, a}}
			if b > a {
				pieces = append(pieces, [2]int{b, hi})
			}
			if len(pieces) == 2 && rng.IntN(4) == 0 {
				pieces = pieces[1:]
			}
			for _, p := range pieces {
				m, loose := g.meta(p[0], p[1], verifC23MetaOpts{virtual: tb, refs: refs, seqLo: seqLo, seqHi: seqHi})
				g.add(ve, level, m, p[0], p[1], loose)
			}
			ve.ExciseBoundsRecord = append(ve.ExciseBoundsRecord, ExciseOpEntry{
				Bounds: base.UserKeyBounds{Start: verifC23K(a), End: base.UserKeyExclusiveIf(verifC23K(b), rng.IntN(2) == 0)},
				SeqNum: g.nextSeq()})
			op = "virtualise+excise"
		case k == 9: // split / shrink a virtual table
			t := g.randTab(func(t *verifC23Tab) bool { return t.meta.Virtual })
			if t == nil {
				continue
			}
			level, lo, hi := t.level, t.lo, t.hi
			tb, refs := t.meta.TableBacking, slices.Clone(t.meta.BlobReferences)
			for i := range refs {
				refs[i].EstimatedPhysicalSize = 0
			}
			seqLo, seqHi := t.meta.SeqNums.Low, t.meta.SeqNums.High
			mid := lo + rng.IntN(hi-lo+1)
			pieces := [][2]int{{lo, mid}}
			if mid < hi && rng.IntN(2) == 0 {
				pieces = append(pieces, [2]int{mid + 1, hi})
			}
			var outs []func()
			for _, p := range pieces {
				m, loose := g.meta(p[0], p[1], verifC23MetaOpts{virtual: tb, refs: refs, seqLo: seqLo, seqHi: seqHi})
				outs = append(outs, func() { g.add(ve, level, m, p[0], p[1], loose) })
			}
			g.del(ve, t)
			for _, f := range outs {
				f()
			}
			op = "virtual-split"
		case k == 10: // external ingest: new backing, one virtual table with synthetic prefix/suffix
			level := rng.IntN(NumLevels)
			lo, hi, ok := g.gap(level)
			if !ok {
				continue
			}
			tb := &TableBacking{DiskFileNum: base.DiskFileNum(g.num()), Size: g.size()}
			g.createBacking(ve, tb)
			s := g.nextSeq()
			m, loose := g.meta(lo, hi, verifC23MetaOpts{virtual: tb, seqLo: s, seqHi: s, synthetic: true})
			g.add(ve, level, m, lo, hi, loose)
			op = "external-ingest"
		case k == 11: // blob file replacement
			var ids []base.BlobFileID
			for id := range g.blobs {
				ids = append(ids, id)
			}
			if len(ids) == 0 {
				continue
			}
			slices.Sort(ids)
			id := ids[rng.IntN(len(ids))]
			old := g.blobs[id].phys
			ve.DeletedBlobFiles = map[DeletedBlobFileEntry]*PhysicalBlobFile{{FileID: id, FileNum: old.FileNum}: old}
			np := &PhysicalBlobFile{FileNum: base.DiskFileNum(g.num()), Size: g.size(), ValueSize: old.ValueSize, CreationTime: uint64(rng.IntN(1 << 31))}
			ve.NewBlobFiles = append(ve.NewBlobFiles, BlobFileMetadata{FileID: id, Physical: np})
			g.blobs[id].phys = np
			op = "blob-replacement"
		case k == 12: // bookkeeping only (WAL rotation) / pending backing removal
			g.bookkeeping(ve)
			if ve.MinUnflushedLogNum == 0 {
				ve.MinUnflushedLogNum = base.DiskFileNum(g.num())
			}
			op = "bookkeeping"
		default: // mark for compaction only
			op = "mark-only"
		}
	}
	if op == "" {
		g.bookkeeping(ve)
		op = "bookkeeping"
	}
	// Mark some unmarked live tables (levels as of after this edit).
	if op == "mark-only" || g.rng.IntN(6) == 0 {
		for i, n := 0, 1+g.rng.IntN(2); i < n; i++ {
			if t := g.randTab(func(t *verifC23Tab) bool { return !t.marked }); t != nil {
				t.marked = true
				ve.TablesMarkedForCompaction = append(ve.TablesMarkedForCompaction,
					TableMarkedForCompactionEntry{Level: t.level, TableNum: t.meta.TableNum, Meta: t.meta})
			}
		}
	}
	g.finish(ve)
	return ve, op
}

// modelState renders the model in the same form as verifC23VersionShape.
func (g *verifC23Gen) modelState() []string {
	var out []string
	cmp := base.DefaultComparer.Compare
	for l := range g.levels {
		ts := slices.Clone(g.levels[l])
		if l == 0 {
			slices.SortFunc(ts, func(a, b *verifC23Tab) int { return a.meta.cmpSeqNum(b.meta) })
		} else {
			slices.SortFunc(ts, func(a, b *verifC23Tab) int { return a.meta.cmpSmallestKey(b.meta, cmp) })
		}
		var nums, rk []string
		for _, t := range ts {
			nums = append(nums, fmt.Sprint(uint64(t.meta.TableNum)))
			if t.meta.HasRangeKeys {
				rk = append(rk, fmt.Sprint(uint64(t.meta.TableNum)))
			}
		}
		out = append(out, fmt.Sprintf("L%d=%s", l, strings.Join(nums, ",")), fmt.Sprintf("L%d.rangekeys=%s", l, strings.Join(rk, ",")))
	}
	var ids []base.BlobFileID
	for id := range g.blobs {
		ids = append(ids, id)
	}
	slices.Sort(ids)
	var bl []string
	for _, id := range ids {
		bl = append(bl, fmt.Sprintf("%d:%d", uint64(id), uint64(g.blobs[id].phys.FileNum)))
	}
	out = append(out, "blobs="+strings.Join(bl, ","))
	var mk []string
	for l := range g.levels {
		for _, t := range g.levels[l] {
			if t.marked {
				mk = append(mk, fmt.Sprintf("L%d/%020d", l, uint64(t.meta.TableNum)))
			}
		}
	}
	sort.Strings(mk)
	out = append(out, "marked="+strings.Join(mk, ","))
	return out
}

func (g *verifC23Gen) backingSet() string {
	var nums []base.DiskFileNum
	for n := range g.backings {
		nums = append(nums, n)
	}
	slices.Sort(nums)
	return fmt.Sprint(nums)
}

// verifC23VersionShape: per-level file lists, range-key level lists, blob file
// set and marked set of a real Version, in the model's form.
func verifC23VersionShape(v *Version) []string {
	var out []string
	for l := range v.Levels {
		var nums, rk []string
		for f := range v.Levels[l].All() {
			nums = append(nums, fmt.Sprint(uint64(f.TableNum)))
		}
		for f := range v.RangeKeyLevels[l].All() {
			rk = append(rk, fmt.Sprint(uint64(f.TableNum)))
		}
		out = append(out, fmt.Sprintf("L%d=%s", l, strings.Join(nums, ",")), fmt.Sprintf("L%d.rangekeys=%s", l, strings.Join(rk, ",")))
	}
	var bl []string
	for b := range v.BlobFiles.All() {
		bl = append(bl, fmt.Sprintf("%d:%d", uint64(b.FileID), uint64(b.Physical.FileNum)))
	}
	out = append(out, "blobs="+strings.Join(bl, ","))
	var mk []string
	for m, l := range v.MarkedForCompaction.Ascending() {
		mk = append(mk, fmt.Sprintf("L%d/%020d", l, uint64(m.TableNum)))
	}
	sort.Strings(mk)
	out = append(out, "marked="+strings.Join(mk, ","))
	return out
}

// verifC23VersionCanon: full persisted content of a Version (used to compare
// versions built along different paths).
func verifC23VersionCanon(v *Version) []string {
	out := verifC23VersionShape(v)
	for l := range v.Levels {
		i := 0
		for f := range v.Levels[l].All() {
			p := fmt.Sprintf("L%d[%d].", l, i)
			out = append(out, verifC23CanonMeta(p, f, 0)...)
			if f.TableBacking != nil {
				out = append(out, fmt.Sprintf("%sbackingsize=%d", p, f.TableBacking.Size))
			}
			i++
		}
	}
	for b := range v.BlobFiles.All() {
		out = append(out, fmt.Sprintf("blob[%d]=%d/%d/%d/%d", uint64(b.FileID), uint64(b.Physical.FileNum), b.Physical.Size, b.Physical.ValueSize, b.Physical.CreationTime))
	}
	out = append(out, strings.Split(v.DebugString(), "\n")...)
	return out
}

func verifC23SortedNums(m map[base.DiskFileNum]*TableBacking) string {
	var nums []base.DiskFileNum
	for n := range m {
		nums = append(nums, n)
	}
	slices.Sort(nums)
	return fmt.Sprint(nums)
}

func TestVerifC23Replay(t *testing.T) {
	r := vcommon.NewReport("C23", "replay")
	defer r.Finish(t)
	r.Rule("replay: one consistent edit sequence (3-30 edits) per case, generated from a model LSM; distinct = distinct concatenated encoding; " +
		"non-trivial = sequence in which at least one table is both added and deleted and the final version is non-empty")
	n := vcommon.Scale(1200, 10000)
	const rcr = 32000
	r.Cases(n, func(ci int, rng *rand.Rand) {
		g := verifC23NewGen(rng)
		nEdits := 3 + rng.IntN(28)
		// chunk boundaries of path C (chosen up front so that the expensive
		// canonical form of path A is only rendered where it is compared)
		chunkEnd := map[int]bool{nEdits: true}
		for i := 0; i < nEdits; {
			i = min(nEdits, i+1+rng.IntN(1+rng.IntN(nEdits)))
			chunkEnd[i] = true
		}
		type step struct {
			ve       *VersionEdit
			op       string
			enc      []byte
			shape    []string // model after the edit
			canon    []string // version (path A) after the edit
			backings string
		}
		var steps []step
		replay := func() map[string]any {
			var l []map[string]any
			for _, s := range steps {
				l = append(l, map[string]any{"op": s.op, "hex": hex.EncodeToString(s.enc), "edit": s.ve.DebugString(base.DefaultFormatter)})
			}
			return map[string]any{"case": ci, "edits": l}
		}
		r.Eval(1)
		// Path A: one edit at a time, in-memory edits (the runtime path).
		vA := NewInitialVersion(base.DefaultComparer)
		allBackings := map[base.DiskFileNum]*TableBacking{}
		addedAndDeleted := false
		seenAdded := map[base.TableNum]bool{}
		for ei := 0; ei < nEdits; ei++ {
			ve, op := g.next(ei == 0)
			r.Count("op:"+op, 1)
			for _, tb := range ve.CreatedBackingTables {
				allBackings[tb.DiskFileNum] = tb
			}
			for d := range ve.DeletedTables {
				addedAndDeleted = addedAndDeleted || seenAdded[d.FileNum]
			}
			for _, nt := range ve.NewTables {
				seenAdded[nt.Meta.TableNum] = true
			}
			for _, tg := range verifC23Tags(ve) {
				r.SetAdd("tags_encoded", tg)
			}
			enc, ok := verifC23CheckRoundTrip(r, ve, func(_ int, n base.DiskFileNum) *TableBacking {
				if b := allBackings[n]; b != nil {
					return &TableBacking{DiskFileNum: b.DiskFileNum, Size: b.Size}
				}
				return nil
			}, fmt.Sprintf("sequence edit %d (%s)", ei, op), true)
			r.Count("replay_edits", 1)
			st := step{ve: ve, op: op, enc: enc}
			steps = append(steps, st)
			if !ok {
				return
			}
			var bve BulkVersionEdit
			var err error
			var nv *Version
			if p := verifC23Catch(func() {
				if err = bve.Accumulate(ve); err == nil {
					nv, err = bve.Apply(vA, rcr)
				}
			}); p != "" || err != nil {
				r.Violate("apply-error", fmt.Sprintf("edit %d (%s) of a consistent sequence was rejected on the one-at-a-time path: panic=%q err=%v", ei, op, p, err),
					replay(), map[string]any{"path": "single", "op": op})
				return
			}
			vA = nv
			shape := g.modelState()
			if lines, fields := verifC23Diff(shape, verifC23VersionShape(vA)); len(lines) > 0 {
				r.Violate("model-mismatch", fmt.Sprintf("after edit %d (%s) the version differs from the model: %s", ei, op, strings.Join(lines, "; ")),
					replay(), map[string]any{"fields": fields, "op": op})
				return
			}
			if err := vA.CheckOrdering(); err != nil {
				r.Violate("model-mismatch", fmt.Sprintf("after edit %d (%s) CheckOrdering: %v", ei, op, err), replay(), map[string]any{"fields": "ordering", "op": op})
				return
			}
			steps[ei].shape = shape
			if chunkEnd[ei+1] {
				steps[ei].canon = verifC23VersionCanon(vA)
			}
			steps[ei].backings = g.backingSet()
		}
		last := steps[len(steps)-1]
		nLive := 0
		for l := range g.levels {
			nLive += len(g.levels[l])
		}
		r.Max("max_live_tables", int64(nLive))

		decode := func(i int) (*VersionEdit, bool) {
			ve := &VersionEdit{}
			if err := ve.Decode(verifC23NewGuard(steps[i].enc)); err != nil {
				r.Violate("decode-error", fmt.Sprintf("edit %d: %v", i, err), replay(), nil)
				return nil, false
			}
			return ve, true
		}

		// Path B: decode everything, accumulate into one bulk edit, apply to the
		// empty version (recovery path).
		{
			var bve BulkVersionEdit
			bve.AllAddedTables = map[base.TableNum]*TableMetadata{}
			var vB *Version
			var err error
			bad := -1
			if p := verifC23Catch(func() {
				for i := range steps {
					ve, ok := decode(i)
					if !ok {
						bad = i
						return
					}
					if err = bve.Accumulate(ve); err != nil {
						bad = i
						return
					}
				}
				vB, err = bve.Apply(NewInitialVersion(base.DefaultComparer), rcr)
			}); p != "" || err != nil {
				r.Violate("apply-error", fmt.Sprintf("bulk replay of a consistent sequence failed (edit %d): panic=%q err=%v", bad, p, err),
					replay(), map[string]any{"path": "bulk"})
				return
			}
			if bad >= 0 {
				return
			}
			if lines, fields := verifC23Diff(last.canon, verifC23VersionCanon(vB)); len(lines) > 0 {
				r.Violate("bulk-vs-single-mismatch", "bulk replay (decode+Accumulate all+Apply) differs from one-at-a-time application: "+strings.Join(lines, "; "),
					replay(), map[string]any{"fields": fields, "path": "bulk"})
				return
			}
			leftover := len(bve.RemovedFileBacking)
			for l := range bve.DeletedTables {
				leftover += len(bve.DeletedTables[l])
			}
			// (BlobFiles.Deleted may legitimately be non-empty: a replaced blob file
			// keeps its entry there and Apply/CurrentBlobFileSet.Init ignore it.)
			if leftover > 0 {
				r.Violate("replay-leftover", fmt.Sprintf("bulk replay from the empty version left %d table deletions / removed backings unresolved (recovery asserts there are none)", leftover),
					replay(), map[string]any{"path": "bulk"})
				return
			}
			if got := verifC23SortedNums(bve.AddedFileBacking); got != last.backings {
				r.Violate("backing-set-mismatch", fmt.Sprintf("backing set after bulk replay %s, one-at-a-time %s", got, last.backings), replay(), map[string]any{"path": "bulk"})
				return
			}
		}

		// Path C: decoded edits accumulated in random chunks (replay-tool path).
		{
			all := map[base.TableNum]*TableMetadata{}
			live := map[base.DiskFileNum]*TableBacking{}
			vC := NewInitialVersion(base.DefaultComparer)
			i := 0
			nchunks := 0
			for i < len(steps) {
				j := i + 1
				for !chunkEnd[j] {
					j++
				}
				bve := BulkVersionEdit{AllAddedTables: all}
				var err error
				var nv *Version
				bad := false
				if p := verifC23Catch(func() {
					for k := i; k < j; k++ {
						ve, ok := decode(k)
						if !ok {
							bad = true
							return
						}
						// backings created by an earlier chunk are the caller's to provide
						verifC23AttachBackings(ve, func(_ int, n base.DiskFileNum) *TableBacking {
							if _, here := bve.AddedFileBacking[n]; here {
								return nil
							}
							for _, cb := range ve.CreatedBackingTables {
								if cb.DiskFileNum == n {
									return nil
								}
							}
							return live[n]
						}, true)
						for i := range ve.NewTables {
							// leave tables whose backing is created inside this chunk to Accumulate
							nt := &ve.NewTables[i]
							if nt.Meta.Virtual && nt.Meta.TableBacking != nil && live[nt.BackingFileNum] != nt.Meta.TableBacking {
								nt.Meta.TableBacking, nt.Meta.VirtualParams = nil, nil
							}
						}
						if err = bve.Accumulate(ve); err != nil {
							return
						}
					}
					nv, err = bve.Apply(vC, rcr)
				}); p != "" || err != nil {
					r.Violate("apply-error", fmt.Sprintf("chunked replay [%d,%d) failed: panic=%q err=%v", i, j, p, err), replay(), map[string]any{"path": "chunked"})
					return
				}
				if bad {
					return
				}
				vC = nv
				for n, tb := range bve.AddedFileBacking {
					live[n] = tb
				}
				for _, n := range bve.RemovedFileBacking {
					if _, ok := live[n]; !ok {
						r.Violate("backing-set-mismatch", fmt.Sprintf("chunk [%d,%d) removes backing %s that is not in the backing set", i, j, n), replay(), map[string]any{"path": "chunked"})
						return
					}
					delete(live, n)
				}
				if lines, fields := verifC23Diff(steps[j-1].canon, verifC23VersionCanon(vC)); len(lines) > 0 {
					r.Violate("chunked-vs-single-mismatch", fmt.Sprintf("after chunk [%d,%d) the version differs from one-at-a-time application: %s", i, j, strings.Join(lines, "; ")),
						replay(), map[string]any{"fields": fields, "path": "chunked"})
					return
				}
				if got := verifC23SortedNums(live); got != steps[j-1].backings {
					r.Violate("backing-set-mismatch", fmt.Sprintf("backing set after chunk [%d,%d) %s, one-at-a-time %s", i, j, got, steps[j-1].backings), replay(), map[string]any{"path": "chunked"})
					return
				}
				i = j
				nchunks++
			}
			r.Count("replay_chunks", int64(nchunks))
		}
		r.Count("replay_sequences_compared", 1)
		if addedAndDeleted && nLive > 0 {
			var all []byte
			for _, s := range steps {
				all = append(all, s.enc...)
			}
			r.Distinct("seq", string(all))
		}
		if r.WantSample() && nEdits >= 8 && nEdits <= 12 {
			var ops []string
			for _, s := range steps {
				ops = append(ops, s.op)
			}
			r.Sample(map[string]any{"part": "replay", "case": ci, "ops": ops, "final_version": vA.DebugString()})
		}
	})
}

// ---------------------------------------------------------------------------
// Allocation guard.
//
// Before 0f67321ea Decode allocated a declared length before reading it
// (readBytes: make([]byte, n); blob references: make([]BlobReference, n)), so a
// corrupt or misparsed length of, say, 2^35 made the process allocate (and,
// under the race detector, touch) tens of GiB on a shared machine. The fix
// reads in bounded chunks, but mutants that revert it (and future regressions)
// must not endanger the machine, so the guard stays: it is a pass-through
// byteReader that follows the varints Decode reads; when a completed varint is
// (a) read from inside versionEditDecoder.readBytes, or (b) the count that
// sizes the blob-reference slice, lies in (verifC23GuardLenLo resp.
// verifC23GuardCountLo, 2^49] AND exceeds what the remaining input could
// possibly supply (so decoding is bound to fail), it returns errVerifC23Skip
// instead of the final byte and Decode fails before allocating. Larger values
// are let through: with a pre-allocating decoder they exceed the runtime's
// maximum allocation and produce a recoverable panic. Nothing else is altered.

const (
	verifC23GuardLenLo   = 1 << 12
	verifC23GuardCountLo = 1 << 8
	verifC23GuardHi      = 1 << 49
)

var errVerifC23Skip = errors.New("verif: guard refused an oversized length")

type verifC23Guard struct {
	r        *bytes.Reader
	run      []byte    // bytes of the varint being read
	hist     [2]uint64 // the two previously completed varints
	tripped  uint64
	// calibration mode, see verifC23CountSite
	calibrate bool
	calibLine int
}

func verifC23NewGuard(b []byte) *verifC23Guard { return &verifC23Guard{r: bytes.NewReader(b)} }

func verifC23InReadBytes() bool {
	var pcs [16]uintptr
	n := runtime.Callers(2, pcs[:])
	fr := runtime.CallersFrames(pcs[:n])
	for {
		f, more := fr.Next()
		if strings.HasSuffix(f.Function, "versionEditDecoder.readBytes") {
			return true
		}
		if !more {
			return false
		}
	}
}

// verifC23DecodeLine returns the source line inside (*VersionEdit).Decode from
// which the current read originates.
func verifC23DecodeLine() (int, bool) {
	var pcs [16]uintptr
	n := runtime.Callers(2, pcs[:])
	fr := runtime.CallersFrames(pcs[:n])
	for {
		f, more := fr.Next()
		if strings.HasSuffix(f.Function, "(*VersionEdit).Decode") {
			return f.Line, true
		}
		if !more {
			return 0, false
		}
	}
}

const verifC23CalibMarker = 0x5A5A5

// verifC23CountSite is the line of Decode that reads the blob-reference count
// (the varint that sizes make([]BlobReference, n)); it is found at run time by
// decoding a crafted input whose count is verifC23CalibMarker, so it follows
// the binary under test (mutants included).
var verifC23CountSite = sync.OnceValue(func() int {
	in := []byte{tagNewFile4, 0, 1, 1, 0, 0, 0, 0, customTagBlobReferences, 1}
	in = binary.AppendUvarint(in, verifC23CalibMarker)
	g := &verifC23Guard{r: bytes.NewReader(in), calibrate: true}
	var ve VersionEdit
	_ = verifC23Catch(func() { _ = ve.Decode(g) })
	return g.calibLine
})

func (g *verifC23Guard) ReadByte() (byte, error) {
	b, err := g.r.ReadByte()
	if err != nil {
		g.run = g.run[:0]
		return b, err
	}
	g.run = append(g.run, b)
	if b >= 0x80 && len(g.run) < 12 {
		return b, nil
	}
	v, _ := binary.Uvarint(g.run)
	// If the previous ReadByte was the bounds marker (a single raw byte) with
	// its high bit set, the real varint starts one byte later.
	v2 := v
	if len(g.run) > 1 {
		v2, _ = binary.Uvarint(g.run[1:])
	}
	g.run = g.run[:0]
	if g.calibrate {
		if v == verifC23CalibMarker {
			g.calibLine, _ = verifC23DecodeLine()
			return 0, errVerifC23Skip
		}
		return b, nil
	}
	remaining := uint64(g.r.Len())
	dangerLen := func(x uint64) bool { return x > verifC23GuardLenLo && x <= verifC23GuardHi && x > remaining }
	if dangerLen(v) || dangerLen(v2) {
		if verifC23InReadBytes() {
			g.tripped = v
			_ = g.r.UnreadByte()
			return 0, errVerifC23Skip
		}
	}
	if v > verifC23GuardCountLo && v <= verifC23GuardHi && v > remaining/2 {
		site := verifC23CountSite()
		isCount := false
		if site != 0 {
			line, ok := verifC23DecodeLine()
			isCount = ok && line == site
		} else {
			// calibration failed: fall back to "two varints after a blob-references tag"
			isCount = g.hist[0] == customTagBlobReferences || g.hist[0] == customTagBlobReferences2
		}
		if isCount {
			g.tripped = v
			_ = g.r.UnreadByte()
			return 0, errVerifC23Skip
		}
	}
	g.hist[0], g.hist[1] = g.hist[1], v
	return b, nil
}

func (g *verifC23Guard) Read(p []byte) (int, error) {
	g.run = g.run[:0]
	g.hist = [2]uint64{}
	return g.r.Read(p)
}

// ---------------------------------------------------------------------------
// (c) arbitrary bytes.

var verifC23AllTags = []uint64{tagComparator, tagLogNumber, tagNextFileNumber, tagLastSequence, tagCompactPointer, tagDeletedFile, tagNewFile,
	8, tagPrevLogNumber, tagExciseBoundsRecord, tagTableMarkedForCompaction, tagNewFile2, 101, tagNewFile3, tagNewFile4, tagNewFile5,
	tagCreatedBackingTable, tagRemovedBackingTable, tagNewBlobFile, tagDeletedBlobFile, 109, tagColumnFamily, tagColumnFamilyAdd, tagColumnFamilyDrop, tagMaxColumnFamily}
var verifC23CustomTags = []uint64{customTagTerminate, customTagNeedsCompaction, 3, customTagCreationTime, customTagNoRangeKeySets, 63, 64,
	customTagPathID, customTagVirtual, customTagSyntheticPrefix, customTagSyntheticSuffix, customTagBlobReferences, customTagBlobReferences2, 71}

func verifC23AppendUvarint(b []byte, v uint64) []byte { return binary.AppendUvarint(b, v) }

func verifC23SoupValue(rng *rand.Rand) uint64 {
	switch rng.IntN(8) {
	case 0:
		return verifC23AllTags[rng.IntN(len(verifC23AllTags))]
	case 1:
		return verifC23CustomTags[rng.IntN(len(verifC23CustomTags))]
	case 2:
		return verifC23U64(rng)
	case 3:
		return uint64(rng.IntN(NumLevels + 2))
	default:
		return uint64(rng.IntN(24))
	}
}

var verifC23Strategies = []string{"random", "soup", "bitflip", "byteset", "truncate", "splice", "insert", "delete", "tagswap", "concat", "hugevarint", "unmutated", "structured"}

// verifC23Mutate derives one input from the seed corpus.
func verifC23Mutate(rng *rand.Rand, seeds [][]byte) (in []byte, strategy string) {
	si := rng.IntN(len(verifC23Strategies))
	strategy = verifC23Strategies[si]
	seed := func() []byte { return slices.Clone(seeds[rng.IntN(len(seeds))]) }
	switch strategy {
	case "random":
		in = make([]byte, rng.IntN(48))
		for i := range in {
			in[i] = byte(rng.IntN(256))
		}
		if len(in) > 0 && rng.IntN(2) == 0 {
			in[0] = byte(verifC23AllTags[rng.IntN(len(verifC23AllTags))])
		}
	case "soup":
		for i, n := 0, 1+rng.IntN(40); i < n; i++ {
			in = verifC23AppendUvarint(in, verifC23SoupValue(rng))
		}
	case "structured": // a tag followed by plausible fields: reaches deep into new-file parsing
		for k, nk := 0, 1+rng.IntN(3); k < nk; k++ {
			tag := []uint64{tagNewFile, tagNewFile2, tagNewFile3, tagNewFile4, tagNewFile5, tagNewFile4, tagNewFile5}[rng.IntN(7)]
			in = verifC23AppendUvarint(in, tag)
			in = verifC23AppendUvarint(in, uint64(rng.IntN(NumLevels)))
			in = verifC23AppendUvarint(in, verifC23SoupValue(rng))
			if tag == tagNewFile3 {
				in = verifC23AppendUvarint(in, verifC23SoupValue(rng))
			}
			in = verifC23AppendUvarint(in, verifC23SoupValue(rng))
			key := func() {
				k := verifC23Bytes(rng, 0, 14)
				in = verifC23AppendUvarint(in, uint64(len(k)))
				in = append(in, k...)
			}
			if tag == tagNewFile5 {
				mk := byte(rng.IntN(8))
				if rng.IntN(8) == 0 {
					mk = byte(rng.IntN(256))
				}
				in = append(in, mk)
				if mk&1 != 0 {
					key()
					key()
				}
			}
			key()
			key()
			if tag != tagNewFile {
				in = verifC23AppendUvarint(in, verifC23SoupValue(rng))
				in = verifC23AppendUvarint(in, verifC23SoupValue(rng))
			}
			if tag == tagNewFile4 || tag == tagNewFile5 {
				for c, nc := 0, rng.IntN(5); c < nc; c++ {
					ct := verifC23CustomTags[rng.IntN(len(verifC23CustomTags))]
					in = verifC23AppendUvarint(in, ct)
					switch {
					case ct == customTagTerminate:
					case ct == customTagVirtual:
						in = verifC23AppendUvarint(in, verifC23SoupValue(rng))
					case ct == customTagBlobReferences || ct == customTagBlobReferences2:
						in = verifC23AppendUvarint(in, verifC23SoupValue(rng))
						nr := rng.IntN(4)
						if rng.IntN(6) == 0 {
							nr = int(verifC23SoupValue(rng) % 64)
						}
						in = verifC23AppendUvarint(in, uint64(nr))
						for x := 0; x < nr*2+rng.IntN(3); x++ {
							in = verifC23AppendUvarint(in, verifC23SoupValue(rng))
						}
					default:
						key()
					}
				}
				if rng.IntN(4) != 0 {
					in = verifC23AppendUvarint(in, customTagTerminate)
				}
			}
		}
	case "bitflip":
		in = seed()
		for i, n := 0, 1+rng.IntN(4); i < n && len(in) > 0; i++ {
			in[rng.IntN(len(in))] ^= 1 << uint(rng.IntN(8))
		}
	case "byteset":
		in = seed()
		for i, n := 0, 1+rng.IntN(3); i < n && len(in) > 0; i++ {
			in[rng.IntN(len(in))] = []byte{0, 1, 0x7f, 0x80, 0xff, byte(rng.IntN(256))}[rng.IntN(6)]
		}
	case "truncate":
		in = seed()
		if len(in) > 0 {
			in = in[:rng.IntN(len(in))]
		}
	case "splice":
		a, b := seed(), seed()
		in = append(a[:rng.IntN(len(a)+1)], b[rng.IntN(len(b)+1):]...)
	case "insert":
		in = seed()
		at := rng.IntN(len(in) + 1)
		var ins []byte
		if rng.IntN(2) == 0 {
			ins = verifC23AppendUvarint(nil, verifC23SoupValue(rng))
		} else {
			ins = verifC23Bytes(rng, 1, 6)
		}
		in = slices.Insert(in, at, ins...)
	case "delete":
		in = seed()
		if len(in) > 1 {
			a := rng.IntN(len(in))
			b := min(len(in), a+1+rng.IntN(8))
			in = slices.Delete(in, a, b)
		}
	case "tagswap":
		in = seed()
		if len(in) > 0 {
			for try := 0; try < 20; try++ {
				i := rng.IntN(len(in))
				if slices.Contains(verifC23AllTags, uint64(in[i])) || slices.Contains(verifC23CustomTags, uint64(in[i])) {
					if rng.IntN(2) == 0 {
						in[i] = byte(verifC23AllTags[rng.IntN(len(verifC23AllTags))])
					} else {
						in[i] = byte(verifC23CustomTags[rng.IntN(len(verifC23CustomTags))])
					}
					break
				}
			}
		}
	case "concat":
		in = append(seed(), seed()...)
	case "hugevarint":
		in = seed()
		at := rng.IntN(len(in) + 1)
		huge := verifC23AppendUvarint(nil, []uint64{1 << 49, 1<<49 + 1, 1 << 56, 1 << 62, 1 << 63, 1<<64 - 1, 1<<63 - 1}[rng.IntN(7)])
		if rng.IntN(2) == 0 && at < len(in) {
			in = append(in[:at], append(huge, in[at+1:]...)...) // replace one byte
		} else {
			in = slices.Insert(in, at, huge...)
		}
	default: // unmutated
		in = seed()
	}
	return in, strategy
}

var verifC23DigitsRe = regexp.MustCompile(`[0-9]+`)

// verifC23TagsOfDecoded summarises which record kinds a decoded edit holds.
func verifC23TagsOfDecoded(ve *VersionEdit) string {
	var t []string
	add := func(c bool, s string) {
		if c {
			t = append(t, s)
		}
	}
	add(ve.ComparerName != "", "cmp")
	add(ve.MinUnflushedLogNum != 0, "log")
	add(ve.ObsoletePrevLogNum != 0, "prevlog")
	add(ve.NextFileNum != 0, "next")
	add(ve.LastSeqNum != 0, "lastseq")
	add(len(ve.DeletedTables) > 0, "del")
	for _, nt := range ve.NewTables {
		s := "new"
		if nt.Meta.Virtual {
			s += "V"
		}
		if nt.Meta.HasRangeKeys {
			s += "R"
		}
		if nt.Meta.HasPointKeys {
			s += "P"
		}
		if len(nt.Meta.BlobReferences) > 0 {
			s += "B"
		}
		if !slices.Contains(t, s) {
			t = append(t, s)
		}
	}
	add(len(ve.CreatedBackingTables) > 0, "backing+")
	add(len(ve.RemovedBackingTables) > 0, "backing-")
	add(len(ve.NewBlobFiles) > 0, "blob+")
	add(len(ve.DeletedBlobFiles) > 0, "blob-")
	add(len(ve.ExciseBoundsRecord) > 0, "excise")
	add(len(ve.TablesMarkedForCompaction) > 0, "mark")
	return strings.Join(t, "+")
}

// verifC23ExplainMismatch attributes differing canonical lines of a decoded
// edit e1 to states that Decode accepts but Encode cannot represent:
// synthetic prefix/suffix or BackingValueSize on a non-virtual table (the
// encoder only writes them for virtual tables / inside the custom-field
// section) and a blob reference depth without references. Lines that are not
// explained this way are returned in unexplained.
func verifC23ExplainMismatch(e1 *VersionEdit, want, got []string) (trigger, unexplained string) {
	trig, un := map[string]struct{}{}, map[string]struct{}{}
	re := regexp.MustCompile(`^new\[(\d+)\]\.([a-z]+)`)
	for i := 0; i < max(len(want), len(got)); i++ {
		var x, y string
		if i < len(want) {
			x = want[i]
		}
		if i < len(got) {
			y = got[i]
		}
		if x == y {
			continue
		}
		k := x
		if k == "" {
			k = y
		}
		explained := false
		if m := re.FindStringSubmatch(k); m != nil {
			var idx int
			fmt.Sscan(m[1], &idx)
			if idx < len(e1.NewTables) {
				t := e1.NewTables[idx].Meta
				hasBVS := false
				for _, r := range t.BlobReferences {
					hasBVS = hasBVS || r.BackingValueSize > 0
				}
				switch {
				case (m[2] == "prefix" || m[2] == "suffix") && !t.Virtual:
					trig["physical-synthetic"], explained = struct{}{}, true
				case m[2] == "blobref" && !t.Virtual && hasBVS:
					trig["physical-backingvaluesize"], explained = struct{}{}, true
				case m[2] == "blobdepth" && len(t.BlobReferences) == 0 && t.BlobReferenceDepth != 0:
					trig["depth-without-refs"], explained = struct{}{}, true
				}
			}
		}
		if !explained {
			if j := strings.IndexByte(k, '='); j >= 0 {
				k = k[:j]
			}
			un[verifC23IdxRe.ReplaceAllString(k, "")] = struct{}{}
		}
	}
	join := func(m map[string]struct{}) string {
		var l []string
		for k := range m {
			l = append(l, k)
		}
		sort.Strings(l)
		return strings.Join(l, ",")
	}
	return join(trig), join(un)
}

type verifC23DecodeOutcome struct {
	ve      *VersionEdit
	err     error
	panicV  string
	skipped bool
}

func verifC23GuardedDecode(in []byte) (o verifC23DecodeOutcome) {
	g := verifC23NewGuard(in)
	ve := &VersionEdit{}
	o.panicV = verifC23Catch(func() { o.err = ve.Decode(g) })
	if o.panicV == "" && o.err == nil {
		o.ve = ve
	}
	if errors.Is(o.err, errVerifC23Skip) {
		o.skipped = true
	}
	return o
}

// verifC23Minimize shrinks in while pred keeps holding.
func verifC23Minimize(in []byte, pred func([]byte) bool) []byte {
	cur := slices.Clone(in)
	for budget := 0; budget < 2000; {
		changed := false
		for n := len(cur) / 2; n >= 1; n /= 2 {
			for at := 0; at+n <= len(cur); {
				budget++
				c := slices.Delete(slices.Clone(cur), at, at+n)
				if pred(c) {
					cur, changed = c, true
				} else {
					at += n
				}
			}
		}
		if !changed {
			break
		}
	}
	return cur
}

func TestVerifC23Fuzz(t *testing.T) {
	r := vcommon.NewReport("C23", "fuzz")
	defer r.Finish(t)
	r.Rule("fuzz: each case builds a corpus of 6 valid encodings and derives 64 byte strings from it (random bytes, varint soup, structured new-file soup, " +
		"bit flips, byte sets, truncation, splice, insert, delete, tag swap, concatenation, huge varints, unmutated); distinct = distinct behaviour signature " +
		"(strategy, outcome, error kind with numbers removed, record kinds of the decoded edit); non-trivial = non-empty input that was executed (not skipped by the allocation guard)")
	r.Assume("length prefixes / blob-reference counts in (2^12 resp. 2^8, 2^49] that exceed the remaining input are not executed (a pre-allocating decoder would allocate the declared size before failing); such inputs are counted in fuzz_skipped_by_guard")
	n := vcommon.Scale(1400, 8000)
	const perCase = 64
	panicsSeen := map[string]int{}
	mismatchSeen := map[string]int{}
	sigSeen := map[string]struct{}{}
	r.Cases(n, func(ci int, rng *rand.Rand) {
		var seeds [][]byte
		g := verifC23NewGen(rng)
		for len(seeds) < 6 {
			var ve *VersionEdit
			if len(seeds)%2 == 0 {
				ve = verifC23WildEdit(rng, true, false)
			} else {
				ve, _ = g.next(len(seeds) == 1)
			}
			var buf bytes.Buffer
			if err := ve.Encode(&buf); err != nil || buf.Len() == 0 {
				if err != nil {
					r.Violate("encode-error", fmt.Sprintf("seed edit: %v", err), map[string]any{"edit": ve.DebugString(base.DefaultFormatter)}, nil)
				}
				seeds = append(seeds, []byte{tagNextFileNumber, 7})
				continue
			}
			seeds = append(seeds, slices.Clone(buf.Bytes()))
		}
		for j := 0; j < perCase; j++ {
			in, strategy := verifC23Mutate(rng, seeds)
			if len(in) > 4096 {
				in = in[:4096]
			}
			r.BeginCase(fmt.Sprintf("%d/%d %s %s", ci, j, strategy, hex.EncodeToString(in)))
			r.Eval(1)
			r.Count("fuzz_inputs", 1)
			r.Count("fuzz_input_bytes", int64(len(in)))
			o := verifC23GuardedDecode(in)
			replay := func(extra map[string]any) map[string]any {
				m := map[string]any{"case": fmt.Sprintf("%d/%d", ci, j), "strategy": strategy, "input_hex": hex.EncodeToString(in)}
				for k, v := range extra {
					m[k] = v
				}
				return m
			}
			switch {
			case o.panicV != "":
				r.Count("fuzz_decode_panics", 1)
				msg := verifC23DigitsRe.ReplaceAllString(o.panicV, "N")
				panicsSeen[msg]++
				if panicsSeen[msg] <= 2 {
					small := verifC23Minimize(in, func(c []byte) bool {
						oc := verifC23GuardedDecode(c)
						return oc.panicV != "" && verifC23DigitsRe.ReplaceAllString(oc.panicV, "N") == msg
					})
					r.Violate("decode-panic", fmt.Sprintf("VersionEdit.Decode panicked on %d input bytes (minimised to %d: %x): %s", len(in), len(small), small, o.panicV),
						replay(map[string]any{"minimal_input_hex": hex.EncodeToString(small), "panic": o.panicV}), map[string]any{"panic": msg})
				}
				r.Distinct("fz", strategy, "panic", msg)
				continue
			case o.skipped:
				r.Count("fuzz_skipped_by_guard", 1)
				continue
			case o.err != nil:
				r.Count("fuzz_decode_errors", 1)
				kind := verifC23DigitsRe.ReplaceAllString(o.err.Error(), "N")
				if len(kind) > 60 {
					kind = kind[:60]
				}
				r.SetAdd("fuzz_error_kinds", kind)
				if len(in) > 0 {
					r.Distinct("fz", strategy, "err", kind)
				}
				continue
			}
			// Decode succeeded with e': Decode(Encode(e')) must equal e'.
			r.Count("fuzz_decode_ok", 1)
			e1 := o.ve
			sig := verifC23TagsOfDecoded(e1)
			if len(in) > 0 {
				r.Distinct("fz", strategy, "ok", sig)
			}
			if _, ok := sigSeen[sig]; !ok && len(sigSeen) < 120 {
				sigSeen[sig] = struct{}{}
				r.SetAdd("fuzz_decoded_record_kinds(first 120 per shard)", sig)
			}
			c1 := verifC23CanonEdit(e1)
			verifC23AttachBackings(e1, nil, false)
			var buf bytes.Buffer
			var err error
			if p := verifC23Catch(func() { err = e1.Encode(&buf) }); p != "" || err != nil {
				cls := "reencode-error"
				if p != "" {
					cls = "reencode-panic"
				}
				key := cls + verifC23DigitsRe.ReplaceAllString(p+fmt.Sprint(err), "N")
				mismatchSeen[key]++
				if mismatchSeen[key] <= 2 {
					r.Violate(cls, fmt.Sprintf("Decode accepted the input but Encode of the result failed: panic=%q err=%v", p, err), replay(map[string]any{"decoded": c1}),
						map[string]any{"panic": verifC23DigitsRe.ReplaceAllString(p, "N"), "error": verifC23DigitsRe.ReplaceAllString(fmt.Sprint(err), "N")})
				}
				continue
			}
			enc := slices.Clone(buf.Bytes())
			o2 := verifC23GuardedDecode(enc)
			if o2.ve == nil {
				key := "redecode" + verifC23DigitsRe.ReplaceAllString(o2.panicV+fmt.Sprint(o2.err), "N")
				mismatchSeen[key]++
				if mismatchSeen[key] <= 2 {
					r.Violate("redecode-error", fmt.Sprintf("Decode(Encode(e')) failed for e'=Decode(input): panic=%q err=%v", o2.panicV, o2.err),
						replay(map[string]any{"decoded": c1, "reencoded_hex": hex.EncodeToString(enc)}),
						map[string]any{"error": verifC23DigitsRe.ReplaceAllString(o2.panicV+fmt.Sprint(o2.err), "N"), "trigger": verifC23KnownTrigger(e1)})
				}
				r.Count("fuzz_reencode_failures", 1)
				continue
			}
			c2 := verifC23CanonEdit(o2.ve)
			if lines, fields := verifC23Diff(c1, c2); len(lines) > 0 {
				r.Count("fuzz_reencode_mismatches", 1)
				trigger, unexplained := verifC23ExplainMismatch(e1, c1, c2)
				r.Count("fuzz_reencode_mismatches:"+trigger, 1)
				mismatchSeen[trigger+"|"+unexplained]++
				if mismatchSeen[trigger+"|"+unexplained] <= 2 {
					small := verifC23Minimize(in, func(c []byte) bool {
						oc := verifC23GuardedDecode(c)
						if oc.ve == nil {
							return false
						}
						a := verifC23CanonEdit(oc.ve)
						verifC23AttachBackings(oc.ve, nil, false)
						var b bytes.Buffer
						if p := verifC23Catch(func() { err = oc.ve.Encode(&b) }); p != "" || err != nil {
							return false
						}
						od := verifC23GuardedDecode(b.Bytes())
						if od.ve == nil {
							return false
						}
						cd := verifC23CanonEdit(od.ve)
						_, f := verifC23Diff(a, cd)
						tr, un := verifC23ExplainMismatch(oc.ve, a, cd)
						return f != "" && tr == trigger && un == unexplained
					})
					r.Violate("fuzz-reencode-mismatch", fmt.Sprintf("Decode accepted the input (minimised: %x) but Decode(Encode(e')) != e': %s", small, strings.Join(lines, "; ")),
						replay(map[string]any{"minimal_input_hex": hex.EncodeToString(small), "decoded": c1, "redecoded": c2, "reencoded_hex": hex.EncodeToString(enc)}),
						map[string]any{"fields": fields, "trigger": trigger, "unexplained_fields": unexplained})
				}
				continue
			}
			// DebugString must not panic on what Decode produced and must be stable.
			var d1, d2 string
			if p := verifC23Catch(func() {
				d1 = e1.DebugString(base.DefaultFormatter)
				verifC23AttachBackings(o2.ve, nil, false)
				d2 = o2.ve.DebugString(base.DefaultFormatter)
			}); p != "" {
				key := "dbg" + verifC23DigitsRe.ReplaceAllString(p, "N")
				mismatchSeen[key]++
				if mismatchSeen[key] <= 2 {
					r.Violate("debugstring-panic", "DebugString of a decoded edit panicked: "+p, replay(map[string]any{"decoded": c1}), map[string]any{"panic": verifC23DigitsRe.ReplaceAllString(p, "N")})
				}
				continue
			}
			if d1 != d2 {
				mismatchSeen["dbgdiff"]++
				if mismatchSeen["dbgdiff"] <= 2 {
					r.Violate("debugstring-mismatch", "DebugString differs between e' and Decode(Encode(e'))", replay(map[string]any{"want": d1, "got": d2}), nil)
				}
				continue
			}
			r.Count("fuzz_roundtrip_ok", 1)
			if r.WantSample() && strategy != "unmutated" && strategy != "concat" && len(e1.NewTables) > 0 {
				r.Sample(map[string]any{"part": "fuzz", "case": fmt.Sprintf("%d/%d", ci, j), "strategy": strategy, "input_hex": hex.EncodeToString(in), "decoded": d1})
			}
		}
	})
	for msg, c := range panicsSeen {
		r.Note("decode panic %q seen %d time(s) in this shard", msg, c)
	}
}
